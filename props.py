"""Registry: per property, the correspondence suites (name, cases in quick / thorough tier)."""

TRUSTED_BASE = [
    "Lean 4.33 kernel; axioms propext, Classical.choice, Quot.sound only (audited with #print axioms on every run)",
    "Mathlib v4.33 (proved library)",
    "theorems are about the model interpreted over the reals: IEEE rounding/overflow/NaN are outside the theorems and inside the twin",
    "correspondence check = differential testing of the hand-written Lean model (interpreted at Float/Float32) against kira built from /repo: "
    "harness/src (Rust), check (Python), Lean compiler/runtime Float ops assumed IEEE-754 and libm-identical to Rust's",
    "third-party crates (atomic-arena, rtrb, triple_buffer, glam, symphonia) are modelled or exercised, not verified",
]

HOOK_COMMITS = ["0629e56", "a0e4ab0"]

# properties not (yet) claimed, with the reason shown in MANIFEST.not_applicable
NOT_YET = {}

PROPS = {
    "C05": {
        "suites": [{"name": "clock", "quick": 3000, "thorough": 60000},
                   {"name": "clocksys", "quick": 2500, "thorough": 40000},
                   {"name": "clocktear", "quick": 1500, "thorough": 30000}],
        "level_text": "Lean theorems about the models of clock.rs / clock/handle.rs, of one renderer chunk (modulators, clocks in "
                      "self-referential storage, clock-gated sounds) and of the two-word time protocol: exact accumulation "
                      "t0 + v*sum(dt) with fraction in [0,1) for every partition and every sufficient fuel, pause freezes, stop resets, "
                      "the speed parameter follows C06 with the clock's update as time base, a consumer of the mixer pass starts in "
                      "the first chunk at whose end the clock is ticking and at/after the target (for all histories), missing clock "
                      "cancels, modulators and earlier-keyed clocks see the clock one chunk behind, a speed tween on the clock's own "
                      "time never fires, and for handle reads a proved NEGATION of monotone/untorn reads (explicit interleaving) with "
                      "the true weaker invariant; the same definitions run as a Float twin and agree bit-for-bit with kira::Clock "
                      "(hooks), with AudioManager-level runs (public API, spy sound) and with real threads stepped through yield points",
        "level_note": "theorems over ideal real arithmetic; handle-read claims over sequentially consistent interleavings of the "
                      "atomic steps; time-read monotonicity is proved FALSE of the current code (known findings), the weaker statement "
                      "is C05_time_reads_partial; tie to the code = differential correspondence (three suites) + implementation oracles",
        "assumptions": [
            "update steps dt >= 0; clock speed >= 0 ticks per second and not SecondsPerTick(0) (the real tick loop never ends there)",
            "u64 tick counts modelled as unbounded naturals; resource capacities not exhausted; ids are creation indices",
            "atomics are SeqCst: interleavings of atomic steps (no weak-memory reorderings)",
            "the three command slots of a clock are last-write-wins cells read once per on_start_processing (property C07)",
        ],
    },
    "C06": {
        "suites": [{"name": "param", "quick": 1500, "thorough": 60000}],
        "level_text": "Lean theorems about the model of parameter.rs over the reals: closed form "
                      "start + (target-start)*ease(T/D) for every partition of time into updates, exact landing on the target "
                      "with the finished flag raised exactly once, holding the target for ever, no overshoot for the built-in "
                      "easings, zero-duration tweens, retargeting from the current value, chunk continuity, delayed and clock "
                      "start semantics; the same definitions run as a Float twin and agree bit-for-bit with kira::Parameter<T> "
                      "for f64/f32/Decibels/Panning/PlaybackRate/Duration/ClockSpeed on every generated op",
        "level_note": "theorems over ideal real arithmetic (float rounding only in the twin); closed form proved for fixed targets "
                      "(modulator-linked targets are covered by the correspondence and C17); Vec3/Quat parameters are exercised "
                      "under C15; tie to the code = differential correspondence through the public Parameter API",
        "assumptions": [
            "update steps dt >= 0 and finite; easing powers > 0",
            "Duration::from_secs_f64 over the reals modelled as rounding to the nearest nanosecond",
        ],
    },
    "C19": {
        "suites": [{"name": "units", "quick": 3000, "thorough": 150000}],
        "level_text": "Lean theorems (monotone/exact decibel law, equal-power pan law, octave law, clock-speed unit "
                      "consistency, clock-time fraction/add-sub/no-wrap/order, easing endpoints+monotonicity for all 7 easings, "
                      "mapping clamping) proved over the reals for all inputs; the same definitions run as a Float twin and agree "
                      "bit-for-bit with kira on every generated op",
        "level_note": "theorems are over ideal real arithmetic (rounding-level monotonicity of libm powf is exercised by the "
                      "oracles/sweeps only); tie to the code = differential correspondence of the hand-written model (not exhaustive)",
        "assumptions": [
            "finite arguments (non-finite amounts are rejected by kira's debug assertions)",
            "u64 tick counts modelled as unbounded naturals (no overflow of ticks + n)",
            "easing powers > 0; mapping input range non-degenerate (in0 != in1)",
        ],
    },
}
