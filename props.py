"""Registry: per property, the correspondence suites (name, cases in quick / thorough tier)."""

TRUSTED_BASE = [
    "Lean 4.33 kernel; axioms propext, Classical.choice, Quot.sound only (audited with #print axioms on every run)",
    "Mathlib v4.33 (proved library)",
    "theorems are about the model interpreted over the reals: IEEE rounding/overflow/NaN are outside the theorems and inside the twin",
    "correspondence check = differential testing of the hand-written Lean model (interpreted at Float/Float32) against kira built from /repo: "
    "harness/src (Rust), check (Python), Lean compiler/runtime Float ops assumed IEEE-754 and libm-identical to Rust's",
    "third-party crates (atomic-arena, rtrb, triple_buffer, glam, symphonia) are modelled or exercised, not verified",
]

HOOK_COMMITS = ["0629e56", "a0e4ab0"]

# properties not (yet) claimed, with the reason shown in MANIFEST.not_applicable
NOT_YET = {}

PROPS = {
    "C06": {
        "suites": [{"name": "param", "quick": 1500, "thorough": 60000}],
        "level_text": "Lean theorems about the model of parameter.rs over the reals: closed form "
                      "start + (target-start)*ease(T/D) for every partition of time into updates, exact landing on the target "
                      "with the finished flag raised exactly once, holding the target for ever, no overshoot for the built-in "
                      "easings, zero-duration tweens, retargeting from the current value, chunk continuity, delayed and clock "
                      "start semantics; the same definitions run as a Float twin and agree bit-for-bit with kira::Parameter<T> "
                      "for f64/f32/Decibels/Panning/PlaybackRate/Duration/ClockSpeed on every generated op",
        "level_note": "theorems over ideal real arithmetic (float rounding only in the twin); closed form proved for fixed targets "
                      "(modulator-linked targets are covered by the correspondence and C17); Vec3/Quat parameters are exercised "
                      "under C15; tie to the code = differential correspondence through the public Parameter API",
        "assumptions": [
            "update steps dt >= 0 and finite; easing powers > 0",
            "Duration::from_secs_f64 over the reals modelled as rounding to the nearest nanosecond",
        ],
    },
    "C19": {
        "suites": [{"name": "units", "quick": 3000, "thorough": 150000}],
        "level_text": "Lean theorems (monotone/exact decibel law, equal-power pan law, octave law, clock-speed unit "
                      "consistency, clock-time fraction/add-sub/no-wrap/order, easing endpoints+monotonicity for all 7 easings, "
                      "mapping clamping) proved over the reals for all inputs; the same definitions run as a Float twin and agree "
                      "bit-for-bit with kira on every generated op",
        "level_note": "theorems are over ideal real arithmetic (rounding-level monotonicity of libm powf is exercised by the "
                      "oracles/sweeps only); tie to the code = differential correspondence of the hand-written model (not exhaustive)",
        "assumptions": [
            "finite arguments (non-finite amounts are rejected by kira's debug assertions)",
            "u64 tick counts modelled as unbounded naturals (no overflow of ticks + n)",
            "easing powers > 0; mapping input range non-degenerate (in0 != in1)",
        ],
    },
    "C18": {
        "suites": [{"name": "wav", "quick": 4000, "thorough": 40000, "twin_first": True}],
        "level_text": "Lean theorems, for all inputs: the Lean PCM-WAV encoder and the model of kira's decoding path (Symphonia RIFF/WAVE "
                      "demuxer + PCM codec as modelled, kira's sample conversion, frame assembly and packet loop) are inverse for 8/16/24/32-bit "
                      "integer and 32/64-bit float, 1..26 channels, every non-zero rate and length (header, sample codes, frames, count, rate; mono "
                      "duplicated, stereo paired, >2 channels rejected); conversion spec exact/in [-1,1)/monotone; DecodeScheduler::frame_at_index, "
                      "seek_to and run return the right source frame for EVERY decoder meeting the Decoder contract (any packet sizes, any seek "
                      "granularity) after any call history, the modelled WAV decoder meets the contract, hence streaming an encoded WAV equals "
                      "loading it from any start and after any seeks; the static packet loop stops at the first EOF/error as coded. The same "
                      "definitions run as the twin: the bytes kira loads are the bytes the Lean encoder printed, and frames/count/rate/error kinds "
                      "of StaticSoundData::from_cursor and of the hook-stepped StreamingSoundData agree bit-for-bit, also on single-point mutations",
        "level_note": "partial: Symphonia's probe, demuxers and codecs are third-party - modelled for canonical PCM WAV only and exercised, not "
                      "verified; 'malformed files never panic/hang/invent samples' is a mutation TEST of that third-party code (oracles sym_*, "
                      "no_panic, watchdog), not a theorem; compressed shipped assets (Ogg Vorbis) are covered by an implementation-side oracle "
                      "(static vs streaming with seeks), which finds the recorded seek defect; conversion theorems are over the reals (the f32 "
                      "rounding of i32 and f64 samples is checked bit-for-bit by the twin only)",
        "assumptions": [
            "Symphonia 0.5.5 behaves as modelled in Model/Wav.lean on RIFF/WAVE input (validated on every run by the correspondence, not proved)",
            "WAV size fields are 32-bit: 36 + data length (+ pad) < 2^32; channels*bytes < 2^16; channels <= 26 (Symphonia's channel mask); rate != 0",
            "seek targets lie inside the audio (the WAV reader rejects ts > n_frames with SeekError, which kira reports as an error)",
            "files not starting with 'RIFF' fall through to Symphonia's other format readers: no model prediction (robustness oracles only)",
        ],
    },
}
