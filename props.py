"""Registry: per property, the correspondence suites (name, cases in quick / thorough tier)."""

TRUSTED_BASE = [
    "Lean 4.33 kernel; axioms propext, Classical.choice, Quot.sound only (audited with #print axioms on every run)",
    "Mathlib v4.33 (proved library)",
    "theorems are about the model interpreted over the reals: IEEE rounding/overflow/NaN are outside the theorems and inside the twin",
    "correspondence check = differential testing of the hand-written Lean model (interpreted at Float/Float32) against kira built from /repo: "
    "harness/src (Rust), check (Python), Lean compiler/runtime Float ops assumed IEEE-754 and libm-identical to Rust's",
    "third-party crates (atomic-arena, rtrb, triple_buffer, glam, symphonia) are modelled or exercised, not verified",
]

HOOK_COMMITS = ["0629e56", "a0e4ab0"]

# properties not (yet) claimed, with the reason shown in MANIFEST.not_applicable
NOT_YET = {}

PROPS = {
    "C06": {
        "suites": [{"name": "param", "quick": 1500, "thorough": 60000}],
        "level_text": "Lean theorems about the model of parameter.rs over the reals: closed form "
                      "start + (target-start)*ease(T/D) for every partition of time into updates, exact landing on the target "
                      "with the finished flag raised exactly once, holding the target for ever, no overshoot for the built-in "
                      "easings, zero-duration tweens, retargeting from the current value, chunk continuity, delayed and clock "
                      "start semantics; the same definitions run as a Float twin and agree bit-for-bit with kira::Parameter<T> "
                      "for f64/f32/Decibels/Panning/PlaybackRate/Duration/ClockSpeed on every generated op",
        "level_note": "theorems over ideal real arithmetic (float rounding only in the twin); closed form proved for fixed targets "
                      "(modulator-linked targets are covered by the correspondence and C17); Vec3/Quat parameters are exercised "
                      "under C15; tie to the code = differential correspondence through the public Parameter API",
        "assumptions": [
            "update steps dt >= 0 and finite; easing powers > 0",
            "Duration::from_secs_f64 over the reals modelled as rounding to the nearest nanosecond",
        ],
    },
    "C07": {
        "suites": [{"name": "chan", "quick": 2000, "thorough": 60000},
                   {"name": "deliver", "quick": 480, "thorough": 6000}],
        "technique": "Lean 4 theorems (core Lean, inductive invariants over all reachable states of a labelled transition "
                     "system) about a hand-written model of command.rs + triple_buffer; the same definitions run as the twin "
                     "and are diffed against the real CommandWriter/CommandReader pairs (sequentially, under scripted two-thread "
                     "schedules through kira's yield points, and in an unscheduled race) and against components driven "
                     "through the public API",
        "level_text": "Lean theorems, for every interleaving of writer and reader atomic actions (half-writes, publish swap, "
                      "dirty test, swap, half-reads) of any length: the three buffer indices are always a permutation; a read "
                      "never returns a torn value; a successful read returns the latest publish preceding its swap; delivered "
                      "tags strictly increase (nothing delivered twice); after a burst the next read returns the last value and "
                      "the following read nothing; kinds are independent channels; every listed component reads each of its "
                      "readers exactly once per on_start_processing, so a pending command is applied in the next callback and in "
                      "no other; a command written before pickup is applied in the resource's first callback (with the storage "
                      "model). The model agrees with real command channels on every generated op and schedule, and the "
                      "delivery schedule agrees with kira's sub-track / static sound / clock / streaming sound",
        "level_note": "atomicity inside triple_buffer is modelled from its source (SeqCst interleavings; weak memory unmodelled); "
                      "the per-component reader lists are transcribed from the Rust source (validated by the deliver suite for "
                      "track volume, static seek_by, clock ticking, streaming seek_to — not for every kind of every handle); "
                      "the streaming decoder reads its readers only while its thread runs: C07_drained_once_decoder_partial, "
                      "refuted beyond that by C07_streaming_command_lost_after_end (known finding)",
        "assumptions": [
            "sequentially consistent interleaving of the atomic actions of triple_buffer (AcqRel swaps around exclusive buffers)",
            "one writer thread and one reader thread per channel (both ends are used through &mut)",
        ],
    },
    "C08": {
        "suites": [{"name": "storage", "quick": 5000, "thorough": 100000},
                   {"name": "life", "quick": 2500, "thorough": 50000}],
        "technique": "Lean 4 theorems (core Lean, inductive invariants over all reachable states of a labelled transition "
                     "system) about a hand-written model of backend/resources.rs + atomic-arena + rtrb; the same definitions "
                     "run as the twin and are diffed against the real ResourceStorage / SelfReferentialResourceStorage / "
                     "ResourceController (histories and scripted two-thread schedules through kira's yield points) and against "
                     "AudioManager driven through the public API with callbacks on a dedicated thread",
        "level_text": "Lean theorems, for every capacity > 0 and every interleaving of the create path (reserve, drain unused, "
                      "push new; flag stores) with the audio thread's remove-and-add (visit, remove, push unused, pop new, insert): "
                      "count = reserved + in-ring + alive + flagged-not-yet-removed <= capacity and try_reserve succeeds iff "
                      "count < capacity; the new-resource ring, the arena insert and try_reserve never fail; a flagged resource in "
                      "the arena when a callback begins is out of it (slot freed, generation bumped) when its drain loop ends; "
                      "generations never decrease and a stale key never resolves again; audio-thread steps move resources but "
                      "never destroy them; with removal + push atomic, unused + new + arena <= capacity and no step panics. "
                      "The model agrees with the real storages on every generated history and schedule, and with AudioManager "
                      "for sounds, sub-tracks, send tracks, clocks, modulators, listeners",
        "level_note": "C08_queue_bounds holds only at the granularity of the existing yield sites (C08_queue_bounds_partial): at the "
                      "code's granularity the unused-ring push can overflow (C08_queue_bounds_refuted_fine, replayable on the real "
                      "code once the yield site of hook_request.diff exists); capacity 0 panics (C08_capacity_zero_panics, known "
                      "finding); atomic-arena's CAS loops are modelled as single atomic actions (one reserver, one freer); rtrb as a "
                      "linearizable FIFO; destruction when whole rings/storages are dropped is outside the model (exercised by the "
                      "drop-thread oracle); C08_selfref_keys is stated for the sequential operations",
        "assumptions": [
            "capacity > 0 (capacity 0 is the recorded defect)",
            "one creation in flight per controller (every kira caller holds &mut on the controller)",
            "generation counters do not wrap",
        ],
    },
    "C19": {
        "suites": [{"name": "units", "quick": 3000, "thorough": 150000}],
        "level_text": "Lean theorems (monotone/exact decibel law, equal-power pan law, octave law, clock-speed unit "
                      "consistency, clock-time fraction/add-sub/no-wrap/order, easing endpoints+monotonicity for all 7 easings, "
                      "mapping clamping) proved over the reals for all inputs; the same definitions run as a Float twin and agree "
                      "bit-for-bit with kira on every generated op",
        "level_note": "theorems are over ideal real arithmetic (rounding-level monotonicity of libm powf is exercised by the "
                      "oracles/sweeps only); tie to the code = differential correspondence of the hand-written model (not exhaustive)",
        "assumptions": [
            "finite arguments (non-finite amounts are rejected by kira's debug assertions)",
            "u64 tick counts modelled as unbounded naturals (no overflow of ticks + n)",
            "easing powers > 0; mapping input range non-degenerate (in0 != in1)",
        ],
    },
}
