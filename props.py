"""Registry: per property, the correspondence suites (name, cases in quick / thorough tier)."""

TRUSTED_BASE = [
    "Lean 4.33 kernel; axioms propext, Classical.choice, Quot.sound only (audited with #print axioms on every run)",
    "Mathlib v4.33 (proved library)",
    "theorems are about the model interpreted over the reals: IEEE rounding/overflow/NaN are outside the theorems and inside the twin",
    "correspondence check = differential testing of the hand-written Lean model (interpreted at Float/Float32) against kira built from /repo: "
    "harness/src (Rust), check (Python), Lean compiler/runtime Float ops assumed IEEE-754 and libm-identical to Rust's",
    "third-party crates (atomic-arena, rtrb, triple_buffer, glam, symphonia) are modelled or exercised, not verified",
]

HOOK_COMMITS = ["0629e56", "a0e4ab0"]

# properties not (yet) claimed, with the reason shown in MANIFEST.not_applicable
NOT_YET = {}

PROPS = {
    "C06": {
        "suites": [{"name": "param", "quick": 1500, "thorough": 60000}],
        "level_text": "Lean theorems about the model of parameter.rs over the reals: closed form "
                      "start + (target-start)*ease(T/D) for every partition of time into updates, exact landing on the target "
                      "with the finished flag raised exactly once, holding the target for ever, no overshoot for the built-in "
                      "easings, zero-duration tweens, retargeting from the current value, chunk continuity, delayed and clock "
                      "start semantics; the same definitions run as a Float twin and agree bit-for-bit with kira::Parameter<T> "
                      "for f64/f32/Decibels/Panning/PlaybackRate/Duration/ClockSpeed on every generated op",
        "level_note": "theorems over ideal real arithmetic (float rounding only in the twin); closed form proved for fixed targets "
                      "(modulator-linked targets are covered by the correspondence and C17); Vec3/Quat parameters are exercised "
                      "under C15; tie to the code = differential correspondence through the public Parameter API",
        "assumptions": [
            "update steps dt >= 0 and finite; easing powers > 0",
            "Duration::from_secs_f64 over the reals modelled as rounding to the nearest nanosecond",
        ],
    },
    "C13": {
        "suites": [{"name": "fxa", "quick": 4000, "thorough": 40000}],
        "level_text": "Lean theorems about the models of volume_control, panning_control, filter, eq_filter, distortion and "
                      "compressor over the reals, for all inputs, parameter values, sample rates and partitions: dry settings are "
                      "the identity (mix 0, 0 dB volume, centre pan, 0 dB EQ gain for all three kinds, unity hard clip below full "
                      "scale), silence stays silent from the cleared state (for filter/EQ/volume/pan even while parameters tween), "
                      "every divisor is positive and every square-root argument lies in [0,1] on the documented ranges, "
                      "filter/EQ/volume/pan are additive and homogeneous in (integrator state, input), and with parameters at rest "
                      "one process call on xs++ys equals two calls (hence every partition into slices, empty ones included); "
                      "the same definitions run as a Float twin and agree bit-for-bit with the Box<dyn Effect>s built by kira's "
                      "public builders on every generated op",
        "level_note": "first half of C13 (the six memoryless/SVF/envelope effects; delay and reverb are the second half); theorems "
                      "over ideal real arithmetic: BIBO boundedness of the SVF recursions and float-level finiteness over long runs "
                      "are exercised by the oracles (finite_output, split_vs_whole bit equality, superposition/scaling residuals), "
                      "not proved; chunk-freedom is proved for parameters at rest (with a tween in flight kira interpolates per "
                      "slice, so the output legitimately depends on the partition)",
        "assumptions": [
            "parameters at rest (not tweening, not modulator-linked) for linearity / chunk-freedom / dry identity",
            "distortion drive > -60 dB; compressor ratio != 0 (outside: known findings dist-silent-drive-nan, comp-ratio-zero-nan)",
            "dt > 0; relative cutoff below Nyquist for the positivity of g (at the clamp edge tan(pi/2) is 1.6e16 in floating point)",
        ],
    },
    "C14": {
        "suites": [{"name": "fxa", "quick": 4000, "thorough": 40000}],
        "level_text": "Lean theorems about the models of the six effects over the reals: volume = input x 10^(dB/20) (0 at -60 dB and "
                      "below); equal-power pan gains with gL^2+gR^2 = 2, centre identity, hard left/right; for the SVF of filter.rs "
                      "the exact DC fixed point (unique on the documented ranges) with gains LP 1 / notch 1 / BP 0 / HP 0, the exact "
                      "Nyquist orbit with gains HP 1 / notch 1 / LP 0 / BP 0, and the exact sinusoidal orbit at the corner: gain "
                      "1/(2-1.9 resonance) with the analog prototype's phases, a perfect notch, corner angle 2 pi cutoff dt (the "
                      "requested frequency in hertz at every sample rate); for eq_filter.rs DC gain 10^(gain/20) for the low shelf and "
                      "1 for bell/high shelf, Nyquist gain 10^(gain/20) for the high shelf, and exactly the requested gain at the bell "
                      "centre for every Q; compressor: below threshold from rest output = input x makeup exactly, envelope error "
                      "contracts by exp(-dt/tau) per frame on either side (closed form over n frames), envelope -> level-threshold and "
                      "gain reduction -> -(level-threshold)(1-1/ratio) dB; distortion = clamp(x d,-1,1)/d resp. x/(1+|x d|), identity "
                      "while |x d| <= 1 resp. within d x^2; the same definitions run as a Float twin bit-for-bit equal to kira",
        "level_note": "first half of C14 (delay/reverb are the second half); theorems over ideal real arithmetic on the steady-state "
                      "orbits (fixed point, period-2 orbit, sinusoidal orbit): convergence of the SVF to these orbits from other "
                      "states (asymptotic stability) and the response at frequencies other than DC / corner / Nyquist are measured by "
                      "the oracles dc_gain_*, nyquist_gain, corner_gain on the real code, not proved; shelf mid-point gains not stated",
        "assumptions": [
            "parameters at rest (not tweening, not modulator-linked)",
            "dt > 0 and relative cutoff below Nyquist for the corner / uniqueness theorems",
            "compressor ratio != 0, distortion drive > -60 dB (outside: known findings)",
        ],
    },
    "C19": {
        "suites": [{"name": "units", "quick": 3000, "thorough": 150000}],
        "level_text": "Lean theorems (monotone/exact decibel law, equal-power pan law, octave law, clock-speed unit "
                      "consistency, clock-time fraction/add-sub/no-wrap/order, easing endpoints+monotonicity for all 7 easings, "
                      "mapping clamping) proved over the reals for all inputs; the same definitions run as a Float twin and agree "
                      "bit-for-bit with kira on every generated op",
        "level_note": "theorems are over ideal real arithmetic (rounding-level monotonicity of libm powf is exercised by the "
                      "oracles/sweeps only); tie to the code = differential correspondence of the hand-written model (not exhaustive)",
        "assumptions": [
            "finite arguments (non-finite amounts are rejected by kira's debug assertions)",
            "u64 tick counts modelled as unbounded naturals (no overflow of ticks + n)",
            "easing powers > 0; mapping input range non-degenerate (in0 != in1)",
        ],
    },
}
