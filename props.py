"""Registry: per property, the correspondence suites (name, cases in quick / thorough tier)."""

TRUSTED_BASE = [
    "Lean 4.33 kernel; axioms propext, Classical.choice, Quot.sound only (audited with #print axioms on every run)",
    "Mathlib v4.33 (proved library)",
    "theorems are about the model interpreted over the reals: IEEE rounding/overflow/NaN are outside the theorems and inside the twin",
    "correspondence check = differential testing of the hand-written Lean model (interpreted at Float/Float32) against kira built from /repo: "
    "harness/src (Rust), check (Python), Lean compiler/runtime Float ops assumed IEEE-754 and libm-identical to Rust's",
    "third-party crates (atomic-arena, rtrb, triple_buffer, glam, symphonia) are modelled or exercised, not verified",
]

HOOK_COMMITS = ["0629e56", "a0e4ab0"]

# properties not (yet) claimed, with the reason shown in MANIFEST.not_applicable
NOT_YET = {}

PROPS = {
    "C06": {
        "suites": [{"name": "param", "quick": 1500, "thorough": 60000}],
        "level_text": "Lean theorems about the model of parameter.rs over the reals: closed form "
                      "start + (target-start)*ease(T/D) for every partition of time into updates, exact landing on the target "
                      "with the finished flag raised exactly once, holding the target for ever, no overshoot for the built-in "
                      "easings, zero-duration tweens, retargeting from the current value, chunk continuity, delayed and clock "
                      "start semantics; the same definitions run as a Float twin and agree bit-for-bit with kira::Parameter<T> "
                      "for f64/f32/Decibels/Panning/PlaybackRate/Duration/ClockSpeed on every generated op",
        "level_note": "theorems over ideal real arithmetic (float rounding only in the twin); closed form proved for fixed targets "
                      "(modulator-linked targets are covered by the correspondence and C17); Vec3/Quat parameters are exercised "
                      "under C15; tie to the code = differential correspondence through the public Parameter API",
        "assumptions": [
            "update steps dt >= 0 and finite; easing powers > 0",
            "Duration::from_secs_f64 over the reals modelled as rounding to the nearest nanosecond",
        ],
    },
    "C13": {
        "suites": [{"name": "fxa", "quick": 4000, "thorough": 40000}],
        "level_text": "Lean theorems about the models of volume_control, panning_control, filter, eq_filter, distortion and "
                      "compressor over the reals, for all inputs, parameter values, sample rates and partitions: dry settings are "
                      "the identity (mix 0, 0 dB volume, centre pan, 0 dB EQ gain for all three kinds, unity hard clip below full "
                      "scale), silence stays silent from the cleared state (for filter/EQ/volume/pan even while parameters tween), "
                      "every divisor is positive and every square-root argument lies in [0,1] on the documented ranges, "
                      "filter/EQ/volume/pan are additive and homogeneous in (integrator state, input), and with parameters at rest "
                      "one process call on xs++ys equals two calls (hence every partition into slices, empty ones included); "
                      "the same definitions run as a Float twin and agree bit-for-bit with the Box<dyn Effect>s built by kira's "
                      "public builders on every generated op",
        "level_note": "first half of C13 (the six memoryless/SVF/envelope effects; delay and reverb are the second half); theorems "
                      "over ideal real arithmetic: BIBO boundedness of the SVF recursions and float-level finiteness over long runs "
                      "are exercised by the oracles (finite_output, split_vs_whole bit equality, superposition/scaling residuals), "
                      "not proved; chunk-freedom is proved for parameters at rest (with a tween in flight kira interpolates per "
                      "slice, so the output legitimately depends on the partition)",
        "assumptions": [
            "parameters at rest (not tweening, not modulator-linked) for linearity / chunk-freedom / dry identity",
            "distortion drive > -60 dB; compressor ratio != 0 (outside: known findings dist-silent-drive-nan, comp-ratio-zero-nan)",
            "dt > 0; relative cutoff below Nyquist for the positivity of g (at the clamp edge tan(pi/2) is 1.6e16 in floating point)",
        ],
    },
    "C19": {
        "suites": [{"name": "units", "quick": 3000, "thorough": 150000}],
        "level_text": "Lean theorems (monotone/exact decibel law, equal-power pan law, octave law, clock-speed unit "
                      "consistency, clock-time fraction/add-sub/no-wrap/order, easing endpoints+monotonicity for all 7 easings, "
                      "mapping clamping) proved over the reals for all inputs; the same definitions run as a Float twin and agree "
                      "bit-for-bit with kira on every generated op",
        "level_note": "theorems are over ideal real arithmetic (rounding-level monotonicity of libm powf is exercised by the "
                      "oracles/sweeps only); tie to the code = differential correspondence of the hand-written model (not exhaustive)",
        "assumptions": [
            "finite arguments (non-finite amounts are rejected by kira's debug assertions)",
            "u64 tick counts modelled as unbounded naturals (no overflow of ticks + n)",
            "easing powers > 0; mapping input range non-degenerate (in0 != in1)",
        ],
    },
}
