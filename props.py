"""Registry: per property, the correspondence suites (name, cases in quick / thorough tier)."""

TRUSTED_BASE = [
    "Lean 4.33 kernel; axioms propext, Classical.choice, Quot.sound only (audited with #print axioms on every run)",
    "Mathlib v4.33 (proved library)",
    "theorems are about the model interpreted over the reals: IEEE rounding/overflow/NaN are outside the theorems and inside the twin",
    "correspondence check = differential testing of the hand-written Lean model (interpreted at Float/Float32) against kira built from /repo: "
    "harness/src (Rust), check (Python), Lean compiler/runtime Float ops assumed IEEE-754 and libm-identical to Rust's",
    "third-party crates (atomic-arena, rtrb, triple_buffer, glam, symphonia) are modelled or exercised, not verified",
]

HOOK_COMMITS = ["0629e56", "a0e4ab0"]

# properties not (yet) claimed, with the reason shown in MANIFEST.not_applicable
NOT_YET = {}

PROPS = {
    "C02": {
        "suites": [{"name": "mixer", "quick": 10000, "thorough": 300000}],
        "level_text": "Lean theorems about the imperative model of Renderer/Mixer/Track/SendTrack/MainTrack::process (shared temp "
                      "buffers, in-place accumulation, early return of paused tracks, send inputs), for ALL track trees, effect chains, "
                      "route tables, parameter states, buffer and callback sizes, with sounds/effects as arbitrary state-passing components: "
                      "the mixer equals the closed recursive signal-flow specification (y_t = g_t.S_t(E_t(sum children + sum sounds)), sends "
                      "fed post-fader times route volume, out = m.M(sum tracks + sum sends + main sounds)); every scratch/input buffer is "
                      "all-zero whenever it is handed on (invariant of process, on_start_processing and every handle operation); paused / "
                      "unrouted / missing-send branches contribute exactly 0; every sound and effect of a playing mixer is asked for exactly the "
                      "chunk lengths [ibs,..,ibs,rest] per callback (each <= ibs, summing to the callback length); the device buffer is the "
                      "concatenation of chunk conversions and the final stage clamps to [-1,1], mono = mean, extra channels 0. The same "
                      "definitions run as a Float twin and agree bit-for-bit with kira (public API, probe backend/sounds/effects) on every "
                      "output sample, probe call log, handle state and resource count of every generated history",
        "level_note": "buffer-handling theorems hold for every number type (also the Float twin); the 'sum' statements are over the reals "
                      "(float addition order is mirrored by the twin, not reordered); sounds/effects/spatialiser are abstract components "
                      "assumed only not to resize the slice they are lent; each-frame-once is stated for mixers whose tracks are all playing "
                      "(a non-advancing track is asked for nothing: C12); implementation-side metamorphic oracles: superposition on exactly "
                      "representable signals, exact silence when all sources are finished/frozen/removed, probe-log shape, channel layout",
        "assumptions": [
            "a sound/effect returns a slice as long as the one it was lent (guaranteed by Rust's &mut [Frame])",
            "device buffer length is a multiple of the channel count; internal buffer size and channel count >= 1 (0 is the modelled chunks_mut(0) panic)",
            "send-track routes of one track name distinct send tracks (HashMap keys), so their iteration order is irrelevant",
        ],
    },
    "C06": {
        "suites": [{"name": "param", "quick": 1500, "thorough": 60000}],
        "level_text": "Lean theorems about the model of parameter.rs over the reals: closed form "
                      "start + (target-start)*ease(T/D) for every partition of time into updates, exact landing on the target "
                      "with the finished flag raised exactly once, holding the target for ever, no overshoot for the built-in "
                      "easings, zero-duration tweens, retargeting from the current value, chunk continuity, delayed and clock "
                      "start semantics; the same definitions run as a Float twin and agree bit-for-bit with kira::Parameter<T> "
                      "for f64/f32/Decibels/Panning/PlaybackRate/Duration/ClockSpeed on every generated op",
        "level_note": "theorems over ideal real arithmetic (float rounding only in the twin); closed form proved for fixed targets "
                      "(modulator-linked targets are covered by the correspondence and C17); Vec3/Quat parameters are exercised "
                      "under C15; tie to the code = differential correspondence through the public Parameter API",
        "assumptions": [
            "update steps dt >= 0 and finite; easing powers > 0",
            "Duration::from_secs_f64 over the reals modelled as rounding to the nearest nanosecond",
        ],
    },
    "C11": {
        "suites": [{"name": "mixpart", "quick": 5000, "thorough": 150000}],
        "level_text": "Lean theorems over the reals about the imperative model of Renderer/Mixer/Track/SendTrack/MainTrack::process, "
                      "for ALL track trees, route tables and chunk-homomorphic abstract sounds/effects with settled parameters and a static "
                      "environment: a chunk of a+b frames renders exactly the frames of a chunk of a then a chunk of b and reaches the same "
                      "mixer (lifted through tracks by induction on the tree, through the send pass - the routed signal is split the same way "
                      "- and the main track); hence any two sequences of Renderer::process calls with the same total length, on renderers built "
                      "with ANY two internal buffer sizes >= 1, produce the identical device sample stream and the same final state up to "
                      "scratch capacity. The same definitions run as a Float twin bit-exact with kira, and the real code is rendered in three "
                      "further (buffer size, callback partition, channel count) configurations per static case and compared frame by frame",
        "level_note": "over the reals (per-chunk float rounding of interpolated gains is outside; with constant parameters kira's gains are "
                      "bit-constant and the real-code oracle compares bit-equal); whole device callbacks (on_start_processing + process) are covered by "
                      "C11_device_callbacks_partition_invariant when nothing is in flight and the components' on_start_processing is "
                      "neutral and no sound finishes; finishing sounds are covered by the real-code oracle and the twin only; real sounds/effects being "
                      "chunk-homomorphic is their own models' business (C04/C09/C13) - the probes are proved to be",
        "assumptions": [
            "sounds/effects are chunk-homomorphic for constant dt and Info, and do not resize the slice they are lent",
            "all volume / route / fade parameters stagnant with previous = current value; every sub-track Playing; no spatial tracks; no clocks/modulators moving",
            "a + b <= internal buffer size for the one-chunk statement; buffer sizes >= 1",
        ],
    },
    "C12": {
        "suites": [{"name": "mixtrk", "quick": 10000, "thorough": 300000}],
        "level_text": "Lean theorems about the model of Track::{process, on_start_processing, should_be_removed, read_commands}, "
                      "TrackShared and TrackHandle for ALL trees, histories and abstract sounds/effects: a non-advancing track returns "
                      "exact silence, feeds no send and leaves every sound, effect, sub-track and pending resource below it unchanged, for any "
                      "number of chunks, so the first advancing chunk is computed from the frozen subtree; should_be_removed <-> handle dropped "
                      "and (not persisting or no inserted sounds) and all inserted sub-tracks removable, hence never while an inserted "
                      "descendant is not removable; at on_start_processing ring tracks are inserted (even if already dropped: 'the one after') "
                      "and exactly the removable inserted tracks disappear; in every state reachable by histories whose awaited clocks exist "
                      "the handle state decodes to one of the five track states and equals the manager's state. Proved FALSE at full strength, "
                      "with model witnesses replayed on the real code by the suite: state() panics after resume_at on a vanished clock "
                      "(C12_state_stopped_reachable), pending sounds / pending sub-tracks are ignored by the removal rule "
                      "(C12_pending_sound_lost, C12_pending_child_lost). The same definitions run as a Float twin, bit-exact with kira",
        "level_note": "C12_state_decodable and the persistence / live-descendant clauses of C12_removed_when hold only in the _partial form "
                      "(three known findings); 'resume continues' is stated on sound/effect/sub-track states (positions are part of those "
                      "abstract states; the probe corollary shows `produced` frozen); fades/positions of real sounds are C03/C04's models",
        "assumptions": [
            "a spatial track's Info differs from its parent's only in the listener part (clock lookups are inherited)",
            "ids stand for Arc<TrackShared> identities; arena keys/generations are not modelled (C08)",
        ],
    },
    "C19": {
        "suites": [{"name": "units", "quick": 3000, "thorough": 150000}],
        "level_text": "Lean theorems (monotone/exact decibel law, equal-power pan law, octave law, clock-speed unit "
                      "consistency, clock-time fraction/add-sub/no-wrap/order, easing endpoints+monotonicity for all 7 easings, "
                      "mapping clamping) proved over the reals for all inputs; the same definitions run as a Float twin and agree "
                      "bit-for-bit with kira on every generated op",
        "level_note": "theorems are over ideal real arithmetic (rounding-level monotonicity of libm powf is exercised by the "
                      "oracles/sweeps only); tie to the code = differential correspondence of the hand-written model (not exhaustive)",
        "assumptions": [
            "finite arguments (non-finite amounts are rejected by kira's debug assertions)",
            "u64 tick counts modelled as unbounded naturals (no overflow of ticks + n)",
            "easing powers > 0; mapping input range non-degenerate (in0 != in1)",
        ],
    },
}
