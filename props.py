"""Registry: per property, the correspondence suites (name, cases in quick / thorough tier)."""

TRUSTED_BASE = [
    "Lean 4.33 kernel; axioms propext, Classical.choice, Quot.sound only (audited with #print axioms on every run)",
    "Mathlib v4.33 (proved library)",
    "theorems are about the model interpreted over the reals: IEEE rounding/overflow/NaN are outside the theorems and inside the twin",
    "correspondence check = differential testing of the hand-written Lean model (interpreted at Float/Float32) against kira built from /repo: "
    "harness/src (Rust), check (Python), Lean compiler/runtime Float ops assumed IEEE-754 and libm-identical to Rust's",
    "third-party crates (atomic-arena, rtrb, triple_buffer, glam, symphonia) are modelled or exercised, not verified",
]

HOOK_COMMITS = ["0629e56", "a0e4ab0"]

# properties not (yet) claimed, with the reason shown in MANIFEST.not_applicable
NOT_YET = {}

PROPS = {
    "C06": {
        "suites": [{"name": "param", "quick": 1500, "thorough": 60000}],
        "level_text": "Lean theorems about the model of parameter.rs over the reals: closed form "
                      "start + (target-start)*ease(T/D) for every partition of time into updates, exact landing on the target "
                      "with the finished flag raised exactly once, holding the target for ever, no overshoot for the built-in "
                      "easings, zero-duration tweens, retargeting from the current value, chunk continuity, delayed and clock "
                      "start semantics; the same definitions run as a Float twin and agree bit-for-bit with kira::Parameter<T> "
                      "for f64/f32/Decibels/Panning/PlaybackRate/Duration/ClockSpeed on every generated op",
        "level_note": "theorems over ideal real arithmetic (float rounding only in the twin); closed form proved for fixed targets "
                      "(modulator-linked targets are covered by the correspondence and C17); Vec3/Quat parameters are exercised "
                      "under C15; tie to the code = differential correspondence through the public Parameter API",
        "assumptions": [
            "update steps dt >= 0 and finite; easing powers > 0",
            "Duration::from_secs_f64 over the reals modelled as rounding to the nearest nanosecond",
        ],
    },
    "C15": {
        "suites": [{"name": "spatial", "quick": 6000, "thorough": 300000}],
        "level_text": "Lean theorems about the model of SpatialData::spatialize and the glam kernels it calls (Vec3 scalar, Quat SSE2), "
                      "over the reals for ALL positions/orientations/parameters: level = attenuation x ear gain; attenuation depends "
                      "only on the Euclidean distance, is 1 within min, 0 at/after max, antitone and in [0,1] for every built-in easing; "
                      "each ear gain in [1-s,1] (Cauchy-Schwarz); mirror through the median plane swaps the ear gains; a rotation by a unit "
                      "quaternion plus a translation of listener and emitter changes nothing; strength 0 passes the stereo signal unpanned; "
                      "missing/dropped listener => zero frames; FromListenerDistance parameters equal Mapping.map(distance); defined "
                      "(no zero divisor) for coincident points when min<max and the orientations are non-zero, and the orientation used is a "
                      "unit quaternion. The same definitions run as a Float twin and agree BIT-FOR-BIT with kira rendered through the public "
                      "manager API (listener/emitter tweens incl. glam's slerp, listener add/drop, nested spatial/non-spatial tracks, "
                      "distance-mapped volumes, Info::listener_distance seen by an effect)",
        "level_note": "favours-the-near-ear is proved for every emitter outside the head (distance >= EAR_DISTANCE = 0.1, "
                      "C15_favours_near_ear_outside_head); without that hypothesis it is FALSE (inside the head the far ear can be "
                      "louder: witness theorem + replay = known finding). Theorems are over ideal real arithmetic (rounding only in the twin); "
                      "glam's slerp approximations (acos/sin polynomials) are mirrored op-for-op in the twin but no theorem is stated about "
                      "them (the theorems quantify over every orientation); tie to the code = differential correspondence, no tolerance needed",
        "assumptions": [
            "min_distance < max_distance (min > max panics, min == max gives NaN: known findings)",
            "listener orientation quaternions are not the zero quaternion (zero gives NaN: known finding); any non-zero quaternion is "
            "normalised by kira before use",
            "easing powers > 0 for the monotonicity/endpoint claims",
            "finite coordinates of moderate size (|x| <= 1e4 in the generator): f32 overflow of squared lengths is outside the theorems",
        ],
    },
    "C19": {
        "suites": [{"name": "units", "quick": 3000, "thorough": 150000}],
        "level_text": "Lean theorems (monotone/exact decibel law, equal-power pan law, octave law, clock-speed unit "
                      "consistency, clock-time fraction/add-sub/no-wrap/order, easing endpoints+monotonicity for all 7 easings, "
                      "mapping clamping) proved over the reals for all inputs; the same definitions run as a Float twin and agree "
                      "bit-for-bit with kira on every generated op",
        "level_note": "theorems are over ideal real arithmetic (rounding-level monotonicity of libm powf is exercised by the "
                      "oracles/sweeps only); tie to the code = differential correspondence of the hand-written model (not exhaustive)",
        "assumptions": [
            "finite arguments (non-finite amounts are rejected by kira's debug assertions)",
            "u64 tick counts modelled as unbounded naturals (no overflow of ticks + n)",
            "easing powers > 0; mapping input range non-degenerate (in0 != in1)",
        ],
    },
}
