"""Registry: per property, the correspondence suites (name, cases in quick / thorough tier)."""

TRUSTED_BASE = [
    "Lean 4.33 kernel; axioms propext, Classical.choice, Quot.sound only (audited with #print axioms on every run)",
    "Mathlib v4.33 (proved library)",
    "theorems are about the model interpreted over the reals: IEEE rounding/overflow/NaN are outside the theorems and inside the twin",
    "correspondence check = differential testing of the hand-written Lean model (interpreted at Float/Float32) against kira built from /repo: "
    "harness/src (Rust), check (Python), Lean compiler/runtime Float ops assumed IEEE-754 and libm-identical to Rust's",
    "third-party crates (atomic-arena, rtrb, triple_buffer, glam, symphonia) are modelled or exercised, not verified",
    "generated layer: tools/gen_lean.py + tools/rs2lean.py (Rust-subset -> Lean translator: parser, printer, the KOps conventions of "
    "notes/translator.md) regenerate Gen.lean/GenFn.lean from the source on every run; the translated bodies are what the twin runs, "
    "and Proofs/GenAgree*.lean pin them to the last validated hand-written readings",
]

HOOK_COMMITS = ["0629e56", "a0e4ab0", "39d963f"]

# properties not (yet) claimed, with the reason shown in MANIFEST.not_applicable
NOT_YET = {}

PROPS = {
    "C16": {
        "suites": [{"name": "srate", "quick": 1500, "thorough": 40000},
                   {'name': 'fxrate', 'quick': 1500, 'thorough': 20000}],
        "level_text": "Lean theorems about the labelled transition system of the sample-rate protocol (gameplay add-track path: load "
                      "rate + init effects, enqueue; audio side: rate change over arena contents, pickup) for ALL interleavings: a "
                      "change reaches every track the audio thread owns; the full claim is refuted for the current code by an "
                      "explicit witness schedule (C16_stale_rate_reachable) and holds in every history where no track is in flight "
                      "across a change (C16_rate_in_force_partial, inductive invariant). The model runs as a twin against kira "
                      "through the public API with probe effects that log init / on_change_sample_rate / dt. Effect level (suite fxrate, "
                      "Proofs/EffectsRate.lean): in any history of rate changes the delay line is max(floor(delay*sr),1) frames, nested "
                      "feedback effects know the rate in force, reverb line sizes and the filter / EQ coefficients track the rate of the "
                      "current call; real Delay (with nested probe, Filter and Delay), Reverb, Filter, EqFilter compared bit for bit",
        "level_note": "time-scaling clauses: C16_clock_rate_independent, C16_tween_rate_independent, C16_sound_position_rate_independent "
                      "(Props/C16_time.lean) are corollaries of the closed forms of C05/C06/C04 - two devices at any two rates that rendered "
                      "the same real time, with any chunkings, agree; delay times and filter frequencies: C14/C16 effect theorems. "
                      "PARTIAL: the protocol claim is false of the current code for tracks in flight across a change (witness + known "
                      "finding). Atomicity finer than the four labelled steps (weak memory) is not modelled",
        "assumptions": ["handles stay alive (removal is C12's subject)", "sequentially consistent atomics"],
    },
    "C01": {
        "suites": [
            {"name": "final", "quick": 800, "thorough": 20000},
            # whole-system scenes through the public API with always-on monitors (panic hook, watchdog,
            # counting allocator, sample range): implementation-only (no twin) — these are tests that
            # support the theorems and hunt for failing inputs; a panic/hang on a `cb` op is a failure
            {"name": "system", "quick": 250, "thorough": 6000, "impl_only": True, "fault_ops": ["cb", "rate", "play"]},
        ],
        "level_text": "Lean theorems: the renderer's final stage writes, for ANY bus value, samples in [-1,1], the mean of "
                      "left/right with one channel, exact zeros on channels beyond the second, exactly channels*frames samples, "
                      "and a callback is cut into chunks of 1..internal_buffer_size frames that cover it exactly; the final "
                      "stage model runs as a Float twin bit-exact against kira through the public API. Termination of the "
                      "audio-path loops, absence of queue-full panics and definedness of the effects are proved under the "
                      "owning properties (C04, C05, C08, C13). The part of C01 no model can exhibit (heap allocation, wall-clock "
                      "promptness, NaN/overflow of IEEE arithmetic in arbitrary scenes) is monitored on the real code by the "
                      "implementation-only suite `system` (panic hook, per-op watchdog, counting allocator, range check)",
        "level_note": "PARTIAL: own theorems cover the final stage and chunking; Props/C01_system.lean re-exports (alias = same proof term) "
                      "the component results C01 rests on - transport/static-sound/tick-loop never fault or hang, resource queues bounded, "
                      "audio thread never frees, effect definedness, reverb/delay lines non-empty, each frame asked once through clean "
                      "buffers - so they are re-checked under C01 on every run; whole-graph definedness is by those component theorems plus "
                      "monitoring; allocation, timing and float overflow are observable only on the real code (tests, not proofs). "
                      "Known findings (finite arguments that hang / panic / emit NaN) are listed in known_findings.json",
        "assumptions": [
            "sample rate >= 1, 1..8 channels, internal buffer size >= 1 (backend configuration preconditions)",
            "the system generator draws finite arguments from documented ranges plus boundary values and, in 45% of its cases, "
            "EXTREME finite values for every argument kind (+-1e300, f64::MAX, 2^53+2, 2^63, 2^64, subnormals, -0.0, Duration::MAX, "
            "u64::MAX ticks) combined with loop regions, reverse playback and running clocks; not drawn: arguments that size an "
            "allocation on the game thread (delay_time, capacities, buffer sizes) and extreme playback rates (recorded finding "
            "C01-playback-rate-huge-hang: replayed from corpus/system/, each replay costs a watchdog timeout); watchdog 6 s per op "
            "(slowest ordinary op ~20 ms; every extreme value that controls a trip count asks for > 10^10 iterations)",
        ],
    },
    "C06": {
        "suites": [{"name": "param", "quick": 1500, "thorough": 60000}],
        "level_text": "Lean theorems about the model of parameter.rs over the reals: closed form "
                      "start + (target-start)*ease(T/D) for every partition of time into updates, exact landing on the target "
                      "with the finished flag raised exactly once, holding the target for ever, no overshoot for the built-in "
                      "easings, zero-duration tweens, retargeting from the current value, chunk continuity, delayed and clock "
                      "start semantics; the same definitions run as a Float twin and agree bit-for-bit with kira::Parameter<T> "
                      "for f64/f32/Decibels/Panning/PlaybackRate/Duration/ClockSpeed on every generated op",
        "level_note": "theorems over ideal real arithmetic (float rounding only in the twin); closed form proved for fixed targets "
                      "(modulator-linked targets are covered by the correspondence and C17); Vec3/Quat parameters are exercised "
                      "under C15; tie to the code = differential correspondence through the public Parameter API",
        "assumptions": [
            "update steps dt >= 0 and finite; easing powers > 0",
            "Duration::from_secs_f64 over the reals modelled as rounding to the nearest nanosecond",
        ],
    },
    "C17": {
        "suites": [{"name": "lfo", "quick": 4000, "thorough": 60000},
                   {"name": "tweener", "quick": 3000, "thorough": 40000},
                   {"name": "modsys", "quick": 3000, "thorough": 30000}],
        "level_text": "Lean theorems about the models of modulator/lfo.rs, modulator/tweener.rs, the modulator store "
                      "(SelfReferentialResourceStorage::for_each / remove_and_add) and Renderer::process_chunk over the reals: "
                      "LFO value = offset + amplitude*waveform(phase) within offset +/- |amplitude| for all four waveforms and every "
                      "phase and frequency (negative ones included), phase = fract(phase0 + sum dt*f) in [0, 1) (Euclidean) for "
                      "every partition of time, piecewise waveform formulas; the tweener equals a "
                      "Parameter<f64> on every history of sets and updates (hence C06's closed form, exact landing, holding); "
                      "mappings clamp (both range orientations); a linked parameter equals mapping.map(value the modulator produced "
                      "in this same chunk) for readers of the clock, listener and mixer stages; raw_value = None holds the last "
                      "value (also through a tween, for ever, and after remove_and_add); every modulator is updated exactly once "
                      "per internal chunk in insertion order before every reader. The same definitions run as a Float twin and "
                      "agree bit-for-bit with kira on every generated op: LfoBuilder / TweenerBuilder through "
                      "ModulatorBuilder::build with handles and MockInfo, and a whole AudioManager<ProbeBackend> with modulators "
                      "added / commanded / dropped between callbacks of varying sizes (values seen by user-defined probe "
                      "modulators and a probe sound, linked f64 parameters, the main track's gain envelope)",
        "level_note": "theorems over ideal real arithmetic; two parts of the property are FALSE of the code and are proved as "
                      "negation witnesses + restricted (_partial) statements, reproduced on the real code and listed as known "
                      "findings: a modulator linked to a LATER modulator lags "
                      "one chunk, a self-linked modulator reads the dummy's 0.0 (a third, a negative LFO phase leaving the range, "
                      "was repaired in kira: the LFO range / phase theorems are full strength now; the binary64 corner "
                      "rem_euclid(1.0) = 1.0 for a remainder in [-2^-54, 0) is outside the real-number theorems and inside the "
                      "twin). Readers in the system suite are a sound-owned "
                      "Parameter<f64> and the main track volume; clock-speed and listener links are covered by the chunk-order "
                      "theorem and by C05/C15's suites, not by a twin here",
        "assumptions": [
            "update steps dt >= 0 and finite; easing powers > 0; mapping input range non-degenerate (in0 != in1)",
            "LFO phase theorems speak about the state after at least one update (a freshly built LFO / a set_phase holds "
            "starting_phase / 2 pi unwrapped until the next update; its value() is not computed from it before)",
            "modulator ids (arena keys: slot + generation) modelled as never-reused naturals; distinct ids in the store",
            "remove_unused never stops early: the unused-resource ring (capacity = arena capacity, drained by every add) "
            "cannot be full while a finished modulator remains (C08's subject)",
        ],
    },
    "C19": {
        "suites": [{"name": "units", "quick": 3000, "thorough": 150000}],
        "sweeps": ["amp", "pan"],   # thorough tier: every finite f32 bit pattern on the real code
        "level_text": "Lean theorems (monotone/exact decibel law, equal-power pan law, octave law, clock-speed unit "
                      "consistency, clock-time fraction/add-sub/no-wrap/order, easing endpoints+monotonicity for all 7 easings, "
                      "mapping clamping) proved over the reals for all inputs; the same definitions run as a Float twin and agree "
                      "bit-for-bit with kira on every generated op",
        "level_note": "theorems are over ideal real arithmetic (rounding-level monotonicity of libm powf is exercised by the "
                      "oracles/sweeps only); tie to the code = differential correspondence of the hand-written model (not exhaustive)",
        "assumptions": [
            "finite arguments (non-finite amounts are rejected by kira's debug assertions)",
            "u64 tick counts modelled as unbounded naturals (no overflow of ticks + n)",
            "easing powers > 0; mapping input range non-degenerate (in0 != in1)",
        ],
    },
    "C05": {
        "suites": [{"name": "clock", "quick": 3000, "thorough": 60000},
                   {"name": "clocksys", "quick": 2500, "thorough": 40000},
                   {"name": "clocktear", "quick": 1500, "thorough": 30000}],
        "level_text": "Lean theorems about the models of clock.rs / clock/handle.rs, of one renderer chunk (modulators, clocks in "
                      "self-referential storage, clock-gated sounds) and of the two-word time protocol: exact accumulation "
                      "t0 + v*sum(dt) with fraction in [0,1) for every partition and steps of ANY size (no fuel: the tick count is the "
                      "floor form, equal to the old tick loop wherever it returned - C05_tick_count_eq_loop; Clock::update and every "
                      "history of the clock system return for every speed - C05_update_never_hangs, C05_no_history_hangs; an infinite "
                      "speed saturates - C05_infinite_speed_saturates), pause freezes, stop resets, "
                      "the speed parameter follows C06 with the clock's update as time base, a consumer of the mixer pass starts in "
                      "the first chunk at whose end the clock is ticking and at/after the target (for all histories), missing clock "
                      "cancels, modulators and earlier-keyed clocks see the clock one chunk behind, a speed tween on the clock's own "
                      "time never fires, and for handle reads a proved NEGATION of monotone/untorn reads (explicit interleaving) with "
                      "the true weaker invariant; the same definitions run as a Float twin and agree bit-for-bit with kira::Clock "
                      "(hooks), with AudioManager-level runs (public API, spy sound) and with real threads stepped through yield points",
        "level_note": "theorems over ideal real arithmetic; handle-read claims over sequentially consistent interleavings of the "
                      "atomic steps; time-read monotonicity is proved FALSE of the current code (known findings), the weaker statement "
                      "is C05_time_reads_partial; tie to the code = differential correspondence (three suites) + implementation oracles",
        "assumptions": [
            "update steps dt >= 0; clock speed >= 0 ticks per second for the formula t0 + v*sum(dt), and not SecondsPerTick(0) there "
            "(1/0 is 0 over the reals, +inf in IEEE arithmetic: the clock then saturates, C05_infinite_speed_saturates); termination "
            "needs no hypothesis any more (C05_update_never_hangs, C05_no_history_hangs: the tick count is computed, not looped)",
            "a speed tween whose start is infinite in the target's unit (0 ticks per second -> SecondsPerTick, SecondsPerTick(0) -> ticks "
            "per second) is interpolated in the starting speed's unit since fix 724c1bb (before: NaN clock time); over the reals 1/0 = 0, "
            "so C05_speed_interpolation idealises that point and C05_speed_interpolation_never_nan (every number type) covers it",
            "u64 tick counts modelled as unbounded naturals; resource capacities not exhausted; ids are creation indices",
            "atomics are SeqCst: interleavings of atomic steps (no weak-memory reorderings)",
            "the three command slots of a clock are last-write-wins cells read once per on_start_processing (property C07)",
        ],
    },
    "C15": {
        "suites": [{"name": "spatial", "quick": 6000, "thorough": 300000}],
        "level_text": "Lean theorems about the model of SpatialData::spatialize and the glam kernels it calls (Vec3 scalar, Quat SSE2), "
                      "over the reals for ALL positions/orientations/parameters: level = attenuation x ear gain; attenuation depends "
                      "only on the Euclidean distance, is 1 within min, 0 at/after max, antitone and in [0,1] for every built-in easing "
                      "and EVERY pair of distances (max <= min: a step at min — 1 closer than min, 0 from min on); "
                      "each ear gain in [1-s,1] (Cauchy-Schwarz); mirror through the median plane swaps the ear gains; a rotation by a unit "
                      "quaternion plus a translation of listener and emitter changes nothing; strength 0 passes the stereo signal unpanned; "
                      "missing/dropped listener => zero frames; FromListenerDistance parameters equal Mapping.map(distance); defined "
                      "(no zero divisor) for EVERY position (coincident points included), pair of distances and previous/current "
                      "orientation (the zero quaternion counts as the identity), and the orientation used is always a "
                      "unit quaternion. The same definitions run as a Float twin and agree BIT-FOR-BIT with kira rendered through the public "
                      "manager API (listener/emitter tweens incl. glam's slerp, listener add/drop, nested spatial/non-spatial tracks, "
                      "distance-mapped volumes, Info::listener_distance seen by an effect; finiteness of the main bus BEFORE the "
                      "renderer's NaN scrub is observed by an effect on the main track and compared with the model's 'no zero divisor')",
        "level_note": "favours-the-near-ear is proved for every emitter outside the head (distance >= EAR_DISTANCE = 0.1, "
                      "C15_favours_near_ear_outside_head); without that hypothesis it is FALSE (inside the head the far ear can be "
                      "louder: witness theorem + replay = known finding). Theorems are over ideal real arithmetic (rounding only in the twin); "
                      "glam's slerp approximations (acos/sin polynomials) are mirrored op-for-op in the twin but no theorem is stated about "
                      "them (the theorems quantify over every orientation); tie to the code = differential correspondence, no tolerance needed",
        "assumptions": [
            "the interpolation amount of the listener pose is a time within the chunk (0 <= t <= 1), as Track::process supplies it",
            "an orientation quaternion whose squared length is not a normal f32 (zero, < 2^-126, overflowing) counts as the identity; "
            "any other quaternion is normalised by kira before use",
            "easing powers > 0 for the monotonicity/endpoint claims",
            "finite coordinates of moderate size (|x| <= 1e4 in the generator): f32 overflow of squared lengths is outside the theorems",
        ],
    },
    "C18": {
        "suites": [{"name": "wav", "quick": 4000, "thorough": 40000, "twin_first": True}],
        "level_text": "Lean theorems, for all inputs: the Lean PCM-WAV encoder and the model of kira's decoding path (Symphonia RIFF/WAVE "
                      "demuxer + PCM codec as modelled, kira's sample conversion, frame assembly and packet loop) are inverse for 8/16/24/32-bit "
                      "integer and 32/64-bit float, 1..26 channels, every non-zero rate and length (header, sample codes, frames, count, rate; mono "
                      "duplicated, stereo paired, >2 channels rejected); conversion spec exact/in [-1,1)/monotone; DecodeScheduler::frame_at_index, "
                      "seek_to and run return the right source frame for EVERY decoder meeting the Decoder contract (any packet sizes, any seek "
                      "granularity) after any call history, the modelled WAV decoder meets the contract, hence streaming an encoded WAV equals "
                      "loading it from any start and after any seeks; the static packet loop stops at the first EOF/error as coded; streaming "
                      "ENDS: for every decoder that makes progress (reports the end of its data as an error, not as an empty chunk) frame_at_index, "
                      "run and the decoder thread return within a bounded number of decode calls, and the modelled WAV decoder makes progress on "
                      "every byte string (truncated, header promising more than the file holds), so such a stream ends with reached_end or an "
                      "error on the handle + Stopped, never a hang (and a decoder answering EOF with Ok([]) provably spins). The same "
                      "definitions run as the twin: the bytes kira loads are the bytes the Lean encoder printed, and frames/count/rate/error kinds "
                      "of StaticSoundData::from_cursor and of the hook-stepped StreamingSoundData agree bit-for-bit, also on single-point mutations; "
                      "files holding fewer frames than their header promises (cut, or length fields increased) are also STREAMED over the edge, "
                      "hand-stepped and through a real decoder thread (oracles stream_terminates, stream_prefix_of_static, stream_thread_complete)",
        "level_note": "partial: Symphonia's probe, demuxers and codecs are third-party - modelled for canonical PCM WAV only and exercised, not "
                      "verified; 'malformed files never panic/hang/invent samples' is a mutation TEST of that third-party code (oracles sym_*, "
                      "no_panic, watchdog), not a theorem; compressed shipped assets (Ogg Vorbis) are covered by an implementation-side oracle "
                      "(static vs streaming with seeks), which finds the recorded seek defect; conversion theorems are over the reals (the f32 "
                      "rounding of i32 and f64 samples is checked bit-for-bit by the twin only)",
        "assumptions": [
            "Symphonia 0.5.5 behaves as modelled in Model/Wav.lean on RIFF/WAVE input (validated on every run by the correspondence, not proved)",
            "WAV size fields are 32-bit: 36 + data length (+ pad) < 2^32; channels*bytes < 2^16; channels <= 26 (Symphonia's channel mask); rate != 0",
            "seek targets lie inside the audio (the WAV reader rejects ts > n_frames with SeekError, which kira reports as an error)",
            "files not starting with 'RIFF' fall through to Symphonia's other format readers: no model prediction (robustness oracles only)",
        ],
    },
    "C03": {
        "suites": [{"name": "psm", "quick": 2500, "thorough": 40000},
                   {"name": "static", "quick": 3000, "thorough": 40000}],
        "level_text": "Lean theorems over the reals about the models of playback_state_manager.rs, the life-cycle part shared by "
                      "StaticSound and StreamingSound (SoundCore: pause/resume/stop handlers, the gating prefix of process, "
                      "mark_as_stopped, the state mirrored to the handle) and the complete static sound: every command/update moves "
                      "the state along a documented edge; the handle state always equals the manager's state; Stopped is absorbing "
                      "for every later history and a stopped static sound writes exact zeros whatever it is sent; a fade-driven step "
                      "happens exactly in the update in which the fade parameter finishes, which (with C06) is the first update at "
                      "which accumulated time reaches the tween duration, for every partition; the fade moves monotonically and ends "
                      "at exactly -60 dB = amplitude 0 / 0 dB = amplitude 1; exact silence and untouched transport/fraction/window/"
                      "reported position whenever the start time is pending or the state is Paused/WaitingToResume/Stopped; every "
                      "finite non-looping sound is Stopped after exactly remaining-frames + 4 position steps, forwards and in reverse; "
                      "every history of the static sound moves its core by those events only. The same definitions run as a Float twin "
                      "and agree bit-for-bit with kira (HPlaybackStateManager; Box<dyn Sound> + StaticSoundHandle via the public API)",
        "level_note": "theorems over ideal real arithmetic; the streaming sound is covered through the shared SoundCore events only "
                      "(its ring-buffer/decoder side is C09/C10); 'unloaded at the next callback, slot reusable' belongs to the "
                      "resource-storage model (C08) and is not proved here; finite-sound bound is stated in position steps "
                      "(C04_position_accumulates converts frames to steps at a constant rate); tie to the code = differential "
                      "correspondence + implementation-side oracles on the real code",
        "assumptions": [
            "update steps dt >= 0 and finite; easing powers > 0 (C06)",
            "fade closed form for immediate-start tweens with duration > 0 (delayed / clock start times of the *tween* are covered by "
            "the correspondence and by C06's start-time theorems)",
            "slice inside the data for the finite-sound theorem",
        ],
    },
    "C04": {
        "suites": [{"name": "transport", "quick": 2500, "thorough": 40000},
                   {"name": "static", "quick": 3000, "thorough": 40000},
                   {"name": "static_ood", "quick": 30, "thorough": 60}],
        "level_text": "Lean theorems about the models of transport.rs (over the naturals) and of static_sound/{data,sound,resampler}.rs "
                      "+ frame.rs::interpolate_frame (over the reals): the wrap into the loop region is constant-time modular arithmetic, "
                      "equal to the loops it replaced wherever those return (C04_wrap_closed_form_eq_loop), for every position up to "
                      "usize::MAX; with a "
                      "valid loop region no history of steps/seeks/loop changes faults, the play head stays inside the sound, wraps "
                      "le-1 -> ls and ls -> le-1, ends exactly at n / 0; at rate +-1 on a device at the sound's rate the j-th output "
                      "frame is exactly the source frame under the play head after j transport steps from the start position, for "
                      "every partition into buffers, loops and reverse included, exact zeros after the end, Stopped exactly 4 steps "
                      "after the transport ends; lookups never leave the slice and the interpolator window only ever holds slice "
                      "frames or silence for every history; every output frame is the Hermite interpolation of the window at the "
                      "current fraction and after k frames at a constant rate exactly floor(frac0 + k*sr*|r|*dt) position steps were "
                      "taken; Hermite endpoints and exactness for polynomials of degree <= 2; seeks land on the loop-wrapped "
                      "floor(x*sr); reported position * sr = index of window slot 1. The same definitions run as a Float twin and agree "
                      "bit-for-bit with kira (HTransport; Box<dyn Sound> + StaticSoundHandle through the public API), exhaustively for "
                      "small sounds in the thorough tier",
        "level_note": "theorems over ideal real arithmetic (sr*(1/sr) = 1 is not always true in f64, e.g. sr = 49: the twin and the "
                      "generator cover that, the rate-1 oracle skips it); DESIGN's 'reproduces cubics' is false of this kernel and is "
                      "proved false (exact to degree 2); 'seek lands within one frame after the window refilled' is proved as: "
                      "landing index + window = last four pushes (the frame at the landing position is pushed twice, a one-frame "
                      "repeat, see notes); ANY slice (clamped to the data; inverted = empty), any start position in either direction and "
                      "empty sounds are in the domain since the repairs (C04_never_outside_slice, C04_num_frames_clamped, "
                      "C04_transport_new_any, C04_any_sound_starts: play/into_sound and the audio thread never fault on them); suite "
                      "static_ood keeps the loop regions outside `ValidLoop` (empty / inverted: dropped by kira; end past the sound)",
        "assumptions": [
            "loop region in force valid (ls < le <= n) or absent for the invariants (kira drops empty / inverted regions; a region "
            "reaching past the end is followed bit-for-bit by the twin); no hypothesis on the slice, the start position or the direction",
            "finite arguments; usize arithmetic modelled on unbounded naturals: a play head AT usize::MAX (a saturated start position "
            "or seek) stays there in kira (saturating_add) and is one further in the model - the twin prints min(position, usize::MAX), "
            "exact without a loop region; every other position up to usize::MAX is inside the model and the twin (the wrap into the "
            "loop region is modular arithmetic without fuel, C04_wrap_closed_form_eq_loop)",
            "rate-1 identity: volume 0 dB, centre panning, no fade, immediate start (the gain stage is covered by C19/C06 and the twin)",
        ],
    },
    "C02": {
        "suites": [{"name": "mixer", "quick": 10000, "thorough": 300000}],
        "level_text": "Lean theorems about the imperative model of Renderer/Mixer/Track/SendTrack/MainTrack::process (shared temp "
                      "buffers, in-place accumulation, early return of paused tracks, send inputs), for ALL track trees, effect chains, "
                      "route tables, parameter states, buffer and callback sizes, with sounds/effects as arbitrary state-passing components: "
                      "the mixer equals the closed recursive signal-flow specification (y_t = g_t.S_t(E_t(sum children + sum sounds)), sends "
                      "fed post-fader times route volume, out = m.M(sum tracks + sum sends + main sounds)); every scratch/input buffer is "
                      "all-zero whenever it is handed on (invariant of process, on_start_processing and every handle operation); paused / "
                      "unrouted / missing-send branches contribute exactly 0; every sound and effect of a playing mixer is asked for exactly the "
                      "chunk lengths [ibs,..,ibs,rest] per callback (each <= ibs, summing to the callback length); the device buffer is the "
                      "concatenation of chunk conversions and the final stage clamps to [-1,1], mono = mean, extra channels 0. The same "
                      "definitions run as a Float twin and agree bit-for-bit with kira (public API, probe backend/sounds/effects) on every "
                      "output sample, probe call log, handle state and resource count of every generated history",
        "level_note": "buffer-handling theorems hold for every number type (also the Float twin); the 'sum' statements are over the reals "
                      "(float addition order is mirrored by the twin, not reordered); sounds/effects/spatialiser are abstract components "
                      "assumed only not to resize the slice they are lent; each-frame-once is stated for mixers whose tracks are all playing "
                      "(a non-advancing track is asked for nothing: C12); implementation-side metamorphic oracles: superposition on exactly "
                      "representable signals, exact silence when all sources are finished/frozen/removed, probe-log shape, channel layout",
        "assumptions": [
            "a sound/effect returns a slice as long as the one it was lent (guaranteed by Rust's &mut [Frame])",
            "device buffer length is a multiple of the channel count; internal buffer size and channel count >= 1 (0 is the modelled chunks_mut(0) panic)",
            "send-track routes of one track name distinct send tracks (HashMap keys), so their iteration order is irrelevant",
        ],
    },
    "C11": {
        "suites": [{"name": "mixpart", "quick": 5000, "thorough": 150000}],
        "level_text": "Lean theorems over the reals about the imperative model of Renderer/Mixer/Track/SendTrack/MainTrack::process, "
                      "for ALL track trees, route tables and chunk-homomorphic abstract sounds/effects with settled parameters and a static "
                      "environment: a chunk of a+b frames renders exactly the frames of a chunk of a then a chunk of b and reaches the same "
                      "mixer (lifted through tracks by induction on the tree, through the send pass - the routed signal is split the same way "
                      "- and the main track); hence any two sequences of Renderer::process calls with the same total length, on renderers built "
                      "with ANY two internal buffer sizes >= 1, produce the identical device sample stream and the same final state up to "
                      "scratch capacity. The same definitions run as a Float twin bit-exact with kira, and the real code is rendered in three "
                      "further (buffer size, callback partition, channel count) configurations per static case and compared frame by frame",
        "level_note": "over the reals (per-chunk float rounding of interpolated gains is outside; with constant parameters kira's gains are "
                      "bit-constant and the real-code oracle compares bit-equal); whole device callbacks (on_start_processing + process) are covered by "
                      "C11_device_callbacks_partition_invariant when nothing is in flight and the components' on_start_processing is "
                      "neutral and no sound finishes; finishing sounds are covered by the real-code oracle and the twin only; real sounds/effects being "
                      "chunk-homomorphic is their own models' business (C04/C09/C13) - the probes are proved to be",
        "assumptions": [
            "sounds/effects are chunk-homomorphic for constant dt and Info, and do not resize the slice they are lent",
            "all volume / route / fade parameters stagnant with previous = current value; every sub-track Playing; no spatial tracks; no clocks/modulators moving",
            "a + b <= internal buffer size for the one-chunk statement; buffer sizes >= 1",
        ],
    },
    "C12": {
        "suites": [{"name": "mixtrk", "quick": 10000, "thorough": 300000}],
        "level_text": "Lean theorems about the model of Track::{process, on_start_processing, should_be_removed, read_commands}, "
                      "TrackShared and TrackHandle for ALL trees, histories and abstract sounds/effects: a non-advancing track returns "
                      "exact silence, feeds no send and leaves every sound, effect, sub-track and pending resource below it unchanged, for any "
                      "number of chunks, so the first advancing chunk is computed from the frozen subtree; should_be_removed <-> handle dropped "
                      "and (not persisting or no sound inserted or pending) and no pending sub-track and all inserted sub-tracks removable, hence "
                      "never while any descendant (inserted or in a ring, any depth) has a live handle, and a dropped persisting track stays "
                      "until its last sound (pending ones included) has finished; at on_start_processing ring tracks are inserted (even if "
                      "already dropped: 'the one after'), exactly the removable inserted tracks disappear and every non-removable one is still "
                      "there; in every reachable state (any histories, awaited clocks present or not) the manager is never Stopping/Stopped, "
                      "the published byte is its state and TrackHandle::state() (total) returns exactly it; a track whose awaited clock does "
                      "not exist ends Paused and obeys a later resume. The three former findings (state() panic after a dropped clock, "
                      "pending sound / pending sub-track ignored by the removal rule) are repaired in kira and their histories are theorems "
                      "(C12_missing_clock_leaves_paused, C12_pending_sound_kept, C12_pending_child_kept) and regression cases of the suite. "
                      "The same definitions run as a Float twin, bit-exact with kira",
        "level_note": "'resume continues' is stated on sound/effect/sub-track states (positions are part of those "
                      "abstract states; the probe corollary shows `produced` frozen); fades/positions of real sounds are C03/C04's models",
        "assumptions": [
            "ids stand for Arc<TrackShared> identities; arena keys/generations are not modelled (C08)",
        ],
    },
    "C13": {'suites': [{'name': 'fxa', 'quick': 4000, 'thorough': 40000}, {'name': 'fxb', 'quick': 6000, 'thorough': 40000}],
     'level_text': '[filter, eq_filter, distortion, compressor, volume_control, panning_control] Lean theorems about the models of volume_control, '
                   'panning_control, filter, eq_filter, distortion and compressor over the reals, for all inputs, parameter values, sample rates and '
                   'partitions: dry settings are the identity (mix 0, 0 dB volume, centre pan, 0 dB EQ gain for all three kinds, unity hard clip below '
                   'full scale), silence stays silent from the cleared state (for filter/EQ/volume/pan even while parameters tween), every divisor is '
                   'positive and every square-root argument lies in [0,1] on the documented ranges, filter/EQ/volume/pan are additive and homogeneous in '
                   '(integrator state, input), and with parameters at rest one process call on xs++ys equals two calls (hence every partition into '
                   'slices, empty ones included); the same definitions run as a Float twin and agree bit-for-bit with the Box<dyn Effect>s built by '
                   "kira's public builders on every generated op || [delay, reverb] (delay + reverb half) Lean theorems about the models of "
                   'effect/delay.rs and effect/reverb.rs (+comb.rs, all_pass.rs) over the reals, for all inputs, parameters, line lengths and '
                   "partitions: dry mix is the identity, silence stays silent, chunk-free (the delay's sub-chunking by the line length equals the "
                   'per-frame delay line; with an abstract feedback-effect chain), superposition and scaling in (state, input) for any parameter states, '
                   'BIBO bounds for the comb / all-pass / delay lines and an invariant bound for the whole reverb network (fixed parameters), no fault '
                   "at >= 196 Hz; the same definitions run as a Float twin and agree bit-for-bit with kira's DelayBuilder / ReverbBuilder effects on "
                   'every generated op',
     'level_note': 'first half of C13 (the six memoryless/SVF/envelope effects; delay and reverb are the second half); theorems over ideal real '
                   'arithmetic: BIBO boundedness of the SVF recursions and float-level finiteness over long runs are exercised by the oracles '
                   '(finite_output, split_vs_whole bit equality, superposition/scaling residuals), not proved; chunk-freedom is proved for parameters at '
                   'rest (with a tween in flight kira interpolates per slice, so the output legitimately depends on the partition) || theorems over '
                   'ideal real arithmetic; chunk-freeness needs stagnant parameters (a tweening parameter is interpolated per process call in kira: '
                   'covered by the bit-exact correspondence only); nested feedback effects are abstract in the theorems and probe effects (gain / '
                   'one-pole) in the correspondence; long-run finiteness of the full reverb is proved for fixed parameters only '
                   '(C13_reverb_bounded_partial) and exercised by the finite_output oracle otherwise',
     'assumptions': ['parameters at rest (not tweening, not modulator-linked) for linearity / chunk-freedom / dry identity',
                     'compressor: ANY ratio (a ratio of exactly 0 has slope 0, like ratio 1, since the repair of comp-ratio-zero-nan: '
                     'Compressor.slope); distortion drive > -60 dB for the divisor theorem (a silent drive leaves the signal undistorted since '
                     'the repair of dist-silent-drive-nan)',
                     'dt > 0; relative cutoff below Nyquist for the positivity of g (at the clamp edge tan(pi/2) is 1.6e16 in floating point)',
                     'delay line of at least one frame (delay_time >= 1/fs): the excluded point panics in kira (known finding)',
                     'process slices no longer than the internal buffer size (as the mixer guarantees)',
                     "reverb sample rate >= 196 Hz (every line has a slot); C13's range is 8 kHz..192 kHz",
                     'feedback effects keep the slice length and are themselves chunk-free (and linear, for the linearity theorems)']},
    "C14": {'suites': [{'name': 'fxa', 'quick': 4000, 'thorough': 40000}, {'name': 'fxb', 'quick': 6000, 'thorough': 40000}],
     'level_text': '[filter, eq_filter, distortion, compressor, volume_control, panning_control] Lean theorems about the models of the six effects over '
                   'the reals: volume = input x 10^(dB/20) (0 at -60 dB and below); equal-power pan gains with gL^2+gR^2 = 2, centre identity, hard '
                   'left/right; for the SVF of filter.rs the exact DC fixed point (unique on the documented ranges) with gains LP 1 / notch 1 / BP 0 / '
                   'HP 0, the exact Nyquist orbit with gains HP 1 / notch 1 / LP 0 / BP 0, and the exact sinusoidal orbit at the corner: gain 1/(2-1.9 '
                   "resonance) with the analog prototype's phases, a perfect notch, corner angle 2 pi cutoff dt (the requested frequency in hertz at "
                   'every sample rate); for eq_filter.rs DC gain 10^(gain/20) for the low shelf and 1 for bell/high shelf, Nyquist gain 10^(gain/20) for '
                   'the high shelf, and exactly the requested gain at the bell centre for every Q; compressor: below threshold from rest output = input '
                   'x makeup exactly, envelope error contracts by exp(-dt/tau) per frame on either side (closed form over n frames), envelope -> '
                   'level-threshold and gain reduction -> -(level-threshold)(1-1/ratio) dB; distortion = clamp(x d,-1,1)/d resp. x/(1+|x d|), identity '
                   'while |x d| <= 1 resp. within d x^2; the same definitions run as a Float twin bit-for-bit equal to kira || [delay, reverb] (delay + '
                   "reverb half) Lean theorems over the reals: the delay's impulse response is an echo at every multiple of L = floor(delay*fs) frames "
                   'with amplitude fb^k shaped k times by the feedback chain and zero elsewhere; the reverb model is the Freeverb network (8 parallel '
                   'combs + 4 series all-passes per channel, sizes floor(c*fs/44100), spread 23, gain 0.015, all-pass feedback 0.5) with the constants '
                   "re-extracted from the Rust source into Gen.lean on every run; the comb's impulse response decays geometrically for feedback < 1; "
                   'Float twin bit-exact against kira on every generated op',
     'level_note': 'first half of C14 (delay/reverb are the second half); theorems over ideal real arithmetic on the steady-state orbits (fixed point, '
                   'period-2 orbit, sinusoidal orbit): convergence of the SVF to these orbits from other states (asymptotic stability) and the response '
                   'at frequencies other than DC / corner / Nyquist are measured by the oracles dc_gain_*, nyquist_gain, corner_gain on the real code, '
                   'not proved; shelf mid-point gains not stated || theorems over ideal real arithmetic (the delay line length is exact: kira computes '
                   'it in integers, ns*rate/10^9, since the repair of delay-length-float-floor - C14_delay_line_length); conformance of the model to the cited Freeverb code is by the stated equalities and by inspection',
     'assumptions': ['parameters at rest (not tweening, not modulator-linked)',
                     'dt > 0 and relative cutoff below Nyquist for the corner / uniqueness theorems',
                     'compressor: any ratio (0 counts as no change of the dynamics, repaired); distortion drive > -60 dB for the clip formulas',
                     'stagnant feedback / mix parameters for the echo theorem',
                     '0 <= feedback < 1 and 0 <= damping <= 1 for the decay bound']},
}

PROPS['C07'] = {'suites': [{'name': 'chan', 'quick': 2000, 'thorough': 60000}, {'name': 'deliver', 'quick': 480, 'thorough': 6000}],
 'technique': 'Lean 4 theorems (core Lean, inductive invariants over all reachable states of a labelled transition system) about a hand-written '
              'model of command.rs + triple_buffer; the same definitions run as the twin and are diffed against the real CommandWriter/CommandReader '
              "pairs (sequentially, under scripted two-thread schedules through kira's yield points, and in an unscheduled race) and against "
              'components driven through the public API',
 'level_text': 'Lean theorems, for every interleaving of writer and reader atomic actions (half-writes, publish swap, dirty test, swap, half-reads) '
               'of any length: the three buffer indices are always a permutation; a read never returns a torn value; a successful read returns the '
               'latest publish preceding its swap; delivered tags strictly increase (nothing delivered twice); after a burst the next read returns '
               'the last value and the following read nothing; kinds are independent channels; every listed component reads each of its readers '
               'exactly once per on_start_processing, so a pending command is applied in the next callback and in no other; a command written before '
               "pickup is applied in the resource's first callback (with the storage model). The model agrees with real command channels on every "
               "generated op and schedule, and the delivery schedule agrees with kira's sub-track / static sound / clock / streaming sound; "
               'real static sounds (channels + the static sound model, C07_static_sound_all_kinds_same_callback, C07_pickup_runs_on_start) on the main '
               'track, a sub-track and a nested sub-track agree bit for bit on state(), position() and the output level after every callback, with '
               'several commands of different kinds per interval and commands issued before the first callback',
 'level_note': 'atomicity inside triple_buffer is modelled from its source (SeqCst interleavings; weak memory unmodelled); the per-component reader '
               'lists are transcribed from the Rust source (validated by the deliver suite for track volume, clock ticking, streaming seek_to and, '
               'for static sounds, pause / resume / stop / seek_by / seek_to / set_volume / set_playback_rate with instant tweens — not for every kind '
               'of every handle); the streaming decoder reads its readers only while its thread runs: '
               'C07_drained_once_decoder_partial, refuted beyond that by C07_streaming_command_lost_after_end (known finding)',
 'assumptions': ['sequentially consistent interleaving of the atomic actions of triple_buffer (AcqRel swaps around exclusive buffers)',
                 'one writer thread and one reader thread per channel (both ends are used through &mut)']}

PROPS['C08'] = {'suites': [{'name': 'storage', 'quick': 5000, 'thorough': 100000}, {'name': 'life', 'quick': 2500, 'thorough': 50000}],
 'technique': 'Lean 4 theorems (core Lean, inductive invariants over all reachable states of a labelled transition system) about a hand-written '
              'model of backend/resources.rs + atomic-arena + rtrb; the same definitions run as the twin and are diffed against the real '
              "ResourceStorage / SelfReferentialResourceStorage / ResourceController (histories and scripted two-thread schedules through kira's "
              'yield points) and against AudioManager driven through the public API with callbacks on a dedicated thread',
 'level_text': 'Lean theorems, for every capacity (0 included: C08_capacity_zero_limit) and every interleaving of the create path (reserve, drain unused, push new; flag stores) with '
               "the audio thread's remove-and-add (visit, remove, push unused, pop new, insert): count = reserved + in-ring + alive + "
               'flagged-not-yet-removed <= capacity and try_reserve succeeds iff count < capacity; the new-resource ring, the arena insert and '
               'try_reserve never fail; a flagged resource in the arena when a callback begins is out of it (slot freed, generation bumped) when its '
               'drain loop ends; generations never decrease and a stale key never resolves again; audio-thread steps move resources but never '
               'destroy them; with removal + push atomic, unused + new + arena <= capacity and no step panics. The model agrees with the real '
               'storages on every generated history and schedule, and with AudioManager for sounds, sub-tracks, send tracks, clocks, modulators, '
               'listeners',
 'level_note': "C08_queue_bounds holds only at the granularity of the existing yield sites (C08_queue_bounds_partial): at the code's granularity the "
               'unused-ring push can overflow (C08_queue_bounds_refuted_fine, replayable on the real code once the yield site of hook_request.diff '
               "exists); capacity 0 gives the limit error since kira 9d3e102 (C08_capacity_zero_limit; before, try_reserve panicked); the theorems other than "
               "C08_capacity_exact / C08_capacity_zero_limit / C08_queue_bounds_new keep the hypothesis capacity > 0 (with capacity 0 there is no key at all); "
               "a play whose into_sound() fails touches no storage (C08_failed_play_no_leak); atomic-arena's CAS loops are modelled as single atomic actions "
               '(one reserver, one freer); rtrb as a linearizable FIFO; destruction when whole rings/storages are dropped is outside the model '
               '(exercised by the drop-thread oracle); C08_selfref_keys is stated for the sequential operations',
 'assumptions': [
                 'one creation in flight per controller (every kira caller holds &mut on the controller)',
                 'generation counters do not wrap']}

PROPS['C09'] = {'suites': [{'name': 'stream', 'quick': 1500, 'thorough': 30000}],
 'technique': 'Lean 4 theorems (induction over histories; a bisimulation relation proved invariant under every step) about the hand-written '
              'models of sound/streaming/{sound.rs, sound/decode_scheduler.rs, data.rs, handle.rs} and of the static sound, for every decoder '
              'meeting the Decoder contract of C18; the same definitions run as the Float twin and are diffed bit-for-bit against a real '
              'StaticSound and a real StreamingSound (verif_hooks::streaming::split over a scripted in-memory decoder) driven side by side',
 'level_text': 'Lean theorems over the reals, for ALL audio contents, lengths, slices, start positions, valid loop regions, settings, packet sizes '
               'and seek granularities (any decoder meeting the contract): the frame ring of a streaming sound always holds the entries a..m-1 of '
               "the transport's walk (the previous frame, then the frames under the play head of the next steps, in order, index-stamped) for every "
               'history of commands, callbacks and decoder iterations at any pace (C09_ring_is_future); the relation "static resampler window = first '
               'four ring entries, same fraction, same parameters, same SoundCore" holds between the freshly built sounds and is preserved by every '
               'output frame, process call, on_start_processing, handle command and decoder iteration whenever the playback rate is not negative '
               'and the decoder has buffered the window plus the frames stepped over or reached the end, hence equal output frames, equal handle '
               'state and finished() after every prefix of every history without seeks (C09_bisimulation_frame/_process/C09_bisimulation: the static '
               'sound drains 4 None pushes while the streaming sound pops its last 4 entries, both become Stopped in the same frame); reported '
               'positions differ by the fractional position < one frame while two entries are buffered (C09_positions_within_one_frame); two '
               'contract-meeting decoders push the same timestamped frame whatever their packets and seeks (C09_packetisation_independent). The twin '
               'agrees bit-for-bit with kira on every output frame, handle.state(), handle.position(), finished() of BOTH sounds; the side-by-side '
               'oracle compares the two real sounds directly',
 'level_note': "'the decoder keeps ahead' and 'rates >= 0' are premises (Good/ProcOk/FrameOk, stated on the streaming run alone); real thread timing is "
               "C10's subject; seek / set_loop_region commands are outside the bisimulation (a streaming sound applies them in its decoder thread, "
               'after up to 16384 buffered frames) - the twin still mirrors them bit-exactly for both sounds; theorems are over ideal real arithmetic '
               '(rounding only in the twin); negative rates differ by design (static plays backwards, streaming clamps to 0): the generator produces '
               'them and the twin matches both, the equality oracle skips them; reverse playback does not exist for streaming sounds',
 'assumptions': ['the decoder meets the Decoder contract of Model/Decoder.lean (C18; SymphoniaDecoder does for WAV: C18 theorem; not for Vorbis after a seek: '
                 "C18's recorded finding)",
                 'slice inside the data, loop region valid (ls < le <= n), start position inside the decoder\'s audio - outside them both sounds hang or '
                 'panic alike (C04 / C01 findings)',
                 'no seek_to / seek_by / set_loop_region in the compared histories; playback rate values >= +0.0',
                 'the decoder is ahead at every rendered frame: ring holds 4 + frames stepped over, or end reached (hand-stepped HScheduler::run in the suite)']}

PROPS['C10'] = {'suites': [{'name': 'decthread', 'quick': 500, 'thorough': 5000}, {'name': 'stream', 'quick': 300, 'thorough': 3000}],
 'technique': 'Lean 4 theorems about a labelled transition system (decoder-thread steps || audio callbacks || handle events || the sound being '
              'abandoned) whose steps are the functions of the streaming-sound model the twin runs: ranking argument for thread exit, inductive '
              'invariants over all reachable states, a concrete witness for the one clause that is false; the twin is diffed against the REAL '
              "decoder thread held at kira's yield points decoder.loop.top / decoder.loop.before_error_push, and free-running real threads are "
              'watched through /proc/self/task, decoder Drop and call counters',
 'level_text': 'Lean theorems over all decoders (no contract: any call may fail), all schedules: in every reachable state in which the sound is Stopped, the '
               'data has ended, the sound was dropped (refused by a full track / discarded with its track or manager: is_abandoned()), a run has '
               'failed or the error flag is set, the decoder thread is gone after at most 2 of its own atomic steps, whatever is interleaved, and the '
               'reason never goes away (C10_thread_ends; from ANY state with the exact rank of the program counter: C10_thread_ends_rank, '
               'C10_thread_ends_when_abandoned, C10_stopped_stays_stopped); in every reachable state reached_end implies the thread has ended '
               '(C10_thread_ends_at_end_of_data); every step from the loop top pushes exactly one frame, or sleeps, or leaves the loop top for good '
               'with the thread gone within 2 more steps (C10_no_busy_spin, C10_no_busy_spin_iteration); after the first error run is never called '
               'again and a set flag means the thread has ended (C10_no_decoder_call_after_error); an Err from run at any call position leads in '
               'two steps to the error pushed (if the slot is free), the flag set and the thread ended (C10_error_sets_flag), the next process marks Stopped, writes exact zeros, finished() (C10_error_stops_sound), the next '
               'on_start_processing of the track unloads it and a Stopped sound only ever writes zeros (C10_stopped_sound_is_unloaded_and_silent), and '
               'until the handle pops the 1-slot ring holds the FIRST error, which pop_error returns (C10_first_error_can_be_popped, invariant over '
               'reachable states); at any pace the ring is a window a..m-1 of the decoded sequence with a, m only growing (C10_ring_window_any_pace) and '
               'every rendered frame is the shaded Hermite interpolation of four consecutive entries or silence, entry a+1 itself at an integer '
               'position (C10_slow_decoder_gaps_only; C10_starving_process_is_silent). The twin agrees with the real thread step by step '
               '(exhaustively for streams <= 4 frames x failing call k x stop/drop/seek at every decoder position in the thorough tier)',
 'level_note': 'PARTIAL, one clause is false of the code and proved false: C10_frames_lost_while_starving (entries delivered one at a time while process '
               'is mid-buffer with the ring dry are consumed unheard: more than one frame is lost; found by the real-thread slow-decoder oracle, '
               'about 1 run in 5: KNOWN-FINDING). The two former findings (thread of an abandoned sound never ended; loop spun on a failed decoder) '
               'are repaired in kira (622f8b6, 2b084b0), mirrored, proved at full strength and kept as regression cases '
               '(corpus/decthread/fixed_*.ops). Residual by design of paused tracks: a sound that fails while its track is paused reports '
               'Playing until the track resumes (no process call), although its thread is gone and the error can be popped at once. A sound waiting for its start time IS stopped by an error '
               '(the flag test is the first statement of process): the design note claiming otherwise was wrong. Wall-clock bounds, OS scheduling '
               'and sleep granularity are observed by the real-thread oracles only; SeqCst interleavings (weak memory unmodelled)',
 'assumptions': ['sequentially consistent interleaving of the labelled steps (all kira atomics are SeqCst; rtrb is a linearizable SPSC queue)',
                 'the state after a FAILED decoder call keeps the pre-call decoder-facing fields (the Decoder trait exposes no post-error state); the '
                 "suite's scripted decoders fail stickily (k-th call and all later ones), for which this is exact",
                 'C10_ring_window_any_pace / gaps-only assume a decoder meeting the contract and no seek / loop commands (seeks deliberately discard the order)',
                 'real-thread oracles use generous bounds (thread gone within 1.5 s; leak declared after 0.4 s)']}

# --- suites shared between properties (a suite serves every property whose clause it exercises) ---
# C03 speaks of static AND streaming sounds: the streaming life cycle (fades / state steps while the decoder is
# ahead, starving or failing) is exercised by the C09/C10 suites.
PROPS["C03"]["suites"] += [{"name": "stream", "quick": 300, "thorough": 3000},
                           {"name": "decthread", "quick": 300, "thorough": 3000}]
# C08's "dropping a handle removes the resource at the next callback … a track is removed" clause for tracks inside
# (possibly paused) track trees is exercised by the mixer's track-life suite.
PROPS["C08"]["suites"] += [{"name": "mixtrk", "quick": 3000, "thorough": 60000}]
# C07: "every command kind of every handle type" — clock commands (start / pause / stop / set_speed) are delivered through
# the same channels; the C05 clock suite exercises them op by op.
PROPS["C07"]["suites"] += [{"name": "clock", "quick": 1500, "thorough": 30000}]
# C06 names modulator/tweener.rs (the duplicated tween logic): the C17 tweener suite exercises it.
PROPS["C06"]["suites"] += [{"name": "tweener", "quick": 1500, "thorough": 30000}]
# C11: real recursive effects (delay sub-chunking, reverb) across slice boundaries — split-vs-whole oracles of the effect suites.
PROPS["C11"]["suites"] += [{"name": "fxb", "quick": 1500, "thorough": 20000}, {"name": "fxa", "quick": 1000, "thorough": 20000}]

# --- the whole-system twin (suite `syscore`): the mixer / renderer model instantiated with the REAL component models
# (static sounds, the eight effects, clocks, LFO / tweener modulators) is compared bit for bit with kira on complete
# scenes driven through the public API.  It serves C01 (what the device receives for whole scenes), C02 (signal flow
# with real components) and C11 (real-code buffer-size invariance oracle with real components).
PROPS["C01"]["suites"] += [{"name": "syscore", "quick": 1200, "thorough": 30000}]
PROPS["C02"]["suites"] += [{"name": "syscore", "quick": 600, "thorough": 10000}]
PROPS["C11"]["suites"] += [{"name": "syscore", "quick": 600, "thorough": 10000}]
PROPS["C01"]["level_text"] += (
    " WHOLE-SYSTEM TWIN (suite syscore): the mixer/renderer model instantiated with the real component models (static sounds, "
    "the eight effects with nested delay feedback chains, clocks and LFO/tweener modulators in the renderer's chunk order, "
    "sample-rate changes) runs as a Float twin bit-exact against kira through the public API on complete generated scenes "
    "(every device sample, sound state/position, track state, resource count, clock time); Lean theorems about that "
    "instantiated model: the real components are length preserving (C01_real_components_length_preserving), the scratch-buffer "
    "invariant holds in every reachable state for all scenes and histories (C01_system_invariant), every callback returns exactly "
    "frames*channels samples in [-1,1] with mono = mean and extra channels 0 (C01_system_output_wellformed), every live sound and "
    "effect is asked for each frame exactly once in slices <= ibs (C01_system_each_component_once)")
PROPS["C01"]["level_note"] += (
    "; the whole-system twin covers static sounds, the eight effects, track trees/sends, clocks, LFO/tweener modulators and rate "
    "changes, and (since w-sysspat) listeners and spatial sub-tracks with listener-distance-mapped parameters (Props/C15_system.lean) - NOT "
    "streaming sounds or exhausted capacities (those stay with suite system); real components' "
    "chunk-freedom is proved for depth-0 effects at rest only (C01_real_components_chunk_free_partial), the buffer-size invariance of "
    "whole real scenes is checked on kira itself by the bit-exact oracle buffer_size_invariance")

# --- C11 for scenes of REAL components (Props/C11_real.lean): the chunk / partition lemmas are invariant-relative
# (Comps.ChunkHomOn, the unconditional ones are the special case of trivial invariants) and instantiated with the real
# static sound and the eight effects (delay chains nested to any depth) of the whole-system model.
PROPS["C11"]["level_text"] += (
    ". REAL COMPONENTS: the lifts are proved in invariant-relative form (components chunk-homomorphic on state invariants preserved "
    "by process, slices <= internal buffer size; C11_*_on) and instantiated with the whole-system model Model/System.lean: for "
    "EVERY scene of real static sounds (any rate, loop, reverse, ended or ending), the eight effects with delay feedback chains "
    "nested to any depth, track trees and sends, with all parameters settled and nothing in flight, any two sequences of whole "
    "device callbacks (on_start_processing - which unloads finished sounds - then process) with equal totals on the scene built "
    "with ANY two internal buffer sizes render the identical device samples and end in equivalent states "
    "(C11_real_scene_partition_invariant; C11_real_scene_render_partition_invariant for process calls only; "
    "C11_real_still_idle_preserved: the premise is an invariant; C11_real_scene_callbacks_succeed: System.callback, the "
    "function the whole-system twin runs, never reports a panic on such scenes and is that device-callback run)")
PROPS["C11"]["level_note"] += (
    "; SUPERSEDED IN PART: the real static sound and the eight effects ARE now proved chunk-homomorphic relative to explicit "
    "invariants (Proofs/RealSndLemmas.lean, Proofs/RealFxLemmas.lean) and finishing sounds are covered by the theorem (states are "
    "compared after dropping finished sounds and forgetting dead sound state); still outside: moving clocks / modulators "
    "(no modulator, no ticking clock in the premise), paused->playing transitions, streaming sounds, spatial tracks")
PROPS["C11"]["assumptions"] += [
    "real scenes: every sound has settled volume/rate/panning/fade, immediate start, is paused/stopped or playing inside its documented "
    "domain (any slice; loop region absent or non-empty and inside the sound) with loop fuel >= sampleRate*|rate|*dt + 1; every effect at rest, reverb initialised "
    "at >= 196 Hz, delay lines non-empty with scratch >= internal buffer size at every nesting depth, no latched panic; "
    "no modulators, no ticking clock, listeners (if any) at rest with empty command slots, NO spatial track (Mixer.Settled demands "
    "spatial = none at every depth; with a moving listener the per-chunk pose interpolation makes buffer-size invariance false "
    "bit-wise, notes/C15.md); no command / new resource / dropped handle pending",
]

# --- spatial tracks and listeners INSIDE the whole-system twin: suite `syscore` now drives listeners
# (add / drop / tweened or modulator-linked position and orientation) and spatial sub-tracks (nested, with effects,
# sends, sounds, `Value::FromListenerDistance` parameters) through the public API next to everything else, and the
# twin's spatial hook is the real spatial computation of Model/Spatial.lean; Props/C15_system.lean lifts the per-track
# C15 results to the whole-system model.
PROPS["C15"]["suites"] += [{"name": "syscore", "quick": 400, "thorough": 8000}]
PROPS["C15"]["level_text"] += (
    " INSIDE THE WHOLE SYSTEM (suite syscore + Props/C15_system.lean): the whole-system model's spatial hook is this "
    "very computation and listeners live in its environment (modulators -> clocks -> listeners -> mixer); complete scenes "
    "mixing spatial and plain tracks, static sounds, effects, sends, clocks and modulators, with listener-distance-mapped "
    "volumes / effect / sound parameters, nested spatial tracks and dropped listeners are bit-exact against kira through "
    "the public API; proved for that model: a spatial track whose listener is absent (dropped or never added) outputs "
    "exact silence, adds nothing to its parent's bus and feeds no send (C15_system_no_listener_silent, "
    "C15_system_dropped_listener_absent); with the listener present its signal is track gain x mono mix x distance "
    "amplitude x ear gain of its subtree's signal, frame by frame (C15_system_level_product); every track at any depth "
    "looks listeners up in the environment's arena and the innermost spatial track's distance wins "
    "(C15_system_listener_lookup); in every reachable state (all scenes, all histories) the tracks are clean, so a "
    "top-level spatial track whose listener was dropped is exactly silent in the next callback "
    "(C15_system_reachable_dropped_listener_silent)")

# --- gaps found by the second round of seeded changes ---
# C18 ("streaming the same file yields the same frames … from any start position and after any sequence of seeks"):
# the C09 side-by-side suite also serves C18 — its decoder is ahead of the playback (the wav suite renders every frame
# as soon as it is decoded), so a seek_by measured from the decoder's position instead of the playback position shows,
# and its long sounds (> 2 x 16384 frames) make the streaming sound's frame ring wrap. The C18 clause is stated directly
# by the implementation-side oracle stream_frames_not_loaded_frames_at_position (neutral index-coded streams: the frames
# heard are the loaded sound's frames at the positions played, where a seek_to lands on the frame nearest to its
# argument and a seek_by on the frame nearest to the handle's reported position + its argument).
PROPS["C18"]["suites"] += [{"name": "stream", "quick": 300, "thorough": 3000}]
PROPS["C18"]["level_text"] += (
    "; LONG STREAMS: WAV files of more than 2 x 16384 frames are streamed to their end (the streaming sound's frame ring wraps "
    "twice) and compared frame by frame with the static load; suite stream (shared with C09): scripted decoders that run AHEAD of "
    "the playback, long sounds, seek_to / seek_by at any lead up to the full ring, with the oracle "
    "stream_frames_not_loaded_frames_at_position stating the clause on the real code")
# C06 ("a tween on a sound's parameter … progresses in real time"): at the level of the sound the clause is about WHERE
# StaticSound::process updates its volume / playback-rate / panning parameters (before the early returns for a start time
# not reached and for a non-advancing playback state). Suite static (shared with C03 / C04) drives real static sounds
# through pause / resume / delayed starts with parameter tweens set in every state; the oracle
# static_param_tween_not_in_real_time compares each output frame of a unit DC sound with reference kira::Parameters that
# received the same commands and the real time of EVERY callback.
PROPS["C06"]["suites"] += [{"name": "static", "quick": 800, "thorough": 15000}]
PROPS["C06"]["level_text"] += (
    "; AT THE LEVEL OF THE SOUND (suite static, bit-exact twin of the whole static sound + oracle "
    "static_param_tween_not_in_real_time): a static sound's volume / panning tweens advance with the real time of every "
    "callback - playing, fading, paused, waiting to resume, waiting for a delayed start - so that after a resume the value is "
    "where the closed form says")
# C05 ("anything scheduled for a clock time … is cancelled if the clock no longer exists"): suite clocksys also pauses
# silent sounds and empty sub-tracks and resumes them at a clock time (resume_at), dropping the clock's handle before /
# after the audio thread has read the resume; the handles must report Stopped (sound, then unloaded) / Paused (track):
# oracles missing_clock_cancels_resume, cancelled_sound_not_unloaded, resume_at_clock_time_fires, resume_waits_for_clock_time.
PROPS["C05"]["level_text"] += (
    "; suite clocksys also drives pause -> resume_at(ClockTime) -> clock dropped (before / after the resume is read) on real "
    "sounds and sub-tracks through the public API: the twin (SoundCore / Psm life cycles fed with the system model's Info) "
    "agrees on every handle state, and the oracle missing_clock_cancels_resume states the clause on the handles (sound: Stopped "
    "and unloaded by the next callback; track: stays Paused and can be resumed)")
# C08 (exact capacity accounting "for every resource kind"): suite life builds sub-tracks OF sub-tracks, plain and spatial,
# at any depth, every one with its own sound capacity and sub-track capacity (distinct values, 0 and 1 included), and checks
# the limit-iff-full / exact-count / reported-capacity clauses on each storage.
PROPS["C08"]["level_text"] += (
    "; suite life also builds sub-tracks of (plain and spatial) sub-tracks at any depth, each with its own, mostly different, "
    "sound_capacity / sub_track_capacity (0 and 1 included): creation succeeds iff fewer than capacity are alive or awaiting "
    "removal in THAT storage, num_sounds() / num_sub_tracks() / sound_capacity() / sub_track_capacity() report the right "
    "numbers (oracles limit_iff_full, count_exact, count_le_capacity, capacity_reported)")

# --- round-3 review of which suites bear on which property (seeded changes filed under a property whose own suites did
# not exercise the changed code, while a sibling property's suite did) ---
# C06 "every tween of every parameter": the effects' parameters (compressor, EQ, filter, delay, reverb … all hold
# `Parameter`s updated per block) are exercised by the effect suites; sound parameters by `static` (added before).
PROPS["C06"]["suites"] += [{"name": "fxa", "quick": 800, "thorough": 15000}]
# C14 "documented transfer behaviour" must survive a device rate change (delay line lengths, nested feedback effects):
# the rate-change suite of the effects.
PROPS["C14"]["suites"] += [{"name": "fxrate", "quick": 600, "thorough": 6000}]
# C16 "sounds keep their pitch and duration, delayed starts keep their real time at every device rate": the static
# sound suite draws device rates / dt freely and compares positions and delayed starts with the twin.
PROPS["C16"]["suites"] += [{"name": "static", "quick": 800, "thorough": 15000}]
# C07 "every command kind of every handle type": effect handles (fxa/fxb drive every effect's setters through the
# real command channels).
PROPS["C07"]["suites"] += [{"name": "fxa", "quick": 600, "thorough": 10000}, {"name": "fxb", "quick": 600, "thorough": 10000}]
# C07 "any handle, at any nesting depth": the handles of effects nested in delay feedback loops
# (`DelayBuilder::add_feedback_effect`) are kept and driven by suite `syscore` (`fx.sub`, mirrored by the twin;
# oracle-only op `nest`: a user-defined command probe and a volume control at depth 1–3).
PROPS["C07"]["suites"] += [{"name": "syscore", "quick": 250, "thorough": 4000}]
# C06 "every tween of every parameter": the delay's and the reverb's parameters (suite `fxb`: tween-timing family, `twchk`).
PROPS["C06"]["suites"] += [{"name": "fxb", "quick": 800, "thorough": 15000}]
