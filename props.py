"""Registry: per property, the correspondence suites (name, cases in quick / thorough tier)."""

TRUSTED_BASE = [
    "Lean 4.33 kernel; axioms propext, Classical.choice, Quot.sound only (audited with #print axioms on every run)",
    "Mathlib v4.33 (proved library)",
    "theorems are about the model interpreted over the reals: IEEE rounding/overflow/NaN are outside the theorems and inside the twin",
    "correspondence check = differential testing of the hand-written Lean model (interpreted at Float/Float32) against kira built from /repo: "
    "harness/src (Rust), check (Python), Lean compiler/runtime Float ops assumed IEEE-754 and libm-identical to Rust's",
    "third-party crates (atomic-arena, rtrb, triple_buffer, glam, symphonia) are modelled or exercised, not verified",
]

HOOK_COMMITS = ["0629e56", "a0e4ab0"]

# properties not (yet) claimed, with the reason shown in MANIFEST.not_applicable
NOT_YET = {}

PROPS = {
    "C06": {
        "suites": [{"name": "param", "quick": 1500, "thorough": 60000}],
        "level_text": "Lean theorems about the model of parameter.rs over the reals: closed form "
                      "start + (target-start)*ease(T/D) for every partition of time into updates, exact landing on the target "
                      "with the finished flag raised exactly once, holding the target for ever, no overshoot for the built-in "
                      "easings, zero-duration tweens, retargeting from the current value, chunk continuity, delayed and clock "
                      "start semantics; the same definitions run as a Float twin and agree bit-for-bit with kira::Parameter<T> "
                      "for f64/f32/Decibels/Panning/PlaybackRate/Duration/ClockSpeed on every generated op",
        "level_note": "theorems over ideal real arithmetic (float rounding only in the twin); closed form proved for fixed targets "
                      "(modulator-linked targets are covered by the correspondence and C17); Vec3/Quat parameters are exercised "
                      "under C15; tie to the code = differential correspondence through the public Parameter API",
        "assumptions": [
            "update steps dt >= 0 and finite; easing powers > 0",
            "Duration::from_secs_f64 over the reals modelled as rounding to the nearest nanosecond",
        ],
    },
    "C13": {
        "suites": [{"name": "fxb", "quick": 6000, "thorough": 40000}],
        "level_text": "(delay + reverb half) Lean theorems about the models of effect/delay.rs and effect/reverb.rs (+comb.rs, "
                      "all_pass.rs) over the reals, for all inputs, parameters, line lengths and partitions: dry mix is the identity, "
                      "silence stays silent, chunk-free (the delay's sub-chunking by the line length equals the per-frame delay line; "
                      "with an abstract feedback-effect chain), superposition and scaling in (state, input) for any parameter states, "
                      "BIBO bounds for the comb / all-pass / delay lines and an invariant bound for the whole reverb network (fixed "
                      "parameters), no fault at >= 196 Hz; the same definitions run as a Float twin and agree bit-for-bit with kira's "
                      "DelayBuilder / ReverbBuilder effects on every generated op",
        "level_note": "theorems over ideal real arithmetic; chunk-freeness needs stagnant parameters (a tweening parameter is "
                      "interpolated per process call in kira: covered by the bit-exact correspondence only); nested feedback effects are "
                      "abstract in the theorems and probe effects (gain / one-pole) in the correspondence; long-run finiteness of the full "
                      "reverb is proved for fixed parameters only (C13_reverb_bounded_partial) and exercised by the finite_output oracle otherwise",
        "assumptions": [
            "delay line of at least one frame (delay_time >= 1/fs): the excluded point panics in kira (known finding)",
            "process slices no longer than the internal buffer size (as the mixer guarantees)",
            "reverb sample rate >= 196 Hz (every line has a slot); C13's range is 8 kHz..192 kHz",
            "feedback effects keep the slice length and are themselves chunk-free (and linear, for the linearity theorems)",
        ],
    },
    "C14": {
        "suites": [{"name": "fxb", "quick": 6000, "thorough": 40000}],
        "level_text": "(delay + reverb half) Lean theorems over the reals: the delay's impulse response is an echo at every multiple "
                      "of L = floor(delay*fs) frames with amplitude fb^k shaped k times by the feedback chain and zero elsewhere; the "
                      "reverb model is the Freeverb network (8 parallel combs + 4 series all-passes per channel, sizes "
                      "floor(c*fs/44100), spread 23, gain 0.015, all-pass feedback 0.5) with the constants re-extracted from the Rust "
                      "source into Gen.lean on every run; the comb's impulse response decays geometrically for feedback < 1; Float "
                      "twin bit-exact against kira on every generated op",
        "level_note": "theorems over ideal real arithmetic (the f64 rounding of delay*fs at exact frame boundaries is a known finding); "
                      "conformance of the model to the cited Freeverb code is by the stated equalities and by inspection",
        "assumptions": [
            "stagnant feedback / mix parameters for the echo theorem",
            "0 <= feedback < 1 and 0 <= damping <= 1 for the decay bound",
        ],
    },
    "C19": {
        "suites": [{"name": "units", "quick": 3000, "thorough": 150000}],
        "level_text": "Lean theorems (monotone/exact decibel law, equal-power pan law, octave law, clock-speed unit "
                      "consistency, clock-time fraction/add-sub/no-wrap/order, easing endpoints+monotonicity for all 7 easings, "
                      "mapping clamping) proved over the reals for all inputs; the same definitions run as a Float twin and agree "
                      "bit-for-bit with kira on every generated op",
        "level_note": "theorems are over ideal real arithmetic (rounding-level monotonicity of libm powf is exercised by the "
                      "oracles/sweeps only); tie to the code = differential correspondence of the hand-written model (not exhaustive)",
        "assumptions": [
            "finite arguments (non-finite amounts are rejected by kira's debug assertions)",
            "u64 tick counts modelled as unbounded naturals (no overflow of ticks + n)",
            "easing powers > 0; mapping input range non-degenerate (in0 != in1)",
        ],
    },
}
