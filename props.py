"""Registry: per property, the correspondence suites (name, cases in quick / thorough tier)."""

TRUSTED_BASE = [
    "Lean 4.33 kernel; axioms propext, Classical.choice, Quot.sound only (audited with #print axioms on every run)",
    "Mathlib v4.33 (proved library)",
    "theorems are about the model interpreted over the reals: IEEE rounding/overflow/NaN are outside the theorems and inside the twin",
    "correspondence check = differential testing of the hand-written Lean model (interpreted at Float/Float32) against kira built from /repo: "
    "harness/src (Rust), check (Python), Lean compiler/runtime Float ops assumed IEEE-754 and libm-identical to Rust's",
    "third-party crates (atomic-arena, rtrb, triple_buffer, glam, symphonia) are modelled or exercised, not verified",
]

HOOK_COMMITS = ["0629e56", "a0e4ab0"]

# properties not (yet) claimed, with the reason shown in MANIFEST.not_applicable
NOT_YET = {}

PROPS = {
    "C03": {
        "suites": [{"name": "psm", "quick": 2500, "thorough": 40000},
                   {"name": "static", "quick": 3000, "thorough": 40000}],
        "level_text": "Lean theorems over the reals about the models of playback_state_manager.rs, the life-cycle part shared by "
                      "StaticSound and StreamingSound (SoundCore: pause/resume/stop handlers, the gating prefix of process, "
                      "mark_as_stopped, the state mirrored to the handle) and the complete static sound: every command/update moves "
                      "the state along a documented edge; the handle state always equals the manager's state; Stopped is absorbing "
                      "for every later history and a stopped static sound writes exact zeros whatever it is sent; a fade-driven step "
                      "happens exactly in the update in which the fade parameter finishes, which (with C06) is the first update at "
                      "which accumulated time reaches the tween duration, for every partition; the fade moves monotonically and ends "
                      "at exactly -60 dB = amplitude 0 / 0 dB = amplitude 1; exact silence and untouched transport/fraction/window/"
                      "reported position whenever the start time is pending or the state is Paused/WaitingToResume/Stopped; every "
                      "finite non-looping sound is Stopped after exactly remaining-frames + 4 position steps, forwards and in reverse; "
                      "every history of the static sound moves its core by those events only. The same definitions run as a Float twin "
                      "and agree bit-for-bit with kira (HPlaybackStateManager; Box<dyn Sound> + StaticSoundHandle via the public API)",
        "level_note": "theorems over ideal real arithmetic; the streaming sound is covered through the shared SoundCore events only "
                      "(its ring-buffer/decoder side is C09/C10); 'unloaded at the next callback, slot reusable' belongs to the "
                      "resource-storage model (C08) and is not proved here; finite-sound bound is stated in position steps "
                      "(C04_position_accumulates converts frames to steps at a constant rate); tie to the code = differential "
                      "correspondence + implementation-side oracles on the real code",
        "assumptions": [
            "update steps dt >= 0 and finite; easing powers > 0 (C06)",
            "fade closed form for immediate-start tweens with duration > 0 (delayed / clock start times of the *tween* are covered by "
            "the correspondence and by C06's start-time theorems)",
            "slice inside the data for the finite-sound theorem",
        ],
    },
    "C04": {
        "suites": [{"name": "transport", "quick": 2500, "thorough": 40000},
                   {"name": "static", "quick": 3000, "thorough": 40000},
                   {"name": "static_ood", "quick": 30, "thorough": 60}],
        "level_text": "Lean theorems about the models of transport.rs (over the naturals) and of static_sound/{data,sound,resampler}.rs "
                      "+ frame.rs::interpolate_frame (over the reals): closed forms of the wrap loops and fuel independence; with a "
                      "valid loop region no history of steps/seeks/loop changes faults, the play head stays inside the sound, wraps "
                      "le-1 -> ls and ls -> le-1, ends exactly at n / 0; at rate +-1 on a device at the sound's rate the j-th output "
                      "frame is exactly the source frame under the play head after j transport steps from the start position, for "
                      "every partition into buffers, loops and reverse included, exact zeros after the end, Stopped exactly 4 steps "
                      "after the transport ends; lookups never leave the slice and the interpolator window only ever holds slice "
                      "frames or silence for every history; every output frame is the Hermite interpolation of the window at the "
                      "current fraction and after k frames at a constant rate exactly floor(frac0 + k*sr*|r|*dt) position steps were "
                      "taken; Hermite endpoints and exactness for polynomials of degree <= 2; seeks land on the loop-wrapped "
                      "floor(x*sr); reported position * sr = index of window slot 1. The same definitions run as a Float twin and agree "
                      "bit-for-bit with kira (HTransport; Box<dyn Sound> + StaticSoundHandle through the public API), exhaustively for "
                      "small sounds in the thorough tier",
        "level_note": "theorems over ideal real arithmetic (sr*(1/sr) = 1 is not always true in f64, e.g. sr = 49: the twin and the "
                      "generator cover that, the rate-1 oracle skips it); DESIGN's 'reproduces cubics' is false of this kernel and is "
                      "proved false (exact to degree 2); 'seek lands within one frame after the window refilled' is proved as: "
                      "landing index + window = last four pushes (the frame at the landing position is pushed twice, a one-frame "
                      "repeat, see notes); out-of-domain inputs fault in model and code alike (KNOWN-FINDING lines, C01 material)",
        "assumptions": [
            "loop region valid (ls < le <= n), slice inside the data, start position < length when reversed - kira enforces none of "
            "these: violating them hangs or panics (known findings)",
            "finite arguments; usize arithmetic modelled on unbounded naturals (positions near usize::MAX are outside the model)",
            "rate-1 identity: volume 0 dB, centre panning, no fade, immediate start (the gain stage is covered by C19/C06 and the twin)",
        ],
    },
    "C06": {
        "suites": [{"name": "param", "quick": 1500, "thorough": 60000}],
        "level_text": "Lean theorems about the model of parameter.rs over the reals: closed form "
                      "start + (target-start)*ease(T/D) for every partition of time into updates, exact landing on the target "
                      "with the finished flag raised exactly once, holding the target for ever, no overshoot for the built-in "
                      "easings, zero-duration tweens, retargeting from the current value, chunk continuity, delayed and clock "
                      "start semantics; the same definitions run as a Float twin and agree bit-for-bit with kira::Parameter<T> "
                      "for f64/f32/Decibels/Panning/PlaybackRate/Duration/ClockSpeed on every generated op",
        "level_note": "theorems over ideal real arithmetic (float rounding only in the twin); closed form proved for fixed targets "
                      "(modulator-linked targets are covered by the correspondence and C17); Vec3/Quat parameters are exercised "
                      "under C15; tie to the code = differential correspondence through the public Parameter API",
        "assumptions": [
            "update steps dt >= 0 and finite; easing powers > 0",
            "Duration::from_secs_f64 over the reals modelled as rounding to the nearest nanosecond",
        ],
    },
    "C19": {
        "suites": [{"name": "units", "quick": 3000, "thorough": 150000}],
        "level_text": "Lean theorems (monotone/exact decibel law, equal-power pan law, octave law, clock-speed unit "
                      "consistency, clock-time fraction/add-sub/no-wrap/order, easing endpoints+monotonicity for all 7 easings, "
                      "mapping clamping) proved over the reals for all inputs; the same definitions run as a Float twin and agree "
                      "bit-for-bit with kira on every generated op",
        "level_note": "theorems are over ideal real arithmetic (rounding-level monotonicity of libm powf is exercised by the "
                      "oracles/sweeps only); tie to the code = differential correspondence of the hand-written model (not exhaustive)",
        "assumptions": [
            "finite arguments (non-finite amounts are rejected by kira's debug assertions)",
            "u64 tick counts modelled as unbounded naturals (no overflow of ticks + n)",
            "easing powers > 0; mapping input range non-degenerate (in0 != in1)",
        ],
    },
}
