use kira::info::MockInfoBuilder;
use kira::sound::static_sound::StaticSoundData;
use kira::sound::streaming::StreamingSoundData;
use kira::sound::PlaybackPosition;
use kira::verif_hooks::streaming::{split, HNextStep};
use kira::Frame;
use std::io::Cursor;

fn main() {
	let args: Vec<String> = std::env::args().collect();
	let name = &args[1];
	let start: usize = args[2].parse().unwrap();
	let k: usize = args[3].parse().unwrap();
	let bytes = std::fs::read(format!("/repo/crates/examples/assets/{}", name)).unwrap();
	let st = StaticSoundData::from_cursor(Cursor::new(bytes.clone())).unwrap();
	println!("static: rate {} frames {}", st.sample_rate, st.frames.len());
	let data = StreamingSoundData::from_cursor(Cursor::new(bytes.clone())).unwrap().start_position(PlaybackPosition::Samples(start));
	println!("stream num_frames {}", data.num_frames());
	let (mut sound, mut _h, mut sched) = split(data).unwrap();
	let mut start = start;
	if args.len() > 4 {
		// pre-run then seek
		let pre: usize = args[4].parse().unwrap();
		let to: usize = args[5].parse().unwrap();
		for _ in 0..pre { sched.run().ok(); }
		let mut tmp = vec![Frame::ZERO; pre];
		let info = MockInfoBuilder::new().build();
		sound.on_start_processing();
		sound.process(&mut tmp, 1.0 / st.sample_rate as f64, &info);
		_h.seek_to(to as f64 / st.sample_rate as f64);
		start = to;
	}
	let mut pushed = 0;
	for _ in 0..k {
		match sched.run() {
			Ok(HNextStep::Continue) => pushed += 1,
			Ok(HNextStep::End) => { pushed += 1; break }
			Ok(HNextStep::Wait) => break,
			Err(e) => { println!("err {:?}", e); break }
		}
	}
	let mut out = vec![Frame::ZERO; pushed];
	let info = MockInfoBuilder::new().build();
	sound.on_start_processing();
	sound.process(&mut out, 1.0 / st.sample_rate as f64, &info);
	// compare
	let mut first_ok = None;
	let mut nbad = 0;
	for (i, f) in out.iter().enumerate() {
		let w = st.frames[start + i];
		if f.left.to_bits() != w.left.to_bits() || f.right.to_bits() != w.right.to_bits() { nbad += 1; } else if first_ok.is_none() { first_ok = Some(i); }
	}
	println!("pushed {} bad {} first_ok {:?}", pushed, nbad, first_ok);
	// find shift: does out[0..8] appear in static near start?
	for shift in -5000i64..5000 {
		let base = start as i64 + shift;
		if base < 0 { continue; }
		let base = base as usize;
		if base + out.len() >= st.frames.len() || out.len() < 16 { continue; }
		if (0..16).all(|i| out[i + (out.len() - 16)].left.to_bits() == st.frames[base + i + (out.len() - 16)].left.to_bits()) {
			println!("tail matches static with shift {}", shift);
		}
	}
	for i in 0..4.min(out.len()) { println!("out[{}]={:e} static={:e}", i, out[i].left, st.frames[start+i].left); }
	// where do streamed frames become equal to static frames?
	let mut last_bad = None;
	for (i, f) in out.iter().enumerate() {
		let w = st.frames[start + i];
		if f.left.to_bits() != w.left.to_bits() { last_bad = Some(i); }
	}
	println!("last bad index {:?}", last_bad);
}
