//! PRNG, bit-pattern formatting, ops-line parsing.

/// xoshiro256** seeded via splitmix64 — the single source of randomness of a run.
#[derive(Clone)]
pub struct Rng {
	s: [u64; 4],
}

impl Rng {
	pub fn new(seed: u64) -> Self {
		let mut z = seed;
		let mut s = [0u64; 4];
		for v in s.iter_mut() {
			z = z.wrapping_add(0x9E3779B97F4A7C15);
			let mut x = z;
			x = (x ^ (x >> 30)).wrapping_mul(0xBF58476D1CE4E5B9);
			x = (x ^ (x >> 27)).wrapping_mul(0x94D049BB133111EB);
			*v = x ^ (x >> 31);
		}
		Self { s }
	}
	pub fn next(&mut self) -> u64 {
		let r = self.s[1].wrapping_mul(5).rotate_left(7).wrapping_mul(9);
		let t = self.s[1] << 17;
		self.s[2] ^= self.s[0];
		self.s[3] ^= self.s[1];
		self.s[1] ^= self.s[2];
		self.s[0] ^= self.s[3];
		self.s[2] ^= t;
		self.s[3] = self.s[3].rotate_left(45);
		r
	}
	/// uniform in 0..n (n > 0)
	pub fn below(&mut self, n: u64) -> u64 {
		self.next() % n
	}
	pub fn range(&mut self, lo: i64, hi: i64) -> i64 {
		lo + (self.below((hi - lo + 1) as u64) as i64)
	}
	pub fn chance(&mut self, num: u64, den: u64) -> bool {
		self.below(den) < num
	}
	/// uniform in [0,1)
	pub fn unit(&mut self) -> f64 {
		(self.next() >> 11) as f64 / (1u64 << 53) as f64
	}
	pub fn uniform(&mut self, lo: f64, hi: f64) -> f64 {
		lo + (hi - lo) * self.unit()
	}
	pub fn pick<T: Copy>(&mut self, xs: &[T]) -> T {
		xs[self.below(xs.len() as u64) as usize]
	}
}

pub fn h64(x: f64) -> String {
	if x.is_nan() {
		"nan".to_string()
	} else {
		format!("{:016x}", x.to_bits())
	}
}
pub fn h32(x: f32) -> String {
	if x.is_nan() {
		"nan".to_string()
	} else {
		format!("{:08x}", x.to_bits())
	}
}
/// operand encodings (never `nan`: operands are always finite)
pub fn o64(x: f64) -> String {
	format!("{:016x}", x.to_bits())
}
pub fn o32(x: f32) -> String {
	format!("{:08x}", x.to_bits())
}
pub fn p64(s: &str) -> f64 {
	f64::from_bits(u64::from_str_radix(s, 16).expect("bad f64 hex"))
}
pub fn p32(s: &str) -> f32 {
	f32::from_bits(u32::from_str_radix(s, 16).expect("bad f32 hex"))
}
pub fn pu(s: &str) -> u64 {
	s.parse().expect("bad u64")
}
pub fn pi(s: &str) -> i64 {
	s.parse().expect("bad i64")
}

/// Per-run statistics printed as a `STATS` JSON line (input distribution for the evidence file).
#[derive(Default)]
pub struct Stats {
	pub counts: std::collections::BTreeMap<String, u64>,
}
impl Stats {
	pub fn hit(&mut self, k: &str) {
		*self.counts.entry(k.to_string()).or_insert(0) += 1;
	}
	pub fn add(&mut self, k: &str, n: u64) {
		*self.counts.entry(k.to_string()).or_insert(0) += n;
	}
	pub fn json(&self) -> String {
		let body: Vec<String> = self
			.counts
			.iter()
			.map(|(k, v)| format!("\"{}\":{}", k, v))
			.collect();
		format!("{{{}}}", body.join(","))
	}
}
