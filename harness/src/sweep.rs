//! Exhaustive sweeps over every finite f32 bit pattern (thorough tier, C19): the property is checked
//! directly on the real code for all 2 × 0x7F80_0000 finite values, in increasing numeric order.
//! Output: `!oracle <name> <op line>` for each failure kind (first few), then `#SWEEP {json}`.
use kira::{Decibels, Frame, Panning};
use std::sync::atomic::{AtomicU64, Ordering};
use std::sync::Mutex;

const N: u64 = 2 * 0x7F80_0000;

/// k-th finite f32 in increasing order (−max … −0, +0 … +max)
fn nth(k: u64) -> f32 {
	if k < 0x7F80_0000 {
		f32::from_bits(0xFF7F_FFFF - k as u32)
	} else {
		f32::from_bits((k - 0x7F80_0000) as u32)
	}
}

pub fn run(name: &str) {
	let threads = std::thread::available_parallelism().map(|n| n.get()).unwrap_or(4) as u64;
	let fails: Mutex<Vec<String>> = Mutex::new(vec![]);
	let count = AtomicU64::new(0);
	let chunk = N.div_ceil(threads);
	std::thread::scope(|s| {
		for t in 0..threads {
			let fails = &fails;
			let count = &count;
			s.spawn(move || {
				let lo = t * chunk;
				let hi = ((t + 1) * chunk).min(N);
				let mut local: Vec<String> = vec![];
				let mut fail = |name: &str, x: f32| {
					if local.len() < 4 {
						local.push(format!("!oracle {} {} {:08x}", name, if name.starts_with("amp") { "amp" } else { "pan 3f800000 3f800000" }, x.to_bits()));
					}
				};
				match name {
					"amp" => {
						let mut prev = if lo == 0 { 0.0 } else { Decibels(nth(lo - 1)).as_amplitude() };
						for k in lo..hi {
							let x = nth(k);
							let a = Decibels(x).as_amplitude();
							if !(a >= prev) {
								fail("amp_monotone", x);
							}
							if x == 0.0 && a != 1.0 {
								fail("amp_zero_db", x);
							}
							if x <= -60.0 && a != 0.0 {
								fail("amp_silence", x);
							}
							if x > -60.0 && x != 0.0 && x < 150.0 {
								let r = 10f64.powf(x as f64 / 20.0);
								if ((a as f64) - r).abs() > 1e-5 * r {
									fail("amp_formula", x);
								}
							}
							prev = a;
						}
					}
					"pan" => {
						let f = Frame::new(1.0, 1.0);
						let first = f.panned(Panning(nth(lo.saturating_sub(1))));
						let (mut pl, mut pr) = (first.left, first.right);
						for k in lo..hi {
							let x = nth(k);
							let g = f.panned(Panning(x));
							// left gain non-increasing, right gain non-decreasing in the pan position,
							// except for the documented special case at exactly centre (identity, gain 1 vs √½·√2)
							if x != 0.0 && nth(k.saturating_sub(1)) != 0.0 {
								if g.left > pl || g.right < pr {
									fail("pan_monotone", x);
								}
							}
							let pw = (g.left as f64).powi(2) + (g.right as f64).powi(2);
							if (pw - 2.0).abs() > 1e-5 {
								fail("pan_power", x);
							}
							if x == 0.0 && (g.left != 1.0 || g.right != 1.0) {
								fail("pan_centre", x);
							}
							pl = g.left;
							pr = g.right;
						}
					}
					_ => panic!("unknown sweep {}", name),
				}
				count.fetch_add(hi - lo, Ordering::Relaxed);
				fails.lock().unwrap().extend(local);
			});
		}
	});
	let fails = fails.into_inner().unwrap();
	let mut seen = std::collections::BTreeSet::new();
	for f in &fails {
		let kind = f.split(' ').nth(1).unwrap().to_string();
		if seen.insert(kind) {
			println!("{}", f);
		}
	}
	println!(
		"#SWEEP {{\"sweep\":\"{}\",\"evaluations\":{},\"failures\":{},\"exhaustive\":true}}",
		name,
		count.load(Ordering::Relaxed),
		fails.len()
	);
}
