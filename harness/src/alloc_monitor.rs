//! Counting global allocator: counts heap allocations and frees made by the CURRENT thread while armed.
//! Used by suite `system` to check that an audio callback neither allocates nor frees (C01).
use std::alloc::{GlobalAlloc, Layout, System};
use std::cell::Cell;

pub struct Counting;

thread_local! {
	static ARMED: Cell<bool> = const { Cell::new(false) };
	static ALLOCS: Cell<u64> = const { Cell::new(0) };
	static FREES: Cell<u64> = const { Cell::new(0) };
}

unsafe impl GlobalAlloc for Counting {
	unsafe fn alloc(&self, layout: Layout) -> *mut u8 {
		let _ = ARMED.try_with(|a| {
			if a.get() {
				let _ = ALLOCS.try_with(|c| c.set(c.get() + 1));
			}
		});
		System.alloc(layout)
	}
	unsafe fn dealloc(&self, ptr: *mut u8, layout: Layout) {
		let _ = ARMED.try_with(|a| {
			if a.get() {
				let _ = FREES.try_with(|c| c.set(c.get() + 1));
			}
		});
		System.dealloc(ptr, layout)
	}
	unsafe fn realloc(&self, ptr: *mut u8, layout: Layout, new_size: usize) -> *mut u8 {
		let _ = ARMED.try_with(|a| {
			if a.get() {
				let _ = ALLOCS.try_with(|c| c.set(c.get() + 1));
			}
		});
		System.realloc(ptr, layout, new_size)
	}
}

pub fn arm() {
	ALLOCS.with(|c| c.set(0));
	FREES.with(|c| c.set(0));
	ARMED.with(|a| a.set(true));
}

/// returns (allocations, frees) made by this thread since `arm`
pub fn disarm() -> (u64, u64) {
	ARMED.with(|a| a.set(false));
	(ALLOCS.with(|c| c.get()), FREES.with(|c| c.get()))
}
