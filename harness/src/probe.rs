//! Shared probe components for system-level suites (everything here uses kira's PUBLIC API):
//!  * `ProbeBackend`  — a `Backend` that keeps the `Renderer` so a suite can run callbacks of any
//!                      size / channel count and change the sample rate;
//!  * `manager(...)`  — an `AudioManager<ProbeBackend>` with given capacities / buffer size / rate;
//!  * `ProbeSound`    — a scripted `Sound` (index-coded or constant frames) that logs how it is called;
//!  * `ProbeEffect`   — an `Effect` that logs init / rate changes / slice lengths / dt and applies a
//!                      simple exactly-representable gain.
#![allow(dead_code)]

use kira::backend::{Backend, Renderer};
use kira::effect::{Effect, EffectBuilder};
use kira::info::Info;
use kira::sound::{Sound, SoundData};
use kira::track::MainTrackBuilder;
use kira::{AudioManager, AudioManagerSettings, Capacities, Frame};
use std::sync::{Arc, Mutex};

pub struct ProbeBackend {
	pub sample_rate: u32,
	pub renderer: Option<Renderer>,
}

pub struct ProbeBackendSettings {
	pub sample_rate: u32,
}

impl Backend for ProbeBackend {
	type Settings = ProbeBackendSettings;
	type Error = ();
	fn setup(settings: Self::Settings, _internal_buffer_size: usize) -> Result<(Self, u32), ()> {
		Ok((
			Self {
				sample_rate: settings.sample_rate,
				renderer: None,
			},
			settings.sample_rate,
		))
	}
	fn start(&mut self, renderer: Renderer) -> Result<(), ()> {
		self.renderer = Some(renderer);
		Ok(())
	}
}

impl ProbeBackend {
	/// One device callback: `on_start_processing` + `process` into `frames * channels` samples.
	pub fn callback(&mut self, frames: usize, channels: u16) -> Vec<f32> {
		let r = self.renderer.as_mut().expect("renderer not started");
		let mut out = vec![f32::from_bits(0x7fc0_1234); frames * channels as usize];
		r.on_start_processing();
		r.process(&mut out, channels);
		out
	}
	/// One device callback into a caller-provided buffer (no allocation in here).
	pub fn callback_into(&mut self, out: &mut [f32], channels: u16) {
		let r = self.renderer.as_mut().expect("renderer not started");
		r.on_start_processing();
		r.process(out, channels);
	}
	pub fn on_start_processing(&mut self) {
		self.renderer.as_mut().unwrap().on_start_processing();
	}
	pub fn process(&mut self, frames: usize, channels: u16) -> Vec<f32> {
		let r = self.renderer.as_mut().unwrap();
		let mut out = vec![f32::from_bits(0x7fc0_1234); frames * channels as usize];
		r.process(&mut out, channels);
		out
	}
	pub fn change_sample_rate(&mut self, sample_rate: u32) {
		self.sample_rate = sample_rate;
		self.renderer.as_mut().unwrap().on_change_sample_rate(sample_rate);
	}
}

pub fn manager(
	capacities: Capacities,
	internal_buffer_size: usize,
	sample_rate: u32,
	main_track_builder: MainTrackBuilder,
) -> AudioManager<ProbeBackend> {
	AudioManager::<ProbeBackend>::new(AudioManagerSettings {
		capacities,
		main_track_builder,
		internal_buffer_size,
		backend_settings: ProbeBackendSettings { sample_rate },
	})
	.unwrap()
}

// ---------------------------------------------------------------------------------------------
// probe sound
// ---------------------------------------------------------------------------------------------

#[derive(Default, Debug, Clone)]
pub struct ProbeLog {
	/// every `process` slice length, in order
	pub slices: Vec<usize>,
	/// every `dt` seen
	pub dts: Vec<f64>,
	pub on_start_processing: usize,
	pub init: Vec<(u32, usize)>,
	pub rate_changes: Vec<u32>,
	/// thread on which the component was dropped (None = still alive)
	pub dropped_on: Option<std::thread::ThreadId>,
}
pub type Log = Arc<Mutex<ProbeLog>>;
pub fn new_log() -> Log {
	Arc::new(Mutex::new(ProbeLog::default()))
}

/// What a probe sound emits for its k-th requested frame (k counts from 0 over its whole life).
#[derive(Clone, Copy, Debug)]
pub enum Signal {
	/// left = right = `base + k` (exactly representable while small)
	Index { base: f32 },
	/// constant frame
	Constant { left: f32, right: f32 },
}

pub struct ProbeSound {
	pub signal: Signal,
	/// the sound reports `finished()` after this many frames (None = never)
	pub length: Option<usize>,
	pub produced: usize,
	pub log: Log,
}

impl Sound for ProbeSound {
	fn on_start_processing(&mut self) {
		self.log.lock().unwrap().on_start_processing += 1;
	}
	fn process(&mut self, out: &mut [Frame], dt: f64, _info: &Info) {
		{
			let mut l = self.log.lock().unwrap();
			l.slices.push(out.len());
			l.dts.push(dt);
		}
		for f in out.iter_mut() {
			let live = self.length.map(|n| self.produced < n).unwrap_or(true);
			*f = if !live {
				Frame::ZERO
			} else {
				match self.signal {
					Signal::Index { base } => Frame::from_mono(base + self.produced as f32),
					Signal::Constant { left, right } => Frame::new(left, right),
				}
			};
			self.produced += 1;
		}
	}
	fn finished(&self) -> bool {
		self.length.map(|n| self.produced >= n).unwrap_or(false)
	}
}
impl Drop for ProbeSound {
	fn drop(&mut self) {
		self.log.lock().unwrap().dropped_on = Some(std::thread::current().id());
	}
}

pub struct ProbeSoundData {
	pub signal: Signal,
	pub length: Option<usize>,
	pub log: Log,
}
impl SoundData for ProbeSoundData {
	type Error = ();
	type Handle = Log;
	fn into_sound(self) -> Result<(Box<dyn Sound>, Log), ()> {
		let log = self.log.clone();
		Ok((
			Box::new(ProbeSound {
				signal: self.signal,
				length: self.length,
				produced: 0,
				log: self.log,
			}),
			log,
		))
	}
}

/// A `SoundData` whose `into_sound()` fails (like a streaming sound whose decoder cannot start):
/// `play` must return `PlaySoundError::IntoSoundError` and leave the track's sound storage untouched.
pub struct FailingSoundData;
#[derive(Debug, PartialEq)]
pub struct ProbeIntoSoundError;
impl SoundData for FailingSoundData {
	type Error = ProbeIntoSoundError;
	type Handle = ();
	fn into_sound(self) -> Result<(Box<dyn Sound>, ()), ProbeIntoSoundError> {
		Err(ProbeIntoSoundError)
	}
}

// ---------------------------------------------------------------------------------------------
// probe effect
// ---------------------------------------------------------------------------------------------

/// Multiplies by `gain` and adds `offset` to both channels (choose exactly representable values),
/// logging how it is driven. A stateful variant (`feedback`) adds `feedback * previous output`.
pub struct ProbeEffect {
	pub gain: f32,
	pub offset: f32,
	pub feedback: f32,
	pub prev: Frame,
	pub log: Log,
}
impl Effect for ProbeEffect {
	fn init(&mut self, sample_rate: u32, internal_buffer_size: usize) {
		self.log.lock().unwrap().init.push((sample_rate, internal_buffer_size));
	}
	fn on_change_sample_rate(&mut self, sample_rate: u32) {
		self.log.lock().unwrap().rate_changes.push(sample_rate);
	}
	fn on_start_processing(&mut self) {
		self.log.lock().unwrap().on_start_processing += 1;
	}
	fn process(&mut self, input: &mut [Frame], dt: f64, _info: &Info) {
		{
			let mut l = self.log.lock().unwrap();
			l.slices.push(input.len());
			l.dts.push(dt);
		}
		for f in input.iter_mut() {
			let o = Frame::new(
				f.left * self.gain + self.offset + self.prev.left * self.feedback,
				f.right * self.gain + self.offset + self.prev.right * self.feedback,
			);
			self.prev = o;
			*f = o;
		}
	}
}
impl Drop for ProbeEffect {
	fn drop(&mut self) {
		self.log.lock().unwrap().dropped_on = Some(std::thread::current().id());
	}
}
pub struct ProbeEffectBuilder {
	pub gain: f32,
	pub offset: f32,
	pub feedback: f32,
	pub log: Log,
}
impl EffectBuilder for ProbeEffectBuilder {
	type Handle = Log;
	fn build(self) -> (Box<dyn Effect>, Log) {
		let log = self.log.clone();
		(
			Box::new(ProbeEffect {
				gain: self.gain,
				offset: self.offset,
				feedback: self.feedback,
				prev: Frame::ZERO,
				log: self.log,
			}),
			log,
		)
	}
}

// ---------------------------------------------------------------------------------------------
// modulator probes (C17): a user-defined modulator and a sound with a modulator-linkable parameter,
// both writing to one shared, ordered event log
// ---------------------------------------------------------------------------------------------

use kira::modulator::{Modulator, ModulatorBuilder, ModulatorId};
use kira::{Parameter, Value};
use std::sync::atomic::{AtomicBool, Ordering};

/// One entry of the shared event log, in the order things happen on the audio thread.
#[derive(Debug, Clone)]
pub enum SysEvent {
	/// a `ProbeModulator` was updated: its tag, `dt`, its value after the update, and what
	/// `info.modulator_value` answered for every id on the watch list
	ModUpdate { tag: usize, dt: f64, value: f64, seen: Vec<Option<f64>> },
	/// a `ParamProbeSound` processed a slice: frames, `dt`, its parameter's value after the update, and
	/// what `info.modulator_value` answered for every id on the watch list
	SoundProcess { tag: usize, frames: usize, dt: f64, param: f64, seen: Vec<Option<f64>> },
}
pub type SysLog = Arc<Mutex<Vec<SysEvent>>>;
/// ids every probe asks `Info` about (index = the suite's modulator number)
pub type WatchList = Arc<Mutex<Vec<ModulatorId>>>;

fn see(watch: &WatchList, info: &Info) -> Vec<Option<f64>> {
	watch.lock().unwrap().iter().map(|id| info.modulator_value(*id)).collect()
}

/// A user-defined modulator whose value is the number of times it has been updated.
pub struct ProbeModulator {
	pub tag: usize,
	pub count: f64,
	pub log: SysLog,
	pub watch: WatchList,
	pub removed: Arc<AtomicBool>,
}
impl Modulator for ProbeModulator {
	fn update(&mut self, dt: f64, info: &Info) {
		self.count += 1.0;
		let seen = see(&self.watch, info);
		self.log.lock().unwrap().push(SysEvent::ModUpdate { tag: self.tag, dt, value: self.count, seen });
	}
	fn value(&self) -> f64 {
		self.count
	}
	fn finished(&self) -> bool {
		self.removed.load(Ordering::SeqCst)
	}
}
pub struct ProbeModulatorHandle {
	pub id: ModulatorId,
	pub removed: Arc<AtomicBool>,
}
impl Drop for ProbeModulatorHandle {
	fn drop(&mut self) {
		self.removed.store(true, Ordering::SeqCst);
	}
}
pub struct ProbeModulatorBuilder {
	pub tag: usize,
	pub log: SysLog,
	pub watch: WatchList,
}
impl ModulatorBuilder for ProbeModulatorBuilder {
	type Handle = ProbeModulatorHandle;
	fn build(self, id: ModulatorId) -> (Box<dyn Modulator>, ProbeModulatorHandle) {
		let removed = Arc::new(AtomicBool::new(false));
		(
			Box::new(ProbeModulator { tag: self.tag, count: 0.0, log: self.log, watch: self.watch, removed: removed.clone() }),
			ProbeModulatorHandle { id, removed },
		)
	}
}

/// A sound that emits a constant frame and owns a `Parameter<f64>` (the way kira's own sounds own
/// their volume / playback-rate parameters): updated once per `process` call with `dt * out.len()`.
pub struct ParamProbeSound {
	pub tag: usize,
	pub param: Parameter<f64>,
	pub frame: Frame,
	pub log: SysLog,
	pub watch: WatchList,
}
impl Sound for ParamProbeSound {
	fn process(&mut self, out: &mut [Frame], dt: f64, info: &Info) {
		self.param.update(dt * out.len() as f64, info);
		let seen = see(&self.watch, info);
		self.log.lock().unwrap().push(SysEvent::SoundProcess {
			tag: self.tag,
			frames: out.len(),
			dt,
			param: self.param.value(),
			seen,
		});
		for f in out.iter_mut() {
			*f = self.frame;
		}
	}
	fn finished(&self) -> bool {
		false
	}
}
pub struct ParamProbeSoundData {
	pub tag: usize,
	pub value: Value<f64>,
	pub default: f64,
	pub frame: Frame,
	pub log: SysLog,
	pub watch: WatchList,
}
impl SoundData for ParamProbeSoundData {
	type Error = ();
	type Handle = ();
	fn into_sound(self) -> Result<(Box<dyn Sound>, ()), ()> {
		Ok((
			Box::new(ParamProbeSound {
				tag: self.tag,
				param: Parameter::new(self.value, self.default),
				frame: self.frame,
				log: self.log,
				watch: self.watch,
			}),
			(),
		))
	}
}

// ---- probes added for the C07/C08 suites ----

// ---------------------------------------------------------------------------------------------
// info probe effect, probe modulator, callback thread (C07/C08 system-level suites)
// ---------------------------------------------------------------------------------------------

/// What the `InfoProbe` effect saw in `Info` during the last `process` call.
#[derive(Default)]
pub struct InfoSeen {
	pub clocks: Vec<kira::clock::ClockId>,
	pub mods: Vec<kira::modulator::ModulatorId>,
	/// `info.clock_info(id)` for every registered clock id: (ticking, ticks) or None
	pub clock_info: Vec<Option<(bool, u64)>>,
	/// `info.modulator_value(id)` for every registered modulator id
	pub mod_value: Vec<Option<f64>>,
	pub calls: usize,
}
pub type InfoShared = Arc<Mutex<InfoSeen>>;

/// An effect that looks the registered ids up in `Info` on every `process` (passes audio through).
pub struct InfoProbe(pub InfoShared);
impl Effect for InfoProbe {
	fn process(&mut self, _input: &mut [Frame], _dt: f64, info: &Info) {
		let mut s = self.0.lock().unwrap();
		s.calls += 1;
		s.clock_info = s.clocks.iter().map(|id| info.clock_info(*id).map(|c| (c.ticking, c.time.ticks))).collect();
		s.mod_value = s.mods.iter().map(|id| info.modulator_value(*id)).collect();
	}
}
pub struct InfoProbeBuilder(pub InfoShared);
impl EffectBuilder for InfoProbeBuilder {
	type Handle = InfoShared;
	fn build(self) -> (Box<dyn Effect>, InfoShared) {
		let s = self.0.clone();
		(Box::new(InfoProbe(self.0)), s)
	}
}

/// A user-defined modulator: constant value, `finished()` when its flag is set, logs its drop thread.
pub struct LifeProbeModulator {
	pub value: f64,
	pub finished: Arc<std::sync::atomic::AtomicBool>,
	pub log: Log,
}
impl kira::modulator::Modulator for LifeProbeModulator {
	fn on_start_processing(&mut self) {
		self.log.lock().unwrap().on_start_processing += 1;
	}
	fn update(&mut self, dt: f64, _info: &Info) {
		self.log.lock().unwrap().dts.push(dt);
	}
	fn value(&self) -> f64 {
		self.value
	}
	fn finished(&self) -> bool {
		self.finished.load(std::sync::atomic::Ordering::SeqCst)
	}
}
impl Drop for LifeProbeModulator {
	fn drop(&mut self) {
		self.log.lock().unwrap().dropped_on = Some(std::thread::current().id());
	}
}
pub struct LifeProbeModulatorHandle {
	pub id: kira::modulator::ModulatorId,
	pub finished: Arc<std::sync::atomic::AtomicBool>,
	pub log: Log,
}
pub struct LifeProbeModulatorBuilder {
	pub value: f64,
}
impl kira::modulator::ModulatorBuilder for LifeProbeModulatorBuilder {
	type Handle = LifeProbeModulatorHandle;
	fn build(self, id: kira::modulator::ModulatorId) -> (Box<dyn kira::modulator::Modulator>, LifeProbeModulatorHandle) {
		let finished = Arc::new(std::sync::atomic::AtomicBool::new(false));
		let log = new_log();
		(
			Box::new(LifeProbeModulator {
				value: self.value,
				finished: finished.clone(),
				log: log.clone(),
			}),
			LifeProbeModulatorHandle { id, finished, log },
		)
	}
}

/// Runs the device callbacks on a dedicated thread (as a real backend does), so that "never on
/// the audio thread" can be observed: the `Renderer` is moved to that thread and handed back —
/// to be dropped by the caller — when the `CallbackThread` is stopped.
pub struct CallbackThread {
	tx: std::sync::mpsc::Sender<Option<(usize, u16)>>,
	rx: std::sync::mpsc::Receiver<Result<Vec<f32>, String>>,
	join: Option<std::thread::JoinHandle<Option<Renderer>>>,
	pub thread_id: std::thread::ThreadId,
}
impl CallbackThread {
	pub fn start(mut renderer: Renderer) -> Self {
		let (tx, rx_cmd) = std::sync::mpsc::channel::<Option<(usize, u16)>>();
		let (tx_res, rx) = std::sync::mpsc::channel();
		let join = std::thread::Builder::new()
			.name("probe-audio-callback".into())
			.spawn(move || {
				while let Ok(Some((frames, channels))) = rx_cmd.recv() {
					let r = std::panic::catch_unwind(std::panic::AssertUnwindSafe(|| {
						let mut out = vec![f32::from_bits(0x7fc0_1234); frames * channels as usize];
						renderer.on_start_processing();
						renderer.process(&mut out, channels);
						out
					}));
					match r {
						Ok(out) => {
							let _ = tx_res.send(Ok(out));
						}
						Err(_) => {
							let _ = tx_res.send(Err(crate::runner::last_panic()));
							// the renderer is in an unknown state: leak it rather than drop it here
							std::mem::forget(renderer);
							return None;
						}
					}
				}
				Some(renderer)
			})
			.unwrap();
		let thread_id = join.thread().id();
		Self {
			tx,
			rx,
			join: Some(join),
			thread_id,
		}
	}
	/// one callback (`on_start_processing` + `process`) on the callback thread
	pub fn callback(&mut self, frames: usize, channels: u16) -> Vec<f32> {
		self.tx.send(Some((frames, channels))).unwrap();
		match self.rx.recv().unwrap() {
			Ok(v) => v,
			Err(m) => panic!("{}", m),
		}
	}
	/// stops the thread and returns the renderer to the caller's thread
	pub fn stop(&mut self) -> Option<Renderer> {
		let _ = self.tx.send(None);
		self.join.take().and_then(|j| j.join().ok().flatten())
	}
}
impl Drop for CallbackThread {
	fn drop(&mut self) {
		let r = self.stop();
		drop(r);
	}
}

