//! Shared probe components for system-level suites (everything here uses kira's PUBLIC API):
//!  * `ProbeBackend`  — a `Backend` that keeps the `Renderer` so a suite can run callbacks of any
//!                      size / channel count and change the sample rate;
//!  * `manager(...)`  — an `AudioManager<ProbeBackend>` with given capacities / buffer size / rate;
//!  * `ProbeSound`    — a scripted `Sound` (index-coded or constant frames) that logs how it is called;
//!  * `ProbeEffect`   — an `Effect` that logs init / rate changes / slice lengths / dt and applies a
//!                      simple exactly-representable gain.
#![allow(dead_code)]

use kira::backend::{Backend, Renderer};
use kira::effect::{Effect, EffectBuilder};
use kira::info::Info;
use kira::sound::{Sound, SoundData};
use kira::track::MainTrackBuilder;
use kira::{AudioManager, AudioManagerSettings, Capacities, Frame};
use std::sync::{Arc, Mutex};

pub struct ProbeBackend {
	pub sample_rate: u32,
	pub renderer: Option<Renderer>,
}

pub struct ProbeBackendSettings {
	pub sample_rate: u32,
}

impl Backend for ProbeBackend {
	type Settings = ProbeBackendSettings;
	type Error = ();
	fn setup(settings: Self::Settings, _internal_buffer_size: usize) -> Result<(Self, u32), ()> {
		Ok((
			Self {
				sample_rate: settings.sample_rate,
				renderer: None,
			},
			settings.sample_rate,
		))
	}
	fn start(&mut self, renderer: Renderer) -> Result<(), ()> {
		self.renderer = Some(renderer);
		Ok(())
	}
}

impl ProbeBackend {
	/// One device callback: `on_start_processing` + `process` into `frames * channels` samples.
	pub fn callback(&mut self, frames: usize, channels: u16) -> Vec<f32> {
		let r = self.renderer.as_mut().expect("renderer not started");
		let mut out = vec![f32::from_bits(0x7fc0_1234); frames * channels as usize];
		r.on_start_processing();
		r.process(&mut out, channels);
		out
	}
	/// One device callback into a caller-provided buffer (no allocation in here).
	pub fn callback_into(&mut self, out: &mut [f32], channels: u16) {
		let r = self.renderer.as_mut().expect("renderer not started");
		r.on_start_processing();
		r.process(out, channels);
	}
	pub fn on_start_processing(&mut self) {
		self.renderer.as_mut().unwrap().on_start_processing();
	}
	pub fn process(&mut self, frames: usize, channels: u16) -> Vec<f32> {
		let r = self.renderer.as_mut().unwrap();
		let mut out = vec![f32::from_bits(0x7fc0_1234); frames * channels as usize];
		r.process(&mut out, channels);
		out
	}
	pub fn change_sample_rate(&mut self, sample_rate: u32) {
		self.sample_rate = sample_rate;
		self.renderer.as_mut().unwrap().on_change_sample_rate(sample_rate);
	}
}

pub fn manager(
	capacities: Capacities,
	internal_buffer_size: usize,
	sample_rate: u32,
	main_track_builder: MainTrackBuilder,
) -> AudioManager<ProbeBackend> {
	AudioManager::<ProbeBackend>::new(AudioManagerSettings {
		capacities,
		main_track_builder,
		internal_buffer_size,
		backend_settings: ProbeBackendSettings { sample_rate },
	})
	.unwrap()
}

// ---------------------------------------------------------------------------------------------
// probe sound
// ---------------------------------------------------------------------------------------------

#[derive(Default, Debug, Clone)]
pub struct ProbeLog {
	/// every `process` slice length, in order
	pub slices: Vec<usize>,
	/// every `dt` seen
	pub dts: Vec<f64>,
	pub on_start_processing: usize,
	pub init: Vec<(u32, usize)>,
	pub rate_changes: Vec<u32>,
	/// thread on which the component was dropped (None = still alive)
	pub dropped_on: Option<std::thread::ThreadId>,
}
pub type Log = Arc<Mutex<ProbeLog>>;
pub fn new_log() -> Log {
	Arc::new(Mutex::new(ProbeLog::default()))
}

/// What a probe sound emits for its k-th requested frame (k counts from 0 over its whole life).
#[derive(Clone, Copy, Debug)]
pub enum Signal {
	/// left = right = `base + k` (exactly representable while small)
	Index { base: f32 },
	/// constant frame
	Constant { left: f32, right: f32 },
}

pub struct ProbeSound {
	pub signal: Signal,
	/// the sound reports `finished()` after this many frames (None = never)
	pub length: Option<usize>,
	pub produced: usize,
	pub log: Log,
}

impl Sound for ProbeSound {
	fn on_start_processing(&mut self) {
		self.log.lock().unwrap().on_start_processing += 1;
	}
	fn process(&mut self, out: &mut [Frame], dt: f64, _info: &Info) {
		{
			let mut l = self.log.lock().unwrap();
			l.slices.push(out.len());
			l.dts.push(dt);
		}
		for f in out.iter_mut() {
			let live = self.length.map(|n| self.produced < n).unwrap_or(true);
			*f = if !live {
				Frame::ZERO
			} else {
				match self.signal {
					Signal::Index { base } => Frame::from_mono(base + self.produced as f32),
					Signal::Constant { left, right } => Frame::new(left, right),
				}
			};
			self.produced += 1;
		}
	}
	fn finished(&self) -> bool {
		self.length.map(|n| self.produced >= n).unwrap_or(false)
	}
}
impl Drop for ProbeSound {
	fn drop(&mut self) {
		self.log.lock().unwrap().dropped_on = Some(std::thread::current().id());
	}
}

pub struct ProbeSoundData {
	pub signal: Signal,
	pub length: Option<usize>,
	pub log: Log,
}
impl SoundData for ProbeSoundData {
	type Error = ();
	type Handle = Log;
	fn into_sound(self) -> Result<(Box<dyn Sound>, Log), ()> {
		let log = self.log.clone();
		Ok((
			Box::new(ProbeSound {
				signal: self.signal,
				length: self.length,
				produced: 0,
				log: self.log,
			}),
			log,
		))
	}
}

// ---------------------------------------------------------------------------------------------
// probe effect
// ---------------------------------------------------------------------------------------------

/// Multiplies by `gain` and adds `offset` to both channels (choose exactly representable values),
/// logging how it is driven. A stateful variant (`feedback`) adds `feedback * previous output`.
pub struct ProbeEffect {
	pub gain: f32,
	pub offset: f32,
	pub feedback: f32,
	pub prev: Frame,
	pub log: Log,
}
impl Effect for ProbeEffect {
	fn init(&mut self, sample_rate: u32, internal_buffer_size: usize) {
		self.log.lock().unwrap().init.push((sample_rate, internal_buffer_size));
	}
	fn on_change_sample_rate(&mut self, sample_rate: u32) {
		self.log.lock().unwrap().rate_changes.push(sample_rate);
	}
	fn on_start_processing(&mut self) {
		self.log.lock().unwrap().on_start_processing += 1;
	}
	fn process(&mut self, input: &mut [Frame], dt: f64, _info: &Info) {
		{
			let mut l = self.log.lock().unwrap();
			l.slices.push(input.len());
			l.dts.push(dt);
		}
		for f in input.iter_mut() {
			let o = Frame::new(
				f.left * self.gain + self.offset + self.prev.left * self.feedback,
				f.right * self.gain + self.offset + self.prev.right * self.feedback,
			);
			self.prev = o;
			*f = o;
		}
	}
}
impl Drop for ProbeEffect {
	fn drop(&mut self) {
		self.log.lock().unwrap().dropped_on = Some(std::thread::current().id());
	}
}
pub struct ProbeEffectBuilder {
	pub gain: f32,
	pub offset: f32,
	pub feedback: f32,
	pub log: Log,
}
impl EffectBuilder for ProbeEffectBuilder {
	type Handle = Log;
	fn build(self) -> (Box<dyn Effect>, Log) {
		let log = self.log.clone();
		(
			Box::new(ProbeEffect {
				gain: self.gain,
				offset: self.offset,
				feedback: self.feedback,
				prev: Frame::ZERO,
				log: self.log,
			}),
			log,
		)
	}
}
