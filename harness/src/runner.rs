//! Case runner: splits an ops file into cases, runs each case against the real code under
//! `catch_unwind` (and an optional watchdog), and produces exactly one trace line per op line.
//! Lines starting with `!oracle` are implementation-side oracle failures (not diffed).

use std::panic::{catch_unwind, AssertUnwindSafe};
use std::sync::mpsc;
use std::time::Duration;

pub struct Out {
	pub lines: Vec<String>,
	pub oracle: Vec<String>,
	/// watchdog mode: every line is also sent here, so that the lines produced before a hang survive
	tap: Option<mpsc::Sender<(bool, String)>>,
}
impl Out {
	pub fn new() -> Self {
		Self {
			lines: vec![],
			oracle: vec![],
			tap: None,
		}
	}
	pub fn put(&mut self, s: impl Into<String>) {
		let s = s.into();
		if let Some(t) = &self.tap {
			let _ = t.send((false, s.clone()));
		}
		self.lines.push(s);
	}
	pub fn oracle_fail(&mut self, name: &str, detail: impl std::fmt::Display) {
		let s = format!("!oracle {} {}", name, detail);
		if let Some(t) = &self.tap {
			let _ = t.send((true, s.clone()));
		}
		self.oracle.push(s);
	}
}

thread_local! {
	static LAST_PANIC: std::cell::RefCell<String> = std::cell::RefCell::new(String::new());
}

pub fn install_panic_hook() {
	std::panic::set_hook(Box::new(|info| {
		let msg = if let Some(s) = info.payload().downcast_ref::<&str>() {
			s.to_string()
		} else if let Some(s) = info.payload().downcast_ref::<String>() {
			s.clone()
		} else {
			"?".to_string()
		};
		let loc = info
			.location()
			.map(|l| format!("{}", l.file()))
			.unwrap_or_default();
		LAST_PANIC.with(|p| *p.borrow_mut() = format!("{} @ {}", msg, loc));
	}));
}

pub fn last_panic() -> String {
	LAST_PANIC.with(|p| p.borrow().clone())
}

/// Map a panic message to the model's `Fault` enumeration.
pub fn classify(msg: &str) -> &'static str {
	if msg.contains("subtract with overflow") {
		"overflow"
	} else if msg.contains("add with overflow") || msg.contains("multiply with overflow") {
		"overflow"
	} else if msg.contains("index out of bounds") || msg.contains("out of range for slice") {
		"indexOOB"
	} else if msg.contains("chunk size must be non-zero") || msg.contains("chunk_size must be non-zero")
	{
		"zeroChunk"
	} else if msg.contains("min > max") || msg.contains("min <= max") {
		"clampMinGtMax"
	} else if msg.contains("producer") && msg.contains("full") {
		"queueFull"
	} else {
		"panic"
	}
}

/// Split ops into cases (a case starts at a `case …` line).
pub fn split_cases(ops: &[String]) -> Vec<Vec<String>> {
	let mut cases: Vec<Vec<String>> = vec![];
	for l in ops {
		let l = l.trim();
		if l.is_empty() || l.starts_with('#') {
			continue;
		}
		if l.starts_with("case") || cases.is_empty() {
			cases.push(vec![]);
		}
		cases.last_mut().unwrap().push(l.to_string());
	}
	cases
}

/// Run every case with `f(case_lines, out)`; `f` must push one line per op line.
/// A panic in op j yields `fault <kind>` for op j and `dead` for the rest of the case.
pub fn run_cases<F>(ops: &[String], watchdog: Option<Duration>, f: F) -> Vec<String>
where
	F: Fn(&[String], &mut Out) + Send + Sync + Clone + 'static,
{
	let mut all = vec![];
	for case in split_cases(ops) {
		let n = case.len();
		let (lines, oracle, fault): (Vec<String>, Vec<String>, Option<String>) = match watchdog {
			None => run_one(&case, &f),
			Some(limit) => {
				let (tx, rx) = mpsc::channel();
				let (tap_tx, tap_rx) = mpsc::channel();
				let case2 = case.clone();
				let f2 = f.clone();
				std::thread::Builder::new()
					.stack_size(64 << 20)
					.spawn(move || {
						let r = run_one_tapped(&case2, &f2, Some(tap_tx));
						let _ = tx.send(r);
					})
					.unwrap();
				match rx.recv_timeout(limit) {
					Ok(r) => r,
					Err(_) => {
						// the case thread is stuck (it is leaked): keep what it produced so far
						let mut lines = vec![];
						let mut oracle = vec![];
						for (is_oracle, l) in tap_rx.try_iter() {
							if is_oracle {
								oracle.push(l)
							} else {
								lines.push(l)
							}
						}
						(lines, oracle, Some("hang".to_string()))
					}
				}
			}
		};
		let mut lines = lines;
		lines.truncate(n);
		let got = lines.len();
		all.extend(lines);
		if let Some(kind) = fault {
			if got < n {
				all.push(format!("fault {}", kind));
				for _ in got + 1..n {
					all.push("dead".to_string());
				}
			}
		} else {
			for _ in got..n {
				all.push("missing".to_string());
			}
		}
		all.extend(oracle);
	}
	all
}

fn run_one<F>(case: &[String], f: &F) -> (Vec<String>, Vec<String>, Option<String>)
where
	F: Fn(&[String], &mut Out),
{
	run_one_tapped(case, f, None)
}

fn run_one_tapped<F>(
	case: &[String],
	f: &F,
	tap: Option<mpsc::Sender<(bool, String)>>,
) -> (Vec<String>, Vec<String>, Option<String>)
where
	F: Fn(&[String], &mut Out),
{
	let mut out = Out::new();
	out.tap = tap;
	let r = catch_unwind(AssertUnwindSafe(|| f(case, &mut out)));
	match r {
		Ok(()) => (out.lines, out.oracle, None),
		Err(_) => {
			let msg = last_panic();
			(out.lines, out.oracle, Some(classify(&msg).to_string()))
		}
	}
}
