//! Case runner: splits an ops file into cases, runs each case against the real code under
//! `catch_unwind` (and an optional watchdog), and produces exactly one trace line per op line.
//! Lines starting with `!oracle` are implementation-side oracle failures (not diffed).

use std::panic::{catch_unwind, AssertUnwindSafe};
use std::sync::mpsc;
use std::time::Duration;

pub enum Msg {
	Line(String),
	Oracle(String),
	Done(Option<String>),
}

pub struct Out {
	pub lines: Vec<String>,
	pub oracle: Vec<String>,
	/// in watchdog mode every line is also streamed to the supervising thread as it is produced
	tx: Option<mpsc::Sender<Msg>>,
}
impl Out {
	pub fn new() -> Self {
		Self {
			lines: vec![],
			oracle: vec![],
			tx: None,
		}
	}
	pub fn put(&mut self, s: impl Into<String>) {
		let s = s.into();
		if let Some(tx) = &self.tx {
			let _ = tx.send(Msg::Line(s.clone()));
		}
		self.lines.push(s);
	}
	pub fn oracle_fail(&mut self, name: &str, detail: impl std::fmt::Display) {
		// `@n`: number of trace lines of this case emitted so far (locates the op for the replay prefix)
		let s = format!("!oracle {} {} @{}", name, detail, self.lines.len());
		if let Some(tx) = &self.tx {
			let _ = tx.send(Msg::Oracle(s.clone()));
		}
		self.oracle.push(s);
	}
}

thread_local! {
	static LAST_PANIC: std::cell::RefCell<String> = std::cell::RefCell::new(String::new());
}

pub fn install_panic_hook() {
	std::panic::set_hook(Box::new(|info| {
		let msg = if let Some(s) = info.payload().downcast_ref::<&str>() {
			s.to_string()
		} else if let Some(s) = info.payload().downcast_ref::<String>() {
			s.clone()
		} else {
			"?".to_string()
		};
		let loc = info
			.location()
			.map(|l| format!("{}", l.file()))
			.unwrap_or_default();
		if std::env::var("KV_PANIC_TRACE").is_ok() {
			// triage aid: where did the real code (or the harness) panic
			eprintln!("#PANIC {} @ {:?}", msg, info.location());
		}
		LAST_PANIC.with(|p| *p.borrow_mut() = format!("{} @ {}", msg, loc));
	}));
}

pub fn last_panic() -> String {
	LAST_PANIC.with(|p| p.borrow().clone())
}

/// Map a panic message to the model's `Fault` enumeration.
pub fn classify(msg: &str) -> &'static str {
	if msg.contains("subtract with overflow") {
		"overflow"
	} else if msg.contains("add with overflow") || msg.contains("multiply with overflow") {
		"overflow"
	} else if msg.contains("index out of bounds") || msg.contains("out of range for slice") {
		"indexOOB"
	} else if msg.contains("chunk size must be non-zero") || msg.contains("chunk_size must be non-zero")
	{
		"zeroChunk"
	} else if msg.contains("min > max") || msg.contains("min <= max") {
		"clampMinGtMax"
	} else if msg.contains("producer") && msg.contains("full") {
		"queueFull"
	} else {
		"panic"
	}
}

/// Split ops into cases (a case starts at a `case …` line).
pub fn split_cases(ops: &[String]) -> Vec<Vec<String>> {
	let mut cases: Vec<Vec<String>> = vec![];
	for l in ops {
		let l = l.trim();
		if l.is_empty() || l.starts_with('#') {
			continue;
		}
		if l.starts_with("case") || cases.is_empty() {
			cases.push(vec![]);
		}
		cases.last_mut().unwrap().push(l.to_string());
	}
	cases
}

/// Run every case with `f(case_lines, out)`; `f` must push one line per op line.
/// A panic in op j yields `fault <kind>` for op j and `dead` for the rest of the case.
pub fn run_cases<F>(ops: &[String], watchdog: Option<Duration>, f: F) -> Vec<String>
where
	F: Fn(&[String], &mut Out) + Send + Sync + Clone + 'static,
{
	let mut all = vec![];
	for case in split_cases(ops) {
		let n = case.len();
		let (lines, oracle, fault): (Vec<String>, Vec<String>, Option<String>) = match watchdog {
			None => run_one(&case, &f),
			Some(limit) => {
				// the watchdog limit applies to the time between two trace lines (i.e. per op)
				let (tx, rx) = mpsc::channel();
				let case2 = case.clone();
				let f2 = f.clone();
				std::thread::Builder::new()
					.stack_size(64 << 20)
					.spawn(move || {
						let mut out = Out::new();
						out.tx = Some(tx.clone());
						let r = catch_unwind(AssertUnwindSafe(|| f2(&case2, &mut out)));
						let fault = match r {
							Ok(()) => None,
							Err(_) => Some(classify(&last_panic()).to_string()),
						};
						let _ = tx.send(Msg::Done(fault));
					})
					.unwrap();
				let mut lines = vec![];
				let mut oracle = vec![];
				let fault;
				loop {
					match rx.recv_timeout(limit) {
						Ok(Msg::Line(l)) => lines.push(l),
						Ok(Msg::Oracle(o)) => oracle.push(o),
						Ok(Msg::Done(f)) => {
							fault = f;
							break;
						}
						Err(_) => {
							fault = Some("hang".to_string());
							break;
						}
					}
				}
				(lines, oracle, fault)
			}
		};
		let mut lines = lines;
		lines.truncate(n);
		let got = lines.len();
		all.extend(lines);
		if let Some(kind) = fault {
			if got < n {
				all.push(format!("fault {}", kind));
				for _ in got + 1..n {
					all.push("dead".to_string());
				}
			}
		} else {
			for _ in got..n {
				all.push("missing".to_string());
			}
		}
		all.extend(oracle);
	}
	all
}

fn run_one<F>(case: &[String], f: &F) -> (Vec<String>, Vec<String>, Option<String>)
where
	F: Fn(&[String], &mut Out),
{
	let mut out = Out::new();
	let r = catch_unwind(AssertUnwindSafe(|| f(case, &mut out)));
	match r {
		Ok(()) => (out.lines, out.oracle, None),
		Err(_) => {
			let msg = last_panic();
			(out.lines, out.oracle, Some(classify(&msg).to_string()))
		}
	}
}
