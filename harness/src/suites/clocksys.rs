//! Suite `clocksys` (C05): clocks, tweener modulators and clock-started static sounds through the
//! PUBLIC API (`AudioManager<ProbeBackend>`), with a spy `Sound` that records, in every internal
//! chunk, what the mixer pass can see of every clock and modulator (`Info::clock_info`,
//! `Info::modulator_value`).
//!
//! ops:  mgr <ibs> <sr>
//!       clock <value>            tweener <initial>                 — resources get ids 0,1,2,… in creation order
//!       c.start|c.pause|c.stop|c.drop|c.time <id>     c.speed <id> <value> <tween>
//!       t.set <id> <target> <tween>     t.drop <id>
//!       play <start>              — a constant static sound (amplitude 2^-(j+1) for the j-th sound)
//!       qplay                     — a SILENT looping static sound on the main track (its life cycle is what is observed)
//!       q.pause <j> <tween>       q.resume <j> <start> <tween>     — `pause` / `resume` / `resume_at` of its handle → state
//!       track                     — an empty sub-track of the main track
//!       k.pause <t> <tween>       k.resume <t> <start> <tween>     — the same for the track's handle → state
//!       cb <frames>               — one device callback (on_start_processing + process)
//! start: imm | del:<ns> | clk:<id>:<ticks>:<frac>      (ids are resource ids)
//! `cb` trace: `{per chunk: what the spy saw} … | handle.time of every clock | status of every sound`
//!             (+ ` | q<handle.state() of every silent sound> | k<handle.state() of every track>` when there are any)
use crate::probe::{self, ProbeBackend};
use crate::runner::{run_cases, Out};
use crate::suites::param::Ty;
use crate::suites::units::parse_easing;
use crate::util::*;
use kira::clock::{ClockHandle, ClockId, ClockSpeed, ClockTime};
use kira::info::{ClockInfo, Info};
use kira::modulator::tweener::{TweenerBuilder, TweenerHandle};
use kira::modulator::ModulatorId;
use kira::sound::static_sound::{StaticSoundData, StaticSoundHandle, StaticSoundSettings};
use kira::sound::{PlaybackState, Sound, SoundData};
use kira::track::{MainTrackBuilder, TrackBuilder, TrackHandle, TrackPlaybackState};
use kira::{AudioManager, Capacities, Frame, StartTime, Tween, Value};
use std::sync::{Arc, Mutex};
use std::time::Duration;

const SOUND_LEN: usize = 4096;
const MAX_SOUNDS: usize = 8;
/// frames between the chunk in which a static sound starts and its first non-zero output
/// (none: `StaticSound::new` pre-fills the resampler with 3 frames)
const LATENCY: u64 = 0;

#[derive(Clone, Copy)]
enum Watch {
	Clock(ClockId),
	Mod(ModulatorId),
}
#[derive(Clone, Copy, Debug)]
enum Item {
	Clock(Option<ClockInfo>),
	Mod(Option<f64>),
}
#[derive(Default)]
struct SpyShared {
	watch: Vec<Watch>,
	records: Vec<Vec<Item>>,
}
struct SpySound(Arc<Mutex<SpyShared>>);
impl Sound for SpySound {
	fn process(&mut self, out: &mut [Frame], _dt: f64, info: &Info) {
		let mut s = self.0.lock().unwrap();
		let rec: Vec<Item> = s
			.watch
			.iter()
			.map(|w| match w {
				Watch::Clock(id) => Item::Clock(info.clock_info(*id)),
				Watch::Mod(id) => Item::Mod(info.modulator_value(*id)),
			})
			.collect();
		s.records.push(rec);
		out.fill(Frame::ZERO);
	}
	fn finished(&self) -> bool {
		false
	}
}
struct SpyData(Arc<Mutex<SpyShared>>);
impl SoundData for SpyData {
	type Error = ();
	type Handle = ();
	fn into_sound(self) -> Result<(Box<dyn Sound>, ()), ()> {
		Ok((Box::new(SpySound(self.0)), ()))
	}
}

enum Res {
	Clock {
		handle: Option<ClockHandle>,
		id: ClockId,
		/// fixed speed at creation, in ticks per second
		tps0: Option<f64>,
		/// chunk index from which `start` is in effect (only the first start)
		start_chunk: Option<usize>,
		/// number of start/pause/stop/speed/drop calls
		n_start: u32,
		n_disturb: u32,
		n_speed: u32,
		/// the speed values given so far (creation value first)
		speeds: Vec<String>,
	},
	Tweener {
		handle: Option<TweenerHandle>,
		id: ModulatorId,
		initial: f64,
		n_set: u32,
		dropped: bool,
	},
}

struct ChunkRec {
	start_frame: u64,
	len: usize,
	items: Vec<Item>,
}

struct SoundRec {
	handle: StaticSoundHandle,
	start: StartSpec,
	/// chunks recorded when `play` was called = first chunk that processes the sound
	play_chunk: usize,
	first_seen: Option<u64>,
	line: String,
}
#[derive(Clone, Copy)]
enum StartSpec {
	Imm,
	Del,
	Clk(usize, u64, f64),
}
struct TweenRec {
	/// tweener resource id, or clock id whose speed is tweened
	target_res: usize,
	on_clock: usize,
	ticks: u64,
	frac: f64,
	set_chunk: usize,
	/// modulators: value before; clock speeds: new ticks per second
	v0: f64,
	v1: f64,
	ok_premise: bool,
	line: String,
}

/// what the harness follows of a silent sound (`sound = true`) or an empty sub-track: the clock time its
/// life cycle waits for after a `resume_at(ClockTime)` that the audio thread has read
struct LifeRec {
	sound: Option<StaticSoundHandle>,
	track: Option<TrackHandle>,
	/// commands written since the last callback (read by the next one: pause first, then resume)
	cmd_pause: bool,
	cmd_resume: Option<StartSpec>,
	/// waiting to resume at (clock resource, ticks, fraction)
	wait: Option<(usize, u64, f64)>,
	/// sounds: the callback count at which the handle first reported Stopped
	stopped_at_cb: Option<u64>,
}
impl LifeRec {
	fn state(&self) -> u8 {
		match (&self.sound, &self.track) {
			(Some(h), _) => crate::suites::psm::state_num(h.state()),
			(_, Some(h)) => match h.state() {
				TrackPlaybackState::Playing => 0,
				TrackPlaybackState::Pausing => 1,
				TrackPlaybackState::Paused => 2,
				TrackPlaybackState::WaitingToResume => 3,
				TrackPlaybackState::Resuming => 4,
			},
			_ => 9,
		}
	}
}

fn res_clock_id(res: &[Res], i: usize) -> ClockId {
	match &res[i] {
		Res::Clock { id, .. } => *id,
		_ => panic!("resource {} is not a clock", i),
	}
}

fn parse_start(s: &str, res: &[Res]) -> (StartTime, StartSpec) {
	if s == "imm" {
		return (StartTime::Immediate, StartSpec::Imm);
	}
	let p: Vec<&str> = s.split(':').collect();
	match p[0] {
		"del" => (StartTime::Delayed(Duration::from_nanos(pu(p[1]))), StartSpec::Del),
		"clk" => {
			let i = pu(p[1]) as usize;
			(
				StartTime::ClockTime(ClockTime {
					clock: res_clock_id(res, i),
					ticks: pu(p[2]),
					fraction: p64(p[3]),
				}),
				StartSpec::Clk(i, pu(p[2]), p64(p[3])),
			)
		}
		_ => panic!("bad start time {}", s),
	}
}
fn parse_tween(s: &str, res: &[Res]) -> (Tween, StartSpec, u64, String) {
	let p: Vec<&str> = s.split(';').collect();
	let (st, spec) = parse_start(p[0], res);
	(
		Tween {
			start_time: st,
			duration: Duration::from_nanos(pu(p[1])),
			easing: parse_easing(p[2]),
		},
		spec,
		pu(p[1]),
		p[2].to_string(),
	)
}
fn parse_cs_value(s: &str) -> Value<ClockSpeed> {
	let (k, rest) = s.split_once(':').unwrap();
	assert_eq!(k, "fix");
	Value::Fixed(<ClockSpeed as Ty>::parse(rest))
}

fn show_handle(h: &ClockHandle) -> String {
	let t = h.time();
	format!("{}:{}:{}", t.ticks, h64(t.fraction), h.ticking() as u8)
}

fn ready(it: &Item, ticks: u64, frac: f64) -> bool {
	match it {
		Item::Clock(Some(ci)) => {
			ci.ticking && (ci.time.ticks > ticks || (ci.time.ticks == ticks && ci.time.fraction >= frac))
		}
		_ => false,
	}
}
fn clock_val(it: &Item) -> Option<f64> {
	match it {
		Item::Clock(Some(ci)) => Some(ci.time.ticks as f64 + ci.time.fraction),
		_ => None,
	}
}

struct Sys {
	mgr: AudioManager<ProbeBackend>,
	sr: u32,
	spy: Arc<Mutex<SpyShared>>,
	res: Vec<Res>,
	chunks: Vec<ChunkRec>,
	sounds: Vec<SoundRec>,
	tweens: Vec<TweenRec>,
	frame: u64,
	ibs: usize,
	/// silent sounds (`qplay`) and empty sub-tracks (`track`)
	qsounds: Vec<LifeRec>,
	tracks: Vec<LifeRec>,
	/// sounds ever played on the main track (the spy included), callbacks so far
	main_added: usize,
	ncb: u64,
}

impl Sys {
	fn clock_handle(&mut self, i: usize) -> &mut ClockHandle {
		match &mut self.res[i] {
			Res::Clock { handle, .. } => handle.as_mut().expect("clock handle dropped"),
			_ => panic!("resource {} is not a clock", i),
		}
	}
	fn disturb(&mut self, i: usize) {
		if let Res::Clock { n_disturb, .. } = &mut self.res[i] {
			*n_disturb += 1;
		}
	}
}

fn exec(case: &[String], out: &mut Out) {
	out.put(case[0].clone());
	let mut sys: Option<Sys> = None;
	for l in &case[1..] {
		let tok: Vec<&str> = l.split_whitespace().collect();
		if tok[0] == "replay" {
			let sub = decode_replay(l);
			let mut o2 = Out::new();
			exec(&sub, &mut o2);
			out.put(o2.lines.last().cloned().unwrap_or_default());
			out.oracle.extend(o2.oracle);
			continue;
		}
		if tok[0] == "mgr" {
			let ibs = pu(tok[1]) as usize;
			let sr = pu(tok[2]) as u32;
			let mut mgr = probe::manager(
				Capacities {
					clock_capacity: 16,
					modulator_capacity: 16,
					..Default::default()
				},
				ibs,
				sr,
				MainTrackBuilder::new(),
			);
			let spy = Arc::new(Mutex::new(SpyShared::default()));
			mgr.play(SpyData(spy.clone())).unwrap();
			sys = Some(Sys {
				mgr,
				sr,
				spy,
				res: vec![],
				chunks: vec![],
				sounds: vec![],
				tweens: vec![],
				frame: 0,
				ibs,
				qsounds: vec![],
				tracks: vec![],
				main_added: 1,
				ncb: 0,
			});
			out.put("ok");
			continue;
		}
		let s = sys.as_mut().expect("no manager");
		match tok[0] {
			"clock" => {
				let v = parse_cs_value(tok[1]);
				let tps0 = match v {
					Value::Fixed(c) => Some(c.as_ticks_per_second()),
					_ => None,
				};
				let h = s.mgr.add_clock(v).unwrap();
				let id = h.id();
				s.spy.lock().unwrap().watch.push(Watch::Clock(id));
				s.res.push(Res::Clock {
					handle: Some(h),
					id,
					tps0,
					start_chunk: None,
					n_start: 0,
					n_disturb: 0,
					n_speed: 0,
					speeds: vec![tok[1].to_string()],
				});
				out.put("ok");
			}
			"tweener" => {
				let v = p64(tok[1]);
				let h = s.mgr.add_modulator(TweenerBuilder { initial_value: v }).unwrap();
				let id = h.id();
				s.spy.lock().unwrap().watch.push(Watch::Mod(id));
				s.res.push(Res::Tweener {
					handle: Some(h),
					id,
					initial: v,
					n_set: 0,
					dropped: false,
				});
				out.put("ok");
			}
			"c.start" => {
				let i = pu(tok[1]) as usize;
				let nchunks = s.chunks.len();
				if let Res::Clock { n_start, start_chunk, .. } = &mut s.res[i] {
					*n_start += 1;
					if start_chunk.is_none() {
						*start_chunk = Some(nchunks);
					}
				}
				let h = s.clock_handle(i);
				h.start();
				out.put(show_handle(h));
			}
			"c.pause" => {
				let i = pu(tok[1]) as usize;
				s.disturb(i);
				let h = s.clock_handle(i);
				h.pause();
				out.put(show_handle(h));
			}
			"c.stop" => {
				let i = pu(tok[1]) as usize;
				s.disturb(i);
				let h = s.clock_handle(i);
				h.stop();
				let t = h.time();
				if t.ticks != 0 || t.fraction.to_bits() != 0 {
					out.oracle_fail("stop_reads_zero", l);
				}
				out.put(show_handle(h));
			}
			"c.drop" => {
				let i = pu(tok[1]) as usize;
				s.disturb(i);
				if let Res::Clock { handle, .. } = &mut s.res[i] {
					*handle = None;
				}
				out.put("ok");
			}
			"c.time" => {
				let i = pu(tok[1]) as usize;
				let h = s.clock_handle(i);
				out.put(show_handle(h));
			}
			"c.speed" => {
				let i = pu(tok[1]) as usize;
				let v = parse_cs_value(tok[2]);
				let (tw, spec, dur, easing) = parse_tween(tok[3], &s.res);
				let (simple, tps0) = match &mut s.res[i] {
					Res::Clock { n_speed, n_disturb, n_start, tps0, speeds, .. } => {
						*n_speed += 1;
						speeds.push(tok[2].to_string());
						(*n_speed == 1 && *n_disturb == 0 && *n_start == 1, *tps0)
					}
					_ => panic!(),
				};
				if let (StartSpec::Clk(c, ticks, frac), Value::Fixed(cs), Some(v0)) = (spec, v, tps0) {
					let v1 = cs.as_ticks_per_second();
					s.tweens.push(TweenRec {
						target_res: i,
						on_clock: c,
						ticks,
						frac,
						set_chunk: s.chunks.len(),
						v0,
						v1,
						ok_premise: simple && dur == 0 && easing == "lin" && (v1 >= 4.0 * v0) && v1 > 0.0,
						line: l.clone(),
					});
				}
				let h = s.clock_handle(i);
				h.set_speed(v, tw);
				out.put(show_handle(h));
			}
			"t.set" => {
				let i = pu(tok[1]) as usize;
				let target = p64(tok[2]);
				let (tw, spec, _dur, easing) = parse_tween(tok[3], &s.res);
				let last_val = s.chunks.last().and_then(|c| match c.items.get(i) {
					Some(Item::Mod(Some(v))) => Some(*v),
					_ => None,
				});
				let nchunks = s.chunks.len();
				if let Res::Tweener { handle, n_set, initial, .. } = &mut s.res[i] {
					*n_set += 1;
					let v0 = last_val.unwrap_or(*initial);
					if let StartSpec::Clk(c, ticks, frac) = spec {
						s.tweens.push(TweenRec {
							target_res: i,
							on_clock: c,
							ticks,
							frac,
							set_chunk: nchunks,
							v0,
							v1: target,
							ok_premise: *n_set == 1 && easing == "lin" && (target - v0).abs() >= 0.5,
							line: l.clone(),
						});
					}
					handle.as_mut().unwrap().set(target, tw);
				} else {
					panic!("resource {} is not a tweener", i);
				}
				out.put("ok");
			}
			"t.drop" => {
				let i = pu(tok[1]) as usize;
				if let Res::Tweener { handle, dropped, .. } = &mut s.res[i] {
					*handle = None;
					*dropped = true;
				}
				out.put("ok");
			}
			"play" => {
				let j = s.sounds.len();
				assert!(j < MAX_SOUNDS);
				let (st, spec) = parse_start(tok[1], &s.res);
				let amp = 0.5f32.powi(j as i32 + 1);
				let data = StaticSoundData {
					sample_rate: s.sr,
					frames: (0..SOUND_LEN).map(|_| Frame::from_mono(amp)).collect(),
					settings: StaticSoundSettings::new().start_time(st),
					slice: None,
				};
				let handle = s.mgr.play(data).unwrap();
				s.main_added += 1;
				s.sounds.push(SoundRec {
					handle,
					start: spec,
					play_chunk: s.chunks.len(),
					first_seen: None,
					line: l.clone(),
				});
				out.put("ok");
			}
			"qplay" => {
				let data = StaticSoundData {
					sample_rate: s.sr,
					frames: (0..4).map(|_| Frame::ZERO).collect(),
					settings: StaticSoundSettings::new().loop_region(..),
					slice: None,
				};
				let handle = s.mgr.play(data).unwrap();
				s.main_added += 1;
				s.qsounds.push(LifeRec {
					sound: Some(handle),
					track: None,
					cmd_pause: false,
					cmd_resume: None,
					wait: None,
					stopped_at_cb: None,
				});
				out.put("ok");
			}
			"track" => {
				let handle = s.mgr.add_sub_track(TrackBuilder::new()).unwrap();
				s.tracks.push(LifeRec {
					sound: None,
					track: Some(handle),
					cmd_pause: false,
					cmd_resume: None,
					wait: None,
					stopped_at_cb: None,
				});
				out.put("ok");
			}
			"q.pause" | "k.pause" | "q.resume" | "k.resume" => {
				let j = pu(tok[1]) as usize;
				let pause = tok[0].ends_with("pause");
				let (st, spec) = if pause { (StartTime::Immediate, StartSpec::Imm) } else { parse_start(tok[2], &s.res) };
				let (tw, _, _, _) = parse_tween(tok[if pause { 2 } else { 3 }], &s.res);
				let rec = if tok[0].starts_with('q') { &mut s.qsounds[j] } else { &mut s.tracks[j] };
				match (&mut rec.sound, &mut rec.track) {
					(Some(h), _) => {
						if pause {
							h.pause(tw)
						} else if st == StartTime::Immediate {
							h.resume(tw)
						} else {
							h.resume_at(st, tw)
						}
					}
					(_, Some(h)) => {
						if pause {
							h.pause(tw)
						} else if st == StartTime::Immediate {
							h.resume(tw)
						} else {
							h.resume_at(st, tw)
						}
					}
					_ => {}
				}
				if pause {
					rec.cmd_pause = true;
				} else {
					rec.cmd_resume = Some(spec);
				}
				out.put(format!("{}", rec.state()));
			}
			"cb" => {
				let frames = pu(tok[1]) as usize;
				let nrec0 = s.spy.lock().unwrap().records.len();
				// the commands this callback's on_start_processing reads (a sound that is Stopped has been, or is
				// now, unloaded and reads nothing): pause first, then resume; `resume_at(ClockTime)` leaves the life
				// cycle waiting for that clock time
				for rec in s.qsounds.iter_mut().chain(s.tracks.iter_mut()) {
					if rec.cmd_pause || rec.cmd_resume.is_some() {
						rec.wait = None;
						if let Some(StartSpec::Clk(c, ticks, frac)) = rec.cmd_resume {
							if rec.state() != 6 {
								rec.wait = Some((c, ticks, frac));
							}
						}
						rec.cmd_pause = false;
						rec.cmd_resume = None;
					}
				}
				let audio = s.mgr.backend_mut().callback(frames, 2);
				let recs: Vec<Vec<Item>> = s.spy.lock().unwrap().records[nrec0..].to_vec();
				// chunk boundaries as the renderer makes them
				let mut sizes = vec![];
				let mut left = frames;
				while left > 0 {
					let n = left.min(s.ibs);
					sizes.push(n);
					left -= n;
				}
				if sizes.len() != recs.len() {
					out.oracle_fail("spy_sees_every_chunk", l);
				}
				let mut spy_lines = vec![];
				let mut f = s.frame;
				for (k, items) in recs.iter().enumerate() {
					let txt: Vec<String> = items
						.iter()
						.map(|it| match it {
							Item::Clock(None) | Item::Mod(None) => "N".to_string(),
							Item::Clock(Some(ci)) => {
								format!("T{}:{}:{}", ci.ticking as u8, ci.time.ticks, h64(ci.time.fraction))
							}
							Item::Mod(Some(v)) => format!("V{}", h64(*v)),
						})
						.collect();
					spy_lines.push(format!("{{{}}}", txt.join(",")));
					let len = *sizes.get(k).unwrap_or(&0);
					s.chunks.push(ChunkRec {
						start_frame: f,
						len,
						items: items.clone(),
					});
					f += len as u64;
				}
				// which sounds are audible in which frame
				for i in 0..frames {
					let v = audio[2 * i] as f64;
					for (j, snd) in s.sounds.iter_mut().enumerate() {
						if snd.first_seen.is_none() {
							let scaled = v * 2f64.powi(j as i32 + 1);
							if (scaled.floor() as u64) & 1 == 1 {
								snd.first_seen = Some(s.frame + i as u64);
							}
						}
					}
				}
				s.frame += frames as u64;
				s.ncb += 1;
				// --- C05: "anything scheduled for a clock time - … a resume - … is cancelled if the clock no longer
				// exists": a sound waiting to resume becomes Stopped (and is unloaded by the next callback), a track
				// stays paused; while the clock exists the resume fires in the chunk in which the clock reaches the time
				let ncb = s.ncb;
				for (is_sound, rec) in s.qsounds.iter_mut().map(|r| (true, r)).chain(s.tracks.iter_mut().map(|r| (false, r))) {
					if let Some((c, ticks, frac)) = rec.wait {
						let mut outcome = None;
						for items in &recs {
							match items.get(c) {
								Some(Item::Clock(None)) | None => {
									outcome = Some(false);
									break;
								}
								Some(it) => {
									if ready(it, ticks, frac) {
										outcome = Some(true);
										break;
									}
								}
							}
						}
						let st = rec.state();
						match outcome {
							Some(false) => {
								rec.wait = None;
								if st != if is_sound { 6 } else { 2 } {
									out.oracle_fail("missing_clock_cancels_resume", l);
								}
							}
							Some(true) => {
								rec.wait = None;
								if !(st == 4 || st == 0) {
									out.oracle_fail("resume_at_clock_time_fires", l);
								}
							}
							None => {
								if st != 3 {
									out.oracle_fail("resume_waits_for_clock_time", l);
								}
							}
						}
					}
					if is_sound && rec.state() == 6 && rec.stopped_at_cb.is_none() {
						rec.stopped_at_cb = Some(ncb);
					}
				}
				// … "and unloaded": every silent sound that was Stopped before this callback began is off the main track
				let gone = s.qsounds.iter().filter(|r| r.stopped_at_cb.map(|k| k < ncb).unwrap_or(false)).count();
				if s.mgr.main_track().num_sounds() + gone > s.main_added {
					out.oracle_fail("cancelled_sound_not_unloaded", l);
				}
				let handles: Vec<String> = s
					.res
					.iter()
					.filter_map(|r| match r {
						Res::Clock { handle: Some(h), .. } => Some(show_handle(h)),
						Res::Clock { handle: None, .. } => Some("D".to_string()),
						_ => None,
					})
					.collect();
				let sounds: Vec<String> = s
					.sounds
					.iter()
					.map(|snd| match snd.first_seen {
						Some(f) => format!("S{}", f.saturating_sub(LATENCY)),
						None => {
							if snd.handle.state() == PlaybackState::Stopped {
								"X".to_string()
							} else {
								"W".to_string()
							}
						}
					})
					.collect();
				let mut line = format!("{} | {} | {}", spy_lines.join(" "), handles.join(","), sounds.join(","));
				if !s.qsounds.is_empty() || !s.tracks.is_empty() {
					let q: Vec<String> = s.qsounds.iter().map(|r| r.state().to_string()).collect();
					let k: Vec<String> = s.tracks.iter().map(|r| r.state().to_string()).collect();
					line += &format!(" | q{} | k{}", q.join(","), k.join(","));
				}
				out.put(line);
			}
			_ => panic!("clocksys: unknown op {}", tok[0]),
		}
	}
	if let Some(s) = sys.as_mut() {
		oracles(s, case, out);
	}
}

/// the whole case as one op line (`replay <ops joined by '~', blanks as '_'> :: <comment>`), so that
/// an oracle failure carries its own replay; both the harness and the twin execute such a line by
/// running the encoded case from a fresh state and printing its last trace line
pub fn replay_of(case: &[String]) -> String {
	let body: Vec<String> = case[1..]
		.iter()
		.filter(|l| !l.starts_with("replay "))
		.map(|l| l.replace(' ', "_"))
		.collect();
	format!("replay {} ::", body.join("~"))
}
pub fn decode_replay(line: &str) -> Vec<String> {
	let enc = line.split_whitespace().nth(1).unwrap_or("");
	let mut v = vec!["case replay".to_string()];
	v.extend(enc.split('~').filter(|o| !o.is_empty()).map(|o| o.replace('_', " ")));
	v
}

fn oracles(s: &mut Sys, case: &[String], out: &mut Out) {
	let n = s.chunks.len();
	let sr = s.sr as f64;
	let rp = replay_of(case);
	// --- clocks: exact audio time, independent of the partition; pause freezes; fraction in [0,1)
	for (i, r) in s.res.iter().enumerate() {
		if let Res::Clock { tps0, start_chunk, n_start, n_disturb, n_speed, speeds, .. } = r {
			let mut prev: Option<ClockInfo> = None;
			let mut frames_since_start: u64 = 0;
			let mut nan_reported = false;
			for k in 0..n {
				let it = s.chunks[k].items.get(i).copied();
				if let Some(Item::Clock(Some(ci))) = it {
					if ci.time.fraction.is_nan() {
						// not a number, and it stays so until `stop()`: report the first chunk only
						if !nan_reported {
							nan_reported = true;
							out.oracle_fail(
								"clock_time_nan",
								format!("{} clock={} chunk={} speeds={}", rp, i, k, speeds.join(">")),
							);
						}
					} else if !(ci.time.fraction >= 0.0 && ci.time.fraction < 1.0) {
						out.oracle_fail("fraction_in_unit_interval", format!("{} clock={} chunk={}", rp, i, k));
					}
					if let Some(p) = prev {
						if !p.ticking && !ci.ticking {
							let same = p.time.ticks == ci.time.ticks
								&& p.time.fraction.to_bits() == ci.time.fraction.to_bits();
							let zero = ci.time.ticks == 0 && ci.time.fraction.to_bits() == 0;
							if !same && !zero {
								out.oracle_fail("pause_freezes", format!("{} clock={} chunk={}", rp, i, k));
							}
						}
					}
					if let (Some(v), Some(sc)) = (tps0, start_chunk) {
						if *n_start >= 1 && *n_disturb == 0 && *n_speed == 0 && k >= *sc {
							frames_since_start += s.chunks[k].len as u64;
							let expected = v * (frames_since_start as f64 / sr);
							let val = ci.time.ticks as f64 + ci.time.fraction;
							if !ci.ticking || (val - expected).abs() > 1e-9 * (1.0 + expected) {
								out.oracle_fail(
									"clock_time_partition_independent",
									format!("{} clock={} chunk={} expected={} got={}", rp, i, k, expected, val),
								);
							}
						}
					}
					prev = Some(ci);
				} else {
					prev = None;
				}
			}
		}
	}
	// --- sounds: start chunk / cancellation
	for (j, snd) in s.sounds.iter().enumerate() {
		if let StartSpec::Clk(c, ticks, frac) = snd.start {
			let mut kstar: Option<usize> = None;
			let mut kmissing: Option<usize> = None;
			for k in snd.play_chunk..n {
				match s.chunks[k].items.get(c) {
					Some(Item::Clock(None)) | None => {
						kmissing = Some(k);
						break;
					}
					Some(it) => {
						if ready(it, ticks, frac) {
							kstar = Some(k);
							break;
						}
					}
				}
			}
			let observed = snd.first_seen.map(|f| f.saturating_sub(LATENCY));
			let state = snd.handle.state();
			if kmissing.is_some() {
				if state != PlaybackState::Stopped || observed.is_some() {
					out.oracle_fail(
						"missing_clock_cancels",
						format!("{} sound={} state={:?} started={:?} {}", rp, j, state, observed, snd.line.replace(' ', "_")),
					);
				}
			} else if let Some(k) = kstar {
				let expected = s.chunks[k].start_frame;
				match observed {
					Some(f) if f == expected => {}
					Some(f) => {
						let kk = s.chunks.iter().position(|c| c.start_frame == f);
						out.oracle_fail(
							"start_chunk",
							format!("{} sound={} expected_chunk={} observed_chunk={:?} expected_frame={} observed_frame={}", rp,
								j, k, kk, expected, f),
						);
					}
					None => {
						// not yet audible: only a failure if the latency has certainly passed
						if expected + LATENCY + 1 <= s.frame.saturating_sub(1) && state != PlaybackState::Stopped {
							out.oracle_fail(
								"start_chunk",
								format!("{} sound={} expected_chunk={} never_audible expected_frame={}", rp, j, k, expected),
							);
						}
					}
				}
			} else if observed.is_some() {
				out.oracle_fail("start_chunk", format!("{} sound={} started_without_clock_reaching_target", rp, j));
			}
		}
	}
	// --- tweens scheduled on clock time: the chunk in which they begin
	for tw in &s.tweens {
		if !tw.ok_premise {
			continue;
		}
		// the clock the tween waits for must be left alone, and must exist throughout
		let quiet = match &s.res[tw.on_clock] {
			Res::Clock { n_disturb, .. } => *n_disturb == 0,
			_ => false,
		};
		if !quiet {
			continue;
		}
		let kstar = (tw.set_chunk..n).find(|&k| s.chunks[k].items.get(tw.on_clock).map(|it| ready(it, tw.ticks, tw.frac)).unwrap_or(false));
		let (kind, kobs): (&str, Option<usize>) = match &s.res[tw.target_res] {
			Res::Tweener { n_set, dropped, .. } => {
				if *n_set != 1 || *dropped {
					continue;
				}
				let kobs = (tw.set_chunk..n).find(|&k| match s.chunks[k].items.get(tw.target_res) {
					Some(Item::Mod(Some(v))) => v.to_bits() != tw.v0.to_bits(),
					_ => false,
				});
				("modulator", kobs)
			}
			Res::Clock { n_speed, n_disturb, n_start, .. } => {
				if *n_speed != 1 || *n_disturb != 0 || *n_start != 1 {
					continue;
				}
				// first chunk whose increment is nearer to the new speed than to the old one
				let kobs = (tw.set_chunk..n).find(|&k| {
					// before the first chunk, and before it is in the arena, a clock is at 0
					let a = if k == 0 {
						Some(0.0)
					} else {
						Some(s.chunks[k - 1].items.get(tw.target_res).and_then(clock_val).unwrap_or(0.0))
					};
					let b = s.chunks[k].items.get(tw.target_res).and_then(clock_val);
					match (a, b) {
						(Some(a), Some(b)) => {
							let dt = s.chunks[k].len as f64 / sr;
							let inc = b - a;
							(inc - tw.v1 * dt).abs() < (inc - tw.v0 * dt).abs()
						}
						_ => false,
					}
				});
				let kind = if tw.target_res == tw.on_clock {
					"own-clock-speed"
				} else if tw.target_res < tw.on_clock {
					"clock-speed-earlier-key"
				} else {
					"clock-speed-later-key"
				};
				(kind, kobs)
			}
		};
		if let Some(k) = kstar {
			match kobs {
				Some(ko) if ko == k => {}
				Some(ko) => {
					out.oracle_fail(
						"tween_start_chunk",
						format!("{} consumer={} late_by={} clock_reached_in_chunk={} began_in_chunk={} {}", rp,
							kind,
							ko as i64 - k as i64,
							k,
							ko,
							tw.line.replace(' ', "_")),
					);
				}
				None => {
					// allow for the end of the recording
					if k + 2 < n {
						out.oracle_fail(
							"tween_start_chunk",
							format!("{} consumer={} never_began clock_reached_in_chunk={} chunks={} {}", rp,
								kind,
								k,
								n,
								tw.line.replace(' ', "_")),
						);
					}
				}
			}
		} else if let Some(ko) = kobs {
			out.oracle_fail(
				"tween_start_chunk",
				format!("{} consumer={} began_in_chunk={} before_clock_reached_target {}", rp, kind, ko, tw.line.replace(' ', "_")),
			);
		}
	}
}

pub fn run(ops: &[String]) -> Vec<String> {
	run_cases(ops, None, |case: &[String], out: &mut Out| exec(case, out))
}

// ---------------------------------------------------------------------------------------------
// generator
// ---------------------------------------------------------------------------------------------

fn fmt_cs(tps: f64, rng: &mut Rng) -> String {
	match rng.below(3) {
		0 => format!("fix:tps={}", o64(tps)),
		1 => format!("fix:tpm={}", o64(tps * 60.0)),
		_ => format!("fix:spt={}", o64(1.0 / tps)),
	}
}
fn gen_target(rng: &mut Rng) -> (u64, f64) {
	(rng.below(7), rng.pick(&[0.0, 0.0, 0.25, 0.5, 0.75, 0.999]))
}

struct G<'a> {
	rng: &'a mut Rng,
	out: Vec<String>,
	ibs: u64,
	sr: u64,
	nres: usize,
	clocks: Vec<usize>,
	live_clocks: Vec<usize>,
	tweeners: Vec<usize>,
	sounds: usize,
	frames: u64,
}
impl<'a> G<'a> {
	fn push(&mut self, s: String, stats: &mut Stats) {
		stats.hit(s.split(' ').next().unwrap());
		self.out.push(s);
	}
	fn ticks_per_frame(&mut self) -> f64 {
		self.rng.pick(&[1.0 / 2.0, 1.0 / 3.0, 1.0 / 16.0, 1.0 / 64.0, 1.0 / 7.0, 1.0 / 100.0, 1.0 / 200.0, 1.0 / 32.0])
	}
	fn mgr(&mut self, stats: &mut Stats) {
		self.ibs = self.rng.pick(&[1, 2, 3, 4, 7, 16, 32, 64, 128]);
		self.sr = self.rng.pick(&[100, 1000, 8000, 44100, 48000]);
		let l = format!("mgr {} {}", self.ibs, self.sr);
		self.push(l, stats);
	}
	fn clock(&mut self, tps: f64, stats: &mut Stats) -> usize {
		let v = fmt_cs(tps, self.rng);
		self.push(format!("clock {}", v), stats);
		let id = self.nres;
		self.nres += 1;
		self.clocks.push(id);
		self.live_clocks.push(id);
		id
	}
	fn tweener(&mut self, v: f64, stats: &mut Stats) -> usize {
		self.push(format!("tweener {}", o64(v)), stats);
		let id = self.nres;
		self.nres += 1;
		self.tweeners.push(id);
		id
	}
	fn cb(&mut self, stats: &mut Stats) {
		let frames = match self.rng.below(8) {
			0 => 0,
			1 => self.ibs,
			2 => self.ibs * 2,
			3 => 1,
			_ => self.rng.below(4 * self.ibs + 3),
		}
		.min(600);
		self.frames += frames;
		self.push(format!("cb {}", frames), stats);
	}
	fn cbs(&mut self, n: u64, stats: &mut Stats) {
		for _ in 0..n {
			self.cb(stats);
		}
	}
	fn start_spec(&mut self) -> String {
		if self.clocks.is_empty() || self.rng.chance(1, 8) {
			if self.rng.chance(1, 2) {
				"imm".into()
			} else {
				format!("del:{}", self.rng.below(30_000_000))
			}
		} else {
			let c = self.rng.pick(&self.clocks.clone());
			let (t, f) = gen_target(self.rng);
			format!("clk:{}:{}:{}", c, t, o64(f))
		}
	}
}

pub fn gen(rng: &mut Rng, n: usize, _thorough: bool, stats: &mut Stats) -> Vec<String> {
	let mut all = vec![];
	for case in 0..n {
		all.push(format!("case {}", case));
		let mut g = G {
			rng,
			out: vec![],
			ibs: 1,
			sr: 1,
			nres: 0,
			clocks: vec![],
			live_clocks: vec![],
			tweeners: vec![],
			sounds: 0,
			frames: 0,
		};
		g.mgr(stats);
		let kind = g.rng.below(14);
		stats.hit(&format!("kind_{}", kind));
		match kind {
			// a sound / a track told to resume at a clock time: the clock reaches it, or goes away first
			// (its handle dropped before or after the audio thread has read the resume), or never existed for
			// the audio thread
			10..=13 => {
				let nclocks = g.rng.range(1, 2);
				let mut cs = vec![];
				for _ in 0..nclocks {
					let tpf = g.ticks_per_frame();
					let c = g.clock(tpf * g.sr as f64, stats);
					cs.push(c);
				}
				let nq = g.rng.range(0, 2) as usize;
				let nk = if nq == 0 { g.rng.range(1, 2) } else { g.rng.range(0, 2) } as usize;
				for _ in 0..nq {
					g.push("qplay".into(), stats);
				}
				for _ in 0..nk {
					g.push("track".into(), stats);
				}
				let started_early = g.rng.chance(1, 2);
				if started_early {
					for c in cs.clone() {
						g.push(format!("c.start {}", c), stats);
					}
				}
				let k = g.rng.below(3);
				g.cbs(k, stats);
				let fade = |g: &mut G| -> String {
					match g.rng.below(4) {
						0 => format!("imm;{};lin", g.rng.pick(&[1_000_000u64, 20_000_000])),
						_ => "imm;0;lin".to_string(),
					}
				};
				// pause (not always: `resume_at` also makes a playing sound wait)
				for j in 0..nq {
					if g.rng.chance(4, 5) {
						let f = fade(&mut g);
						g.push(format!("q.pause {} {}", j, f), stats);
					}
				}
				for t in 0..nk {
					if g.rng.chance(4, 5) {
						let f = fade(&mut g);
						g.push(format!("k.pause {} {}", t, f), stats);
					}
				}
				let k = g.rng.below(3);
				g.cbs(k, stats);
				// the drop comes before the resume is written, between the write and the callback that reads it,
				// some callbacks later, or not at all (then the clock reaches the time, or it is never started)
				let victim = g.rng.pick(&cs);
				let drop_at = g.rng.below(5);
				if drop_at == 0 {
					g.push(format!("c.drop {}", victim), stats);
					if g.rng.chance(1, 2) {
						g.cbs(1, stats);
					}
				}
				for j in 0..nq {
					let c = if g.rng.chance(3, 4) { victim } else { g.rng.pick(&cs) };
					let (t, f) = gen_target(g.rng);
					let far = if g.rng.chance(1, 2) { 40 } else { 0 };
					let fd = fade(&mut g);
					g.push(format!("q.resume {} clk:{}:{}:{} {}", j, c, t + far, o64(f), fd), stats);
				}
				for t in 0..nk {
					let c = if g.rng.chance(3, 4) { victim } else { g.rng.pick(&cs) };
					let (tt, f) = gen_target(g.rng);
					let far = if g.rng.chance(1, 2) { 40 } else { 0 };
					let fd = fade(&mut g);
					g.push(format!("k.resume {} clk:{}:{}:{} {}", t, c, tt + far, o64(f), fd), stats);
				}
				if drop_at == 1 {
					g.push(format!("c.drop {}", victim), stats);
				}
				if !started_early && g.rng.chance(2, 3) {
					for c in cs.clone() {
						if !(drop_at <= 1 && c == victim) {
							g.push(format!("c.start {}", c), stats);
						}
					}
				}
				let k = g.rng.range(1, 3) as u64;
				g.cbs(k, stats);
				if drop_at == 2 || drop_at == 3 {
					g.push(format!("c.drop {}", victim), stats);
				}
				let k = g.rng.range(2, 6) as u64;
				g.cbs(k, stats);
				// afterwards the handles still work: a track can be resumed, a stopped sound stays stopped
				if g.rng.chance(1, 2) {
					for t in 0..nk {
						g.push(format!("k.resume {} imm imm;0;lin", t), stats);
					}
					for j in 0..nq {
						g.push(format!("q.resume {} imm imm;0;lin", j), stats);
					}
					g.cbs(2, stats);
				}
			}
			// a sound waiting for a clock
			0 | 1 => {
				let tpf = g.ticks_per_frame();
				let c = g.clock(tpf * g.sr as f64, stats);
				if g.rng.chance(1, 2) {
					g.cbs(1, stats);
				}
				let nsounds = g.rng.range(1, 3);
				for _ in 0..nsounds {
					let (t, f) = gen_target(g.rng);
					g.push(format!("play clk:{}:{}:{}", c, t, o64(f)), stats);
				}
				g.push(format!("c.start {}", c), stats);
				let k = g.rng.range(3, 10) as u64;
				g.cbs(k, stats);
			}
			// a tweener modulator waiting for a clock
			2 => {
				let tpf = g.ticks_per_frame();
				let c = g.clock(tpf * g.sr as f64, stats);
				let v0 = g.rng.pick(&[0.0, 1.0, -2.0]);
				let m = g.tweener(v0, stats);
				g.push(format!("c.start {}", c), stats);
				g.cbs(1, stats);
				let (t, f) = gen_target(g.rng);
				let dur = g.rng.pick(&[0u64, 1_000_000, 50_000_000, 1_000_000_000]);
				g.push(format!("t.set {} {} clk:{}:{}:{};{};lin", m, o64(5.0), c, t + 1, o64(f), dur), stats);
				let k = g.rng.range(4, 10) as u64;
				g.cbs(k, stats);
			}
			// a clock's speed waiting for another clock (both key orders) or for itself
			3 | 4 => {
				let tpf = g.ticks_per_frame();
				let sr = g.sr as f64;
				let order = g.rng.below(3);
				let (a, b) = match order {
					0 => {
						let a = g.clock(tpf * sr / 8.0, stats);
						let b = g.clock(tpf * sr, stats);
						(a, b)
					}
					1 => {
						let b = g.clock(tpf * sr, stats);
						let a = g.clock(tpf * sr / 8.0, stats);
						(a, b)
					}
					_ => {
						let a = g.clock(tpf * sr, stats);
						(a, a)
					}
				};
				g.push(format!("c.start {}", a), stats);
				if a != b {
					g.push(format!("c.start {}", b), stats);
				}
				g.cbs(1, stats);
				let (t, f) = gen_target(g.rng);
				let v1 = fmt_cs(tpf * sr * 8.0, g.rng);
				g.push(format!("c.speed {} {} clk:{}:{}:{};0;lin", a, v1, b, t + 1, o64(f)), stats);
				let k = g.rng.range(5, 10) as u64;
				g.cbs(k, stats);
			}
			// a sound waiting for a clock that goes away / never existed for the audio thread
			5 => {
				let tpf = g.ticks_per_frame();
				let c = g.clock(tpf * g.sr as f64, stats);
				g.push(format!("c.start {}", c), stats);
				if g.rng.chance(1, 2) {
					g.cbs(1, stats);
				}
				let (t, f) = gen_target(g.rng);
				g.push(format!("play clk:{}:{}:{}", c, t + 40, o64(f)), stats);
				if g.rng.chance(1, 2) {
					g.cbs(1, stats);
				}
				g.push(format!("c.drop {}", c), stats);
				g.live_clocks.clear();
				g.cbs(3, stats);
			}
			// random histories
			_ => {
				let nclocks = g.rng.range(1, 3);
				for _ in 0..nclocks {
					let tpf = g.ticks_per_frame();
					let c = g.clock(tpf * g.sr as f64, stats);
					if g.rng.chance(3, 4) {
						g.push(format!("c.start {}", c), stats);
					}
				}
				if g.rng.chance(1, 2) {
					let v = g.rng.uniform(-2.0, 2.0);
					g.tweener(v, stats);
				}
				let steps = g.rng.range(6, 26);
				for _ in 0..steps {
					if g.frames > 1500 {
						break;
					}
					let pick = g.rng.below(24);
					let live = g.live_clocks.clone();
					match pick {
						0 if !live.is_empty() => {
							let c = g.rng.pick(&live);
							g.push(format!("c.start {}", c), stats)
						}
						1 if !live.is_empty() => {
							let c = g.rng.pick(&live);
							g.push(format!("c.pause {}", c), stats)
						}
						2 if !live.is_empty() => {
							let c = g.rng.pick(&live);
							g.push(format!("c.stop {}", c), stats)
						}
						3 if !live.is_empty() => {
							let c = g.rng.pick(&live);
							g.push(format!("c.time {}", c), stats)
						}
						4 if live.len() > 1 || (live.len() == 1 && g.rng.chance(1, 3)) => {
							let c = g.rng.pick(&live);
							g.live_clocks.retain(|x| *x != c);
							g.push(format!("c.drop {}", c), stats)
						}
						5 | 6 if !live.is_empty() => {
							let c = g.rng.pick(&live);
							let tpf = g.ticks_per_frame();
							let v = fmt_cs(tpf * g.sr as f64, g.rng);
							let st = g.start_spec();
							let dur = g.rng.pick(&[0u64, 0, 1_000_000, 20_000_000, 500_000_000]);
							let e = g.rng.pick(&["lin", "lin", "ipi:2", "opi:3"]);
							g.push(format!("c.speed {} {} {};{};{}", c, v, st, dur, e), stats)
						}
						7 | 8 if g.sounds < MAX_SOUNDS => {
							g.sounds += 1;
							let st = g.start_spec();
							g.push(format!("play {}", st), stats)
						}
						9 if !g.tweeners.is_empty() => {
							let m = g.rng.pick(&g.tweeners.clone());
							let st = g.start_spec();
							let dur = g.rng.pick(&[0u64, 1_000_000, 20_000_000, 500_000_000]);
							let target = g.rng.uniform(-4.0, 4.0);
							g.push(format!("t.set {} {} {};{};lin", m, o64(target), st, dur), stats)
						}
						10 if g.nres < 6 => {
							let tpf = g.ticks_per_frame();
							let c = g.clock(tpf * g.sr as f64, stats);
							if g.rng.chance(1, 2) {
								g.push(format!("c.start {}", c), stats);
							}
						}
						_ => g.cb(stats),
					}
				}
				g.cbs(2, stats);
			}
		}
		all.extend(g.out);
	}
	all
}
