//! Suite `clock` (C05): one `kira::clock::Clock` driven through `kira::verif_hooks::HClock` and its
//! public `ClockHandle`, with a `MockInfoBuilder` `Info`.
//!
//! ops:  info.clocks / info.mods        — as in suite `param`
//!       new <value>                     — `Clock::new(speed)`
//!       start | pause | stop | speed <value> <tween>      — `ClockHandle` calls
//!       osp                             — `Clock::on_start_processing`
//!       update <dt>                     — `Clock::update(dt, info)`
//! trace: `[<ret> ]<state> <ticking> <handle.time> <handle.ticking>`
use crate::runner::{run_cases, Out};
use crate::suites::param::{gen_dt, gen_tween, gen_value, ids, parse_tween, parse_value, InfoState, MAX_IDS};
use crate::util::*;
use kira::clock::{ClockHandle, ClockSpeed};
use kira::verif_hooks::HClock;
use kira::Value;

pub fn show_state(s: Option<(u64, f64)>) -> String {
	match s {
		None => "-".into(),
		Some((t, f)) => format!("{}:{}", t, h64(f)),
	}
}
pub fn show(c: &HClock, h: &ClockHandle) -> String {
	let t = h.time();
	format!(
		"{} {} {}:{} {}",
		show_state(c.state()),
		c.ticking() as u8,
		t.ticks,
		h64(t.fraction),
		h.ticking() as u8
	)
}

fn tps(s: ClockSpeed) -> f64 {
	s.as_ticks_per_second()
}

pub fn run(ops: &[String]) -> Vec<String> {
	run_cases(ops, None, |case: &[String], out: &mut Out| {
		let ids = ids();
		let mut info_state = InfoState::default();
		out.put(case[0].clone());
		let mut cur: Option<(HClock, ClockHandle)> = None;
		// oracle bookkeeping
		let mut fixed_tps: Option<f64> = None; // speed known and constant
		let mut expected: f64 = 0.0; // ideal ticks + fraction
		let mut stop_pending = false;
		// a case that sets a speed of 0 seconds per tick is an out-of-domain probe
		let risky = case.iter().any(|l| l.contains("spt=0000000000000000"));
		let mut speed_desc = String::new();
		let mut pending_ticking: Option<bool> = None;
		for l in &case[1..] {
			let tok: Vec<&str> = l.split_whitespace().collect();
			match tok[0] {
				"info.clocks" => {
					info_state.parse_clocks(&tok);
					out.put("ok");
				}
				"info.mods" => {
					info_state.parse_mods(&tok);
					out.put("ok");
				}
				"new" => {
					let v: Value<ClockSpeed> = parse_value(tok[1], &ids);
					speed_desc = tok[1].to_string();
					fixed_tps = match v {
						Value::Fixed(s) => Some(tps(s)),
						_ => None,
					};
					expected = 0.0;
					let (c, h) = HClock::new(v);
					out.put(show(&c, &h));
					cur = Some((c, h));
				}
				"start" => {
					let (c, h) = cur.as_mut().unwrap();
					h.start();
					pending_ticking = Some(true);
					out.put(show(c, h));
				}
				"pause" => {
					let (c, h) = cur.as_mut().unwrap();
					h.pause();
					pending_ticking = Some(false);
					out.put(show(c, h));
				}
				"stop" => {
					let (c, h) = cur.as_mut().unwrap();
					h.stop();
					stop_pending = true;
					pending_ticking = Some(false);
					let t = h.time();
					if t.ticks != 0 || t.fraction.to_bits() != 0 {
						out.oracle_fail("stop_reads_zero", l);
					}
					out.put(show(c, h));
				}
				"speed" => {
					let (c, h) = cur.as_mut().unwrap();
					let v: Value<ClockSpeed> = parse_value(tok[1], &ids);
					h.set_speed(v, parse_tween(tok[2], &ids));
					speed_desc = tok[1].to_string();
					fixed_tps = None;
					out.put(show(c, h));
				}
				"osp" => {
					let (c, h) = cur.as_mut().unwrap();
					c.on_start_processing();
					out.put(show(c, h));
					// --- oracles ---
					let t = h.time();
					let (st, sf) = c.state().unwrap_or((0, 0.0));
					if t.ticks != st || t.fraction.to_bits() != sf.to_bits() || h.ticking() != c.ticking() {
						out.oracle_fail("handle_shows_state_after_osp", l);
					}
					if let Some(t) = pending_ticking.take() {
						if c.ticking() != t {
							out.oracle_fail("start_pause_take_effect", l);
						}
					}
					if stop_pending {
						stop_pending = false;
						expected = 0.0;
						if c.state().is_some() {
							out.oracle_fail("stop_resets", l);
						}
					}
				}
				"update" if risky => {
					// out-of-domain probe (a speed of infinitely many ticks per second): run the update
					// on a helper thread so that a tick loop that never ends is observed, not suffered
					let (c, h) = cur.take().unwrap();
					let dt = p64(tok[1]);
					let st = info_state.clone();
					let (tx, rx) = std::sync::mpsc::channel();
					std::thread::spawn(move || {
						let mut c = c;
						let info = st.build();
						let r = c.update(dt, &info);
						let _ = tx.send((c, r));
					});
					match rx.recv_timeout(std::time::Duration::from_millis(500)) {
						Ok((c, r)) => {
							out.put(format!(
								"{} {}",
								r.map(|n| n.to_string()).unwrap_or_else(|| "-".into()),
								show(&c, &h)
							));
							cur = Some((c, h));
						}
						Err(_) => {
							out.oracle_fail("update_terminates", format!("{} {}", speed_desc, l));
							out.put("fault hang");
							let done = out.lines.len();
							for _ in done..case.len() {
								out.put("dead");
							}
							return;
						}
					}
				}
				"update" => {
					let (c, h) = cur.as_mut().unwrap();
					let dt = p64(tok[1]);
					let info = info_state.build();
					let before = c.state();
					let was_ticking = c.ticking();
					let r = c.update(dt, &info);
					out.put(format!(
						"{} {}",
						r.map(|n| n.to_string()).unwrap_or_else(|| "-".into()),
						show(c, h)
					));
					// --- oracles ---
					if !was_ticking {
						let same = match (before, c.state()) {
							(None, None) => true,
							(Some((a, x)), Some((b, y))) => a == b && x.to_bits() == y.to_bits(),
							_ => false,
						};
						if !same || r.is_some() {
							out.oracle_fail("pause_freezes", l);
						}
					} else {
						if let Some((_, f)) = c.state() {
							if !(f >= 0.0 && f < 1.0) {
								out.oracle_fail("fraction_in_unit_interval", l);
							}
						}
						if let Some(v) = fixed_tps {
							expected += v * dt;
							let (t, f) = c.state().unwrap();
							let val = t as f64 + f;
							if (val - expected).abs() > 1e-9 * (1.0 + expected.abs()) {
								out.oracle_fail("clock_accumulates", l);
							}
						}
					}
				}
				_ => panic!("clock: unknown op {}", tok[0]),
			}
		}
	})
}

pub fn gen(rng: &mut Rng, n: usize, _thorough: bool, stats: &mut Stats) -> Vec<String> {
	let mut out = vec![];
	for case in 0..n {
		out.push(format!("case {}", case));
		if rng.chance(1, 3) {
			let k = rng.below(MAX_IDS as u64 + 1);
			let mut s = format!("info.clocks {}", k);
			for _ in 0..k {
				s += &format!(" {} {} {}", rng.below(2), rng.below(6), o64(rng.pick(&[0.0, 0.5, 0.25, 0.75, 0.999])));
			}
			out.push(s);
			let k = rng.below(MAX_IDS as u64 + 1);
			let mut s = format!("info.mods {}", k);
			for _ in 0..k {
				s += &format!(" {}", o64(rng.uniform(-3.0, 3.0)));
			}
			out.push(s);
		}
		let v = if rng.chance(2, 3) {
			// round speeds make exact tick boundaries likely
			let x = rng.pick(&[1.0, 2.0, 0.5, 4.0, 10.0, 120.0, 60.0, 0.25, 100.0]);
			format!("fix:{}", ["spt", "tps", "tpm"][rng.below(3) as usize].to_string() + "=" + &o64(x))
		} else {
			gen_value::<ClockSpeed>(rng)
		};
		out.push(format!("new {}", v));
		if rng.chance(5, 6) {
			out.push("start".into());
			out.push("osp".into());
		}
		let steps = rng.range(4, 28);
		for _ in 0..steps {
			let line = match rng.below(20) {
				0 => "start".to_string(),
				1 => "pause".to_string(),
				2 => "stop".to_string(),
				3 | 4 => format!("speed {} {}", gen_value::<ClockSpeed>(rng), gen_tween(rng)),
				5..=8 => "osp".to_string(),
				9 => {
					let k = rng.below(MAX_IDS as u64 + 1);
					let mut s = format!("info.clocks {}", k);
					for _ in 0..k {
						s += &format!(" {} {} {}", rng.below(2), rng.below(6), o64(rng.pick(&[0.0, 0.5, 0.25, 0.75, 0.999])));
					}
					s
				}
				_ => format!("update {}", o64(gen_dt(rng))),
			};
			stats.hit(line.split(' ').next().unwrap());
			out.push(line);
		}
	}
	out
}
