//! Suite `clock` (C05): one `kira::clock::Clock` driven through `kira::verif_hooks::HClock` and its
//! public `ClockHandle`, with a `MockInfoBuilder` `Info`.
//!
//! ops:  info.clocks / info.mods        — as in suite `param`
//!       new <value>                     — `Clock::new(speed)`
//!       start | pause | stop | speed <value> <tween>      — `ClockHandle` calls
//!       osp                             — `Clock::on_start_processing`
//!       update <dt>                     — `Clock::update(dt, info)`
//!       tick <v>                        — a fresh clock at `v` ticks per second, started, ONE update of 1 s (the
//!                                         tick timer is exactly `v`): the tick count `Clock::update` computes at
//!                                         once is compared with the loop it replaced (`old_tick_loop`)
//! trace: `[<ret> ]<state> <ticking> <handle.time> <handle.ticking>`
use crate::runner::{run_cases, Out};
use crate::suites::param::{gen_dt, gen_tween, gen_value, ids, parse_tween, parse_value, InfoState, MAX_IDS};
use crate::util::*;
use kira::clock::{ClockHandle, ClockSpeed};
use kira::verif_hooks::HClock;
use kira::Value;

pub fn show_state(s: Option<(u64, f64)>) -> String {
	match s {
		None => "-".into(),
		Some((t, f)) => format!("{}:{}", t, h64(f)),
	}
}
pub fn show(c: &HClock, h: &ClockHandle) -> String {
	let t = h.time();
	format!(
		"{} {} {}:{} {}",
		show_state(c.state()),
		c.ticking() as u8,
		t.ticks,
		h64(t.fraction),
		h.ticking() as u8
	)
}

fn tps(s: ClockSpeed) -> f64 {
	s.as_ticks_per_second()
}

/// the loop `Clock::update` used to run: `while timer >= 1.0 { timer -= 1.0; ticks += 1 }` — executed for
/// timers up to 2^22; beyond that (up to 2^53, where `x - 1.0` stops being exact and the loop never ended) its
/// result is computed exactly from the bits of the timer (every subtraction of 1.0 is exact below 2^53, so the
/// loop ends with the integer part in `ticks` and the exact fractional part in `timer`)
fn old_tick_loop(mut timer: f64) -> Option<(u64, f64)> {
	if !(timer >= 1.0) {
		return Some((0, timer));
	}
	if timer < 4194304.0 {
		let mut ticks = 0u64;
		while timer >= 1.0 {
			timer -= 1.0;
			ticks += 1;
		}
		return Some((ticks, timer));
	}
	if timer >= 9007199254740992.0 {
		return None; // the old loop never ends
	}
	let bits = timer.to_bits();
	let exp = ((bits >> 52) & 0x7ff) as i64 - 1075; // timer = mant * 2^exp, 22 <= exp + 52 < 53
	let mant = (bits & ((1u64 << 52) - 1)) | (1u64 << 52);
	let sh = (-exp) as u32;
	let whole = mant >> sh;
	let frac_bits = mant & ((1u64 << sh) - 1);
	Some((whole, frac_bits as f64 / (1u64 << sh) as f64))
}

/// a speed token `(spt|tps|tpm)=<hex>` that means more than 10^9 ticks per second (or a non-finite number of
/// them): the tick loop the code used to run takes seconds to for ever on it
fn risky_speed(l: &str) -> bool {
	for kind in ["spt=", "tps=", "tpm="] {
		let mut rest = l;
		while let Some(i) = rest.find(kind) {
			let hex = &rest[i + 4..];
			if hex.len() >= 16 && hex.as_bytes()[..16].iter().all(|b| b.is_ascii_hexdigit()) {
				let v = p64(&hex[..16]);
				let t = match kind {
					"spt=" => 1.0 / v,
					"tps=" => v,
					_ => v / 60.0,
				};
				if !(t.abs() <= 1e9) {
					return true;
				}
			}
			rest = &rest[i + 4..];
		}
	}
	false
}

pub fn run(ops: &[String]) -> Vec<String> {
	run_cases(ops, None, |case: &[String], out: &mut Out| {
		let ids = ids();
		let mut info_state = InfoState::default();
		out.put(case[0].clone());
		let mut cur: Option<(HClock, ClockHandle)> = None;
		// oracle bookkeeping
		let mut fixed_tps: Option<f64> = None; // speed known and constant
		let mut expected: f64 = 0.0; // ideal ticks + fraction
		let mut stop_pending = false;
		// a case that sets an infinite or enormous speed (0 seconds per tick, 1e300 ticks per second …) used to
		// hang in the tick loop: its updates run on a helper thread
		let risky = case.iter().any(|l| l.contains("spt=0000000000000000") || risky_speed(l));
		let mut speed_desc = String::new();
		// every speed value given so far (creation value first)
		let mut speeds: Vec<String> = vec![];
		let mut nan_reported = false;
		let mut pending_ticking: Option<bool> = None;
		// C05 "a speed change or speed tween takes effect when it is due" (due in audio time, whether or not the
		// clock is ticking): a `speed` command with a fixed target and an immediate / delayed start, written
		// but not yet read (last write wins) …
		let mut speed_cmd: Option<Option<SpeedDue>> = None;
		// … and the one in force since the `osp` that read it
		let mut speed_due: Option<SpeedDue> = None;
		let mut after_speed_change = false;
		for l in &case[1..] {
			let tok: Vec<&str> = l.split_whitespace().collect();
			match tok[0] {
				"info.clocks" => {
					info_state.parse_clocks(&tok);
					out.put("ok");
				}
				"info.mods" => {
					info_state.parse_mods(&tok);
					out.put("ok");
				}
				"new" => {
					let v: Value<ClockSpeed> = parse_value(tok[1], &ids);
					speed_desc = tok[1].to_string();
					speeds = vec![tok[1].to_string()];
					fixed_tps = match v {
						Value::Fixed(s) => Some(tps(s)),
						_ => None,
					};
					after_speed_change = false;
					expected = 0.0;
					let (c, h) = HClock::new(v);
					out.put(show(&c, &h));
					cur = Some((c, h));
				}
				"start" => {
					let (c, h) = cur.as_mut().unwrap();
					h.start();
					pending_ticking = Some(true);
					out.put(show(c, h));
				}
				"pause" => {
					let (c, h) = cur.as_mut().unwrap();
					h.pause();
					pending_ticking = Some(false);
					out.put(show(c, h));
				}
				"stop" => {
					let (c, h) = cur.as_mut().unwrap();
					h.stop();
					stop_pending = true;
					pending_ticking = Some(false);
					let t = h.time();
					if t.ticks != 0 || t.fraction.to_bits() != 0 {
						out.oracle_fail("stop_reads_zero", l);
					}
					out.put(show(c, h));
				}
				"speed" => {
					let (c, h) = cur.as_mut().unwrap();
					let v: Value<ClockSpeed> = parse_value(tok[1], &ids);
					h.set_speed(v, parse_tween(tok[2], &ids));
					speed_desc = tok[1].to_string();
					speeds.push(tok[1].to_string());
					fixed_tps = None;
					speed_cmd = Some(SpeedDue::parse(tok[1], tok[2]));
					out.put(show(c, h));
				}
				"osp" => {
					let (c, h) = cur.as_mut().unwrap();
					c.on_start_processing();
					out.put(show(c, h));
					// --- oracles ---
					let t = h.time();
					let (st, sf) = c.state().unwrap_or((0, 0.0));
					if t.ticks != st || t.fraction.to_bits() != sf.to_bits() || h.ticking() != c.ticking() {
						out.oracle_fail("handle_shows_state_after_osp", l);
					}
					if let Some(cmd) = speed_cmd.take() {
						speed_due = cmd;
						fixed_tps = None;
					}
					if let Some(t) = pending_ticking.take() {
						if c.ticking() != t {
							out.oracle_fail("start_pause_take_effect", l);
						}
					}
					if stop_pending {
						stop_pending = false;
						expected = 0.0;
						if c.state().is_some() {
							out.oracle_fail("stop_resets", l);
						}
					}
				}
				"tick" => {
					let v = p64(tok[1]);
					let (c, mut h) = HClock::new(Value::Fixed(ClockSpeed::TicksPerSecond(v)));
					h.start();
					let (tx, rx) = std::sync::mpsc::channel();
					std::thread::spawn(move || {
						let mut c = c;
						c.on_start_processing();
						let info = InfoState::default().build();
						let r = c.update(1.0, &info);
						let _ = tx.send((c.state(), r));
					});
					match rx.recv_timeout(std::time::Duration::from_millis(2000)) {
						Ok((st, r)) => {
							out.put(format!("{} {}", r.map(|n| n.to_string()).unwrap_or_else(|| "-".into()), show_state(st)));
							// where the old loop returned, the new form must agree bit for bit
							if let Some((t, f)) = old_tick_loop(0.0 + v * 1.0) {
								let ok = match st {
									Some((t2, f2)) => t2 == t && f2.to_bits() == f.to_bits() && r == if t > 0 { Some(t) } else { Some(0) },
									None => false,
								};
								if !ok {
									out.oracle_fail("tick_count_equals_old_loop", l);
								}
							}
						}
						Err(_) => {
							out.oracle_fail("update_terminates", format!("fix:tps={} {}", tok[1], l));
							out.put("fault hang");
						}
					}
				}
				"update" if risky => {
					// out-of-domain probe (a speed of infinitely many ticks per second): run the update
					// on a helper thread so that a tick loop that never ends is observed, not suffered
					let (c, h) = cur.take().unwrap();
					let dt = p64(tok[1]);
					let st = info_state.clone();
					let (tx, rx) = std::sync::mpsc::channel();
					std::thread::spawn(move || {
						let mut c = c;
						let info = st.build();
						let r = c.update(dt, &info);
						let _ = tx.send((c, r));
					});
					match rx.recv_timeout(std::time::Duration::from_millis(500)) {
						Ok((c, r)) => {
							out.put(format!(
								"{} {}",
								r.map(|n| n.to_string()).unwrap_or_else(|| "-".into()),
								show(&c, &h)
							));
							cur = Some((c, h));
						}
						Err(_) => {
							out.oracle_fail("update_terminates", format!("{} {}", speed_desc, l));
							out.put("fault hang");
							let done = out.lines.len();
							for _ in done..case.len() {
								out.put("dead");
							}
							return;
						}
					}
				}
				"update" => {
					let (c, h) = cur.as_mut().unwrap();
					let dt = p64(tok[1]);
					let info = info_state.build();
					let before = c.state();
					let was_ticking = c.ticking();
					let r = c.update(dt, &info);
					out.put(format!(
						"{} {}",
						r.map(|n| n.to_string()).unwrap_or_else(|| "-".into()),
						show(c, h)
					));
					// --- oracles ---
					// the speed tween in force is over (in audio time, counted over ALL updates): from the next
					// update on the clock runs at exactly the target speed (C06: "from the end of the tween onward
					// equals the target", to within one update of timing - hence "from the next update on")
					let mut just_settled = false;
					if let Some(d) = speed_due.as_mut() {
						if d.over(dt) {
							fixed_tps = Some(d.target_tps);
							expected = c.state().map(|(t, f)| t as f64 + f).unwrap_or(0.0);
							speed_due = None;
							just_settled = true;
							after_speed_change = true;
						}
					}
					if !was_ticking {
						let same = match (before, c.state()) {
							(None, None) => true,
							(Some((a, x)), Some((b, y))) => a == b && x.to_bits() == y.to_bits(),
							_ => false,
						};
						if !same || r.is_some() {
							out.oracle_fail("pause_freezes", l);
						}
					} else {
						if let Some((_, f)) = c.state() {
							if f.is_nan() {
								// the clock's time is not a number (and stays so until `stop()`): say which
								// speed change led there, once per case
								if !nan_reported {
									nan_reported = true;
									out.oracle_fail("clock_time_nan", format!("speeds={} {}", speeds.join(">"), l));
								}
							} else if !(f >= 0.0 && f < 1.0) {
								out.oracle_fail("fraction_in_unit_interval", l);
							}
						}
						if let (Some(v), false) = (fixed_tps.filter(|v| v.abs() <= 1e9), just_settled) {
							expected += v * dt;
							let (t, f) = c.state().unwrap();
							let val = t as f64 + f;
							if (val - expected).abs() > 1e-9 * (1.0 + expected.abs()) {
								out.oracle_fail(
									if after_speed_change { "speed_change_in_force_when_due" } else { "clock_accumulates" },
									l,
								);
							}
						}
					}
				}
				_ => panic!("clock: unknown op {}", tok[0]),
			}
		}
	})
}

/// A speed change with a fixed target, read by the clock at some `osp`: when is it certainly over?
/// The tween begins `delay` seconds of audio time after the command was read and lasts `duration`; the delay is
/// counted down in whole updates (the update during which it runs out does not count towards the tween), so
/// with S = the audio time of all updates since the command was read and m = the longest single update among
/// them, the tween time is at least S - delay - m. `over` answers S - m >= delay + duration + 1 us (the
/// microsecond covers the nanosecond rounding of the delay countdown, at most 0.5 ns per update).
struct SpeedDue {
	target_tps: f64,
	delay: f64,
	duration: f64,
	elapsed: f64,
	longest: f64,
}
impl SpeedDue {
	fn parse(value: &str, tween: &str) -> Option<Self> {
		let v = value.strip_prefix("fix:")?;
		let (unit, x) = v.split_once('=')?;
		let x = p64(x);
		// the documented unit relations (not the accessors under test)
		let target_tps = match unit {
			"spt" => 1.0 / x,
			"tps" => x,
			_ => x / 60.0,
		};
		if !(target_tps.is_finite() && target_tps >= 0.0) {
			return None;
		}
		let p: Vec<&str> = tween.split(';').collect();
		let delay = if p[0] == "imm" {
			0.0
		} else {
			pu(p[0].strip_prefix("del:")?) as f64 / 1e9
		};
		Some(Self {
			target_tps,
			delay,
			duration: pu(p[1]) as f64 / 1e9,
			elapsed: 0.0,
			longest: 0.0,
		})
	}
	fn over(&mut self, dt: f64) -> bool {
		self.elapsed += dt;
		self.longest = self.longest.max(dt);
		self.elapsed - self.longest >= self.delay + self.duration + 1e-6
	}
}

pub fn gen(rng: &mut Rng, n: usize, _thorough: bool, stats: &mut Stats) -> Vec<String> {
	let mut out = vec![];
	for case in 0..n {
		out.push(format!("case {}", case));
		if rng.chance(1, 3) {
			let k = rng.below(MAX_IDS as u64 + 1);
			let mut s = format!("info.clocks {}", k);
			for _ in 0..k {
				s += &format!(" {} {} {}", rng.below(2), rng.below(6), o64(rng.pick(&[0.0, 0.5, 0.25, 0.75, 0.999])));
			}
			out.push(s);
			let k = rng.below(MAX_IDS as u64 + 1);
			let mut s = format!("info.mods {}", k);
			for _ in 0..k {
				s += &format!(" {}", o64(rng.uniform(-3.0, 3.0)));
			}
			out.push(s);
		}
		// tick-count probes: timers below, at and beyond every boundary of the old loop / the new floor form
		if rng.chance(1, 6) {
			for _ in 0..rng.range(1, 6) {
				let v = match rng.below(10) {
					0 => rng.pick(&[0.0, -0.0, 0.5, 1.0, 0.9999999999999999, 1.0000000000000002, 2.0, 2.5, -1.0, -3.5, 5e-324]),
					1 => rng.below(1 << 22) as f64 + rng.pick(&[0.0, 0.5, 0.25, 0.999999]),
					2 => rng.uniform(0.0, 4194304.0),
					3 => rng.uniform(4194304.0, 9007199254740992.0),
					4 => f64::from_bits(rng.range(0x4150_0000_0000_0000, 0x433f_ffff_ffff_ffff) as u64),
					5 => rng.pick(&[4194303.5, 4194304.0, 4194304.5, 4503599627370495.5, 4503599627370496.0, 9007199254740991.0, 9007199254740990.5]),
					6 => rng.pick(&[9007199254740992.0, 9007199254740994.0, 1.8446744073709552e19, 9.223372036854775808e18, 1e300, f64::MAX]),
					7 => -rng.pick(&[9007199254740994.0, 1e300, f64::MAX, 1e19]),
					_ => rng.uniform(0.0, 100.0),
				};
				stats.hit("tick");
				out.push(format!("tick {}", o64(v)));
			}
		}
		let v = if rng.chance(1, 12) {
			// infinite and enormous speeds (the tick loop used to hang on them: now the count saturates)
			stats.hit("extreme_speed");
			let (k, x) = rng.pick(&[
				("spt", 0.0),
				("spt", 5e-324),
				("spt", 1e-300),
				("spt", -0.0),
				("tps", 1e300),
				("tps", 9007199254740994.0),
				("tps", f64::MAX),
				("tps", 1e19),
				("tps", -1e300),
				("tpm", f64::MAX),
				("tps", 1e12),
			]);
			format!("fix:{}={}", k, o64(x))
		} else if rng.chance(2, 3) {
			// round speeds make exact tick boundaries likely
			// (0.0: a clock that stands still — 0 ticks per second / minute; a speed tween away from it used to
			// make the clock's time NaN; `spt=0` is an infinite speed: such a case is `risky`)
			let x = rng.pick(&[1.0, 2.0, 0.5, 4.0, 10.0, 120.0, 60.0, 0.25, 100.0, 0.0]);
			format!("fix:{}", ["spt", "tps", "tpm"][rng.below(3) as usize].to_string() + "=" + &o64(x))
		} else {
			gen_value::<ClockSpeed>(rng)
		};
		out.push(format!("new {}", v));
		if rng.chance(5, 6) {
			out.push("start".into());
			out.push("osp".into());
		}
		let steps = rng.range(4, 28);
		for _ in 0..steps {
			let line = match rng.below(20) {
				0 => "start".to_string(),
				1 => "pause".to_string(),
				2 => "stop".to_string(),
				// an infinite or enormous speed (only such: the case is then `risky` and runs on the helper thread;
				// zero-ish speeds are left to `gen_value` — a tween FROM a zero speed to another unit is a separate defect)
				3 | 4 if rng.chance(1, 10) => {
					let (k, x) = rng.pick(&[
						("spt", 0.0),
						("spt", 5e-324),
						("spt", 1e-300),
						("tps", 1e300),
						("tps", f64::MAX),
						("tps", 9007199254740994.0),
						("tpm", f64::MAX),
						("tps", 1e12),
					]);
					format!("speed fix:{}={} {}", k, o64(x), gen_tween(rng))
				}
				3 | 4 => format!("speed {} {}", gen_value::<ClockSpeed>(rng), gen_tween(rng)),
				5..=8 => "osp".to_string(),
				9 => {
					let k = rng.below(MAX_IDS as u64 + 1);
					let mut s = format!("info.clocks {}", k);
					for _ in 0..k {
						s += &format!(" {} {} {}", rng.below(2), rng.below(6), o64(rng.pick(&[0.0, 0.5, 0.25, 0.75, 0.999])));
					}
					s
				}
				_ => format!("update {}", o64(gen_dt(rng))),
			};
			stats.hit(line.split(' ').next().unwrap());
			out.push(line);
		}
	}
	out
}
