//! Suite `srate` (C16): which sample rate every effect believes in, through the PUBLIC API.
//! Each added track carries one ProbeEffect that logs `init` / `on_change_sample_rate` / `dt`.
//! ops: mgr <ibs> <sr> | add <sub|child|send|persist> <parent idx> | drop <track idx> | rate <sr> | cb <frames>
//! (`persist`: a sub-track built with persist_until_sounds_finish(true) that plays an endless probe sound, so it stays
//!  alive and processed after `drop` releases its handle.)  Every scene also runs a clock at 8 ticks/s: after every
//! callback the clock's time must be 8 x the elapsed REAL time (frames / rate in force) — C16's "clocks keep their speed".
//! trace for `cb`:  r=<rate in force> k=<known rate of effect 0>,<…>   (effects in creation order)
use crate::probe::{self, new_log, Log, ProbeBackend, ProbeEffectBuilder, ProbeSoundData, Signal};
use crate::runner::{run_cases, Out};
use crate::util::*;
use kira::track::{MainTrackBuilder, SendTrackBuilder, SendTrackHandle, TrackBuilder, TrackHandle};
use kira::{AudioManager, Capacities};

const RATES: &[u32] = &[8000, 22050, 44100, 48000, 96000, 192000];

pub fn gen(rng: &mut Rng, n: usize, _thorough: bool, stats: &mut Stats) -> Vec<String> {
	let mut out = vec![];
	for case in 0..n {
		out.push(format!("case {}", case));
		out.push(format!("mgr {} {}", rng.pick(&[1u64, 16, 128]), rng.pick(RATES)));
		// 1 case in 5 exercises "a track in flight across a rate change" (a recorded finding);
		// in the others every rate change happens right after a callback
		let in_flight = rng.chance(1, 5);
		let mut since_cb_adds = 0;
		// indices (into the track table) of persisting tracks whose handle is still held
		let mut persisting: Vec<u64> = vec![];
		let mut ntracks = 0u64;
		for _ in 0..rng.range(4, 16) {
			let line = match rng.below(11) {
				0..=3 => {
					since_cb_adds += 1;
					let kind = rng.pick(&["sub", "child", "child", "send", "persist"]);
					if kind != "send" {
						if kind == "persist" {
							persisting.push(ntracks);
						}
						ntracks += 1;
					}
					format!("add {} {}", kind, rng.below(4))
				}
				10 if !persisting.is_empty() && since_cb_adds == 0 => {
					let i = persisting.remove(rng.below(persisting.len() as u64) as usize);
					format!("drop {}", i)
				}
				4 | 5 if in_flight || since_cb_adds == 0 => format!("rate {}", rng.pick(RATES)),
				_ => {
					since_cb_adds = 0;
					format!("cb {}", rng.pick(&[1u64, 7, 64, 200]))
				}
			};
			stats.hit(line.split(' ').next().unwrap());
			out.push(line);
		}
		out.push("cb 32".into());
	}
	out
}

struct Scene {
	mgr: AudioManager<ProbeBackend>,
	clock: kira::clock::ClockHandle,
	/// real time rendered so far (seconds): sum of frames / rate in force
	elapsed: f64,
	tracks: Vec<Option<TrackHandle>>,
	sends: Vec<SendTrackHandle>,
	logs: Vec<Log>,
	rate: u32,
}

fn known(log: &Log) -> u32 {
	let l = log.lock().unwrap();
	l.rate_changes.last().copied().or(l.init.last().map(|x| x.0)).unwrap_or(0)
}

pub fn run(ops: &[String]) -> Vec<String> {
	run_cases(ops, None, |case: &[String], out: &mut Out| {
		let mut sc: Option<Scene> = None;
		for l in case {
			let tok: Vec<&str> = l.split_whitespace().collect();
			match tok[0] {
				"case" => out.put(l.clone()),
				"mgr" => {
					let rate = pu(tok[2]) as u32;
					let mut mgr = probe::manager(
						Capacities { sub_track_capacity: 64, send_track_capacity: 64, ..Capacities::default() },
						pu(tok[1]) as usize,
						rate,
						MainTrackBuilder::new(),
					);
					let mut clock = mgr.add_clock(kira::clock::ClockSpeed::TicksPerSecond(8.0)).unwrap();
					clock.start();
					sc = Some(Scene { mgr, clock, elapsed: 0.0, tracks: vec![], sends: vec![], logs: vec![], rate });
					out.put("ok");
				}
				"add" => {
					let s = sc.as_mut().unwrap();
					let log = new_log();
					let fx = ProbeEffectBuilder { gain: 1.0, offset: 0.0, feedback: 0.0, log: log.clone() };
					let live: Vec<usize> = (0..s.tracks.len()).filter(|i| s.tracks[*i].is_some()).collect();
					let ok = match tok[1] {
						"send" => s
							.mgr
							.add_send_track(SendTrackBuilder::new().with_effect(fx))
							.map(|h| s.sends.push(h))
							.is_ok(),
						"child" if !live.is_empty() => {
							let i = live[pu(tok[2]) as usize % live.len()];
							let r = s.tracks[i].as_mut().unwrap().add_sub_track(TrackBuilder::new().with_effect(fx));
							r.map(|h| s.tracks.push(Some(h))).is_ok()
						}
						"persist" => {
							// stays alive (and processed) after its handle is dropped: it keeps an endless sound
							let r = s
								.mgr
								.add_sub_track(TrackBuilder::new().with_effect(fx).persist_until_sounds_finish(true));
							match r {
								Ok(mut h) => {
									let _ = h.play(ProbeSoundData {
										signal: Signal::Constant { left: 0.25, right: 0.25 },
										length: None,
										log: new_log(),
									});
									s.tracks.push(Some(h));
									true
								}
								Err(_) => false,
							}
						}
						_ => s
							.mgr
							.add_sub_track(TrackBuilder::new().with_effect(fx))
							.map(|h| s.tracks.push(Some(h)))
							.is_ok(),
					};
					if ok {
						s.logs.push(log);
						out.put("ok");
					} else {
						out.put("limit");
					}
				}
				"drop" => {
					// release the handle of a persisting track (the generator only names those)
					let s = sc.as_mut().unwrap();
					let i = pu(tok[1]) as usize;
					if i < s.tracks.len() {
						s.tracks[i] = None;
					}
					out.put("ok");
				}
				"rate" => {
					let s = sc.as_mut().unwrap();
					s.rate = pu(tok[1]) as u32;
					s.mgr.backend_mut().change_sample_rate(s.rate);
					out.put("ok");
				}
				"cb" => {
					let s = sc.as_mut().unwrap();
					let before: Vec<usize> = s.logs.iter().map(|l| l.lock().unwrap().slices.len()).collect();
					s.mgr.backend_mut().callback(pu(tok[1]) as usize, 2);
					// oracle (C16): the 8 ticks/s clock has advanced by 8 x the real time rendered, whatever the rates were
					// (the handle shows the time published at the START of the latest callback)
					let t = s.clock.time();
					let got = t.ticks as f64 + t.fraction;
					if (got - 8.0 * s.elapsed).abs() > 1e-6 * (1.0 + 8.0 * s.elapsed) {
						out.oracle_fail("clock_speed_depends_on_rate", l);
					}
					s.elapsed += pu(tok[1]) as f64 / s.rate as f64;
					let ks: Vec<String> = s.logs.iter().map(|l| known(l).to_string()).collect();
					out.put(format!("r={} k={}", s.rate, ks.join(",")));
					// oracle (C16): every effect processed in this callback knows the rate in force, and the
					// dt it is handed is 1 / rate in force
					for (i, log) in s.logs.iter().enumerate() {
						let lg = log.lock().unwrap();
						let processed = lg.slices.len() > before[i];
						if processed {
							if known_locked(log_ref(&lg)) != s.rate {
								out.oracle_fail("effect_rate_stale", l);
								break;
							}
							let dt = *lg.dts.last().unwrap();
							if (1.0 / dt - s.rate as f64).abs() > 1e-6 * s.rate as f64 {
								out.oracle_fail("dt_not_rate_in_force", l);
								break;
							}
						} else {
							out.oracle_fail("live_effect_not_processed", l);
							break;
						}
					}
				}
				_ => panic!("srate: unknown op"),
			}
		}
	})
}

/// `known` on an already locked log
fn log_ref(l: &probe::ProbeLog) -> ProbeLogView<'_> {
	ProbeLogView(l)
}
struct ProbeLogView<'a>(&'a probe::ProbeLog);
fn known_view(v: ProbeLogView<'_>) -> u32 {
	v.0.rate_changes.last().copied().or(v.0.init.last().map(|x| x.0)).unwrap_or(0)
}
trait KnownRate {
	fn rate(self) -> u32;
}
impl KnownRate for ProbeLogView<'_> {
	fn rate(self) -> u32 {
		known_view(self)
	}
}
#[allow(non_snake_case)]
fn known_locked(v: ProbeLogView<'_>) -> u32 {
	v.rate()
}
