//! Suite `srate` (C16): which sample rate every effect believes in, through the PUBLIC API.
//! Each added track carries one ProbeEffect that logs `init` / `on_change_sample_rate` / `dt`.
//! ops: mgr <ibs> <sr> | add <sub|child|send> <parent idx> | rate <sr> | cb <frames>
//! trace for `cb`:  r=<rate in force> k=<known rate of effect 0>,<…>   (effects in creation order)
use crate::probe::{self, new_log, Log, ProbeBackend, ProbeEffectBuilder};
use crate::runner::{run_cases, Out};
use crate::util::*;
use kira::track::{MainTrackBuilder, SendTrackBuilder, SendTrackHandle, TrackBuilder, TrackHandle};
use kira::{AudioManager, Capacities};

const RATES: &[u32] = &[8000, 22050, 44100, 48000, 96000, 192000];

pub fn gen(rng: &mut Rng, n: usize, _thorough: bool, stats: &mut Stats) -> Vec<String> {
	let mut out = vec![];
	for case in 0..n {
		out.push(format!("case {}", case));
		out.push(format!("mgr {} {}", rng.pick(&[1u64, 16, 128]), rng.pick(RATES)));
		// 1 case in 5 exercises "a track in flight across a rate change" (a recorded finding);
		// in the others every rate change happens right after a callback
		let in_flight = rng.chance(1, 5);
		let mut since_cb_adds = 0;
		for _ in 0..rng.range(4, 16) {
			let line = match rng.below(10) {
				0..=3 => {
					since_cb_adds += 1;
					format!("add {} {}", rng.pick(&["sub", "child", "child", "send"]), rng.below(4))
				}
				4 | 5 if in_flight || since_cb_adds == 0 => format!("rate {}", rng.pick(RATES)),
				_ => {
					since_cb_adds = 0;
					format!("cb {}", rng.pick(&[1u64, 7, 64, 200]))
				}
			};
			stats.hit(line.split(' ').next().unwrap());
			out.push(line);
		}
		out.push("cb 32".into());
	}
	out
}

struct Scene {
	mgr: AudioManager<ProbeBackend>,
	tracks: Vec<TrackHandle>,
	sends: Vec<SendTrackHandle>,
	logs: Vec<Log>,
	rate: u32,
}

fn known(log: &Log) -> u32 {
	let l = log.lock().unwrap();
	l.rate_changes.last().copied().or(l.init.last().map(|x| x.0)).unwrap_or(0)
}

pub fn run(ops: &[String]) -> Vec<String> {
	run_cases(ops, None, |case: &[String], out: &mut Out| {
		let mut sc: Option<Scene> = None;
		for l in case {
			let tok: Vec<&str> = l.split_whitespace().collect();
			match tok[0] {
				"case" => out.put(l.clone()),
				"mgr" => {
					let rate = pu(tok[2]) as u32;
					sc = Some(Scene {
						mgr: probe::manager(
							Capacities { sub_track_capacity: 64, send_track_capacity: 64, ..Capacities::default() },
							pu(tok[1]) as usize,
							rate,
							MainTrackBuilder::new(),
						),
						tracks: vec![],
						sends: vec![],
						logs: vec![],
						rate,
					});
					out.put("ok");
				}
				"add" => {
					let s = sc.as_mut().unwrap();
					let log = new_log();
					let fx = ProbeEffectBuilder { gain: 1.0, offset: 0.0, feedback: 0.0, log: log.clone() };
					let ok = match tok[1] {
						"send" => s
							.mgr
							.add_send_track(SendTrackBuilder::new().with_effect(fx))
							.map(|h| s.sends.push(h))
							.is_ok(),
						"child" if !s.tracks.is_empty() => {
							let n = s.tracks.len();
							let r = s.tracks[pu(tok[2]) as usize % n].add_sub_track(TrackBuilder::new().with_effect(fx));
							r.map(|h| s.tracks.push(h)).is_ok()
						}
						_ => s
							.mgr
							.add_sub_track(TrackBuilder::new().with_effect(fx))
							.map(|h| s.tracks.push(h))
							.is_ok(),
					};
					if ok {
						s.logs.push(log);
						out.put("ok");
					} else {
						out.put("limit");
					}
				}
				"rate" => {
					let s = sc.as_mut().unwrap();
					s.rate = pu(tok[1]) as u32;
					s.mgr.backend_mut().change_sample_rate(s.rate);
					out.put("ok");
				}
				"cb" => {
					let s = sc.as_mut().unwrap();
					let before: Vec<usize> = s.logs.iter().map(|l| l.lock().unwrap().slices.len()).collect();
					s.mgr.backend_mut().callback(pu(tok[1]) as usize, 2);
					let ks: Vec<String> = s.logs.iter().map(|l| known(l).to_string()).collect();
					out.put(format!("r={} k={}", s.rate, ks.join(",")));
					// oracle (C16): every effect processed in this callback knows the rate in force, and the
					// dt it is handed is 1 / rate in force
					for (i, log) in s.logs.iter().enumerate() {
						let lg = log.lock().unwrap();
						let processed = lg.slices.len() > before[i];
						if processed {
							if known_locked(log_ref(&lg)) != s.rate {
								out.oracle_fail("effect_rate_stale", l);
								break;
							}
							let dt = *lg.dts.last().unwrap();
							if (1.0 / dt - s.rate as f64).abs() > 1e-6 * s.rate as f64 {
								out.oracle_fail("dt_not_rate_in_force", l);
								break;
							}
						} else {
							out.oracle_fail("live_effect_not_processed", l);
							break;
						}
					}
				}
				_ => panic!("srate: unknown op"),
			}
		}
	})
}

/// `known` on an already locked log
fn log_ref(l: &probe::ProbeLog) -> ProbeLogView<'_> {
	ProbeLogView(l)
}
struct ProbeLogView<'a>(&'a probe::ProbeLog);
fn known_view(v: ProbeLogView<'_>) -> u32 {
	v.0.rate_changes.last().copied().or(v.0.init.last().map(|x| x.0)).unwrap_or(0)
}
trait KnownRate {
	fn rate(self) -> u32;
}
impl KnownRate for ProbeLogView<'_> {
	fn rate(self) -> u32 {
		known_view(self)
	}
}
#[allow(non_snake_case)]
fn known_locked(v: ProbeLogView<'_>) -> u32 {
	v.rate()
}
