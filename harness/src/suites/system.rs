//! Suite `system` (C01): whole-system scenes through kira's PUBLIC API only, with always-on monitors.
//! Implementation-only suite (no twin): every `cb` is checked for
//!   * panics (caught → `fault …`), hangs (watchdog → `fault hang`),
//!   * heap allocation / deallocation on the audio thread inside the callback (counting allocator),
//!   * every sample finite and in [-1, 1]; channels beyond the second exactly 0.
//! Objects live in index-addressed tables; an index is taken modulo the table length and an op whose
//! table is empty prints `skip` — so any sub-sequence of an ops file is still a valid ops file
//! (needed for shrinking).
use crate::probe::{self, ProbeBackend};
use crate::runner::{run_cases, Out};
use crate::suites::units::{fmt_easing, gen_easing, parse_easing};
use crate::util::*;
use kira::clock::{ClockHandle, ClockSpeed, ClockTime};
use kira::effect::compressor::CompressorBuilder;
use kira::effect::delay::DelayBuilder;
use kira::effect::distortion::{DistortionBuilder, DistortionKind};
use kira::effect::eq_filter::{EqFilterBuilder, EqFilterKind};
use kira::effect::filter::{FilterBuilder, FilterMode};
use kira::effect::panning_control::PanningControlBuilder;
use kira::effect::reverb::ReverbBuilder;
use kira::effect::volume_control::VolumeControlBuilder;
use kira::effect::Effect;
use kira::effect::EffectBuilder;
use kira::listener::ListenerHandle;
use kira::modulator::lfo::{LfoBuilder, LfoHandle, Waveform};
use kira::modulator::tweener::{TweenerBuilder, TweenerHandle};
use kira::sound::static_sound::{StaticSoundData, StaticSoundHandle, StaticSoundSettings};
use kira::sound::streaming::{Decoder, StreamingSoundData, StreamingSoundHandle};
use kira::sound::PlaybackState;
use kira::track::{
	MainTrackBuilder, SendTrackBuilder, SendTrackHandle, SpatialTrackBuilder, SpatialTrackHandle, TrackBuilder,
	TrackHandle,
};
use kira::{
	AudioManager, Capacities, Decibels, Frame, Mapping, Mix, Panning, PlaybackRate, StartTime, Tween, Value,
};
use std::sync::Arc;
use std::time::Duration;

// ------------------------------------------------------------------------------------------------
// EXTREME finite arguments.  Every argument the generator draws goes through `G::f64v` / `f32v` /
// `durv` / `ticksv`: with the case's probability `xp` (per mille) the value comes from the pools
// below instead of the ordinary pool of that argument — ±huge, f64::MAX, values just beyond 2^53
// (where `x - 1.0 == x`), 2^63 / 2^64 (where `as usize` / `as u64` saturate), the smallest subnormal,
// -0.0, Duration::MAX, u64::MAX ticks.  They are chosen so that a loop whose trip count is
// proportional to the argument needs > 10^13 iterations (years) — see `run` for the watchdog.
// NOT drawn: arguments that size an allocation on the GAME thread (delay_time, capacities,
// internal_buffer_size, callback length): a huge one aborts the process, which is not the audio thread.
// ------------------------------------------------------------------------------------------------

const X64: &[f64] = &[
	1e300,
	-1e300,
	f64::MAX,
	f64::MIN,
	9007199254740994.0,    // 2^53 + 2
	-9007199254740994.0,
	9.223372036854775808e18,  // 2^63
	1.8446744073709551616e19, // 2^64
	-1.8446744073709551616e19,
	1e19,
	5e-324, // smallest subnormal
	-5e-324,
	2.2250738585072014e-308, // smallest normal
	1e-300,
	-0.0,
];
const X32: &[f32] = &[
	1e30,
	-1e30,
	f32::MAX,
	f32::MIN,
	16777218.0, // 2^24 + 2
	-16777218.0,
	1e-45, // smallest subnormal
	-1e-45,
	1.1754944e-38, // smallest normal
	-0.0,
	3e38,
];
/// durations as ops tokens: nanoseconds, or `max` = Duration::MAX (u64::MAX s + 999 999 999 ns)
const XDUR: &[&str] = &["max", "18446744073709551615", "9223372036854775808", "9007199254740993000000000", "1"];
const XTICKS: &[u64] = &[u64::MAX, u64::MAX - 1, 1 << 63, (1 << 53) + 1, 1 << 32];

/// argument kinds whose extreme values are RECORDED known findings that hang the audio thread (each would
/// cost a watchdog timeout and leave a spinning thread behind): their extremes are replayed from
/// `corpus/system/known_*.ops` and not drawn at random.
const X_EXCLUDED: &[&str] = &["play.rate", "snd.set.rate"];

struct G<'a> {
	rng: &'a mut Rng,
	stats: &'a mut Stats,
	/// probability (per mille) that an argument of this case is drawn from the extreme pools
	xp: u64,
}

impl G<'_> {
	fn x(&mut self, kind: &str) -> bool {
		if self.xp == 0 || X_EXCLUDED.contains(&kind) || self.rng.below(1000) >= self.xp {
			return false;
		}
		self.stats.hit(&format!("x:{}", kind));
		true
	}
	fn f64v(&mut self, kind: &str, pool: &[f64]) -> f64 {
		if self.x(kind) {
			self.rng.pick(X64)
		} else {
			self.rng.pick(pool)
		}
	}
	fn f32v(&mut self, kind: &str, pool: &[f32]) -> f32 {
		if self.x(kind) {
			self.rng.pick(X32)
		} else {
			self.rng.pick(pool)
		}
	}
	fn durv(&mut self, kind: &str, pool: &[u64]) -> String {
		if self.x(kind) {
			self.rng.pick(XDUR).to_string()
		} else {
			self.rng.pick(pool).to_string()
		}
	}
	fn ticksv(&mut self, kind: &str, n: u64) -> u64 {
		if self.x(kind) {
			self.rng.pick(XTICKS)
		} else {
			self.rng.below(n)
		}
	}
}

/// `max` = Duration::MAX, otherwise nanoseconds (u128 so that values past u64 nanoseconds can be written)
fn pdur(s: &str) -> Duration {
	if s == "max" {
		return Duration::MAX;
	}
	let n: u128 = s.parse().expect("bad duration");
	Duration::new((n / 1_000_000_000).min(u64::MAX as u128) as u64, (n % 1_000_000_000) as u32)
}

// ------------------------------------------------------------------------------------------------
// effect descriptors:  kind:arg:arg…   (floats as hex bits)
// ------------------------------------------------------------------------------------------------

fn gen_fx(g: &mut G, depth: u32) -> String {
	let mix = o32(g.f32v("fx.mix", &[0.0f32, 1.0, 0.5, 0.25, 1.0, 1.0, 0.5, -0.5, 1.5]));
	match g.rng.below(8) {
		0 => format!(
			"filter:{}:{}:{}:{}",
			g.rng.below(4),
			o64(g.f64v("filter.cutoff", &[20.0, 200.0, 1000.0, 5000.0, 20000.0, 3999.0, 12345.6])),
			o64(g.f64v("filter.resonance", &[0.0, 0.5, 1.0, 0.9, -0.5, 1.5])),
			mix
		),
		1 => format!(
			"eq:{}:{}:{}:{}",
			g.rng.below(3),
			o64(g.f64v("eq.frequency", &[20.0, 100.0, 1000.0, 8000.0, 20000.0])),
			o32(g.f32v("eq.gain", &[0.0f32, 6.0, -6.0, 12.0, -24.0])),
			o64(g.f64v("eq.q", &[0.01, 0.5, 1.0, 4.0]))
		),
		2 => format!(
			"dist:{}:{}:{}",
			g.rng.below(2),
			o32(g.f32v("dist.drive", &[0.0f32, 6.0, 24.0, -12.0, -59.0])),
			mix
		),
		3 => format!(
			"comp:{}:{}:{}:{}:{}:{}",
			o64(g.f64v("comp.threshold", &[0.0, -12.0, -24.0, -60.0])),
			// ratio: 0 and -0 have no reciprocal (used to turn the whole mix into NaN; now like ratio 1), 0.5 expands
			o64(g.f64v("comp.ratio", &[1.0, 2.0, 4.0, 100.0, 0.0, -0.0, 0.5, 0.0])),
			g.durv("comp.attack", &[0u64, 1_000_000, 10_000_000, 300_000_000]),
			g.durv("comp.release", &[0u64, 1_000_000, 100_000_000, 1_000_000_000]),
			o32(g.f32v("comp.makeup", &[0.0f32, 6.0, -6.0])),
			mix
		),
		4 => {
			let inner = if depth == 0 && g.rng.chance(1, 3) { gen_fx(g, 1).replace(':', ";") } else { "-".into() };
			format!(
				"delay:{}:{}:{}:{}",
				// delay_time sizes an allocation on the game thread: never extreme
				g.rng.pick(&[1_000_000u64, 10_000_000, 500_000_000, 33_333_333, 2_000_000]),
				o32(g.f32v("delay.feedback", &[-6.0f32, -60.0, -1.0, -12.0, -0.1])),
				mix,
				inner
			)
		}
		5 => format!(
			"reverb:{}:{}:{}:{}",
			o64(g.f64v("reverb.feedback", &[0.9, 0.0, 0.5, 0.99])),
			o64(g.f64v("reverb.damping", &[0.1, 0.0, 1.0, 0.5])),
			o64(g.f64v("reverb.width", &[1.0, 0.0, 0.5])),
			mix
		),
		6 => format!("vol:{}", o32(g.f32v("vol.db", &[0.0f32, -6.0, -60.0, 6.0, -70.0]))),
		_ => format!("pan:{}", o32(g.f32v("pan", &[0.0f32, -1.0, 1.0, 0.3, 2.0, -2.0, -1.0000001]))),
	}
}

fn gen_fx_list(g: &mut G) -> String {
	let n = g.rng.pick(&[0u64, 0, 1, 1, 2, 3]);
	if n == 0 {
		return "-".into();
	}
	(0..n).map(|_| gen_fx(g, 0)).collect::<Vec<_>>().join(",")
}

fn build_fx(desc: &str) -> Box<dyn Effect> {
	let p: Vec<&str> = desc.split(':').collect();
	match p[0] {
		"filter" => FilterBuilder::new()
			.mode(match pu(p[1]) {
				0 => FilterMode::LowPass,
				1 => FilterMode::BandPass,
				2 => FilterMode::HighPass,
				_ => FilterMode::Notch,
			})
			.cutoff(p64(p[2]))
			.resonance(p64(p[3]))
			.mix(Mix(p32(p[4])))
			.build()
			.0,
		"eq" => EqFilterBuilder::new(
			match pu(p[1]) {
				0 => EqFilterKind::Bell,
				1 => EqFilterKind::LowShelf,
				_ => EqFilterKind::HighShelf,
			},
			p64(p[2]),
			Decibels(p32(p[3])),
			p64(p[4]),
		)
		.build()
		.0,
		"dist" => DistortionBuilder::new()
			.kind(if pu(p[1]) == 0 { DistortionKind::HardClip } else { DistortionKind::SoftClip })
			.drive(Decibels(p32(p[2])))
			.mix(Mix(p32(p[3])))
			.build()
			.0,
		"comp" => CompressorBuilder::new()
			.threshold(p64(p[1]))
			.ratio(p64(p[2]))
			.attack_duration(pdur(p[3]))
			.release_duration(pdur(p[4]))
			.makeup_gain(Decibels(p32(p[5])))
			.mix(Mix(p32(p[6])))
			.build()
			.0,
		"delay" => {
			let mut b = DelayBuilder::new()
				.delay_time(Duration::from_nanos(pu(p[1])))
				.feedback(Decibels(p32(p[2])))
				.mix(Mix(p32(p[3])));
			if p[4] != "-" {
				b = b.with_feedback_effect(Built(Some(build_fx(&p[4].replace(';', ":")))));
			}
			b.build().0
		}
		"reverb" => ReverbBuilder::new()
			.feedback(p64(p[1]))
			.damping(p64(p[2]))
			.stereo_width(p64(p[3]))
			.mix(Mix(p32(p[4])))
			.build()
			.0,
		"vol" => VolumeControlBuilder::new(Decibels(p32(p[1]))).build().0,
		"pan" => PanningControlBuilder(Value::Fixed(Panning(p32(p[1])))).build().0,
		_ => panic!("bad fx {}", desc),
	}
}

/// adapter: an already built effect as an `EffectBuilder` (for delay feedback chains)
struct Built(Option<Box<dyn Effect>>);
impl EffectBuilder for Built {
	type Handle = ();
	fn build(mut self) -> (Box<dyn Effect>, ()) {
		(self.0.take().unwrap(), ())
	}
}

fn fx_list(desc: &str) -> Vec<Box<dyn Effect>> {
	if desc == "-" {
		vec![]
	} else {
		desc.split(',').map(build_fx).collect()
	}
}

// ------------------------------------------------------------------------------------------------
// tweens / start times / values
// ------------------------------------------------------------------------------------------------

fn gen_tween(g: &mut G, nclocks: usize) -> String {
	let start = match g.rng.below(8) {
		0 => format!("del:{}", g.durv("start.delay", &[0u64, 1_000_000, 50_000_000])),
		1 if nclocks > 0 => format!(
			"clk:{}:{}:{}",
			g.rng.below(nclocks as u64),
			g.ticksv("start.ticks", 4),
			o64(g.f64v("start.fraction", &[0.0, 0.5]))
		),
		_ => "imm".into(),
	};
	format!(
		"{};{};{}",
		start,
		g.durv("tween.duration", &[0u64, 1, 10_000_000, 1_000_000, 100_000_000, 1_000_000_000]),
		fmt_easing(&gen_easing(g.rng))
	)
}

/// in-memory decoder of a streaming sound (`splay`): 64-frame packets, exact seeks
struct MemDecoder {
	frames: Arc<[Frame]>,
	sr: u32,
	pos: usize,
}
impl Decoder for MemDecoder {
	type Error = ();
	fn sample_rate(&self) -> u32 {
		self.sr
	}
	fn num_frames(&self) -> usize {
		self.frames.len()
	}
	fn decode(&mut self) -> Result<Vec<Frame>, ()> {
		let end = (self.pos + 64).min(self.frames.len());
		let v = self.frames[self.pos..end].to_vec();
		self.pos = end;
		Ok(v)
	}
	fn seek(&mut self, index: usize) -> Result<usize, ()> {
		self.pos = index.min(self.frames.len());
		Ok(self.pos)
	}
}

/// a static or a streaming sound handle: the `snd…` ops address either
enum Snd {
	St(StaticSoundHandle),
	Sm(StreamingSoundHandle<()>),
}
macro_rules! snd_call {
	($s:expr, $h:ident => $e:expr) => {
		match $s {
			Snd::St($h) => $e,
			Snd::Sm($h) => $e,
		}
	};
}
impl Snd {
	fn state(&self) -> PlaybackState {
		snd_call!(self, h => h.state())
	}
}

struct Scene {
	mgr: AudioManager<ProbeBackend>,
	tracks: Vec<TrackHandle>,
	spatials: Vec<SpatialTrackHandle>,
	sends: Vec<SendTrackHandle>,
	clocks: Vec<ClockHandle>,
	lfos: Vec<LfoHandle>,
	tweeners: Vec<TweenerHandle>,
	listeners: Vec<ListenerHandle>,
	sounds: Vec<Snd>,
}

impl Scene {
	fn start(&self, s: &str) -> StartTime {
		if s == "imm" {
			return StartTime::Immediate;
		}
		let p: Vec<&str> = s.split(':').collect();
		match p[0] {
			"del" => StartTime::Delayed(pdur(p[1])),
			"clk" if !self.clocks.is_empty() => StartTime::ClockTime(ClockTime {
				clock: self.clocks[pu(p[1]) as usize % self.clocks.len()].id(),
				ticks: pu(p[2]),
				fraction: p64(p[3]),
			}),
			_ => StartTime::Immediate,
		}
	}
	fn tween(&self, s: &str) -> Tween {
		let p: Vec<&str> = s.split(';').collect();
		Tween {
			start_time: self.start(p[0]),
			duration: pdur(p[1]),
			easing: parse_easing(p[2]),
		}
	}
	/// `fix:<f32>` or `mod:<l|t><idx>:<out0>:<out1>` (linked to an LFO / tweener, input range -1..1)
	fn db_value(&self, s: &str) -> Value<Decibels> {
		let p: Vec<&str> = s.split(':').collect();
		if p[0] == "mod" {
			let id = if p[1].starts_with('l') && !self.lfos.is_empty() {
				Some(self.lfos[pu(&p[1][1..]) as usize % self.lfos.len()].id())
			} else if !self.tweeners.is_empty() {
				Some(self.tweeners[pu(&p[1][1..]) as usize % self.tweeners.len()].id())
			} else {
				None
			};
			if let Some(id) = id {
				return Value::FromModulator {
					id,
					mapping: Mapping {
						input_range: (-1.0, 1.0),
						output_range: (Decibels(p32(p[2])), Decibels(p32(p[3]))),
						easing: kira::Easing::Linear,
					},
				};
			}
			return Value::Fixed(Decibels(p32(p[2])));
		}
		Value::Fixed(Decibels(p32(p[1])))
	}
}

fn gen_db(g: &mut G) -> String {
	if g.rng.chance(1, 6) {
		format!(
			"mod:{}{}:{}:{}",
			g.rng.pick(&["l", "t"]),
			g.rng.below(3),
			o32(g.f32v("db.map0", &[-60.0f32, -12.0, -6.0])),
			o32(g.f32v("db.map1", &[0.0f32, 6.0, -3.0]))
		)
	} else {
		format!("fix:{}", o32(g.f32v("db", &[0.0f32, -6.0, -60.0, 6.0, -3.0, -20.0, -61.0, 12.0])))
	}
}

const RATES: &[u32] = &[8000, 11025, 22050, 44100, 48000, 96000, 192000];

// ------------------------------------------------------------------------------------------------
// generator
// ------------------------------------------------------------------------------------------------

pub fn gen(rng: &mut Rng, n: usize, thorough: bool, stats: &mut Stats) -> Vec<String> {
	let mut out = vec![];
	let mut g = G { rng, stats, xp: 0 };
	for case in 0..n {
		out.push(format!("case {}", case));
		// how extreme is this case: 55 % ordinary (no extreme argument at all), 30 % a few (each argument
		// extreme with probability 3 %), 15 % many (25 %)
		g.xp = match g.rng.below(20) {
			0..=10 => 0,
			11..=16 => 30,
			_ => 250,
		};
		g.stats.hit(match g.xp {
			0 => "case_ordinary",
			30 => "case_few_extremes",
			_ => "case_many_extremes",
		});
		let ibs = g.rng.pick(&[1u64, 2, 7, 16, 64, 128, 128, 256, 1000]);
		out.push(format!(
			"mgr {} {} {} {} {} {} {} {} {}",
			g.rng.pick(&[1u64, 2, 4, 8]),
			g.rng.pick(&[1u64, 2, 4]),
			g.rng.pick(&[1u64, 2, 4]),
			g.rng.pick(&[1u64, 2, 4]),
			g.rng.pick(&[1u64, 2]),
			ibs,
			g.rng.pick(RATES),
			gen_db(&mut g).replace("mod:l", "fix:").replace("mod:t", "fix:").split(':').take(2).collect::<Vec<_>>().join(":"),
			gen_fx_list(&mut g)
		));
		let steps = if thorough { g.rng.range(20, 80) } else { g.rng.range(12, 40) };
		let mut nclocks = 0usize;
		// resource churn: more create/drop generations of one kind than its capacity, with callbacks in
		// between (every removed resource travels through the unused-resource ring, which only the
		// gameplay thread's next create of that kind drains)
		if g.rng.chance(1, 5) {
			let kind = g.rng.pick(&["send", "clock", "lfo", "tweener", "listener", "track"]);
			for _ in 0..g.rng.range(6, 11) {
				let create = match kind {
					"send" => format!("send {} -", gen_db(&mut g)),
					"clock" => {
						nclocks += 1;
						"clock tps 3ff0000000000000".to_string()
					}
					"lfo" => "lfo 0 3ff0000000000000 3ff0000000000000 0000000000000000 0000000000000000".to_string(),
					"tweener" => "tweener 0000000000000000".to_string(),
					"listener" => "listener 00000000 00000000 00000000 00000000 00000000 00000000 3f800000".to_string(),
					_ => format!("track -1 {} 0 -1 fix:00000000 -", gen_db(&mut g)),
				};
				for l in [create, "cb 8 2".to_string(), format!("drop {} 0", kind), "cb 8 2".to_string()] {
					g.stats.hit("churn");
					out.push(l);
				}
			}
		}
		// extreme cases start with a bed the extreme arguments can act on: a running clock, a looping sound
		// played forwards and one played in reverse (so that extreme seeks / loop regions / speeds / start
		// times meet loop regions, reverse playback and ticking clocks), rendered once
		if g.xp > 0 && g.rng.chance(2, 3) {
			nclocks += 1;
			let len = g.rng.pick(&[2u64, 3, 10, 100, 1000]);
			let sr = g.rng.pick(&[100u32, 8000, 44100, 48000]);
			let a = g.rng.below(len - 1);
			for l in [
				format!("clock {} {}", g.rng.pick(&["spt", "tps", "tpm"]), o64(g.rng.pick(&[0.5, 1.0, 120.0]))),
				format!("clock.cmd {} start", nclocks - 1),
				format!(
					"play -1 {} {} 7 fix:00000000 {} 00000000 {} {} 0 0000000000000000 - imm -",
					len,
					sr,
					o64(g.rng.pick(&[1.0, 0.5, 2.0])),
					o64(a as f64 / sr as f64),
					o64(-1.0)
				),
				format!(
					"play -1 {} {} 8 fix:00000000 {} 00000000 {} {} 1 0000000000000000 - imm -",
					len,
					sr,
					o64(g.rng.pick(&[1.0, -1.0, 2.0])),
					o64(a as f64 / sr as f64),
					o64((a + 1 + g.rng.below(len - a - 1)) as f64 / sr as f64)
				),
				"cb 32 2".to_string(),
			] {
				g.stats.hit("xbed");
				out.push(l);
			}
		}
		for _ in 0..steps {
			let line = match g.rng.below(41) {
				0 | 1 => format!("send {} {}", gen_db(&mut g), gen_fx_list(&mut g)),
				2..=4 => format!(
					"track {} {} {} {} {} {}",
					g.rng.range(-1, 3),
					gen_db(&mut g),
					g.rng.below(2),
					g.rng.range(-1, 2),
					gen_db(&mut g),
					gen_fx_list(&mut g)
				),
				5 => {
					nclocks += 1;
					format!(
						"clock {} {}",
						g.rng.pick(&["spt", "tps", "tpm"]),
						// 0.0: SecondsPerTick(0) = infinitely many ticks per second (used to hang the audio thread)
						o64(g.f64v("clock.speed", &[0.5, 1.0, 2.0, 120.0, 0.01, 1000.0, 0.0, 1e6]))
					)
				}
				6 => format!("clock.cmd {} {}", g.rng.below(4), g.rng.pick(&["start", "pause", "stop", "start"])),
				7 => format!(
					"clock.speed {} {} {} {}",
					g.rng.below(4),
					g.rng.pick(&["spt", "tps", "tpm"]),
					o64(g.f64v("clock.set_speed", &[0.25, 1.0, 3.0, 90.0, 0.0])),
					gen_tween(&mut g, nclocks)
				),
				8 => format!(
					"lfo {} {} {} {} {}",
					g.rng.below(5),
					o64(g.f64v("lfo.frequency", &[0.0, 0.5, 2.0, 20.0, 1000.0, -3.0])),
					o64(g.f64v("lfo.amplitude", &[1.0, 0.0, -1.0, 10.0])),
					o64(g.f64v("lfo.offset", &[0.0, 1.0, -0.5])),
					o64(g.f64v("lfo.phase", &[0.0, 90.0, 0.25, 720.0, -200.0]))
				),
				9 => format!("tweener {}", o64(g.f64v("tweener.initial", &[0.0, 1.0, -1.0, 0.5]))),
				10 => {
					let v = if g.x("tweener.set") { g.rng.pick(X64) } else { g.rng.uniform(-2.0, 2.0) };
					format!("tweener.set {} {} {}", g.rng.below(3), o64(v), gen_tween(&mut g, nclocks))
				}
				11 => {
					let mut c = [0f32; 3];
					for x in c.iter_mut() {
						*x = if g.x("listener.position") { g.rng.pick(X32) } else { g.rng.uniform(-5.0, 5.0) as f32 };
					}
					format!(
						"listener {} {} {} {} {} {} {}",
						o32(c[0]),
						o32(c[1]),
						o32(c[2]),
						o32(g.f32v("listener.quat", &[0.0f32, 0.5, 0.70710677, 0.0])),
						o32(g.f32v("listener.quat", &[0.0f32, 0.5, 0.70710677, 0.0])),
						o32(g.f32v("listener.quat", &[0.0f32, 0.5, 0.0])),
						o32(g.f32v("listener.quat", &[1.0f32, 0.5, 0.70710677, 0.0, 3.0, 1e-30]))
					)
				}
				12 => {
					// any finite distances, including max <= min (a step at min since the spatial fix)
					let min = g.f32v("spatial.min", &[1.0f32, 0.0, 0.5, 10.0]);
					let max = if g.x("spatial.max") { g.rng.pick(X32) } else { min + g.rng.pick(&[1.0f32, 100.0, 0.001, 50.0, 0.0, -0.5, -20.0]) };
					let mut pos = if g.rng.chance(1, 4) {
						[0f32; 3]
					} else {
						[g.rng.uniform(-20.0, 20.0) as f32, g.rng.uniform(-20.0, 20.0) as f32, g.rng.uniform(-20.0, 20.0) as f32]
					};
					for x in pos.iter_mut() {
						if g.x("spatial.position") {
							*x = g.rng.pick(X32);
						}
					}
					format!(
						"spatial {} {} {} {} {} {} {} {} {}",
						g.rng.below(2),
						o32(pos[0]),
						o32(pos[1]),
						o32(pos[2]),
						o32(min),
						o32(max),
						if g.rng.chance(1, 2) { "-".to_string() } else { fmt_easing(&gen_easing(g.rng)) },
						o32(g.f32v("spatial.strength", &[0.75f32, 0.0, 1.0, 0.5])),
						gen_db(&mut g)
					)
				}
				13 => {
					let mut c = [0f32; 3];
					for x in c.iter_mut() {
						*x = if g.x("listener.set_position") { g.rng.pick(X32) } else { g.rng.uniform(-20.0, 20.0) as f32 };
					}
					format!("listener.pos {} {} {} {} {}", g.rng.below(2), o32(c[0]), o32(c[1]), o32(c[2]), gen_tween(&mut g, nclocks))
				}
				14..=18 => {
					// static sound: length, sample rate, settings
					let len = g.rng.pick(&[0u64, 1, 2, 3, 10, 100, 1000, 5000]);
					let sr = g.rng.pick(&[1u32, 100, 8000, 22050, 44100, 48000]);
					let looped = len >= 2 && g.rng.chance(1, 3);
					let (mut ls, mut le) = if looped {
						// a valid, non-empty loop region (at least one frame)
						let a = g.rng.below(len - 1);
						let b = a + 1 + g.rng.below(len - a - 1 + 1).min(len - a - 1);
						(a as f64 / sr as f64, if g.rng.chance(1, 3) { -1.0 } else { b as f64 / sr as f64 })
					} else {
						(-1.0, -1.0)
					};
					// extreme loop regions: a start / an end of 1e300 s saturates at usize::MAX frames; tiny and
					// -0.0 ones round to frame 0 (negative values mean "none" / "to the end" in this ops format)
					if g.x("play.loop_start") {
						ls = g.rng.pick(X64).abs();
					}
					if ls >= 0.0 && g.x("play.loop_end") {
						le = g.rng.pick(X64).abs();
					}
					// reversed sounds of any length (empty ones too), start positions inside, at and past the end in
					// either direction (reverse + start ≥ length used to underflow in Transport::new: repaired)
					let reverse = g.rng.chance(1, 4);
					let startpos = if g.x("play.start_position") {
						g.rng.pick(X64)
					} else {
						g.rng.pick(&[0, 0, len.saturating_sub(1) / 2, len.saturating_sub(1), len, len + 1, 2 * len + 7]) as f64 / sr as f64
					};
					// slice (the public field): none, inside the data, reaching past it, starting past it, inverted,
					// empty (a slice past the data used to index out of bounds on the audio thread, an inverted one
					// underflowed in num_frames: both repaired — the slice is clamped to the data)
					let slice = match g.rng.below(12) {
						0 | 1 => {
							let a = g.rng.below(len + 1);
							format!("{},{}", a, a + g.rng.below(len - a + 1))
						}
						2 => format!("{},{}", g.rng.below(len + 1), len + 1 + g.rng.below(5000)),
						3 => format!("0,{}", g.rng.pick(&[len + 1, u32::MAX as u64, u64::MAX])),
						4 => {
							let a = len + g.rng.below(3);
							format!("{},{}", a, a + g.rng.below(4))
						}
						5 => {
							let a = 1 + g.rng.below(len + 2);
							format!("{},{}", a, g.rng.below(a))
						}
						6 => {
							let a = g.rng.below(len + 2);
							format!("{},{}", a, a)
						}
						7 if g.xp > 0 => format!("{},{}", g.rng.pick(&[u64::MAX, u64::MAX - 1, 1 << 63]), g.rng.pick(&[u64::MAX, 0, 1 << 63])),
						_ => "-".to_string(),
					};
					g.stats.hit(if slice == "-" { "play_unsliced" } else { "play_sliced" });
					if reverse && startpos * sr as f64 >= len as f64 {
						g.stats.hit("play_reverse_start_ge_len");
					}
					// one sound in five is a STREAMING sound over the same frames (in-memory decoder on its own thread;
					// no slice, `reverse` ignored)
					let op = if g.rng.chance(1, 5) { "splay" } else { "play" };
					g.stats.hit(op);
					format!(
						"{} {} {} {} {} {} {} {} {} {} {} {} {} {} {}",
						op,
						g.rng.range(-1, 5),
						len,
						sr,
						g.rng.below(1 << 30),
						gen_db(&mut g),
						// (extreme playback rates are a recorded finding: X_EXCLUDED)
						o64(g.f64v("play.rate", &[1.0, 1.0, 0.5, 2.0, -1.0, 0.0, 1.0 / 3.0, 10.0, 1.4142135623730951])),
						o32(g.f32v("play.panning", &[0.0f32, -1.0, 1.0, 0.3, -2.0, 3.0, -1.5])),
						o64(ls),
						o64(le),
						reverse as u8,
						o64(startpos),
						if g.rng.chance(1, 4) { gen_tween(&mut g, nclocks) } else { "-".into() },
						if g.rng.chance(1, 5) { gen_tween(&mut g, nclocks).split(';').next().unwrap().to_string() } else { "imm".into() },
						slice
					)
				}
				19 | 20 => format!(
					"snd {} {} {}",
					g.rng.below(6),
					g.rng.pick(&["pause", "resume", "stop", "resume_at"]),
					gen_tween(&mut g, nclocks)
				),
				21 => format!(
					"snd.seek {} {} {}",
					g.rng.below(6),
					g.rng.pick(&["to", "by"]),
					o64(g.f64v("snd.seek", &[0.0, 0.01, -0.01, 1.0, 0.5, 100.0, -100.0]))
				),
				22 => {
					let what = g.rng.pick(&["vol", "rate", "pan"]);
					format!(
						"snd.set {} {} {} {}",
						g.rng.below(6),
						what,
						o64(g.f64v(&format!("snd.set.{}", what), &[0.0, 1.0, -1.0, 2.0, -60.0, -6.0, 0.5])),
						gen_tween(&mut g, nclocks)
					)
				}
				23 => format!(
					"trk {} {} {} {}",
					g.rng.below(6),
					g.rng.pick(&["vol", "pause", "resume", "resume_at"]),
					gen_db(&mut g),
					gen_tween(&mut g, nclocks)
				),
				24 => format!("drop {} {}", g.rng.pick(&["track", "send", "clock", "lfo", "tweener", "listener", "sound", "spatial"]), g.rng.below(6)),
				25 | 26 if g.rng.chance(3, 4) => format!("rate {}", g.rng.pick(RATES)),
				27 => {
					// set_loop_region at run time: none, a valid region in seconds, or extreme bounds
					let a = g.f64v("snd.loop_start", &[0.0, 0.001, 0.01, 0.05]);
					match g.rng.below(4) {
						0 => format!("snd.loop {} - -", g.rng.below(6)),
						1 => format!("snd.loop {} {} -", g.rng.below(6), o64(a.abs())),
						_ => {
							let b = if g.x("snd.loop_end") { g.rng.pick(X64).abs() } else { a.abs() + g.rng.pick(&[0.001, 0.01, 0.0, 1.0]) };
							format!("snd.loop {} {} {}", g.rng.below(6), o64(a.abs()), o64(b))
						}
					}
				}
				_ => {
					let frames = match g.rng.below(6) {
						0 => 1,
						1 => ibs,
						2 => ibs * 3 + 1,
						3 => g.rng.below(50) + 1,
						_ => g.rng.below(700) + 1,
					};
					format!("cb {} {}", frames, g.rng.pick(&[2u64, 2, 2, 1, 3, 6, 8]))
				}
			};
			g.stats.hit(line.split(' ').next().unwrap());
			out.push(line);
		}
		out.push("cb 64 2".into());
	}
	out
}

// ------------------------------------------------------------------------------------------------
// interpreter + monitors
// ------------------------------------------------------------------------------------------------

fn noise_frames(n: usize, seed: u64) -> Arc<[Frame]> {
	let mut r = Rng::new(seed);
	(0..n)
		.map(|i| match i % 17 {
			0 => Frame::new(1.0, -1.0),
			1 => Frame::new(1e-40, -1e-40),
			_ => Frame::new(r.uniform(-1.0, 1.0) as f32, r.uniform(-1.0, 1.0) as f32),
		})
		.collect()
}

fn idx(i: &str, len: usize) -> Option<usize> {
	if len == 0 {
		None
	} else {
		Some(pu(i) as usize % len)
	}
}

fn exec(sc: &mut Option<Scene>, l: &str, out: &mut Out) {
	let tok: Vec<&str> = l.split_whitespace().collect();
	if tok[0] == "mgr" {
		let caps = Capacities {
			sub_track_capacity: pu(tok[1]) as usize,
			send_track_capacity: pu(tok[2]) as usize,
			clock_capacity: pu(tok[3]) as usize,
			modulator_capacity: pu(tok[4]) as usize,
			listener_capacity: pu(tok[5]) as usize,
		};
		let mut mb = MainTrackBuilder::new().volume(Decibels(p32(tok[8].split(':').nth(1).unwrap())));
		for e in fx_list(tok[9]) {
			mb.add_built_effect(e);
		}
		let mgr = probe::manager(caps, pu(tok[6]) as usize, pu(tok[7]) as u32, mb);
		*sc = Some(Scene {
			mgr,
			tracks: vec![],
			spatials: vec![],
			sends: vec![],
			clocks: vec![],
			lfos: vec![],
			tweeners: vec![],
			listeners: vec![],
			sounds: vec![],
		});
		out.put("ok");
		return;
	}
	let s = sc.as_mut().expect("no manager");
	match tok[0] {
		"send" => {
			let mut b = SendTrackBuilder::new().volume(s.db_value(tok[1]));
			for e in fx_list(tok[2]) {
				b.add_built_effect(e);
			}
			match s.mgr.add_send_track(b) {
				Ok(h) => {
					s.sends.push(h);
					out.put("ok")
				}
				Err(_) => out.put("limit"),
			}
		}
		"track" => {
			let mut b = TrackBuilder::new().volume(s.db_value(tok[2])).persist_until_sounds_finish(tok[3] == "1");
			if pi(tok[4]) >= 0 && !s.sends.is_empty() {
				let id = s.sends[pi(tok[4]) as usize % s.sends.len()].id();
				b = b.with_send(id, s.db_value(tok[5]));
			}
			for e in fx_list(tok[6]) {
				b.add_built_effect(e);
			}
			let r = if pi(tok[1]) >= 0 && !s.tracks.is_empty() {
				let n = s.tracks.len();
				s.tracks[pi(tok[1]) as usize % n].add_sub_track(b)
			} else {
				s.mgr.add_sub_track(b)
			};
			match r {
				Ok(h) => {
					s.tracks.push(h);
					out.put("ok")
				}
				Err(_) => out.put("limit"),
			}
		}
		"clock" => {
			let v = p64(tok[2]);
			let sp = match tok[1] {
				"spt" => ClockSpeed::SecondsPerTick(v),
				"tps" => ClockSpeed::TicksPerSecond(v),
				_ => ClockSpeed::TicksPerMinute(v),
			};
			match s.mgr.add_clock(sp) {
				Ok(h) => {
					s.clocks.push(h);
					out.put("ok")
				}
				Err(_) => out.put("limit"),
			}
		}
		"clock.cmd" => match idx(tok[1], s.clocks.len()) {
			Some(i) => {
				match tok[2] {
					"start" => s.clocks[i].start(),
					"pause" => s.clocks[i].pause(),
					_ => s.clocks[i].stop(),
				}
				out.put("ok")
			}
			None => out.put("skip"),
		},
		"clock.speed" => match idx(tok[1], s.clocks.len()) {
			Some(i) => {
				let v = p64(tok[3]);
				let sp = match tok[2] {
					"spt" => ClockSpeed::SecondsPerTick(v),
					"tps" => ClockSpeed::TicksPerSecond(v),
					_ => ClockSpeed::TicksPerMinute(v),
				};
				let tw = s.tween(tok[4]);
				s.clocks[i].set_speed(sp, tw);
				out.put("ok")
			}
			None => out.put("skip"),
		},
		"lfo" => {
			let b = LfoBuilder::new()
				.waveform(match pu(tok[1]) {
					0 => Waveform::Sine,
					1 => Waveform::Triangle,
					2 => Waveform::Saw,
					3 => Waveform::Pulse { width: 0.5 },
					_ => Waveform::Pulse { width: 0.1 },
				})
				.frequency(p64(tok[2]))
				.amplitude(p64(tok[3]))
				.offset(p64(tok[4]))
				.starting_phase(p64(tok[5]));
			match s.mgr.add_modulator(b) {
				Ok(h) => {
					s.lfos.push(h);
					out.put("ok")
				}
				Err(_) => out.put("limit"),
			}
		}
		"tweener" => match s.mgr.add_modulator(TweenerBuilder { initial_value: p64(tok[1]) }) {
			Ok(h) => {
				s.tweeners.push(h);
				out.put("ok")
			}
			Err(_) => out.put("limit"),
		},
		"tweener.set" => match idx(tok[1], s.tweeners.len()) {
			Some(i) => {
				let tw = s.tween(tok[3]);
				s.tweeners[i].set(p64(tok[2]), tw);
				out.put("ok")
			}
			None => out.put("skip"),
		},
		"listener" => {
			let pos = mint::Vector3 { x: p32(tok[1]), y: p32(tok[2]), z: p32(tok[3]) };
			// any finite quaternion (not normalised; may be zero)
			let q = glam::Quat::from_xyzw(p32(tok[4]), p32(tok[5]), p32(tok[6]), p32(tok[7]));
			match s.mgr.add_listener(pos, mint::Quaternion::from(q)) {
				Ok(h) => {
					s.listeners.push(h);
					out.put("ok")
				}
				Err(_) => out.put("limit"),
			}
		}
		"listener.pos" => match idx(tok[1], s.listeners.len()) {
			Some(i) => {
				let tw = s.tween(tok[5]);
				s.listeners[i].set_position(mint::Vector3 { x: p32(tok[2]), y: p32(tok[3]), z: p32(tok[4]) }, tw);
				out.put("ok")
			}
			None => out.put("skip"),
		},
		"spatial" => match idx(tok[1], s.listeners.len()) {
			Some(i) => {
				let mut b = SpatialTrackBuilder::new()
					.distances((p32(tok[5]), p32(tok[6])))
					.spatialization_strength(p32(tok[8]))
					.volume(s.db_value(tok[9]));
				b = if tok[7] == "-" { b.attenuation_function(None) } else { b.attenuation_function(Some(parse_easing(tok[7]))) };
				let pos = mint::Vector3 { x: p32(tok[2]), y: p32(tok[3]), z: p32(tok[4]) };
				let lid = s.listeners[i].id();
				match s.mgr.add_spatial_sub_track(lid, pos, b) {
					Ok(h) => {
						s.spatials.push(h);
						out.put("ok")
					}
					Err(_) => out.put("limit"),
				}
			}
			None => out.put("skip"),
		},
		"play" => {
			let len = pu(tok[2]) as usize;
			let sr = pu(tok[3]) as u32;
			let mut settings = StaticSoundSettings::new()
				.volume(s.db_value(tok[5]))
				.playback_rate(PlaybackRate(p64(tok[6])))
				.panning(Panning(p32(tok[7])))
				.reverse(tok[10] == "1")
				.start_position(p64(tok[11]))
				.start_time(s.start(tok[13]));
			let (ls, le) = (p64(tok[8]), p64(tok[9]));
			if ls >= 0.0 {
				settings = if le >= 0.0 { settings.loop_region(ls..le) } else { settings.loop_region(ls..) };
			}
			if tok[12] != "-" {
				settings = settings.fade_in_tween(Some(s.tween(tok[12])));
			}
			let data = StaticSoundData {
				sample_rate: sr,
				frames: noise_frames(len, pu(tok[4])),
				settings,
				// optional 15th token `<a>,<b>` (older ops files have none): the public `slice` field, any pair
				slice: tok.get(14).filter(|t| **t != "-").map(|t| {
					let (a, b) = t.split_once(',').expect("bad slice");
					(pu(a) as usize, pu(b) as usize)
				}),
			};
			let t = pi(tok[1]);
			let r = if t >= 0 && !s.tracks.is_empty() {
				let n = s.tracks.len();
				s.tracks[t as usize % n].play(data).map_err(|_| ())
			} else if t >= 0 && !s.spatials.is_empty() {
				let n = s.spatials.len();
				s.spatials[t as usize % n].play(data).map_err(|_| ())
			} else {
				s.mgr.play(data).map_err(|_| ())
			};
			match r {
				Ok(h) => {
					s.sounds.push(Snd::St(h));
					out.put("ok")
				}
				Err(_) => out.put("limit"),
			}
		}
		"splay" => {
			let len = pu(tok[2]) as usize;
			let sr = (pu(tok[3]) as u32).max(1);
			let mut data = StreamingSoundData::from_decoder(MemDecoder { frames: noise_frames(len, pu(tok[4])), sr, pos: 0 })
				.volume(s.db_value(tok[5]))
				.playback_rate(PlaybackRate(p64(tok[6])))
				.panning(Panning(p32(tok[7])))
				.start_position(p64(tok[11]))
				.start_time(s.start(tok[13]));
			let (ls, le) = (p64(tok[8]), p64(tok[9]));
			if ls >= 0.0 {
				data = if le >= 0.0 { data.loop_region(ls..le) } else { data.loop_region(ls..) };
			}
			if tok[12] != "-" {
				data = data.fade_in_tween(Some(s.tween(tok[12])));
			}
			let t = pi(tok[1]);
			let r = if t >= 0 && !s.tracks.is_empty() {
				let n = s.tracks.len();
				s.tracks[t as usize % n].play(data).map_err(|_| ())
			} else if t >= 0 && !s.spatials.is_empty() {
				let n = s.spatials.len();
				s.spatials[t as usize % n].play(data).map_err(|_| ())
			} else {
				s.mgr.play(data).map_err(|_| ())
			};
			match r {
				Ok(h) => {
					s.sounds.push(Snd::Sm(h));
					out.put("ok")
				}
				Err(_) => out.put("limit"),
			}
		}
		"snd" => match idx(tok[1], s.sounds.len()) {
			Some(i) => {
				let tw = s.tween(tok[3]);
				match tok[2] {
					"pause" => snd_call!(&mut s.sounds[i], h => h.pause(tw)),
					"resume" => snd_call!(&mut s.sounds[i], h => h.resume(tw)),
					"stop" => snd_call!(&mut s.sounds[i], h => h.stop(tw)),
					_ => {
						let st = tw.start_time;
						snd_call!(&mut s.sounds[i], h => h.resume_at(st, Tween { start_time: StartTime::Immediate, ..tw }))
					}
				}
				out.put(format!("{:?}", s.sounds[i].state()).to_lowercase())
			}
			None => out.put("skip"),
		},
		"snd.seek" => match idx(tok[1], s.sounds.len()) {
			Some(i) => {
				if tok[2] == "to" {
					snd_call!(&mut s.sounds[i], h => h.seek_to(p64(tok[3]).abs()))
				} else {
					snd_call!(&mut s.sounds[i], h => h.seek_by(p64(tok[3])))
				}
				out.put("ok")
			}
			None => out.put("skip"),
		},
		"snd.loop" => match idx(tok[1], s.sounds.len()) {
			Some(i) => {
				match (tok[2], tok[3]) {
					("-", _) => snd_call!(&mut s.sounds[i], h => h.set_loop_region(None)),
					(a, "-") => snd_call!(&mut s.sounds[i], h => h.set_loop_region(p64(a)..)),
					(a, b) => snd_call!(&mut s.sounds[i], h => h.set_loop_region(p64(a)..p64(b))),
				}
				out.put("ok")
			}
			None => out.put("skip"),
		},
		"snd.set" => match idx(tok[1], s.sounds.len()) {
			Some(i) => {
				let tw = s.tween(tok[4]);
				let v = p64(tok[3]);
				match tok[2] {
					"vol" => snd_call!(&mut s.sounds[i], h => h.set_volume(Decibels(v as f32), tw)),
					"rate" => snd_call!(&mut s.sounds[i], h => h.set_playback_rate(PlaybackRate(v), tw)),
					_ => snd_call!(&mut s.sounds[i], h => h.set_panning(Panning(v as f32), tw)),
				}
				out.put("ok")
			}
			None => out.put("skip"),
		},
		"trk" => match idx(tok[1], s.tracks.len()) {
			Some(i) => {
				let tw = s.tween(tok[4]);
				let v = s.db_value(tok[3]);
				match tok[2] {
					"vol" => s.tracks[i].set_volume(v, tw),
					"pause" => s.tracks[i].pause(tw),
					"resume" => s.tracks[i].resume(tw),
					_ => {
						let st = tw.start_time;
						s.tracks[i].resume_at(st, Tween { start_time: StartTime::Immediate, ..tw })
					}
				}
				out.put("ok")
			}
			None => out.put("skip"),
		},
		"drop" => {
			macro_rules! drop_from {
				($v:expr) => {
					match idx(tok[2], $v.len()) {
						Some(i) => {
							$v.remove(i);
							out.put("ok")
						}
						None => out.put("skip"),
					}
				};
			}
			match tok[1] {
				"track" => drop_from!(s.tracks),
				"send" => drop_from!(s.sends),
				"clock" => drop_from!(s.clocks),
				"lfo" => drop_from!(s.lfos),
				"tweener" => drop_from!(s.tweeners),
				"listener" => drop_from!(s.listeners),
				"spatial" => drop_from!(s.spatials),
				_ => drop_from!(s.sounds),
			}
		}
		"rate" => {
			s.mgr.backend_mut().change_sample_rate(pu(tok[1]) as u32);
			out.put("ok")
		}
		"cb" => {
			let frames = pu(tok[1]) as usize;
			let ch = pu(tok[2]) as u16;
			let mut buf = vec![f32::from_bits(0x7fc0_1234); frames * ch as usize];
			crate::alloc_monitor::arm();
			s.mgr.backend_mut().callback_into(&mut buf, ch);
			let (allocs, frees) = crate::alloc_monitor::disarm();
			let mut bad = vec![];
			if allocs > 0 || frees > 0 {
				bad.push(format!("audio_thread_alloc(allocs={},frees={})", allocs, frees));
			}
			for (i, x) in buf.iter().enumerate() {
				if !x.is_finite() {
					bad.push(format!("non_finite_sample(ch={})", i % ch as usize));
					break;
				}
				if !(-1.0..=1.0).contains(x) {
					bad.push("out_of_range_sample".to_string());
					break;
				}
				if ch > 2 && i % ch as usize >= 2 && *x != 0.0 {
					bad.push("extra_channel_not_silent".to_string());
					break;
				}
			}
			if bad.is_empty() {
				out.put("ok")
			} else {
				out.put(format!("bad {}", bad.join(",")));
				for b in bad {
					let name = b.split('(').next().unwrap().to_string();
					out.oracle_fail(&name, l);
				}
			}
		}
		_ => panic!("system: unknown op {}", tok[0]),
	}
}

/// Watchdog: the longest time one op may take (see notes/C01.md "watchdog threshold").
/// The slowest ordinary op (a 3001-frame, 8-channel callback through nested effects in the unoptimised
/// build) takes well under 0.1 s; every value of the extreme pools that controls a trip count asks for
/// more than 10^10 iterations (minutes to years, or never: `x - 1.0 == x` from 2^53 on), and nothing in
/// between is drawn — so 6 s separates "long but proportional" from "stuck" with two orders of magnitude
/// to spare on either side.  `KV_SYSTEM_TIMING=1` prints the slowest op of the run on stderr.
pub const WATCHDOG: Duration = Duration::from_secs(6);

pub fn run(ops: &[String]) -> Vec<String> {
	let timing = std::env::var("KV_SYSTEM_TIMING").is_ok();
	let slowest = Arc::new(std::sync::Mutex::new((Duration::ZERO, String::new())));
	let slowest2 = slowest.clone();
	let r = run_cases(ops, Some(WATCHDOG), move |case: &[String], out: &mut Out| {
		let mut sc: Option<Scene> = None;
		for l in case {
			if l.starts_with("case") {
				out.put(l.clone());
				continue;
			}
			let t0 = std::time::Instant::now();
			exec(&mut sc, l, out);
			if timing {
				let d = t0.elapsed();
				let mut s = slowest2.lock().unwrap();
				if d > s.0 {
					*s = (d, l.clone());
				}
			}
		}
	});
	if timing {
		let s = slowest.lock().unwrap();
		eprintln!("#TIMING slowest_op_ms={:.3} op={}", s.0.as_secs_f64() * 1e3, s.1);
	}
	r
}
