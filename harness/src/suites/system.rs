//! Suite `system` (C01): whole-system scenes through kira's PUBLIC API only, with always-on monitors.
//! Implementation-only suite (no twin): every `cb` is checked for
//!   * panics (caught → `fault …`), hangs (watchdog → `fault hang`),
//!   * heap allocation / deallocation on the audio thread inside the callback (counting allocator),
//!   * every sample finite and in [-1, 1]; channels beyond the second exactly 0.
//! Objects live in index-addressed tables; an index is taken modulo the table length and an op whose
//! table is empty prints `skip` — so any sub-sequence of an ops file is still a valid ops file
//! (needed for shrinking).
use crate::probe::{self, ProbeBackend};
use crate::runner::{run_cases, Out};
use crate::suites::units::{fmt_easing, gen_easing, parse_easing};
use crate::util::*;
use kira::clock::{ClockHandle, ClockSpeed, ClockTime};
use kira::effect::compressor::CompressorBuilder;
use kira::effect::delay::DelayBuilder;
use kira::effect::distortion::{DistortionBuilder, DistortionKind};
use kira::effect::eq_filter::{EqFilterBuilder, EqFilterKind};
use kira::effect::filter::{FilterBuilder, FilterMode};
use kira::effect::panning_control::PanningControlBuilder;
use kira::effect::reverb::ReverbBuilder;
use kira::effect::volume_control::VolumeControlBuilder;
use kira::effect::Effect;
use kira::effect::EffectBuilder;
use kira::listener::ListenerHandle;
use kira::modulator::lfo::{LfoBuilder, LfoHandle, Waveform};
use kira::modulator::tweener::{TweenerBuilder, TweenerHandle};
use kira::sound::static_sound::{StaticSoundData, StaticSoundHandle, StaticSoundSettings};
use kira::track::{
	MainTrackBuilder, SendTrackBuilder, SendTrackHandle, SpatialTrackBuilder, SpatialTrackHandle, TrackBuilder,
	TrackHandle,
};
use kira::{
	AudioManager, Capacities, Decibels, Frame, Mapping, Mix, Panning, PlaybackRate, StartTime, Tween, Value,
};
use std::sync::Arc;
use std::time::Duration;

// ------------------------------------------------------------------------------------------------
// effect descriptors:  kind:arg:arg…   (floats as hex bits)
// ------------------------------------------------------------------------------------------------

fn gen_fx(rng: &mut Rng, depth: u32) -> String {
	let mix = o32(rng.pick(&[0.0f32, 1.0, 0.5, 0.25, 1.0, 1.0, 0.5, -0.5, 1.5]));
	match rng.below(8) {
		0 => format!(
			"filter:{}:{}:{}:{}",
			rng.below(4),
			o64(rng.pick(&[20.0, 200.0, 1000.0, 5000.0, 20000.0, 3999.0, 12345.6])),
			o64(rng.pick(&[0.0, 0.5, 1.0, 0.9, -0.5, 1.5])),
			mix
		),
		1 => format!(
			"eq:{}:{}:{}:{}",
			rng.below(3),
			o64(rng.pick(&[20.0, 100.0, 1000.0, 8000.0, 20000.0])),
			o32(rng.pick(&[0.0f32, 6.0, -6.0, 12.0, -24.0])),
			o64(rng.pick(&[0.01, 0.5, 1.0, 4.0]))
		),
		2 => format!(
			"dist:{}:{}:{}",
			rng.below(2),
			o32(rng.pick(&[0.0f32, 6.0, 24.0, -12.0, -59.0])),
			mix
		),
		3 => format!(
			"comp:{}:{}:{}:{}:{}:{}",
			o64(rng.pick(&[0.0, -12.0, -24.0, -60.0])),
			// ratio: 0 and -0 have no reciprocal (used to turn the whole mix into NaN; now like ratio 1), 0.5 expands
			o64(rng.pick(&[1.0, 2.0, 4.0, 100.0, 0.0, -0.0, 0.5, 0.0])),
			rng.pick(&[0u64, 1_000_000, 10_000_000, 300_000_000]),
			rng.pick(&[0u64, 1_000_000, 100_000_000, 1_000_000_000]),
			o32(rng.pick(&[0.0f32, 6.0, -6.0])),
			mix
		),
		4 => {
			let inner = if depth == 0 && rng.chance(1, 3) { gen_fx(rng, 1).replace(':', ";") } else { "-".into() };
			format!(
				"delay:{}:{}:{}:{}",
				rng.pick(&[1_000_000u64, 10_000_000, 500_000_000, 33_333_333, 2_000_000]),
				o32(rng.pick(&[-6.0f32, -60.0, -1.0, -12.0, -0.1])),
				mix,
				inner
			)
		}
		5 => format!(
			"reverb:{}:{}:{}:{}",
			o64(rng.pick(&[0.9, 0.0, 0.5, 0.99])),
			o64(rng.pick(&[0.1, 0.0, 1.0, 0.5])),
			o64(rng.pick(&[1.0, 0.0, 0.5])),
			mix
		),
		6 => format!("vol:{}", o32(rng.pick(&[0.0f32, -6.0, -60.0, 6.0, -70.0]))),
		_ => format!("pan:{}", o32(rng.pick(&[0.0f32, -1.0, 1.0, 0.3, 2.0, -2.0, -1.0000001]))),
	}
}

fn gen_fx_list(rng: &mut Rng) -> String {
	let n = rng.pick(&[0u64, 0, 1, 1, 2, 3]);
	if n == 0 {
		return "-".into();
	}
	(0..n).map(|_| gen_fx(rng, 0)).collect::<Vec<_>>().join(",")
}

fn build_fx(desc: &str) -> Box<dyn Effect> {
	let p: Vec<&str> = desc.split(':').collect();
	match p[0] {
		"filter" => FilterBuilder::new()
			.mode(match pu(p[1]) {
				0 => FilterMode::LowPass,
				1 => FilterMode::BandPass,
				2 => FilterMode::HighPass,
				_ => FilterMode::Notch,
			})
			.cutoff(p64(p[2]))
			.resonance(p64(p[3]))
			.mix(Mix(p32(p[4])))
			.build()
			.0,
		"eq" => EqFilterBuilder::new(
			match pu(p[1]) {
				0 => EqFilterKind::Bell,
				1 => EqFilterKind::LowShelf,
				_ => EqFilterKind::HighShelf,
			},
			p64(p[2]),
			Decibels(p32(p[3])),
			p64(p[4]),
		)
		.build()
		.0,
		"dist" => DistortionBuilder::new()
			.kind(if pu(p[1]) == 0 { DistortionKind::HardClip } else { DistortionKind::SoftClip })
			.drive(Decibels(p32(p[2])))
			.mix(Mix(p32(p[3])))
			.build()
			.0,
		"comp" => CompressorBuilder::new()
			.threshold(p64(p[1]))
			.ratio(p64(p[2]))
			.attack_duration(Duration::from_nanos(pu(p[3])))
			.release_duration(Duration::from_nanos(pu(p[4])))
			.makeup_gain(Decibels(p32(p[5])))
			.mix(Mix(p32(p[6])))
			.build()
			.0,
		"delay" => {
			let mut b = DelayBuilder::new()
				.delay_time(Duration::from_nanos(pu(p[1])))
				.feedback(Decibels(p32(p[2])))
				.mix(Mix(p32(p[3])));
			if p[4] != "-" {
				b = b.with_feedback_effect(Built(Some(build_fx(&p[4].replace(';', ":")))));
			}
			b.build().0
		}
		"reverb" => ReverbBuilder::new()
			.feedback(p64(p[1]))
			.damping(p64(p[2]))
			.stereo_width(p64(p[3]))
			.mix(Mix(p32(p[4])))
			.build()
			.0,
		"vol" => VolumeControlBuilder::new(Decibels(p32(p[1]))).build().0,
		"pan" => PanningControlBuilder(Value::Fixed(Panning(p32(p[1])))).build().0,
		_ => panic!("bad fx {}", desc),
	}
}

/// adapter: an already built effect as an `EffectBuilder` (for delay feedback chains)
struct Built(Option<Box<dyn Effect>>);
impl EffectBuilder for Built {
	type Handle = ();
	fn build(mut self) -> (Box<dyn Effect>, ()) {
		(self.0.take().unwrap(), ())
	}
}

fn fx_list(desc: &str) -> Vec<Box<dyn Effect>> {
	if desc == "-" {
		vec![]
	} else {
		desc.split(',').map(build_fx).collect()
	}
}

// ------------------------------------------------------------------------------------------------
// tweens / start times / values
// ------------------------------------------------------------------------------------------------

fn gen_tween(rng: &mut Rng, nclocks: usize) -> String {
	let start = match rng.below(8) {
		0 => format!("del:{}", rng.pick(&[0u64, 1_000_000, 50_000_000])),
		1 if nclocks > 0 => format!("clk:{}:{}:{}", rng.below(nclocks as u64), rng.below(4), o64(rng.pick(&[0.0, 0.5]))),
		_ => "imm".into(),
	};
	format!(
		"{};{};{}",
		start,
		rng.pick(&[0u64, 1, 10_000_000, 1_000_000, 100_000_000, 1_000_000_000]),
		fmt_easing(&gen_easing(rng))
	)
}

struct Scene {
	mgr: AudioManager<ProbeBackend>,
	tracks: Vec<TrackHandle>,
	spatials: Vec<SpatialTrackHandle>,
	sends: Vec<SendTrackHandle>,
	clocks: Vec<ClockHandle>,
	lfos: Vec<LfoHandle>,
	tweeners: Vec<TweenerHandle>,
	listeners: Vec<ListenerHandle>,
	sounds: Vec<StaticSoundHandle>,
}

impl Scene {
	fn start(&self, s: &str) -> StartTime {
		if s == "imm" {
			return StartTime::Immediate;
		}
		let p: Vec<&str> = s.split(':').collect();
		match p[0] {
			"del" => StartTime::Delayed(Duration::from_nanos(pu(p[1]))),
			"clk" if !self.clocks.is_empty() => StartTime::ClockTime(ClockTime {
				clock: self.clocks[pu(p[1]) as usize % self.clocks.len()].id(),
				ticks: pu(p[2]),
				fraction: p64(p[3]),
			}),
			_ => StartTime::Immediate,
		}
	}
	fn tween(&self, s: &str) -> Tween {
		let p: Vec<&str> = s.split(';').collect();
		Tween {
			start_time: self.start(p[0]),
			duration: Duration::from_nanos(pu(p[1])),
			easing: parse_easing(p[2]),
		}
	}
	/// `fix:<f32>` or `mod:<l|t><idx>:<out0>:<out1>` (linked to an LFO / tweener, input range -1..1)
	fn db_value(&self, s: &str) -> Value<Decibels> {
		let p: Vec<&str> = s.split(':').collect();
		if p[0] == "mod" {
			let id = if p[1].starts_with('l') && !self.lfos.is_empty() {
				Some(self.lfos[pu(&p[1][1..]) as usize % self.lfos.len()].id())
			} else if !self.tweeners.is_empty() {
				Some(self.tweeners[pu(&p[1][1..]) as usize % self.tweeners.len()].id())
			} else {
				None
			};
			if let Some(id) = id {
				return Value::FromModulator {
					id,
					mapping: Mapping {
						input_range: (-1.0, 1.0),
						output_range: (Decibels(p32(p[2])), Decibels(p32(p[3]))),
						easing: kira::Easing::Linear,
					},
				};
			}
			return Value::Fixed(Decibels(p32(p[2])));
		}
		Value::Fixed(Decibels(p32(p[1])))
	}
}

fn gen_db(rng: &mut Rng) -> String {
	if rng.chance(1, 6) {
		format!(
			"mod:{}{}:{}:{}",
			rng.pick(&["l", "t"]),
			rng.below(3),
			o32(rng.pick(&[-60.0f32, -12.0, -6.0])),
			o32(rng.pick(&[0.0f32, 6.0, -3.0]))
		)
	} else {
		format!("fix:{}", o32(rng.pick(&[0.0f32, -6.0, -60.0, 6.0, -3.0, -20.0, -61.0, 12.0])))
	}
}

const RATES: &[u32] = &[8000, 11025, 22050, 44100, 48000, 96000, 192000];

// ------------------------------------------------------------------------------------------------
// generator
// ------------------------------------------------------------------------------------------------

pub fn gen(rng: &mut Rng, n: usize, thorough: bool, stats: &mut Stats) -> Vec<String> {
	let mut out = vec![];
	for case in 0..n {
		out.push(format!("case {}", case));
		let ibs = rng.pick(&[1u64, 2, 7, 16, 64, 128, 128, 256, 1000]);
		out.push(format!(
			"mgr {} {} {} {} {} {} {} {} {}",
			rng.pick(&[1u64, 2, 4, 8]),
			rng.pick(&[1u64, 2, 4]),
			rng.pick(&[1u64, 2, 4]),
			rng.pick(&[1u64, 2, 4]),
			rng.pick(&[1u64, 2]),
			ibs,
			rng.pick(RATES),
			gen_db(rng).replace("mod:l", "fix:").replace("mod:t", "fix:").split(':').take(2).collect::<Vec<_>>().join(":"),
			gen_fx_list(rng)
		));
		let steps = if thorough { rng.range(20, 80) } else { rng.range(12, 40) };
		let mut nclocks = 0usize;
		// resource churn: more create/drop generations of one kind than its capacity, with callbacks in
		// between (every removed resource travels through the unused-resource ring, which only the
		// gameplay thread's next create of that kind drains)
		if rng.chance(1, 5) {
			let kind = rng.pick(&["send", "clock", "lfo", "tweener", "listener", "track"]);
			for _ in 0..rng.range(6, 11) {
				let create = match kind {
					"send" => format!("send {} -", gen_db(rng)),
					"clock" => {
						nclocks += 1;
						"clock tps 3ff0000000000000".to_string()
					}
					"lfo" => "lfo 0 3ff0000000000000 3ff0000000000000 0000000000000000 0000000000000000".to_string(),
					"tweener" => "tweener 0000000000000000".to_string(),
					"listener" => "listener 00000000 00000000 00000000 00000000 00000000 00000000 3f800000".to_string(),
					_ => format!("track -1 {} 0 -1 fix:00000000 -", gen_db(rng)),
				};
				for l in [create, "cb 8 2".to_string(), format!("drop {} 0", kind), "cb 8 2".to_string()] {
					stats.hit("churn");
					out.push(l);
				}
			}
		}
		for _ in 0..steps {
			let line = match rng.below(40) {
				0 | 1 => format!("send {} {}", gen_db(rng), gen_fx_list(rng)),
				2..=4 => format!(
					"track {} {} {} {} {} {}",
					rng.range(-1, 3),
					gen_db(rng),
					rng.below(2),
					rng.range(-1, 2),
					gen_db(rng),
					gen_fx_list(rng)
				),
				5 => {
					nclocks += 1;
					format!("clock {} {}", rng.pick(&["spt", "tps", "tpm"]), o64(rng.pick(&[0.5, 1.0, 2.0, 120.0, 0.01, 1000.0])))
				}
				6 => format!("clock.cmd {} {}", rng.below(4), rng.pick(&["start", "pause", "stop"])),
				7 => format!(
					"clock.speed {} {} {} {}",
					rng.below(4),
					rng.pick(&["spt", "tps", "tpm"]),
					o64(rng.pick(&[0.25, 1.0, 3.0, 90.0])),
					gen_tween(rng, nclocks)
				),
				8 => format!(
					"lfo {} {} {} {} {}",
					rng.below(5),
					o64(rng.pick(&[0.0, 0.5, 2.0, 20.0, 1000.0, -3.0])),
					o64(rng.pick(&[1.0, 0.0, -1.0, 10.0])),
					o64(rng.pick(&[0.0, 1.0, -0.5])),
					o64(rng.pick(&[0.0, 90.0, 0.25, 720.0, -200.0]))
				),
				9 => format!("tweener {}", o64(rng.pick(&[0.0, 1.0, -1.0, 0.5]))),
				10 => format!("tweener.set {} {} {}", rng.below(3), o64(rng.uniform(-2.0, 2.0)), gen_tween(rng, nclocks)),
				11 => format!(
					"listener {} {} {} {} {} {} {}",
					o32(rng.uniform(-5.0, 5.0) as f32),
					o32(rng.uniform(-5.0, 5.0) as f32),
					o32(rng.uniform(-5.0, 5.0) as f32),
					o32(rng.pick(&[0.0f32, 0.5, 0.70710677, 0.0])),
					o32(rng.pick(&[0.0f32, 0.5, 0.70710677, 0.0])),
					o32(rng.pick(&[0.0f32, 0.5, 0.0])),
					o32(rng.pick(&[1.0f32, 0.5, 0.70710677, 0.0, 3.0, 1e-30]))
				),
				12 => {
					// any finite distances, including max <= min (a step at min since the spatial fix)
					let min = rng.pick(&[1.0f32, 0.0, 0.5, 10.0]);
					let max = min + rng.pick(&[1.0f32, 100.0, 0.001, 50.0, 0.0, -0.5, -20.0]);
					let pos = if rng.chance(1, 4) { (0.0, 0.0, 0.0) } else { (rng.uniform(-20.0, 20.0), rng.uniform(-20.0, 20.0), rng.uniform(-20.0, 20.0)) };
					format!(
						"spatial {} {} {} {} {} {} {} {} {}",
						rng.below(2),
						o32(pos.0 as f32),
						o32(pos.1 as f32),
						o32(pos.2 as f32),
						o32(min),
						o32(max),
						if rng.chance(1, 2) { "-".to_string() } else { fmt_easing(&gen_easing(rng)) },
						o32(rng.pick(&[0.75f32, 0.0, 1.0, 0.5])),
						gen_db(rng)
					)
				}
				13 => format!(
					"listener.pos {} {} {} {} {}",
					rng.below(2),
					o32(rng.uniform(-20.0, 20.0) as f32),
					o32(rng.uniform(-20.0, 20.0) as f32),
					o32(rng.uniform(-20.0, 20.0) as f32),
					gen_tween(rng, nclocks)
				),
				14..=18 => {
					// static sound: length, sample rate, settings
					let len = rng.pick(&[0u64, 1, 2, 3, 10, 100, 1000, 5000]);
					let sr = rng.pick(&[1u32, 100, 8000, 22050, 44100, 48000]);
					let dur = len as f64 / sr as f64;
					let looped = len >= 2 && rng.chance(1, 3);
					let (ls, le) = if looped {
						// a valid, non-empty loop region (at least one frame)
						let a = rng.below(len - 1);
						let b = a + 1 + rng.below(len - a - 1 + 1).min(len - a - 1);
						(a as f64 / sr as f64, if rng.chance(1, 3) { -1.0 } else { b as f64 / sr as f64 })
					} else {
						(-1.0, -1.0)
					};
					// reversed sounds of any length (empty ones too), start positions inside, at and past the end in
					// either direction (reverse + start ≥ length used to underflow in Transport::new: repaired)
					let reverse = rng.chance(1, 4);
					let _ = dur;
					let startpos = rng.pick(&[0, 0, len.saturating_sub(1) / 2, len.saturating_sub(1), len, len + 1, 2 * len + 7]) as f64 / sr as f64;
					// slice (the public field): none, inside the data, reaching past it, starting past it, inverted,
					// empty (a slice past the data used to index out of bounds on the audio thread, an inverted one
					// underflowed in num_frames: both repaired — the slice is clamped to the data)
					let slice = match rng.below(12) {
						0 | 1 => {
							let a = rng.below(len + 1);
							format!("{},{}", a, a + rng.below(len - a + 1))
						}
						2 => format!("{},{}", rng.below(len + 1), len + 1 + rng.below(5000)),
						3 => format!("0,{}", rng.pick(&[len + 1, u32::MAX as u64, u64::MAX])),
						4 => {
							let a = len + rng.below(3);
							format!("{},{}", a, a + rng.below(4))
						}
						5 => {
							let a = 1 + rng.below(len + 2);
							format!("{},{}", a, rng.below(a))
						}
						6 => {
							let a = rng.below(len + 2);
							format!("{},{}", a, a)
						}
						_ => "-".to_string(),
					};
					stats.hit(if slice == "-" { "play_unsliced" } else { "play_sliced" });
					if reverse && startpos * sr as f64 >= len as f64 {
						stats.hit("play_reverse_start_ge_len");
					}
					format!(
						"play {} {} {} {} {} {} {} {} {} {} {} {} {} {}",
						rng.range(-1, 5),
						len,
						sr,
						rng.below(1 << 30),
						gen_db(rng),
						o64(rng.pick(&[1.0, 1.0, 0.5, 2.0, -1.0, 0.0, 1.0 / 3.0, 10.0, 1.4142135623730951])),
						o32(rng.pick(&[0.0f32, -1.0, 1.0, 0.3, -2.0, 3.0, -1.5])),
						o64(ls),
						o64(le),
						reverse as u8,
						o64(startpos),
						if rng.chance(1, 4) { gen_tween(rng, nclocks) } else { "-".into() },
						if rng.chance(1, 5) { gen_tween(rng, nclocks).split(';').next().unwrap().to_string() } else { "imm".into() },
						slice
					)
				}
				19 | 20 => format!(
					"snd {} {} {}",
					rng.below(6),
					rng.pick(&["pause", "resume", "stop", "resume_at"]),
					gen_tween(rng, nclocks)
				),
				21 => format!("snd.seek {} {} {}", rng.below(6), rng.pick(&["to", "by"]), o64(rng.pick(&[0.0, 0.01, -0.01, 1.0, 0.5, 100.0, -100.0]))),
				22 => format!(
					"snd.set {} {} {} {}",
					rng.below(6),
					rng.pick(&["vol", "rate", "pan"]),
					o64(rng.pick(&[0.0, 1.0, -1.0, 2.0, -60.0, -6.0, 0.5])),
					gen_tween(rng, nclocks)
				),
				23 => format!(
					"trk {} {} {} {}",
					rng.below(6),
					rng.pick(&["vol", "pause", "resume", "resume_at"]),
					gen_db(rng),
					gen_tween(rng, nclocks)
				),
				24 => format!("drop {} {}", rng.pick(&["track", "send", "clock", "lfo", "tweener", "listener", "sound", "spatial"]), rng.below(6)),
				25 | 26 if rng.chance(3, 4) => format!("rate {}", rng.pick(RATES)),
				_ => {
					let frames = match rng.below(6) {
						0 => 1,
						1 => ibs,
						2 => ibs * 3 + 1,
						3 => rng.below(50) + 1,
						_ => rng.below(700) + 1,
					};
					format!("cb {} {}", frames, rng.pick(&[2u64, 2, 2, 1, 3, 6, 8]))
				}
			};
			stats.hit(line.split(' ').next().unwrap());
			out.push(line);
		}
		out.push("cb 64 2".into());
	}
	out
}

// ------------------------------------------------------------------------------------------------
// interpreter + monitors
// ------------------------------------------------------------------------------------------------

fn noise_frames(n: usize, seed: u64) -> Arc<[Frame]> {
	let mut r = Rng::new(seed);
	(0..n)
		.map(|i| match i % 17 {
			0 => Frame::new(1.0, -1.0),
			1 => Frame::new(1e-40, -1e-40),
			_ => Frame::new(r.uniform(-1.0, 1.0) as f32, r.uniform(-1.0, 1.0) as f32),
		})
		.collect()
}

fn idx(i: &str, len: usize) -> Option<usize> {
	if len == 0 {
		None
	} else {
		Some(pu(i) as usize % len)
	}
}

fn exec(sc: &mut Option<Scene>, l: &str, out: &mut Out) {
	let tok: Vec<&str> = l.split_whitespace().collect();
	if tok[0] == "mgr" {
		let caps = Capacities {
			sub_track_capacity: pu(tok[1]) as usize,
			send_track_capacity: pu(tok[2]) as usize,
			clock_capacity: pu(tok[3]) as usize,
			modulator_capacity: pu(tok[4]) as usize,
			listener_capacity: pu(tok[5]) as usize,
		};
		let mut mb = MainTrackBuilder::new().volume(Decibels(p32(tok[8].split(':').nth(1).unwrap())));
		for e in fx_list(tok[9]) {
			mb.add_built_effect(e);
		}
		let mgr = probe::manager(caps, pu(tok[6]) as usize, pu(tok[7]) as u32, mb);
		*sc = Some(Scene {
			mgr,
			tracks: vec![],
			spatials: vec![],
			sends: vec![],
			clocks: vec![],
			lfos: vec![],
			tweeners: vec![],
			listeners: vec![],
			sounds: vec![],
		});
		out.put("ok");
		return;
	}
	let s = sc.as_mut().expect("no manager");
	match tok[0] {
		"send" => {
			let mut b = SendTrackBuilder::new().volume(s.db_value(tok[1]));
			for e in fx_list(tok[2]) {
				b.add_built_effect(e);
			}
			match s.mgr.add_send_track(b) {
				Ok(h) => {
					s.sends.push(h);
					out.put("ok")
				}
				Err(_) => out.put("limit"),
			}
		}
		"track" => {
			let mut b = TrackBuilder::new().volume(s.db_value(tok[2])).persist_until_sounds_finish(tok[3] == "1");
			if pi(tok[4]) >= 0 && !s.sends.is_empty() {
				let id = s.sends[pi(tok[4]) as usize % s.sends.len()].id();
				b = b.with_send(id, s.db_value(tok[5]));
			}
			for e in fx_list(tok[6]) {
				b.add_built_effect(e);
			}
			let r = if pi(tok[1]) >= 0 && !s.tracks.is_empty() {
				let n = s.tracks.len();
				s.tracks[pi(tok[1]) as usize % n].add_sub_track(b)
			} else {
				s.mgr.add_sub_track(b)
			};
			match r {
				Ok(h) => {
					s.tracks.push(h);
					out.put("ok")
				}
				Err(_) => out.put("limit"),
			}
		}
		"clock" => {
			let v = p64(tok[2]);
			let sp = match tok[1] {
				"spt" => ClockSpeed::SecondsPerTick(v),
				"tps" => ClockSpeed::TicksPerSecond(v),
				_ => ClockSpeed::TicksPerMinute(v),
			};
			match s.mgr.add_clock(sp) {
				Ok(h) => {
					s.clocks.push(h);
					out.put("ok")
				}
				Err(_) => out.put("limit"),
			}
		}
		"clock.cmd" => match idx(tok[1], s.clocks.len()) {
			Some(i) => {
				match tok[2] {
					"start" => s.clocks[i].start(),
					"pause" => s.clocks[i].pause(),
					_ => s.clocks[i].stop(),
				}
				out.put("ok")
			}
			None => out.put("skip"),
		},
		"clock.speed" => match idx(tok[1], s.clocks.len()) {
			Some(i) => {
				let v = p64(tok[3]);
				let sp = match tok[2] {
					"spt" => ClockSpeed::SecondsPerTick(v),
					"tps" => ClockSpeed::TicksPerSecond(v),
					_ => ClockSpeed::TicksPerMinute(v),
				};
				let tw = s.tween(tok[4]);
				s.clocks[i].set_speed(sp, tw);
				out.put("ok")
			}
			None => out.put("skip"),
		},
		"lfo" => {
			let b = LfoBuilder::new()
				.waveform(match pu(tok[1]) {
					0 => Waveform::Sine,
					1 => Waveform::Triangle,
					2 => Waveform::Saw,
					3 => Waveform::Pulse { width: 0.5 },
					_ => Waveform::Pulse { width: 0.1 },
				})
				.frequency(p64(tok[2]))
				.amplitude(p64(tok[3]))
				.offset(p64(tok[4]))
				.starting_phase(p64(tok[5]));
			match s.mgr.add_modulator(b) {
				Ok(h) => {
					s.lfos.push(h);
					out.put("ok")
				}
				Err(_) => out.put("limit"),
			}
		}
		"tweener" => match s.mgr.add_modulator(TweenerBuilder { initial_value: p64(tok[1]) }) {
			Ok(h) => {
				s.tweeners.push(h);
				out.put("ok")
			}
			Err(_) => out.put("limit"),
		},
		"tweener.set" => match idx(tok[1], s.tweeners.len()) {
			Some(i) => {
				let tw = s.tween(tok[3]);
				s.tweeners[i].set(p64(tok[2]), tw);
				out.put("ok")
			}
			None => out.put("skip"),
		},
		"listener" => {
			let pos = mint::Vector3 { x: p32(tok[1]), y: p32(tok[2]), z: p32(tok[3]) };
			// any finite quaternion (not normalised; may be zero)
			let q = glam::Quat::from_xyzw(p32(tok[4]), p32(tok[5]), p32(tok[6]), p32(tok[7]));
			match s.mgr.add_listener(pos, mint::Quaternion::from(q)) {
				Ok(h) => {
					s.listeners.push(h);
					out.put("ok")
				}
				Err(_) => out.put("limit"),
			}
		}
		"listener.pos" => match idx(tok[1], s.listeners.len()) {
			Some(i) => {
				let tw = s.tween(tok[5]);
				s.listeners[i].set_position(mint::Vector3 { x: p32(tok[2]), y: p32(tok[3]), z: p32(tok[4]) }, tw);
				out.put("ok")
			}
			None => out.put("skip"),
		},
		"spatial" => match idx(tok[1], s.listeners.len()) {
			Some(i) => {
				let mut b = SpatialTrackBuilder::new()
					.distances((p32(tok[5]), p32(tok[6])))
					.spatialization_strength(p32(tok[8]))
					.volume(s.db_value(tok[9]));
				b = if tok[7] == "-" { b.attenuation_function(None) } else { b.attenuation_function(Some(parse_easing(tok[7]))) };
				let pos = mint::Vector3 { x: p32(tok[2]), y: p32(tok[3]), z: p32(tok[4]) };
				let lid = s.listeners[i].id();
				match s.mgr.add_spatial_sub_track(lid, pos, b) {
					Ok(h) => {
						s.spatials.push(h);
						out.put("ok")
					}
					Err(_) => out.put("limit"),
				}
			}
			None => out.put("skip"),
		},
		"play" => {
			let len = pu(tok[2]) as usize;
			let sr = pu(tok[3]) as u32;
			let mut settings = StaticSoundSettings::new()
				.volume(s.db_value(tok[5]))
				.playback_rate(PlaybackRate(p64(tok[6])))
				.panning(Panning(p32(tok[7])))
				.reverse(tok[10] == "1")
				.start_position(p64(tok[11]))
				.start_time(s.start(tok[13]));
			let (ls, le) = (p64(tok[8]), p64(tok[9]));
			if ls >= 0.0 {
				settings = if le >= 0.0 { settings.loop_region(ls..le) } else { settings.loop_region(ls..) };
			}
			if tok[12] != "-" {
				settings = settings.fade_in_tween(Some(s.tween(tok[12])));
			}
			let data = StaticSoundData {
				sample_rate: sr,
				frames: noise_frames(len, pu(tok[4])),
				settings,
				// optional 15th token `<a>,<b>` (older ops files have none): the public `slice` field, any pair
				slice: tok.get(14).filter(|t| **t != "-").map(|t| {
					let (a, b) = t.split_once(',').expect("bad slice");
					(pu(a) as usize, pu(b) as usize)
				}),
			};
			let t = pi(tok[1]);
			let r = if t >= 0 && !s.tracks.is_empty() {
				let n = s.tracks.len();
				s.tracks[t as usize % n].play(data).map_err(|_| ())
			} else if t >= 0 && !s.spatials.is_empty() {
				let n = s.spatials.len();
				s.spatials[t as usize % n].play(data).map_err(|_| ())
			} else {
				s.mgr.play(data).map_err(|_| ())
			};
			match r {
				Ok(h) => {
					s.sounds.push(h);
					out.put("ok")
				}
				Err(_) => out.put("limit"),
			}
		}
		"snd" => match idx(tok[1], s.sounds.len()) {
			Some(i) => {
				let tw = s.tween(tok[3]);
				match tok[2] {
					"pause" => s.sounds[i].pause(tw),
					"resume" => s.sounds[i].resume(tw),
					"stop" => s.sounds[i].stop(tw),
					_ => {
						let st = tw.start_time;
						s.sounds[i].resume_at(st, Tween { start_time: StartTime::Immediate, ..tw })
					}
				}
				out.put(format!("{:?}", s.sounds[i].state()).to_lowercase())
			}
			None => out.put("skip"),
		},
		"snd.seek" => match idx(tok[1], s.sounds.len()) {
			Some(i) => {
				if tok[2] == "to" {
					s.sounds[i].seek_to(p64(tok[3]).abs())
				} else {
					s.sounds[i].seek_by(p64(tok[3]))
				}
				out.put("ok")
			}
			None => out.put("skip"),
		},
		"snd.set" => match idx(tok[1], s.sounds.len()) {
			Some(i) => {
				let tw = s.tween(tok[4]);
				let v = p64(tok[3]);
				match tok[2] {
					"vol" => s.sounds[i].set_volume(Decibels(v as f32), tw),
					"rate" => s.sounds[i].set_playback_rate(PlaybackRate(v), tw),
					_ => s.sounds[i].set_panning(Panning(v as f32), tw),
				}
				out.put("ok")
			}
			None => out.put("skip"),
		},
		"trk" => match idx(tok[1], s.tracks.len()) {
			Some(i) => {
				let tw = s.tween(tok[4]);
				let v = s.db_value(tok[3]);
				match tok[2] {
					"vol" => s.tracks[i].set_volume(v, tw),
					"pause" => s.tracks[i].pause(tw),
					"resume" => s.tracks[i].resume(tw),
					_ => {
						let st = tw.start_time;
						s.tracks[i].resume_at(st, Tween { start_time: StartTime::Immediate, ..tw })
					}
				}
				out.put("ok")
			}
			None => out.put("skip"),
		},
		"drop" => {
			macro_rules! drop_from {
				($v:expr) => {
					match idx(tok[2], $v.len()) {
						Some(i) => {
							$v.remove(i);
							out.put("ok")
						}
						None => out.put("skip"),
					}
				};
			}
			match tok[1] {
				"track" => drop_from!(s.tracks),
				"send" => drop_from!(s.sends),
				"clock" => drop_from!(s.clocks),
				"lfo" => drop_from!(s.lfos),
				"tweener" => drop_from!(s.tweeners),
				"listener" => drop_from!(s.listeners),
				"spatial" => drop_from!(s.spatials),
				_ => drop_from!(s.sounds),
			}
		}
		"rate" => {
			s.mgr.backend_mut().change_sample_rate(pu(tok[1]) as u32);
			out.put("ok")
		}
		"cb" => {
			let frames = pu(tok[1]) as usize;
			let ch = pu(tok[2]) as u16;
			let mut buf = vec![f32::from_bits(0x7fc0_1234); frames * ch as usize];
			crate::alloc_monitor::arm();
			s.mgr.backend_mut().callback_into(&mut buf, ch);
			let (allocs, frees) = crate::alloc_monitor::disarm();
			let mut bad = vec![];
			if allocs > 0 || frees > 0 {
				bad.push(format!("audio_thread_alloc(allocs={},frees={})", allocs, frees));
			}
			for (i, x) in buf.iter().enumerate() {
				if !x.is_finite() {
					bad.push(format!("non_finite_sample(ch={})", i % ch as usize));
					break;
				}
				if !(-1.0..=1.0).contains(x) {
					bad.push("out_of_range_sample".to_string());
					break;
				}
				if ch > 2 && i % ch as usize >= 2 && *x != 0.0 {
					bad.push("extra_channel_not_silent".to_string());
					break;
				}
			}
			if bad.is_empty() {
				out.put("ok")
			} else {
				out.put(format!("bad {}", bad.join(",")));
				for b in bad {
					let name = b.split('(').next().unwrap().to_string();
					out.oracle_fail(&name, l);
				}
			}
		}
		_ => panic!("system: unknown op {}", tok[0]),
	}
}

pub fn run(ops: &[String]) -> Vec<String> {
	run_cases(ops, Some(Duration::from_secs(6)), |case: &[String], out: &mut Out| {
		let mut sc: Option<Scene> = None;
		for l in case {
			if l.starts_with("case") {
				out.put(l.clone());
				continue;
			}
			exec(&mut sc, l, out);
		}
	})
}
