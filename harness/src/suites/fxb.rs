//! Suite `fxb` (C13 / C14, second half): the delay and the reverb, driven through the PUBLIC builders
//! (`DelayBuilder`, `ReverbBuilder` → `Box<dyn Effect>`) with `init` / `on_change_sample_rate` /
//! handle setters / `on_start_processing` / `process` and `MockInfoBuilder`.
//!
//! ops:  delay.new <delay ns> <feedback value> <mix value> <chain>   chain: `-` | g,o,f[;g,o,f]*  (f32 bits;
//!                                                                   `ProbeEffect`s nested in the feedback loop)
//!       reverb.new <feedback value> <damping value> <stereo width value> <mix value>
//!       init <sample rate> <internal buffer size>      rate <sample rate>      start
//!       set <fb|mix|damp|sw> <value> <tween>           info.clocks … / info.mods …   (as in suite `param`)
//!       proc <dt> <n> {<left> <right>}*n               → `o <output frames> s <slices seen by the 1st nested effect>`
//!       run <dt> <slice> <count> <kind> <a> <b>        → `h <fnv hash of all output bits> <non-finite count> <last frame>`
//!                                                        kind: zero | dc | imp | noise  (inputs generated on both sides)
//!
//! Oracles (evaluated on the real code only, on every `proc` / `run`): the main instance is accompanied by
//! four shadows built from the same ops — `split` (same input, other partition), `b` (another input y),
//! `sum` (x + y), `scaled` (c·x) — see `Case::feed`.
use crate::probe::{new_log, Log, ProbeEffectBuilder};
use crate::runner::{classify, last_panic, run_cases, Out};
use crate::suites::param::{gen_tween, ids, parse_tween, parse_value, Ids, InfoState, Ty, MAX_IDS};
use crate::suites::units::{fmt_easing, gen_easing};
use crate::util::*;
use kira::effect::delay::{DelayBuilder, DelayHandle};
use kira::effect::reverb::{ReverbBuilder, ReverbHandle};
use kira::effect::{Effect, EffectBuilder};
use kira::{Decibels, Frame, Mix};
use std::panic::{catch_unwind, resume_unwind, AssertUnwindSafe};
use std::time::Duration;

/// how often each oracle's premise held (printed to stderr when FXB_STATS is set; not part of the trace)
static PREMISES: std::sync::Mutex<std::collections::BTreeMap<&'static str, u64>> =
	std::sync::Mutex::new(std::collections::BTreeMap::new());
fn premise(name: &'static str) {
	*PREMISES.lock().unwrap().entry(name).or_insert(0) += 1;
}

impl Ty for Mix {
	fn parse(s: &str) -> Self {
		Mix(p32(s))
	}
	fn show(self) -> String {
		h32(self.0)
	}
	fn gen(rng: &mut Rng) -> Self {
		Mix(rng.pick(&[0.0f32, 0.5, 1.0, 0.25]))
	}
	fn scalar(self) -> Option<f64> {
		Some(self.0 as f64)
	}
}

// ---------------------------------------------------------------------------------------------
// one effect instance
// ---------------------------------------------------------------------------------------------

enum Handle {
	Delay(DelayHandle),
	Reverb(ReverbHandle),
}

struct Inst {
	fx: Box<dyn Effect>,
	handle: Handle,
	/// log of the first nested probe effect (delay with a non-empty chain)
	log: Option<Log>,
}

fn parse_chain(s: &str) -> Vec<(f32, f32, f32)> {
	if s == "-" {
		return vec![];
	}
	s.split(';')
		.map(|e| {
			let p: Vec<&str> = e.split(',').collect();
			(p32(p[0]), p32(p[1]), p32(p[2]))
		})
		.collect()
}

impl Inst {
	fn build(tok: &[&str], ids: &Ids) -> Inst {
		match tok[0] {
			"delay.new" => {
				let mut b = DelayBuilder::new()
					.delay_time(Duration::from_nanos(pu(tok[1])))
					.feedback(parse_value::<Decibels>(tok[2], ids))
					.mix(parse_value::<Mix>(tok[3], ids));
				let mut log = None;
				for (i, (gain, offset, feedback)) in parse_chain(tok[4]).into_iter().enumerate() {
					let l = b.add_feedback_effect(ProbeEffectBuilder {
						gain,
						offset,
						feedback,
						log: new_log(),
					});
					if i == 0 {
						log = Some(l);
					}
				}
				let (fx, handle) = b.build();
				Inst {
					fx,
					handle: Handle::Delay(handle),
					log,
				}
			}
			"reverb.new" => {
				let b = ReverbBuilder::new()
					.feedback(parse_value::<f64>(tok[1], ids))
					.damping(parse_value::<f64>(tok[2], ids))
					.stereo_width(parse_value::<f64>(tok[3], ids))
					.mix(parse_value::<Mix>(tok[4], ids));
				let (fx, handle) = b.build();
				Inst {
					fx,
					handle: Handle::Reverb(handle),
					log: None,
				}
			}
			_ => panic!("fxb: bad constructor {}", tok[0]),
		}
	}

	/// init / rate / start / set
	fn control(&mut self, tok: &[&str], ids: &Ids) {
		match tok[0] {
			"init" => self.fx.init(pu(tok[1]) as u32, pu(tok[2]) as usize),
			"rate" => self.fx.on_change_sample_rate(pu(tok[1]) as u32),
			"start" => self.fx.on_start_processing(),
			"set" => {
				let tw = parse_tween(tok[3], ids);
				match (&mut self.handle, tok[1]) {
					(Handle::Delay(h), "fb") => h.set_feedback(parse_value::<Decibels>(tok[2], ids), tw),
					(Handle::Delay(h), "mix") => h.set_mix(parse_value::<Mix>(tok[2], ids), tw),
					(Handle::Reverb(h), "fb") => h.set_feedback(parse_value::<f64>(tok[2], ids), tw),
					(Handle::Reverb(h), "damp") => h.set_damping(parse_value::<f64>(tok[2], ids), tw),
					(Handle::Reverb(h), "sw") => h.set_stereo_width(parse_value::<f64>(tok[2], ids), tw),
					(Handle::Reverb(h), "mix") => h.set_mix(parse_value::<Mix>(tok[2], ids), tw),
					_ => panic!("fxb: bad set {}", tok[1]),
				}
			}
			_ => panic!("fxb: bad control op {}", tok[0]),
		}
	}

	fn take_slices(&mut self) -> Vec<usize> {
		match &self.log {
			Some(l) => {
				let mut l = l.lock().unwrap();
				l.dts.clear();
				std::mem::take(&mut l.slices)
			}
			None => vec![],
		}
	}
}

// ---------------------------------------------------------------------------------------------
// a case: main instance + shadows + what the oracles need to know
// ---------------------------------------------------------------------------------------------

#[derive(Clone, Copy, PartialEq)]
enum Kind {
	Delay,
	Reverb,
}

struct Shadows {
	split: Inst,
	b: Inst,
	sum: Inst,
	scaled: Inst,
	/// the same input at a very low level: 2^-k · x (C13 scaling, relative to the output)
	tiny: Inst,
	/// reverb only: the same reverb at stereo width 1 (its wet output is the raw left / right network output)
	wide: Option<Inst>,
}

const SCALE: f32 = -0.5;

struct Case {
	ids: Ids,
	info: InfoState,
	main: Option<Inst>,
	shadows: Option<Shadows>,
	kind: Kind,
	/// every builder value `fix:` and no `set` so far → parameters are stagnant, prev == raw
	stagnant: bool,
	/// the feedback chain is linear (all offsets zero) / memoryless (all feedbacks zero too)
	linear: bool,
	memoryless: bool,
	chain_gain: f64,
	/// all parameter values seen are inside the documented ranges (and the delay loop gain is ≤ 1)
	in_domain: bool,
	mix_fixed: Option<f32>,
	fb_db: Option<f32>,
	delay_ns: u64,
	sr: u32,
	ibs: usize,
	initialized: bool,
	/// a non-zero input frame has been fed since construction
	dirty: bool,
	/// frames fed since the last init / rate change
	frame_no: u64,
	impulse: (f32, f32),
	echo_ok: bool,
	nonfinite: bool,
	maxabs: f64,
	op_no: u64,
	salt: u64,
	lcg: u32,
	/// fixed stereo width given to the builder (reverb; None once it is set through the handle or modulated)
	sw_fixed: Option<f64>,
	/// delay: the probe effects in the feedback loop, their states as the documented recurrence has them,
	/// everything written into the line since the last init / rate change, and the largest magnitude involved
	chain: Vec<(f32, f32, f32)>,
	chain_prev: Vec<(f64, f64)>,
	line: Vec<(f64, f64)>,
	line_max: f64,
}

fn amp_of_db(db: f32) -> f64 {
	if db == 0.0 {
		1.0
	} else if db <= -60.0 {
		0.0
	} else {
		10f64.powf(db as f64 / 20.0)
	}
}

fn bits_eq(a: f32, b: f32) -> bool {
	a.to_bits() == b.to_bits() || (a.is_nan() && b.is_nan())
}

/// values of a `fix:`/`mod:` operand that a parameter can take (fixed value or the mapping's two outputs)
fn value_points(s: &str, is32: bool) -> (bool, Vec<f64>) {
	let rd = |x: &str| if is32 { p32(x) as f64 } else { p64(x) };
	if let Some(v) = s.strip_prefix("fix:") {
		(true, vec![rd(v)])
	} else {
		let rest = s.splitn(3, ':').nth(2).unwrap();
		let p: Vec<&str> = rest.split(',').collect();
		(false, vec![rd(p[2]), rd(p[3])])
	}
}

impl Case {
	fn new(salt: u64) -> Self {
		Case {
			ids: ids(),
			info: InfoState::default(),
			main: None,
			shadows: None,
			kind: Kind::Delay,
			stagnant: true,
			linear: true,
			memoryless: true,
			chain_gain: 1.0,
			in_domain: true,
			mix_fixed: None,
			fb_db: None,
			delay_ns: 0,
			sr: 0,
			ibs: 0,
			initialized: false,
			dirty: false,
			frame_no: 0,
			impulse: (0.0, 0.0),
			echo_ok: false,
			nonfinite: false,
			maxabs: 0.0,
			op_no: 0,
			salt,
			lcg: 0,
			sw_fixed: None,
			chain: vec![],
			chain_prev: vec![],
			line: vec![],
			line_max: 0.0,
		}
	}

	fn construct(&mut self, tok: &[&str]) {
		let ids = &self.ids;
		self.main = Some(Inst::build(tok, ids));
		self.shadows = Some(Shadows {
			split: Inst::build(tok, ids),
			b: Inst::build(tok, ids),
			sum: Inst::build(tok, ids),
			scaled: Inst::build(tok, ids),
			tiny: Inst::build(tok, ids),
			wide: if tok[0] == "reverb.new" {
				let one = fix64(1.0);
				let mut t: Vec<&str> = tok.to_vec();
				t[3] = &one;
				Some(Inst::build(&t, ids))
			} else {
				None
			},
		});
		self.chain = if tok[0] == "delay.new" { parse_chain(tok[4]) } else { vec![] };
		self.chain_prev = vec![(0.0, 0.0); self.chain.len()];
		self.line.clear();
		self.line_max = 0.0;
		self.sw_fixed = None;
		self.stagnant = true;
		self.in_domain = true;
		self.dirty = false;
		self.initialized = false;
		self.nonfinite = false;
		if tok[0] == "delay.new" {
			self.kind = Kind::Delay;
			self.delay_ns = pu(tok[1]);
			let (fx_fb, pts_fb) = value_points(tok[2], true);
			let (fx_mix, pts_mix) = value_points(tok[3], true);
			self.stagnant = fx_fb && fx_mix;
			self.fb_db = if fx_fb { Some(pts_fb[0] as f32) } else { None };
			self.mix_fixed = if fx_mix { Some(pts_mix[0] as f32) } else { None };
			let chain = parse_chain(tok[4]);
			self.linear = chain.iter().all(|c| c.1 == 0.0);
			self.memoryless = chain.iter().all(|c| c.1 == 0.0 && c.2 == 0.0);
			self.chain_gain = chain.iter().map(|c| c.0 as f64).product();
			let l1: f64 = chain
				.iter()
				.map(|c| if c.2.abs() < 1.0 { c.0.abs() as f64 / (1.0 - c.2.abs() as f64) } else { f64::INFINITY })
				.product();
			let max_amp = pts_fb.iter().map(|d| amp_of_db(*d as f32)).fold(0.0, f64::max);
			self.in_domain = max_amp * l1 <= 1.0;
		} else {
			self.kind = Kind::Reverb;
			let mut all_fixed = true;
			for (k, is32) in [(1, false), (2, false), (3, false), (4, true)] {
				let (fx, pts) = value_points(tok[k], is32);
				all_fixed &= fx;
				self.note_reverb_domain(k, &pts);
				if k == 4 {
					self.mix_fixed = if fx { Some(pts[0] as f32) } else { None };
				}
				if k == 3 {
					self.sw_fixed = if fx { Some(pts[0]) } else { None };
				}
			}
			self.stagnant = all_fixed;
			self.linear = true;
			self.memoryless = false;
		}
	}

	fn note_reverb_domain(&mut self, which: usize, pts: &[f64]) {
		for &v in pts {
			let ok = match which {
				1 => (0.0..=1.0).contains(&v), // feedback
				2 => (0.0..=1.0).contains(&v), // damping
				3 => (-4.0..=4.0).contains(&v), // stereo width (documented 0..1; anything moderate is stable)
				_ => true,
			};
			if !ok {
				self.in_domain = false;
			}
		}
	}

	fn control(&mut self, tok: &[&str]) {
		let ids = &self.ids;
		self.main.as_mut().unwrap().control(tok, ids);
		if let Some(sh) = self.shadows.as_mut() {
			sh.split.control(tok, ids);
			sh.b.control(tok, ids);
			sh.sum.control(tok, ids);
			sh.scaled.control(tok, ids);
			sh.tiny.control(tok, ids);
			if let Some(w) = sh.wide.as_mut() {
				// the width-1 companion follows everything but the width
				if !(tok[0] == "set" && tok[1] == "sw") {
					w.control(tok, ids);
				}
			}
		}
		match tok[0] {
			"init" | "rate" => {
				self.sr = pu(tok[1]) as u32;
				if tok[0] == "init" {
					self.ibs = pu(tok[2]) as usize;
					self.initialized = true;
				}
				self.frame_no = 0;
				self.line.clear();
				self.echo_ok = self.kind == Kind::Delay && self.stagnant && self.memoryless && self.initialized;
			}
			"set" => {
				self.stagnant = false;
				self.echo_ok = false;
				self.mix_fixed = None;
				self.fb_db = None;
				self.sw_fixed = None;
				if self.kind == Kind::Reverb {
					let (which, is32) = match tok[1] {
						"fb" => (1, false),
						"damp" => (2, false),
						"sw" => (3, false),
						_ => (4, true),
					};
					let (_, pts) = value_points(tok[2], is32);
					self.note_reverb_domain(which, &pts);
				} else if tok[1] == "fb" {
					// conservative: a retargeted delay feedback is only in-domain with an attenuating chain
					let (_, pts) = value_points(tok[2], true);
					if pts.iter().any(|d| *d > 0.0) {
						self.in_domain = false;
					}
					if !self.memoryless || self.chain_gain.abs() > 1.0 {
						self.in_domain = false;
					}
				}
			}
			_ => {}
		}
	}

	fn exact_delay_frames(&self) -> u64 {
		((self.delay_ns as u128 * self.sr as u128) / 1_000_000_000u128) as u64
	}
	/// what the `f64` product gave before the line length was computed in integers (the repaired defect
	/// delay-length-float-floor): only used to count how often the generated delay sits on that boundary
	fn float_delay_frames(&self) -> u64 {
		(Duration::from_nanos(self.delay_ns).as_secs_f64() * self.sr as f64) as usize as u64
	}

	/// Feed one slice to the main instance (and the shadows), run the oracles, return the output.
	fn feed(&mut self, input: &[Frame], dt: f64, line: &str, out: &mut Out) -> Vec<Frame> {
		self.op_no += 1;
		let info = self.info.build();
		let n = input.len();
		// --- main run (a panic is reported by the no-panic oracle when the call was legitimate, then re-raised)
		let mut main_out = input.to_vec();
		{
			let main = self.main.as_mut().unwrap();
			let r = catch_unwind(AssertUnwindSafe(|| main.fx.process(&mut main_out, dt, &info)));
			if let Err(payload) = r {
				let legit = self.initialized
					&& n <= self.ibs
					&& (self.kind == Kind::Delay || (8000..=192000).contains(&self.sr));
				if legit {
					let what = classify(&last_panic());
					let detail = match self.kind {
						Kind::Delay => format!(
							"{} delay_ns={} sr={} frames={} | {}",
							what,
							self.delay_ns,
							self.sr,
							self.exact_delay_frames().max(1),
							short(line)
						),
						Kind::Reverb => format!("{} reverb sr={} | {}", what, self.sr, short(line)),
					};
					out.oracle_fail("process_panics", detail);
				}
				resume_unwind(payload);
			}
		}
		let all_finite_in = input.iter().all(|f| f.left.is_finite() && f.right.is_finite());
		let in_max = input.iter().fold(0.0f64, |m, f| m.max(f.left.abs() as f64).max(f.right.abs() as f64));
		let finite_out = main_out.iter().all(|f| f.left.is_finite() && f.right.is_finite());
		self.maxabs = self.maxabs.max(in_max);
		for f in &main_out {
			if f.left.is_finite() && f.right.is_finite() {
				self.maxabs = self.maxabs.max(f.left.abs() as f64).max(f.right.abs() as f64);
			}
		}
		if all_finite_in && self.in_domain && !self.nonfinite {
			premise("finite_output");
		}
		if !finite_out || !all_finite_in {
			// --- finiteness over arbitrarily long runs (premise: documented ranges, bounded input)
			if all_finite_in && !self.nonfinite && self.in_domain && self.maxabs < 1e30 {
				out.oracle_fail("finite_output", short(line));
			}
			self.nonfinite = true;
		}
		let was_dirty = self.dirty;
		if input.iter().any(|f| f.left != 0.0 || f.right != 0.0) {
			self.dirty = true;
		}
		// --- dry mix is the identity
		if let (Some(m), false) = (self.mix_fixed, self.nonfinite) {
			if m <= 0.0 && self.stagnant {
				premise("dry_identity");
				for (i, (o, x)) in main_out.iter().zip(input).enumerate() {
					if !(o.left == x.left && o.right == x.right) {
						out.oracle_fail("dry_identity", format!("frame {} | {}", i, short(line)));
						break;
					}
				}
			}
		}
		// --- silence stays silent (from a fresh state, linear chain)
		if !self.dirty && !was_dirty && self.linear {
			premise("silence_to_silence");
			if main_out.iter().any(|f| f.left != 0.0 || f.right != 0.0) {
				out.oracle_fail("silence_to_silence", short(line));
			}
		}
		// --- echoes of an impulse (delay, memoryless chain, stagnant parameters)
		if self.echo_ok && !self.nonfinite {
			premise("echo");
			self.check_echoes(input, &main_out, line, out);
		}
		// --- the delay line recirculates through the feedback effects, then the feedback gain (any probe chain)
		if self.kind == Kind::Delay && self.stagnant && self.initialized && self.in_domain && !self.nonfinite && !self.chain.is_empty() {
			if let (Some(db), Some(mix)) = (self.fb_db, self.mix_fixed) {
				premise("delay_recurrence");
				self.check_recurrence(input, &main_out, db, mix, line, out);
			}
		}
		self.frame_no += n as u64;
		// --- shadows
		if let (Some(sh), false) = (self.shadows.as_mut(), self.nonfinite) {
			let mut rng = Rng::new(self.salt ^ self.op_no.wrapping_mul(0x9E3779B97F4A7C15));
			// the low level of this case: 2^-24, 2^-40 or 2^-56 (about -144, -240, -337 dB)
			let tiny_k: i32 = [24, 40, 56][(self.salt % 3) as usize];
			let tiny_c = 2f32.powi(-tiny_k);
			let shadow_result = catch_unwind(AssertUnwindSafe(|| {
				// split: same input, another partition
				let mut split_out = input.to_vec();
				let mut pos = 0;
				while pos < n {
					let len = (1 + rng.below((n - pos) as u64) as usize).min(n - pos);
					let len = if rng.chance(1, 3) { len.min(1 + rng.below(4) as usize) } else { len };
					sh.split.fx.process(&mut split_out[pos..pos + len], dt, &info);
					pos += len;
				}
				if n == 0 {
					sh.split.fx.process(&mut split_out[..], dt, &info);
				}
				// b: another input; sum: x + y; scaled: c·x
				let zero_y = rng.chance(1, 8);
				let y: Vec<Frame> = (0..n)
					.map(|_| {
						if zero_y {
							Frame::ZERO
						} else {
							Frame::new(rng.uniform(-1.0, 1.0) as f32, rng.uniform(-1.0, 1.0) as f32)
						}
					})
					.collect();
				let mut b_out = y.clone();
				sh.b.fx.process(&mut b_out, dt, &info);
				let mut sum_out: Vec<Frame> = input.iter().zip(&y).map(|(a, b)| *a + *b).collect();
				sh.sum.fx.process(&mut sum_out, dt, &info);
				let mut scaled_out: Vec<Frame> = input.iter().map(|a| *a * SCALE).collect();
				sh.scaled.fx.process(&mut scaled_out, dt, &info);
				let mut tiny_out: Vec<Frame> = input.iter().map(|a| *a * tiny_c).collect();
				sh.tiny.fx.process(&mut tiny_out, dt, &info);
				let wide_out = sh.wide.as_mut().map(|w| {
					let mut v = input.to_vec();
					w.fx.process(&mut v, dt, &info);
					v
				});
				(split_out, y, b_out, sum_out, scaled_out, tiny_out, wide_out)
			}));
			match shadow_result {
				Err(_) => {
					out.oracle_fail("shadow_panics", short(line));
					self.shadows = None;
				}
				Ok((split_out, y, b_out, sum_out, scaled_out, tiny_out, wide_out)) => {
					let fin = |v: &Vec<Frame>| v.iter().all(|f| f.left.is_finite() && f.right.is_finite());
					// --- C13 scaling at very low levels: fx(2^-k · x) = 2^-k · fx(x), relative to the output.
					// Scaling by a power of two commutes with every IEEE rounding as long as nothing underflows, and
					// both effects only multiply the signal by parameters and add (Reverb / comb / all-pass / Delay with
					// a linear probe chain: C13_reverb_linear, C13_delay_linear over the reals), so the low-level run
					// is the bit-exact image of the main run except where a value of the low-level run drops below
					// 2^-126: there each operation errs by at most 2^-150, and the (in-domain, hence non-expanding:
					// C13 BIBO bounds) network carries that to the output; 1e9 bounds operations x gain of a case.
					// Back at the main run's scale that is 2^(k-150) · 1e9 — no term relative to the input level.
					if self.linear && self.in_domain && fin(&tiny_out) {
						premise("scaling_low_level");
						let floor = 2f64.powi(tiny_k - 150) * 1e9;
						let up = 2f64.powi(tiny_k);
						for i in 0..n {
							let el = (tiny_out[i].left as f64 * up - main_out[i].left as f64).abs();
							let er = (tiny_out[i].right as f64 * up - main_out[i].right as f64).abs();
							if el > floor || er > floor {
								out.oracle_fail(
									"scaling_low_level",
									format!("frame {} scale 2^-{} residual {:e} of output {:e} | {}", i, tiny_k, el.max(er), main_out[i].left.abs().max(main_out[i].right.abs()), short(line)),
								);
								break;
							}
						}
					}
					// --- C14 "the reverb matches the Freeverb network it cites": the stereo width stage.
					// With (L, R) the network's left / right output, Freeverb's output stage is
					//   out.left = L·wet1 + R·wet2,  out.right = R·wet1 + L·wet2,  wet1 = width/2 + 1/2,  wet2 = (1 - width)/2,
					// blended as wet·sqrt(mix) + dry·sqrt(1 - mix). The companion at width 1 (wet1 = 1, wet2 = 0) hands out
					// (L, R)·sqrt(mix) + dry·sqrt(1 - mix), so A = companion - dry·sqrt(1 - mix) is the network output and
					// the main instance has to give A.left·wet1 + A.right·wet2 (+ dry part), and the mirror image on the
					// right. Tolerance: a handful of f32 roundings (2^-24 each) of the magnitudes involved: 1e-5.
					if let (Some(wide), Some(sw), Some(mix), true) = (wide_out.as_ref(), self.sw_fixed, self.mix_fixed, self.stagnant) {
						if fin(wide) && (0.0..=1.0).contains(&sw) {
							premise("reverb_width_stage");
							let m = (mix as f64).clamp(0.0, 1.0);
							let dry = (1.0 - m).sqrt();
							let (w1, w2) = (sw / 2.0 + 0.5, (1.0 - sw) / 2.0);
							for i in 0..n {
								let (dl, dr) = (input[i].left as f64 * dry, input[i].right as f64 * dry);
								let (al, ar) = (wide[i].left as f64 - dl, wide[i].right as f64 - dr);
								let want_l = al * w1 + ar * w2 + dl;
								let want_r = ar * w1 + al * w2 + dr;
								let tol = 1e-5 * (al.abs() + ar.abs() + dl.abs() + dr.abs() + wide[i].left.abs() as f64 + wide[i].right.abs() as f64) + 1e-30;
								if (main_out[i].left as f64 - want_l).abs() > tol || (main_out[i].right as f64 - want_r).abs() > tol {
									out.oracle_fail(
										"reverb_width_stage",
										format!(
											"frame {} width {} got {:e} {:e} documented {:e} {:e} | {}",
											i, sw, main_out[i].left, main_out[i].right, want_l, want_r, short(line)
										),
									);
									break;
								}
							}
						}
					}
					if self.stagnant {
						premise("split_equals_whole");
						for i in 0..n {
							if !(bits_eq(split_out[i].left, main_out[i].left) && bits_eq(split_out[i].right, main_out[i].right)) {
								out.oracle_fail("split_equals_whole", format!("frame {} | {}", i, short(line)));
								break;
							}
						}
					}
					if self.linear && fin(&b_out) && fin(&sum_out) && fin(&scaled_out) {
						for v in [&y, &b_out, &sum_out] {
							for f in v.iter() {
								self.maxabs = self.maxabs.max(f.left.abs() as f64).max(f.right.abs() as f64);
							}
						}
						if self.maxabs < 1e30 {
							premise("superposition+scaling");
							let tol = 1e-3 * self.maxabs + 1e-30;
							for i in 0..n {
								let el = (sum_out[i].left as f64 - (main_out[i].left as f64 + b_out[i].left as f64)).abs();
								let er = (sum_out[i].right as f64 - (main_out[i].right as f64 + b_out[i].right as f64)).abs();
								if el > tol || er > tol {
									out.oracle_fail("superposition", format!("frame {} residual {:e} tol {:e} | {}", i, el.max(er), tol, short(line)));
									break;
								}
							}
							for i in 0..n {
								let el = (scaled_out[i].left as f64 - SCALE as f64 * main_out[i].left as f64).abs();
								let er = (scaled_out[i].right as f64 - SCALE as f64 * main_out[i].right as f64).abs();
								if el > tol || er > tol {
									out.oracle_fail("scaling", format!("frame {} residual {:e} tol {:e} | {}", i, el.max(er), tol, short(line)));
									break;
								}
							}
						}
					} else if !(fin(&b_out) && fin(&sum_out) && fin(&scaled_out)) {
						self.nonfinite = true;
					}
				}
			}
		}
		main_out
	}

	fn check_echoes(&mut self, input: &[Frame], main_out: &[Frame], line: &str, out: &mut Out) {
		let l_exact = self.exact_delay_frames();
		let l_float = self.float_delay_frames();
		let amp = amp_of_db(self.fb_db.unwrap_or(0.0)) * self.chain_gain;
		let mix = (self.mix_fixed.unwrap_or(0.0) as f64).clamp(0.0, 1.0);
		let (wet_gain, dry_gain) = (mix.sqrt(), (1.0 - mix).sqrt());
		for (i, (x, o)) in input.iter().zip(main_out).enumerate() {
			let t = self.frame_no + i as u64;
			if t == 0 {
				self.impulse = (x.left, x.right);
			} else if x.left != 0.0 || x.right != 0.0 {
				self.echo_ok = false;
				return;
			}
			if l_exact == 0 {
				return;
			}
			let (k, on_echo) = (t / l_exact, t % l_exact == 0 && t > 0);
			let g = if on_echo { amp.powi(k as i32) * wet_gain } else { 0.0 };
			if on_echo && (self.impulse.0 != 0.0 || self.impulse.1 != 0.0) && g != 0.0 {
				premise("echo_nonzero_echo_frames");
				if l_exact != l_float {
					premise("echo_at_f64_boundary");
				}
			}
			let exp_l = g * self.impulse.0 as f64 + dry_gain * x.left as f64;
			let exp_r = g * self.impulse.1 as f64 + dry_gain * x.right as f64;
			let tol = |e: f64| 1e-5 * (k as f64 + 2.0) * e.abs() + 1e-37;
			if (o.left as f64 - exp_l).abs() > tol(exp_l) || (o.right as f64 - exp_r).abs() > tol(exp_r) {
				// the echo comes back after exactly ⌊delay·fs⌋ frames, also when delay·fs is a whole number
				// of frames and the f64 product rounds below it (`f64_frames` differs there)
				out.oracle_fail(
					"echo",
					format!(
						"frame {} expected {:e} {:e} got {:e} {:e} L={} delay_ns={} sr={} f64_frames={} | {}",
						t, exp_l, exp_r, o.left, o.right, l_exact, self.delay_ns, self.sr, l_float, short(line)
					),
				);
				self.echo_ok = false;
				return;
			}
		}
	}
}

impl Case {
	/// C14 "echoes at exact multiples of the delay time, each attenuated once more by the feedback gain and shaped
	/// by the feedback effects": with stagnant feedback gain a and mix, what is read from the line L frames after
	/// it was written goes through the feedback effects FIRST and is THEN multiplied by a; that is the wet signal,
	/// and input + wet is written back (C14_delay_recirculates, for any feedback effects). Evaluated here over f64
	/// for the probe chain (each probe: gain·x + offset + feedback·its previous output, frame by frame), for any
	/// input. Tolerance: f32 roundings (2^-24 each, < 10 per trip round the loop, loop gain <= 1 in-domain) of the
	/// largest magnitude that went through the loop: 1e-5 · (trips + 2).
	fn check_recurrence(&mut self, input: &[Frame], main_out: &[Frame], db: f32, mix: f32, line: &str, out: &mut Out) {
		let l = self.exact_delay_frames().max(1) as usize;
		let a = amp_of_db(db);
		let m = (mix as f64).clamp(0.0, 1.0);
		let (wet_gain, dry_gain) = (m.sqrt(), (1.0 - m).sqrt());
		let mut failed = None;
		for (i, (x, o)) in input.iter().zip(main_out).enumerate() {
			let t = self.line.len();
			let mut r = if t >= l { self.line[t - l] } else { (0.0, 0.0) };
			for (k, &(g, off, fb)) in self.chain.iter().enumerate() {
				let p = self.chain_prev[k];
				r = (r.0 * g as f64 + off as f64 + p.0 * fb as f64, r.1 * g as f64 + off as f64 + p.1 * fb as f64);
				self.chain_prev[k] = r;
				self.line_max = self.line_max.max(r.0.abs()).max(r.1.abs());
			}
			let wet = (r.0 * a, r.1 * a);
			let w = (x.left as f64 + wet.0, x.right as f64 + wet.1);
			self.line_max = self.line_max.max(w.0.abs()).max(w.1.abs());
			self.line.push(w);
			let want = (wet.0 * wet_gain + x.left as f64 * dry_gain, wet.1 * wet_gain + x.right as f64 * dry_gain);
			let tol = 1e-5 * ((t / l) as f64 + 2.0) * self.line_max + 1e-37;
			if failed.is_none() && ((o.left as f64 - want.0).abs() > tol || (o.right as f64 - want.1).abs() > tol) {
				failed = Some(format!(
					"frame {} (trip {}) got {:e} {:e} documented {:e} {:e} | {}",
					t, t / l, o.left, o.right, want.0, want.1, short(line)
				));
				let _ = i;
			}
		}
		if let Some(d) = failed {
			out.oracle_fail("delay_feedback_effects_then_gain", d);
			// one report per case
			self.chain.clear();
		}
	}
}

fn short(line: &str) -> String {
	if line.len() > 160 {
		format!("{}…", &line[..160])
	} else {
		line.to_string()
	}
}

// ---------------------------------------------------------------------------------------------
// generated inputs of `run` (mirrored in Exec/SuiteFxB.lean)
// ---------------------------------------------------------------------------------------------

fn lcg_next(s: u32) -> u32 {
	s.wrapping_mul(1664525).wrapping_add(1013904223)
}
fn lcg_sample(s: u32) -> f32 {
	((s >> 8) as f32) / 16777216.0 * 2.0 - 1.0
}
fn gen_slice(kind: &str, a: f32, b: f32, k: usize, n: usize, lcg: &mut u32) -> Vec<Frame> {
	match kind {
		"noise" => (0..n)
			.map(|_| {
				let s1 = lcg_next(*lcg);
				let s2 = lcg_next(s1);
				*lcg = s2;
				Frame::new(lcg_sample(s1) * a, lcg_sample(s2) * b)
			})
			.collect(),
		"dc" => vec![Frame::new(a, b); n],
		"imp" => {
			let mut v = vec![Frame::ZERO; n];
			if k == 0 && n > 0 {
				v[0] = Frame::new(a, b);
			}
			v
		}
		_ => vec![Frame::ZERO; n],
	}
}

fn fnv_step(h: u64, x: f32) -> u64 {
	let bits = if x.is_nan() { 0x7fc00000u64 } else { x.to_bits() as u64 };
	(h ^ bits).wrapping_mul(0x100000001b3)
}

// ---------------------------------------------------------------------------------------------
// run
// ---------------------------------------------------------------------------------------------

fn fmt_frames(fs: &[Frame]) -> String {
	let v: Vec<String> = fs.iter().map(|f| format!("{} {}", h32(f.left), h32(f.right))).collect();
	v.join(" ")
}

pub fn run(ops: &[String]) -> Vec<String> {
	let r = run_inner(ops);
	if std::env::var("FXB_STATS").is_ok() {
		eprintln!("fxb oracle premises held: {:?}", PREMISES.lock().unwrap());
	}
	r
}

fn run_inner(ops: &[String]) -> Vec<String> {
	run_cases(ops, None, |case: &[String], out: &mut Out| {
		out.put(case[0].clone());
		let salt = case[0].bytes().fold(0x1234_5678_9abc_def0u64, |h, b| (h ^ b as u64).wrapping_mul(0x100000001b3));
		let mut c = Case::new(salt);
		for l in &case[1..] {
			let tok: Vec<&str> = l.split_whitespace().collect();
			match tok[0] {
				"info.clocks" => {
					c.info.parse_clocks(&tok);
					out.put("ok");
				}
				"info.mods" => {
					c.info.parse_mods(&tok);
					out.put("ok");
				}
				"delay.new" | "reverb.new" => {
					c.construct(&tok);
					out.put("ok");
				}
				"init" | "rate" | "start" | "set" => {
					c.control(&tok);
					out.put("ok");
				}
				"proc" => {
					let dt = p64(tok[1]);
					let n = pu(tok[2]) as usize;
					let input: Vec<Frame> = (0..n).map(|i| Frame::new(p32(tok[3 + 2 * i]), p32(tok[4 + 2 * i]))).collect();
					let o = c.feed(&input, dt, l, out);
					let slices = c.main.as_mut().unwrap().take_slices();
					let s: Vec<String> = slices.iter().map(|x| x.to_string()).collect();
					out.put(format!("o {} s {}", fmt_frames(&o), s.join(" ")));
				}
				"run" => {
					let dt = p64(tok[1]);
					let slice = pu(tok[2]) as usize;
					let count = pu(tok[3]) as usize;
					let (a, b) = (p32(tok[5]), p32(tok[6]));
					let mut h = 0xcbf29ce484222325u64;
					let mut bad = 0u64;
					let mut last = Frame::ZERO;
					for k in 0..count {
						let input = gen_slice(tok[4], a, b, k, slice, &mut c.lcg);
						let o = c.feed(&input, dt, l, out);
						for f in &o {
							h = fnv_step(fnv_step(h, f.left), f.right);
							bad += (!f.left.is_finite()) as u64 + (!f.right.is_finite()) as u64;
						}
						if let Some(f) = o.last() {
							last = *f;
						}
					}
					c.main.as_mut().unwrap().take_slices();
					out.put(format!("h {:016x} {} {} {}", h, bad, h32(last.left), h32(last.right)));
				}
				"twchk" => {
					tween_time_oracle(&tok, l, out);
					out.put("ok");
				}
				_ => panic!("fxb: unknown op {}", tok[0]),
			}
		}
	})
}

// ---------------------------------------------------------------------------------------------
// gen
// ---------------------------------------------------------------------------------------------

const RATES: &[u32] = &[8000, 11025, 16000, 22050, 32000, 44100, 44100, 48000, 48000, 88200, 96000, 176400, 192000];
const IBS: &[usize] = &[1, 2, 3, 7, 16, 32, 64, 128, 128, 256, 512];

fn fix32(x: f32) -> String {
	format!("fix:{}", o32(x))
}
fn fix64(x: f64) -> String {
	format!("fix:{}", o64(x))
}
fn mod32(rng: &mut Rng, a: f32, b: f32) -> String {
	let i0 = rng.uniform(-1.0, 1.0);
	format!("mod:{}:{},{},{},{},{}", rng.below(MAX_IDS as u64), o64(i0), o64(i0 + 1.0), o32(a), o32(b), fmt_easing(&gen_easing(rng)))
}
fn mod64(rng: &mut Rng, a: f64, b: f64) -> String {
	let i0 = rng.uniform(-1.0, 1.0);
	format!("mod:{}:{},{},{},{},{}", rng.below(MAX_IDS as u64), o64(i0), o64(i0 + 1.0), o64(a), o64(b), fmt_easing(&gen_easing(rng)))
}

fn gen_db(rng: &mut Rng) -> f32 {
	match rng.below(10) {
		0..=5 => rng.pick(&[-60.0f32, -61.0, -59.9, -40.0, -30.0, -12.0, -6.0, -6.0, -3.0, -1.0, -0.1, 0.0, 0.0]),
		_ => rng.uniform(-60.0, 0.0) as f32,
	}
}
fn gen_mix(rng: &mut Rng) -> f32 {
	match rng.below(12) {
		0..=2 => 0.0,
		3..=5 => 0.5,
		6..=8 => 1.0,
		9 => rng.pick(&[0.25f32, 0.75, 1.0e-3, 0.999]),
		10 => rng.uniform(0.0, 1.0) as f32,
		_ => rng.pick(&[-0.5f32, 1.5, -0.0]),
	}
}

/// a slice of input frames of one of the documented shapes
fn gen_input(rng: &mut Rng, n: usize, stats: &mut Stats) -> Vec<(f32, f32)> {
	let kind = rng.below(10);
	let amp = match rng.below(8) {
		0 => 1.0f32,
		1 => 0.5,
		2 => 1.0e-3,
		3 => 1.0e-40, // denormal
		4 => 100.0,
		_ => rng.uniform(0.01, 1.0) as f32,
	};
	let v: Vec<(f32, f32)> = match kind {
		0 => {
			stats.hit("in_zero");
			vec![(0.0, 0.0); n]
		}
		1 | 2 => {
			stats.hit("in_impulse");
			let mut v = vec![(0.0, 0.0); n];
			if n > 0 {
				let at = if rng.chance(2, 3) { 0 } else { rng.below(n as u64) as usize };
				v[at] = (amp, if rng.chance(1, 2) { amp } else { -amp * 0.5 });
			}
			v
		}
		3 => {
			stats.hit("in_dc");
			vec![(amp, -amp); n]
		}
		4 => {
			stats.hit("in_step");
			let at = if n > 0 { rng.below(n as u64) as usize } else { 0 };
			(0..n).map(|i| if i >= at { (amp, amp) } else { (0.0, 0.0) }).collect()
		}
		5 => {
			stats.hit("in_fullscale");
			(0..n).map(|i| if i % 2 == 0 { (1.0, -1.0) } else { (-1.0, 1.0) }).collect()
		}
		_ => {
			stats.hit("in_noise");
			(0..n).map(|_| (rng.uniform(-1.0, 1.0) as f32 * amp, rng.uniform(-1.0, 1.0) as f32 * amp)).collect()
		}
	};
	v
}

fn proc_line(dt: f64, frames: &[(f32, f32)]) -> String {
	let mut s = format!("proc {} {}", o64(dt), frames.len());
	for (l, r) in frames {
		s.push(' ');
		s += &o32(*l);
		s.push(' ');
		s += &o32(*r);
	}
	s
}

fn gen_chain(rng: &mut Rng, stats: &mut Stats) -> String {
	let e = |g: f32, o: f32, f: f32| format!("{},{},{}", o32(g), o32(o), o32(f));
	match rng.below(20) {
		0..=9 => {
			stats.hit("chain_empty");
			"-".into()
		}
		10..=13 => {
			stats.hit("chain_gain");
			e(rng.pick(&[0.5f32, -0.5, 1.0, 0.25, -1.0, 0.7]), 0.0, 0.0)
		}
		14..=16 => {
			stats.hit("chain_onepole");
			e(rng.pick(&[0.5f32, 0.25, -0.5]), 0.0, rng.pick(&[0.5f32, -0.5, 0.25]))
		}
		17..=18 => {
			stats.hit("chain_two");
			format!("{};{}", e(0.5, 0.0, 0.0), e(rng.pick(&[1.0f32, -0.5]), 0.0, rng.pick(&[0.0f32, 0.5])))
		}
		_ => {
			stats.hit("chain_offset");
			e(0.5, 0.125, 0.0)
		}
	}
}

/// delay time in ns aiming at `frames` frames at rate `sr`
fn ns_for_frames(rng: &mut Rng, frames: u64, sr: u32, stats: &mut Stats) -> u64 {
	let exact = frames as u128 * 1_000_000_000u128;
	let base = (exact / sr as u128) as u64;
	if exact % sr as u128 == 0 {
		match rng.below(4) {
			0 => {
				stats.hit("delay_exact_boundary");
				base
			}
			1 => base.saturating_sub(1),
			2 => base + 1,
			_ => base + rng.below(1_000_000_000 / sr as u64),
		}
	} else {
		match rng.below(3) {
			0 if frames > 1 => base, // just below the boundary → frames - 1
			1 => base + 1, // just above
			_ => base + 1 + rng.below(1_000_000_000 / sr as u64),
		}
	}
}

fn gen_delay_case(rng: &mut Rng, thorough: bool, out: &mut Vec<String>, stats: &mut Stats) {
	let sr = rng.pick(RATES);
	let ibs = rng.pick(IBS);
	let dt = 1.0 / sr as f64;
	let shape = rng.below(20);
	// target line length in frames
	let frames: u64 = match rng.below(14) {
		0 => 1,
		1 => 2,
		2 => rng.range(3, 9) as u64,
		3 => ibs as u64,
		4 => (ibs as u64).saturating_sub(1).max(1),
		5 => ibs as u64 + 1,
		6 => 2 * ibs as u64 + 3,
		7 => rng.range(10, 300) as u64,
		8 => rng.pick(&[1001u64, 1003, 2002, 1000]),
		9 => {
			if thorough && rng.chance(1, 8) {
				sr as u64 / 2
			} else {
				sr as u64 / 50
			}
		}
		10 => rng.range(300, 3000) as u64,
		_ => rng.range(1, 64) as u64,
	};
	// keep the twin's cost (slices × line length) bounded: long lines get large slices
	let ibs = if frames >= 20_000 {
		512
	} else if frames > 256 {
		ibs.max(128)
	} else {
		ibs
	};
	let mut ns = ns_for_frames(rng, frames, sr, stats);
	if shape == 0 {
		// out-of-domain stream: a delay shorter than one frame (the documented finding)
		stats.hit("delay_zero_length");
		ns = rng.pick(&[0u64, 1, 1_000_000_000 / sr as u64 - 1, 1000]);
	}
	let fb = if rng.chance(1, 12) {
		stats.hit("value_mod");
		{
			let (a, b) = (gen_db(rng), gen_db(rng));
			mod32(rng, a, b)
		}
	} else {
		fix32(gen_db(rng))
	};
	let mix = if rng.chance(1, 14) {
		stats.hit("value_mod");
		{
			let (a, b) = (gen_mix(rng), gen_mix(rng));
			mod32(rng, a, b)
		}
	} else {
		fix32(gen_mix(rng))
	};
	let chain = gen_chain(rng, stats);
	out.push(format!("delay.new {} {} {} {}", ns, fb, mix, chain));
	if rng.chance(1, 60) {
		// process before init: `chunks_mut(0)` on the empty initial buffer (API misuse; correspondence only)
		stats.hit("proc_before_init");
		out.push(proc_line(dt, &[(1.0, 1.0)]));
		return;
	}
	if rng.chance(1, 4) {
		out.push(format!("info.mods {} {} {} {}", MAX_IDS, o64(rng.uniform(-2.0, 2.0)), o64(rng.uniform(-2.0, 2.0)), o64(rng.uniform(-2.0, 2.0))));
	}
	out.push(format!("init {} {}", sr, ibs));
	stats.hit("init");
	let l = ((ns as u128 * sr as u128) / 1_000_000_000u128) as u64;
	if shape <= 7 {
		// echo shape: an impulse, then silence for a few line lengths
		stats.hit("shape_echo");
		let first_n = rng.range(1, ibs as i64) as usize;
		let mut v = vec![(0.0f32, 0.0f32); first_n];
		v[0] = (rng.pick(&[1.0f32, 0.5, -1.0, 0.25]), rng.pick(&[1.0f32, -0.5, 0.0]));
		out.push(proc_line(dt, &v));
		let total = (l.max(1) * rng.range(2, 4) as u64 + 3).min(if thorough { 400_000 } else { 30_000 });
		if total <= 3 * ibs as u64 || rng.chance(1, 3) && total < 2000 {
			let mut left = total;
			while left > 0 {
				let n = (rng.range(1, ibs as i64) as u64).min(left);
				out.push(proc_line(dt, &vec![(0.0, 0.0); n as usize]));
				stats.hit("proc");
				left -= n;
			}
		} else {
			out.push(format!("run {} {} {} zero {} {}", o64(dt), ibs, total / ibs as u64 + 1, o32(0.0), o32(0.0)));
			stats.hit("run");
		}
		return;
	}
	let steps = rng.range(3, 10);
	for _ in 0..steps {
		match rng.below(24) {
			0 => {
				let which = rng.pick(&["fb", "mix"]);
				let v = if which == "fb" { fix32(gen_db(rng)) } else { fix32(gen_mix(rng)) };
				out.push(format!("set {} {} {}", which, v, gen_tween(rng)));
				out.push("start".into());
				stats.hit("set");
			}
			1 => {
				out.push("start".into());
				stats.hit("start");
			}
			2 => {
				if rng.chance(1, 3) {
					out.push(format!("rate {}", rng.pick(RATES)));
					stats.hit("rate");
				}
			}
			3 => {
				if rng.chance(1, 6) {
					// a slice longer than the internal buffer: `temp_buffer[..n]` out of range when the line is longer too
					stats.hit("proc_over_ibs");
					let n = ibs + 1 + rng.below(3) as usize;
					out.push(proc_line(dt, &gen_input(rng, n, stats)));
				}
			}
			4 | 5 => {
				let kind = rng.pick(&["noise", "dc", "imp", "zero"]);
				let count = rng.range(1, if thorough { 400 } else { 40 });
				out.push(format!("run {} {} {} {} {} {}", o64(dt), rng.range(1, ibs as i64), count, kind, o32(rng.pick(&[1.0f32, 0.5, 0.25])), o32(rng.pick(&[1.0f32, -1.0, 0.0]))));
				stats.hit("run");
			}
			6 => {
				out.push(proc_line(dt, &[]));
				stats.hit("proc_empty");
			}
			_ => {
				let n = match rng.below(4) {
					0 => ibs,
					1 => 1,
					_ => rng.range(1, ibs as i64) as usize,
				};
				out.push(proc_line(dt, &gen_input(rng, n, stats)));
				stats.hit("proc");
			}
		}
	}
}

fn gen_reverb_case(rng: &mut Rng, thorough: bool, out: &mut Vec<String>, stats: &mut Stats) {
	let low_rate = rng.chance(1, 40);
	let sr = if low_rate {
		stats.hit("reverb_low_rate");
		rng.pick(&[100u32, 195, 196, 1000])
	} else if thorough {
		rng.pick(RATES)
	} else {
		rng.pick(&[8000u32, 8000, 11025, 16000, 22050, 44100, 48000, 96000, 192000])
	};
	let ibs = rng.pick(&[1usize, 2, 5, 16, 64, 128]);
	let dt = 1.0 / sr as f64;
	let g64 = |rng: &mut Rng, pool: &[f64], lo: f64, hi: f64| -> f64 {
		if rng.chance(3, 4) {
			rng.pick(pool)
		} else {
			rng.uniform(lo, hi)
		}
	};
	let fbv = g64(rng, &[0.0, 0.5, 0.9, 0.9, 0.99, 1.0, 0.84], 0.0, 1.0);
	let fbv = if rng.chance(1, 30) {
		stats.hit("reverb_out_of_domain");
		rng.pick(&[1.2, -0.5])
	} else {
		fbv
	};
	let dpv = g64(rng, &[0.0, 0.1, 0.1, 0.5, 1.0, 0.2], 0.0, 1.0);
	let swv = g64(rng, &[0.0, 0.5, 1.0, 1.0], 0.0, 1.0);
	let fb = if rng.chance(1, 14) {
		stats.hit("value_mod");
		mod64(rng, 0.2, 0.95)
	} else {
		fix64(fbv)
	};
	let dp = if rng.chance(1, 20) {
		stats.hit("value_mod");
		mod64(rng, 0.0, 1.0)
	} else {
		fix64(dpv)
	};
	let sw = if rng.chance(1, 20) {
		stats.hit("value_mod");
		mod64(rng, 0.0, 1.0)
	} else {
		fix64(swv)
	};
	let mix = if rng.chance(1, 20) {
		stats.hit("value_mod");
		mod32(rng, 0.0, 1.0)
	} else {
		fix32(gen_mix(rng))
	};
	out.push(format!("reverb.new {} {} {} {}", fb, dp, sw, mix));
	if rng.chance(1, 60) {
		stats.hit("proc_before_init");
		out.push(proc_line(dt, &[(1.0, 1.0)]));
		return;
	}
	if rng.chance(1, 4) {
		out.push(format!("info.mods {} {} {} {}", MAX_IDS, o64(rng.uniform(-2.0, 2.0)), o64(rng.uniform(-2.0, 2.0)), o64(rng.uniform(-2.0, 2.0))));
	}
	out.push(format!("init {} {}", sr, ibs));
	stats.hit("init");
	let steps = rng.range(2, 7);
	let mut budget: i64 = if thorough { 6000 } else { 900 };
	for _ in 0..steps {
		match rng.below(20) {
			0 => {
				let which = rng.pick(&["fb", "damp", "sw", "mix"]);
				let v = match which {
					"fb" => fix64(rng.pick(&[0.0, 0.5, 0.9, 1.0, 0.3])),
					"damp" => fix64(rng.pick(&[0.0, 0.5, 1.0, 0.1])),
					"sw" => fix64(rng.pick(&[0.0, 0.5, 1.0])),
					_ => fix32(gen_mix(rng)),
				};
				out.push(format!("set {} {} {}", which, v, gen_tween(rng)));
				out.push("start".into());
				stats.hit("set");
			}
			1 => {
				out.push("start".into());
				stats.hit("start");
			}
			2 => {
				if rng.chance(1, 3) {
					out.push(format!("rate {}", rng.pick(&[8000u32, 44100, 48000, 22050])));
					stats.hit("rate");
				}
			}
			3..=6 => {
				// a long run: noise / DC / impulse through the network for several line lengths
				let kind = rng.pick(&["noise", "dc", "imp", "zero", "imp"]);
				let slice = rng.range(1, ibs as i64);
				let frames = rng.range(50, budget.max(51));
				let count = (frames / slice).max(1);
				budget -= count * slice;
				out.push(format!("run {} {} {} {} {} {}", o64(dt), slice, count, kind, o32(rng.pick(&[1.0f32, 0.5, 0.25])), o32(rng.pick(&[1.0f32, -1.0, 0.0]))));
				stats.hit("run");
			}
			7 => {
				out.push(proc_line(dt, &[]));
				stats.hit("proc_empty");
			}
			_ => {
				let n = match rng.below(4) {
					0 => ibs,
					1 => 1,
					_ => rng.range(1, ibs as i64) as usize,
				};
				budget -= n as i64;
				out.push(proc_line(dt, &gen_input(rng, n, stats)));
				stats.hit("proc");
			}
		}
		if budget <= 0 {
			break;
		}
	}
}

pub fn gen(rng: &mut Rng, n: usize, thorough: bool, stats: &mut Stats) -> Vec<String> {
	let mut out = vec![];
	for case in 0..n {
		out.push(format!("case {}", case));
		if rng.chance(1, 16) {
			gen_tween_time_case(rng, &mut out, stats);
			continue;
		}
		if rng.chance(3, 5) {
			stats.hit("case_delay");
			gen_delay_case(rng, thorough, &mut out, stats);
		} else {
			stats.hit("case_reverb");
			gen_reverb_case(rng, thorough, &mut out, stats);
		}
	}
	out
}

// ---------------------------------------------------------------------------------------------
// C06 on the delay and the reverb: every handle-settable parameter tweened over a non-zero duration while the
// effect is processed in blocks of more than one frame (the same family as suite `fxa`'s `twchk`)
// ---------------------------------------------------------------------------------------------

/// `twchk <sr> <N> <which> <target> <delay ns> <dur ns> <easing> <amp32> <seed> <delay.new … | reverb.new …>` (oracle
/// only; the twin prints `ok`).  Instance A gets `set <which> <target>` with the tween and runs in blocks of N frames, C
/// the same frame by frame, B the same `set` with an instant tween; all get the same noise at `dt = 1/sr`.  C06: once
/// the tween's audio time has been processed the parameter is on its target in all three; what the lines still hold
/// from before decays by the feedback gain per pass, after which the outputs must agree closely.
fn tween_time_oracle(tok: &[&str], line: &str, out: &mut Out) {
	use kira::Tween;
	let ids = ids();
	let (sr, n) = (pu(tok[1]) as u32, pu(tok[2]) as usize);
	let (which, target) = (tok[3], tok[4]);
	let (delay, dur) = (pu(tok[5]), pu(tok[6]));
	let (amp, mut seed) = (p32(tok[8]), pu(tok[9]));
	let ctor = &tok[10..];
	let dt = 1.0 / sr as f64;
	let fixed = |s: &str, is32: bool| -> f64 {
		let v = s.strip_prefix("fix:").expect("twchk: fixed values only");
		if is32 {
			p32(v) as f64
		} else {
			p64(v)
		}
	};
	// loop gain and loop length (frames) of the slowest-decaying memory, before or after the tween
	let (gain, loop_frames) = if ctor[0] == "delay.new" {
		let mut db = fixed(ctor[2], true);
		if which == "fb" {
			db = db.max(fixed(target, true));
		}
		(10f64.powf(db / 20.0), (pu(ctor[1]) as f64 * 1e-9 * sr as f64).ceil() + 1.0)
	} else {
		let mut g = fixed(ctor[1], false);
		if which == "fb" {
			g = g.max(fixed(target, false));
		}
		(g, (1617.0 + 23.0) * sr as f64 / 44100.0 + 2.0)
	};
	if !(gain < 0.9) {
		return;
	}
	let passes = if gain <= 0.0 { 1.0 } else { ((1e-5f64).ln() / gain.ln()).ceil() + 1.0 };
	let settle = (1.5 * passes * loop_frames) as usize + 64;
	if settle > 60_000 {
		return;
	}
	let tol = 2e-3 * amp.abs() as f64 / (1.0 - gain) + 1e-9;
	let tween = Tween {
		start_time: if delay == 0 { kira::StartTime::Immediate } else { kira::StartTime::Delayed(Duration::from_nanos(delay)) },
		duration: Duration::from_nanos(dur),
		easing: crate::suites::units::parse_easing(tok[7]),
	};
	let instant = Tween { duration: Duration::ZERO, ..Default::default() };
	let mk = |tw: Tween, ibs: usize| {
		let mut i = Inst::build(ctor, &ids);
		i.fx.init(sr, ibs);
		i.fx.on_start_processing();
		match (&mut i.handle, which) {
			(Handle::Delay(h), "fb") => h.set_feedback(parse_value::<Decibels>(target, &ids), tw),
			(Handle::Delay(h), "mix") => h.set_mix(parse_value::<Mix>(target, &ids), tw),
			(Handle::Reverb(h), "fb") => h.set_feedback(parse_value::<f64>(target, &ids), tw),
			(Handle::Reverb(h), "damp") => h.set_damping(parse_value::<f64>(target, &ids), tw),
			(Handle::Reverb(h), "sw") => h.set_stereo_width(parse_value::<f64>(target, &ids), tw),
			(Handle::Reverb(h), "mix") => h.set_mix(parse_value::<Mix>(target, &ids), tw),
			_ => panic!("fxb: bad twchk parameter {}", which),
		}
		i.fx.on_start_processing();
		i
	};
	let (mut a, mut b, mut c) = (mk(tween, n), mk(instant, n), mk(tween, 1));
	let info = kira::info::MockInfoBuilder::new().build();
	let tween_frames = ((delay + dur) as f64 * 1e-9 * sr as f64).ceil() as usize;
	let blocks = tween_frames.div_ceil(n) + 2 + settle.div_ceil(n);
	let window = 4usize.max(64 / n);
	let (mut worst_ab, mut worst_cb) = (0.0f64, 0.0f64);
	let lcg = |s: &mut u64| {
		*s = s.wrapping_mul(6364136223846793005).wrapping_add(1442695040888963407);
		(((*s >> 40) as f64 - 8388608.0) / 8388608.0) as f32
	};
	for j in 0..blocks + window {
		let x: Vec<Frame> = (0..n).map(|_| Frame::new(lcg(&mut seed) * amp, lcg(&mut seed) * amp)).collect();
		let (mut xa, mut xb, mut xc) = (x.clone(), x.clone(), x);
		a.fx.process(&mut xa, dt, &info);
		b.fx.process(&mut xb, dt, &info);
		for f in xc.chunks_mut(1) {
			c.fx.process(f, dt, &info);
		}
		if j >= blocks {
			// parameters are sampled once per block: compare where every instance is at a block end
			let (fa, fb, fc) = (xa[n - 1], xb[n - 1], xc[n - 1]);
			if !(fa.left.is_finite() && fa.right.is_finite() && fb.left.is_finite() && fb.right.is_finite() && fc.left.is_finite() && fc.right.is_finite()) {
				return;
			}
			worst_ab = worst_ab.max((fa.left as f64 - fb.left as f64).abs()).max((fa.right as f64 - fb.right as f64).abs());
			worst_cb = worst_cb.max((fc.left as f64 - fb.left as f64).abs()).max((fc.right as f64 - fb.right as f64).abs());
		}
	}
	premise("tween_audio_time");
	if worst_ab > tol {
		out.oracle_fail("tween_audio_time", format!("{} {}: blocks of {} off target by {:e} (tol {:e}) after the tween | {}", ctor[0], which, n, worst_ab, tol, line));
	}
	if worst_cb > tol {
		out.oracle_fail("tween_audio_time", format!("{} {}: frame by frame off target by {:e} (tol {:e}) after the tween | {}", ctor[0], which, worst_cb, tol, line));
	}
}

fn gen_tween_time_case(rng: &mut Rng, out: &mut Vec<String>, stats: &mut Stats) {
	let sr = rng.pick(&[8000u64, 16000, 22050, 44100]);
	let n = rng.pick(&[2u64, 3, 16, 64, 128, 128]);
	let (ctor, which, target) = if rng.chance(1, 2) {
		let fbs = [-6.0f32, -12.0, -3.0, -20.0];
		let mixes = [0.5f32, 1.0, 0.25];
		let (fb, mix) = (rng.pick(&fbs), rng.pick(&mixes));
		let ctor = format!("delay.new {} {} {} -", rng.pick(&[1_000_000u64, 2_000_000, 5_000_000, 125_000]), fix32(fb), fix32(mix));
		if rng.chance(1, 2) {
			let t = loop {
				let t = rng.pick(&fbs);
				if t != fb {
					break t;
				}
			};
			(ctor, "fb", fix32(t))
		} else {
			let t = loop {
				let t = rng.pick(&mixes);
				if t != mix {
					break t;
				}
			};
			(ctor, "mix", fix32(t))
		}
	} else {
		let pools: [&[f64]; 3] = [&[0.3, 0.5, 0.1], &[0.1, 0.5, 0.9], &[1.0, 0.0, 0.5]];
		let mixes = [0.5f32, 1.0, 0.25];
		let v: Vec<f64> = pools.iter().map(|p| rng.pick(p)).collect();
		let mix = rng.pick(&mixes);
		let ctor = format!("reverb.new {} {} {} {}", fix64(v[0]), fix64(v[1]), fix64(v[2]), fix32(mix));
		let k = rng.below(4) as usize;
		if k == 3 {
			let t = loop {
				let t = rng.pick(&mixes);
				if t != mix {
					break t;
				}
			};
			(ctor, "mix", fix32(t))
		} else {
			let t = loop {
				let t = rng.pick(pools[k]);
				if t != v[k] {
					break t;
				}
			};
			(ctor, ["fb", "damp", "sw"][k], fix64(t))
		}
	};
	let delay = rng.pick(&[0u64, 0, 0, 2_000_000, 10_000_000]);
	let dur = rng.pick(&[5_000_000u64, 10_000_000, 20_000_000, 50_000_000, 3_333_333]);
	let easing = fmt_easing(&if rng.chance(1, 2) { kira::Easing::Linear } else { gen_easing(rng) });
	let amp = rng.pick(&[0.5f32, 0.25, 1.0]);
	let seed = rng.below(1 << 40);
	let dt = 1.0 / sr as f64;
	out.push(ctor.clone());
	out.push(format!("init {} {}", sr, n));
	out.push("start".into());
	out.push(format!("set {} {} {};{};{}", which, target, if delay == 0 { "imm".to_string() } else { format!("del:{}", delay) }, dur, easing));
	out.push("start".into());
	// the twin follows the tween through its whole duration and a little beyond, in blocks of N frames
	let frames = ((delay + dur) as f64 * 1e-9 * sr as f64).ceil() as u64;
	out.push(format!("run {} {} {} noise {} {}", o64(dt), n, frames.div_ceil(n) + 3, o32(amp), o32(amp)));
	out.push(format!("twchk {} {} {} {} {} {} {} {} {} {}", sr, n, which, target, delay, dur, easing, o32(amp), seed, ctor));
	stats.hit("tween_time_case");
	stats.hit(&format!("tween_time_{}_{}", &ctor[..6], which));
}
