//! Suite `deliver` (C07, component level): which handle commands a component applies in which
//! callback — through kira's PUBLIC API only (`AudioManager<ProbeBackend>`).
//!
//! ops:  mgr                     a fresh manager (sample rate 1000 Hz, internal buffer 8)
//!       newt | news | newc      create the sub-track (with a constant-1.0 probe sound) / the static sound
//!                               (silent, 300 000 frames) / the clock; commands may be issued before the first callback
//!       tvol <k>                TrackHandle::set_volume(−6·k dB, instant tween)
//!       sseek                   StaticSoundHandle::seek_by(+1.0 s)
//!       ctick <0|1>             ClockHandle::pause() / start()
//!       cb <frames>             one callback → vol=<k decoded from the last output frame>
//!                                              seeks=<number of 1 s jumps in the published position> tick=<0|1>
//!       stplay short|long       a streaming sound over an in-memory `Decoder` (60 / 200 000 frames)
//!       stseek                  StreamingSoundHandle::seek_to(0) (short) / seek_to(199 s) (long)
//!       stcheck                 plays on and reports whether the seek took effect → seek=<0|1>
//! Oracles: a command is applied in the next callback, once; of a burst only the last; a command issued
//! before the component's first callback is applied in that callback; a streaming seek takes effect.
use crate::probe::{self, ProbeSoundData, Signal};
use crate::runner::{run_cases, Out};
use crate::util::*;
use kira::clock::{ClockHandle, ClockSpeed};
use kira::sound::static_sound::{StaticSoundData, StaticSoundHandle, StaticSoundSettings};
use kira::sound::streaming::{Decoder, StreamingSoundData, StreamingSoundHandle};
use kira::sound::PlaybackState;
use kira::track::{MainTrackBuilder, TrackBuilder, TrackHandle};
use kira::{AudioManager, Capacities, Decibels, Frame, Tween};
use std::sync::{Arc, OnceLock};
use std::time::Duration;

pub fn gen(rng: &mut Rng, n: usize, thorough: bool, stats: &mut Stats) -> Vec<String> {
	let mut out = vec![];
	for case in 0..n {
		out.push(format!("case {}", case));
		if case == 0 {
			for c in ["static", "stream_sound", "stream_decoder", "track", "clock", "listener", "lfo", "tweener", "filter"] {
				out.push(format!("readers {}", c));
			}
			stats.hit("readers_from_source");
		}
		out.push("mgr".into());
		// streaming cases involve a real decoder thread and sleeps: keep them rare
		if case % (if thorough { 20 } else { 60 }) == 3 {
			let kind = if (case / (if thorough { 20 } else { 60 })) % 2 == 0 { "short" } else { "long" };
			out.push(format!("stplay {}", kind));
			out.push("stseek".into());
			out.push("stcheck".into());
			stats.hit(&format!("streaming_{}", kind));
			continue;
		}
		let nops = 6 + rng.below(if thorough { 50 } else { 26 });
		let mut made = [false; 3];
		for _ in 0..nops {
			match rng.below(14) {
				0 => {
					let k = rng.below(3) as usize;
					if !made[k] {
						made[k] = true;
						out.push(["newt", "news", "newc"][k].into());
						stats.hit("new");
					}
				}
				1..=3 => {
					// a burst of volume commands
					for _ in 0..(1 + rng.below(3)) {
						out.push(format!("tvol {}", rng.below(6)));
					}
					stats.hit("tvol");
				}
				4..=6 => {
					for _ in 0..(1 + rng.below(3)) {
						out.push("sseek".into());
					}
					stats.hit("sseek");
				}
				7..=8 => {
					for _ in 0..(1 + rng.below(3)) {
						out.push(format!("ctick {}", rng.below(2)));
					}
					stats.hit("ctick");
				}
				_ => {
					out.push(format!("cb {}", rng.pick(&[16u64, 24, 32, 40])));
					stats.hit("cb");
				}
			}
			if !made.iter().all(|m| *m) && rng.chance(1, 4) {
				let k = rng.below(3) as usize;
				if !made[k] {
					made[k] = true;
					out.push(["newt", "news", "newc"][k].into());
				}
			}
		}
		out.push("cb 16".into());
		out.push("cb 16".into());
	}
	out
}

/// An in-memory decoder: `Decoder` for a `Vec<Frame>`, handing out `chunk` frames per `decode`.
pub struct VecDecoder {
	pub frames: Vec<Frame>,
	pub pos: usize,
	pub chunk: usize,
}
impl Decoder for VecDecoder {
	type Error = ();
	fn sample_rate(&self) -> u32 {
		1000
	}
	fn num_frames(&self) -> usize {
		self.frames.len()
	}
	fn decode(&mut self) -> Result<Vec<Frame>, ()> {
		let end = (self.pos + self.chunk).min(self.frames.len());
		let v = self.frames[self.pos..end].to_vec();
		self.pos = end;
		Ok(v)
	}
	fn seek(&mut self, index: usize) -> Result<usize, ()> {
		self.pos = index.min(self.frames.len());
		Ok(self.pos)
	}
}

fn silent_frames() -> Arc<[Frame]> {
	static F: OnceLock<Arc<[Frame]>> = OnceLock::new();
	F.get_or_init(|| vec![Frame::ZERO; 300_000].into()).clone()
}

struct St {
	mgr: Option<AudioManager<probe::ProbeBackend>>,
	t: Option<TrackHandle>,
	s: Option<StaticSoundHandle>,
	c: Option<ClockHandle>,
	stream: Option<(StreamingSoundHandle<()>, bool)>,
	/// frames the static sound has played (it starts in the callback that picks it up)
	s_played: Vec<u64>,
	s_started: bool,
	// oracle shadow
	vol_pending: Option<u64>,
	vol_applied: u64,
	seek_pending: bool,
	seeks_applied: u64,
	seeks_applied_prev: u64,
	tick_pending: Option<u64>,
	tick_applied: u64,
}

pub fn run(ops: &[String]) -> Vec<String> {
	run_cases(ops, Some(Duration::from_secs(120)), |case, out| {
		let mut st = St {
			mgr: None,
			t: None,
			s: None,
			c: None,
			stream: None,
			s_played: vec![],
			s_started: false,
			vol_pending: None,
			vol_applied: 0,
			seek_pending: false,
			seeks_applied: 0,
			seeks_applied_prev: 0,
			tick_pending: None,
			tick_applied: 0,
		};
		crate::seqop::drive(case, out, &mut st, |st, line, detail, out| op(st, line, detail, out));
	})
}

fn instant() -> Tween {
	Tween {
		duration: Duration::ZERO,
		..Default::default()
	}
}

fn op(st: &mut St, line: &str, detail: &str, out: &mut Out) -> String {
	let tok: Vec<&str> = line.split_whitespace().collect();
	match tok[0] {
		"mgr" => {
			st.t = None;
			st.s = None;
			st.c = None;
			st.stream = None;
			st.mgr = Some(probe::manager(Capacities::default(), 8, 1000, MainTrackBuilder::new()));
			"ok".into()
		}
		"newt" => {
			let Some(mgr) = st.mgr.as_mut() else { return "bad-op".into() };
			let mut h = mgr.add_sub_track(TrackBuilder::new()).unwrap();
			h.play(ProbeSoundData {
				signal: Signal::Constant { left: 1.0, right: 1.0 },
				length: None,
				log: probe::new_log(),
			})
			.unwrap();
			st.t = Some(h);
			"ok".into()
		}
		"news" => {
			let Some(mgr) = st.mgr.as_mut() else { return "bad-op".into() };
			let h = mgr
				.play(StaticSoundData {
					sample_rate: 1000,
					frames: silent_frames(),
					settings: StaticSoundSettings::default(),
					slice: None,
				})
				.unwrap();
			st.s = Some(h);
			"ok".into()
		}
		"newc" => {
			let Some(mgr) = st.mgr.as_mut() else { return "bad-op".into() };
			st.c = Some(mgr.add_clock(ClockSpeed::TicksPerSecond(1.0)).unwrap());
			"ok".into()
		}
		"tvol" => match st.t.as_mut() {
			None => "skip".into(),
			Some(h) => {
				let k = pu(tok[1]);
				h.set_volume(Decibels(-6.0 * k as f32), instant());
				st.vol_pending = Some(k);
				"ok".into()
			}
		},
		"sseek" => match st.s.as_mut() {
			None => "skip".into(),
			Some(h) => {
				h.seek_by(1.0);
				st.seek_pending = true;
				"ok".into()
			}
		},
		"ctick" => match st.c.as_mut() {
			None => "skip".into(),
			Some(h) => {
				let b = pu(tok[1]);
				if b == 1 {
					h.start()
				} else {
					h.pause()
				}
				st.tick_pending = Some(b);
				"ok".into()
			}
		},
		"cb" => {
			let frames = pu(tok[1]) as usize;
			let Some(mgr) = st.mgr.as_mut() else { return "bad-op".into() };
			let o = mgr.backend_mut().callback(frames, 2);
			// ---- observations ----
			let vol = st.t.as_ref().map(|_| {
				let amp = o[(frames - 1) * 2] as f64;
				if amp <= 0.0 {
					99
				} else {
					(-(20.0 * amp.log10()) / 6.0).round() as u64
				}
			});
			let seeks = st.s.as_ref().map(|h| {
				// position published at the start of this callback = frames played before it + applied seeks
				let played: u64 = st.s_played.iter().sum();
				let pos = h.position();
				((pos - played as f64 / 1000.0) / 1.0).round().max(0.0) as u64
			});
			if st.s.is_some() {
				st.s_played.push(frames as u64);
				st.s_started = true;
			}
			let tick = st.c.as_ref().map(|h| h.ticking() as u64);
			// ---- oracles: what the property says this callback must have applied ----
			if st.t.is_some() {
				if let Some(k) = st.vol_pending.take() {
					st.vol_applied = k;
				}
				if vol != Some(st.vol_applied) {
					out.oracle_fail("volume_last_write_wins", detail);
				}
			}
			if st.s.is_some() {
				st.seeks_applied_prev = st.seeks_applied;
				if st.seek_pending {
					st.seek_pending = false;
					st.seeks_applied += 1;
				}
				if seeks != Some(st.seeks_applied_prev) {
					out.oracle_fail("seek_by_applied_once", detail);
				}
			}
			if st.c.is_some() {
				if let Some(b) = st.tick_pending.take() {
					st.tick_applied = b;
				}
				if tick != Some(st.tick_applied) {
					out.oracle_fail("ticking_last_write_wins", detail);
				}
			}
			let sh = |v: Option<u64>| v.map(|x| x.to_string()).unwrap_or("-".into());
			format!("vol={} seeks={} tick={}", sh(vol), sh(seeks), sh(tick))
		}
		"stplay" => {
			let Some(mgr) = st.mgr.as_mut() else { return "bad-op".into() };
			let short = tok[1] == "short";
			let n = if short { 60 } else { 200_000 };
			let data = StreamingSoundData::from_decoder(VecDecoder {
				frames: vec![Frame::from_mono(0.25); n],
				pos: 0,
				chunk: 16,
			});
			let h = mgr.play(data).unwrap();
			// let the decoder thread run: it decodes until its data ends (short) or its ring is full (long)
			std::thread::sleep(Duration::from_millis(150));
			mgr.backend_mut().callback(16, 2);
			st.stream = Some((h, short));
			"ok".into()
		}
		"stseek" => match st.stream.as_mut() {
			None => "skip".into(),
			Some((h, short)) => {
				if *short {
					h.seek_to(0.0)
				} else {
					h.seek_to(199.0)
				}
				std::thread::sleep(Duration::from_millis(30));
				"ok".into()
			}
		},
		"stcheck" => {
			let Some(mgr) = st.mgr.as_mut() else { return "bad-op".into() };
			let Some((h, short)) = st.stream.as_mut() else { return "skip".into() };
			let got = if *short {
				// 4 × 16 more frames: 80 > 60 in total. If the seek to 0 took effect the sound is playing its
				// data a second time; if it was lost the sound has run out and stopped.
				for _ in 0..4 {
					mgr.backend_mut().callback(16, 2);
					std::thread::sleep(Duration::from_millis(5));
				}
				h.state() != PlaybackState::Stopped
			} else {
				// play out what was buffered before the seek (≤ 16 384 frames); the position then jumps to 199 s
				let mut ok = false;
				for _ in 0..12 {
					mgr.backend_mut().callback(4096, 2);
					std::thread::sleep(Duration::from_millis(10));
					if h.position() >= 150.0 {
						ok = true;
						break;
					}
				}
				ok
			};
			if !got {
				out.oracle_fail("streaming_seek_lost", detail);
			}
			format!("seek={}", got as u8)
		}
		"readers" => readers_from_source(tok[1]),
		_ => "bad-op".into(),
	}
}

/// The command readers a component reads in its per-callback function, in textual order, extracted
/// from /repo's source *now* (ties Model/CommandReaders.lean to the code on every run).
fn readers_from_source(component: &str) -> String {
	let (file, func) = match component {
		"static" => ("sound/static_sound/sound.rs", "fn read_commands"),
		"stream_sound" => ("sound/streaming/sound.rs", "fn read_commands"),
		"stream_decoder" => ("sound/streaming/sound/decode_scheduler.rs", "pub fn run"),
		"track" => ("track/sub.rs", "fn read_commands"),
		"clock" => ("clock.rs", "fn on_start_processing"),
		"listener" => ("listener.rs", "fn on_start_processing"),
		"lfo" => ("modulator/lfo.rs", "fn on_start_processing"),
		"tweener" => ("modulator/tweener.rs", "fn on_start_processing"),
		"filter" => ("effect/filter.rs", "fn on_start_processing"),
		_ => return "bad-op".into(),
	};
	let src = match std::fs::read_to_string(format!("{}/crates/kira/src/{}", std::env::var("KV_REPO").unwrap_or_else(|_| "/repo".to_string()), file)) {
		Ok(s) => s,
		Err(_) => return "no-source".into(),
	};
	let Some(start) = src.find(func) else { return "no-fn".into() };
	let Some(open) = src[start..].find('{') else { return "no-fn".into() };
	let mut depth = 0i32;
	let mut end = src.len();
	for (i, c) in src[start + open..].char_indices() {
		match c {
			'{' => depth += 1,
			'}' => {
				depth -= 1;
				if depth == 0 {
					end = start + open + i;
					break;
				}
			}
			_ => {}
		}
	}
	let body = &src[start + open..end];
	// occurrences, by position
	let mut found: Vec<(usize, String)> = vec![];
	let mut from = 0;
	while let Some(p) = body[from..].find("command_readers.") {
		let at = from + p + "command_readers.".len();
		let name: String = body[at..].chars().take_while(|c| c.is_alphanumeric() || *c == '_').collect();
		found.push((at, name));
		from = at;
	}
	from = 0;
	while let Some(p) = body[from..].find("read_commands_into_parameters!(") {
		let at = from + p + "read_commands_into_parameters!(".len();
		let close = body[at..].find(')').unwrap_or(0);
		let args: Vec<&str> = body[at..at + close].split(',').map(|x| x.trim()).filter(|x| !x.is_empty()).collect();
		for (j, a) in args.iter().enumerate().skip(1) {
			found.push((at + j, format!("set_{}", a)));
		}
		from = at;
	}
	found.sort();
	let names: Vec<String> = found.into_iter().map(|x| x.1).collect();
	if names.is_empty() {
		"-".into()
	} else {
		names.join(",")
	}
}
