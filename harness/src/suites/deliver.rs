//! Suite `deliver` (C07, component level): which handle commands a component applies in which
//! callback — through kira's PUBLIC API only (`AudioManager<ProbeBackend>`).
//!
//! ops:  mgr                     a fresh manager (sample rate 1000 Hz, internal buffer 8)
//!       newt | news | newc      create the sub-track (with a constant-1.0 probe sound) / the static sound
//!                               (silent, 300 000 frames) / the clock; commands may be issued before the first callback
//!       tvol <k>                TrackHandle::set_volume(−6·k dB, instant tween)
//!       sseek                   StaticSoundHandle::seek_by(+1.0 s)
//!       ctick <0|1>             ClockHandle::pause() / start()
//!       cb <frames>             one callback → vol=<k decoded from the last output frame>
//!                                              seeks=<number of 1 s jumps in the published position> tick=<0|1>
//!       stplay short|long       a streaming sound over an in-memory `Decoder` (60 / 200 000 frames)
//!       stseek                  StreamingSoundHandle::seek_to(0) (short) / seek_to(199 s) (long)
//!       stcheck                 plays on and reports whether the seek took effect → seek=<0|1>
//!       addt sub|nest           the sub-track `sub` (child of the mixer) / `nest` (child of `sub`)
//!       play <slot> main|sub|nest   a real static sound (60 000 frames of (0, 0.125) at 1000 Hz — audible on the
//!                               RIGHT channel only; the probe sound of `newt` is audible on the left only) in handle
//!                               slot 0..3 on that track
//!       sc <slot> pause|resume|stop|seekby <k>|seekto <k>|vol <k>|rate <k>
//!                               a StaticSoundHandle method (instant tweens; seconds; −6·k dB; playback rate k)
//!       cb … additionally       snd=<state>:<position bits>,… (per slot, `-` = no sound) amp=<right channel of the last frame>
//!       sthook                  a streaming sound over a logging in-memory `Decoder` (1 Hz, 1 000 000 frames), NOT played: its
//!                               decoder loop is stepped by hand (`verif_hooks::streaming::split` + `HScheduler::run`), no thread
//!       stcmd by|to <k>         StreamingSoundHandle::seek_by(k s) / seek_to(k s)
//!       ststep                  one decoder step → seeks=<decoder seeks made in this step>
//! Oracles: a command is applied in the next callback, once; of a burst only the last; a command issued
//! before the component's first callback is applied in that callback; a streaming seek takes effect;
//! real static sounds (`sound_*_next_callback`): after the callback that follows an interval, EVERY command
//! issued in that interval — of whatever kinds, on whatever track the sound plays, also before the sound's
//! first callback — has taken effect (state(), position(), output level), none is applied late or twice.
use crate::probe::{self, ProbeSoundData, Signal};
use crate::runner::{run_cases, Out};
use crate::util::*;
use kira::clock::{ClockHandle, ClockSpeed};
use kira::sound::static_sound::{StaticSoundData, StaticSoundHandle, StaticSoundSettings};
use kira::sound::streaming::{Decoder, StreamingSoundData, StreamingSoundHandle};
use kira::sound::PlaybackState;
use kira::track::{MainTrackBuilder, TrackBuilder, TrackHandle};
use kira::{AudioManager, Capacities, Decibels, Frame, Tween};
use std::sync::{Arc, OnceLock};
use std::time::Duration;

pub fn gen(rng: &mut Rng, n: usize, thorough: bool, stats: &mut Stats) -> Vec<String> {
	let mut out = vec![];
	for case in 0..n {
		out.push(format!("case {}", case));
		if case == 0 {
			for c in ["static", "stream_sound", "stream_decoder", "track", "clock", "listener", "lfo", "tweener", "filter"] {
				out.push(format!("readers {}", c));
			}
			stats.hit("readers_from_source");
		}
		out.push("mgr".into());
		// streaming cases involve a real decoder thread and sleeps: keep them rare
		if case % (if thorough { 20 } else { 60 }) == 3 {
			let kind = if (case / (if thorough { 20 } else { 60 })) % 2 == 0 { "short" } else { "long" };
			out.push(format!("stplay {}", kind));
			out.push("stseek".into());
			out.push("stcheck".into());
			stats.hit(&format!("streaming_{}", kind));
			continue;
		}
		if case % 12 == 7 {
			// the decoder loop stepped by hand: bursts of seek_by / seek_to between two steps, steps without commands
			stats.hit("streaming_hook");
			out.push("sthook".into());
			for _ in 0..(3 + rng.below(8)) {
				match rng.below(5) {
					0 | 1 => {
						for _ in 0..(1 + rng.below(2)) {
							out.push(format!("stcmd by {}", 1 + rng.below(400_000)));
						}
					}
					2 | 3 => {
						for _ in 0..(1 + rng.below(2)) {
							out.push(format!("stcmd to {}", rng.below(800_000)));
						}
					}
					_ => {}
				}
				if rng.chance(2, 3) {
					out.push("ststep".into());
				}
			}
			out.push("ststep".into());
			out.push("ststep".into());
			continue;
		}
		if case % 3 != 0 {
			gen_sound_case(rng, thorough, stats, &mut out);
			continue;
		}
		let nops = 6 + rng.below(if thorough { 50 } else { 26 });
		let mut made = [false; 3];
		for _ in 0..nops {
			match rng.below(14) {
				0 => {
					let k = rng.below(3) as usize;
					if !made[k] {
						made[k] = true;
						out.push(["newt", "news", "newc"][k].into());
						stats.hit("new");
					}
				}
				1..=3 => {
					// a burst of volume commands
					for _ in 0..(1 + rng.below(3)) {
						out.push(format!("tvol {}", rng.below(6)));
					}
					stats.hit("tvol");
				}
				4..=6 => {
					for _ in 0..(1 + rng.below(3)) {
						out.push("sseek".into());
					}
					stats.hit("sseek");
				}
				7..=8 => {
					for _ in 0..(1 + rng.below(3)) {
						out.push(format!("ctick {}", rng.below(2)));
					}
					stats.hit("ctick");
				}
				_ => {
					out.push(format!("cb {}", rng.pick(&[16u64, 24, 32, 40])));
					stats.hit("cb");
				}
			}
			if !made.iter().all(|m| *m) && rng.chance(1, 4) {
				let k = rng.below(3) as usize;
				if !made[k] {
					made[k] = true;
					out.push(["newt", "news", "newc"][k].into());
				}
			}
		}
		out.push("cb 16".into());
		out.push("cb 16".into());
	}
	out
}

/// A case about real static sounds on the main track, a sub-track and a sub-track of that sub-track:
/// several commands of different kinds per inter-callback interval, commands before the first callback.
fn gen_sound_case(rng: &mut Rng, thorough: bool, stats: &mut Stats, out: &mut Vec<String>) {
	const KINDS: [&str; 7] = ["pause", "resume", "stop", "seekby", "seekto", "vol", "rate"];
	let nops = 8 + rng.below(if thorough { 40 } else { 22 });
	let mut tracks = [true, false, false]; // main sub nest
	let mut used = [false; 4];
	// an upper bound of the sound's position in seconds (the sounds are 60 s long and must not run out)
	let mut ub = [0u64; 4];
	let names = ["main", "sub", "nest"];
	let (mut made_t, mut made_c) = (false, false);
	let mut cmd = |rng: &mut Rng, slot: usize, kind: &str, ub: &mut [u64; 4], stats: &mut Stats, out: &mut Vec<String>| {
		let line = match kind {
			"seekby" => {
				let k = rng.pick(&[1i64, 1, 2, -1]);
				if ub[slot] + 2 > 45 {
					return;
				}
				if k > 0 {
					ub[slot] += k as u64;
				}
				format!("sc {} seekby {}", slot, k)
			}
			"seekto" => {
				let k = rng.below(9);
				ub[slot] = ub[slot].max(k);
				format!("sc {} seekto {}", slot, k)
			}
			"vol" => format!("sc {} vol {}", slot, rng.below(6)),
			"rate" => format!("sc {} rate {}", slot, 1 + rng.below(2)),
			k => format!("sc {} {}", slot, k),
		};
		stats.hit(&format!("sc_{}", kind));
		out.push(line);
	};
	let pick_kinds = |rng: &mut Rng, n: usize| -> Vec<&'static str> {
		// distinct kinds; `stop` ends the sound, keep it rarer
		let mut ks: Vec<&'static str> = vec![];
		while ks.len() < n {
			let k = if rng.chance(1, 12) { "stop" } else { KINDS[[0usize, 1, 3, 4, 5, 6][rng.below(6) as usize]] };
			if !ks.contains(&k) {
				ks.push(k);
			}
		}
		ks
	};
	for _ in 0..nops {
		match rng.below(20) {
			0 => {
				let w = if tracks[1] { 2 } else { 1 };
				if !tracks[w] {
					tracks[w] = true;
					out.push(format!("addt {}", names[w]));
					stats.hit("addt");
				}
			}
			1..=4 => {
				let Some(slot) = (0..4).find(|i| !used[*i]) else { continue };
				let mut w = rng.below(3) as usize;
				if !tracks[w] {
					if rng.chance(1, 2) {
						// the track and its first sound are created in the same interval
						if w == 2 && !tracks[1] {
							tracks[1] = true;
							out.push("addt sub".into());
						}
						tracks[w] = true;
						out.push(format!("addt {}", names[w]));
					} else {
						w = 0;
					}
				}
				used[slot] = true;
				out.push(format!("play {} {}", slot, names[w]));
				stats.hit(&format!("play_{}", names[w]));
				if rng.chance(2, 3) {
					// commands issued before the sound's first callback
					let n = 1 + rng.below(3) as usize;
					for k in pick_kinds(rng, n) {
						cmd(rng, slot, k, &mut ub, stats, out);
					}
					stats.hit("cmd_before_first_callback");
				}
			}
			5..=13 => {
				let live: Vec<usize> = (0..4).filter(|i| used[*i]).collect();
				if live.is_empty() {
					continue;
				}
				// several commands of different kinds on one sound in one interval …
				let slot = rng.pick(&live);
				let n = 1 + rng.below(4) as usize;
				for k in pick_kinds(rng, n) {
					cmd(rng, slot, k, &mut ub, stats, out);
				}
				if n >= 2 {
					stats.hit("burst_of_kinds");
				}
				// … a repeated kind (last write wins) and a command on another sound
				if rng.chance(1, 4) {
					let k = pick_kinds(rng, 1)[0];
					cmd(rng, slot, k, &mut ub, stats, out);
				}
				if rng.chance(1, 3) {
					let other = rng.pick(&live);
					let k = pick_kinds(rng, 1)[0];
					cmd(rng, other, k, &mut ub, stats, out);
				}
			}
			14 => {
				// the classic components keep running next to the sounds
				match rng.below(3) {
					0 if !made_t => {
						made_t = true;
						out.push("newt".into())
					}
					2 if !made_c => {
						made_c = true;
						out.push("newc".into())
					}
					_ => out.push(format!("tvol {}", rng.below(6))),
				}
			}
			_ => {
				out.push(format!("cb {}", rng.pick(&[16u64, 24, 32, 40])));
				stats.hit("cb");
			}
		}
	}
	out.push("cb 16".into());
	out.push("cb 16".into());
}

/// An in-memory decoder: `Decoder` for a `Vec<Frame>`, handing out `chunk` frames per `decode`.
pub struct VecDecoder {
	pub frames: Vec<Frame>,
	pub pos: usize,
	pub chunk: usize,
}
impl Decoder for VecDecoder {
	type Error = ();
	fn sample_rate(&self) -> u32 {
		1000
	}
	fn num_frames(&self) -> usize {
		self.frames.len()
	}
	fn decode(&mut self) -> Result<Vec<Frame>, ()> {
		let end = (self.pos + self.chunk).min(self.frames.len());
		let v = self.frames[self.pos..end].to_vec();
		self.pos = end;
		Ok(v)
	}
	fn seek(&mut self, index: usize) -> Result<usize, ()> {
		self.pos = index.min(self.frames.len());
		Ok(self.pos)
	}
}

fn silent_frames() -> Arc<[Frame]> {
	static F: OnceLock<Arc<[Frame]>> = OnceLock::new();
	F.get_or_init(|| vec![Frame::ZERO; 300_000].into()).clone()
}

struct St {
	mgr: Option<AudioManager<probe::ProbeBackend>>,
	t: Option<TrackHandle>,
	s: Option<StaticSoundHandle>,
	c: Option<ClockHandle>,
	stream: Option<(StreamingSoundHandle<()>, bool)>,
	hook: Option<HookStream>,
	/// frames the static sound has played (it starts in the callback that picks it up)
	s_played: Vec<u64>,
	s_started: bool,
	// oracle shadow
	vol_pending: Option<u64>,
	vol_applied: u64,
	seek_pending: bool,
	seeks_applied: u64,
	seeks_applied_prev: u64,
	tick_pending: Option<u64>,
	tick_applied: u64,
	// real static sounds
	sub: Option<TrackHandle>,
	nest: Option<TrackHandle>,
	snds: Vec<Option<Snd>>,
}

/// a real static sound: its handle and the oracle's shadow (an independent statement of the
/// property, not the model): what the commands issued so far must have done to it
struct Snd {
	h: StaticSoundHandle,
	/// 0 Playing, 2 Paused, 6 Stopped (all tweens are instant: nothing else is seen after a callback)
	state: u8,
	pause: bool,
	resume: bool,
	stop: bool,
	seekby: Option<i64>,
	seekto: Option<u64>,
	vol_pending: Option<u64>,
	rate_pending: Option<u64>,
	vol: u64,
	rate: u64,
	/// the positions (in frames) the handle may report once the next callback has begun
	pos: Vec<f64>,
	/// a seek was applied while the sound did not advance: the published position (the resampler's
	/// frame index) does not show it until the sound advances again
	stale: bool,
}

fn right_frames() -> Arc<[Frame]> {
	static F: OnceLock<Arc<[Frame]>> = OnceLock::new();
	F.get_or_init(|| vec![Frame { left: 0.0, right: 0.125 }; 60_000].into()).clone()
}

fn state_num(s: PlaybackState) -> u8 {
	match s {
		PlaybackState::Playing => 0,
		PlaybackState::Pausing => 1,
		PlaybackState::Paused => 2,
		PlaybackState::WaitingToResume => 3,
		PlaybackState::Resuming => 4,
		PlaybackState::Stopping => 5,
		PlaybackState::Stopped => 6,
	}
}

pub fn run(ops: &[String]) -> Vec<String> {
	run_cases(ops, Some(Duration::from_secs(120)), |case, out| {
		let mut st = St {
			mgr: None,
			t: None,
			s: None,
			c: None,
			stream: None,
			hook: None,
			s_played: vec![],
			s_started: false,
			vol_pending: None,
			vol_applied: 0,
			seek_pending: false,
			seeks_applied: 0,
			seeks_applied_prev: 0,
			tick_pending: None,
			tick_applied: 0,
			sub: None,
			nest: None,
			snds: (0..4).map(|_| None).collect(),
		};
		crate::seqop::drive(case, out, &mut st, |st, line, detail, out| op(st, line, detail, out));
	})
}

fn instant() -> Tween {
	Tween {
		duration: Duration::ZERO,
		..Default::default()
	}
}

fn op(st: &mut St, line: &str, detail: &str, out: &mut Out) -> String {
	let tok: Vec<&str> = line.split_whitespace().collect();
	match tok[0] {
		"mgr" => {
			st.t = None;
			st.s = None;
			st.c = None;
			st.stream = None;
			st.snds = (0..4).map(|_| None).collect();
			st.nest = None;
			st.sub = None;
			st.mgr = Some(probe::manager(Capacities::default(), 8, 1000, MainTrackBuilder::new()));
			"ok".into()
		}
		"newt" => {
			let Some(mgr) = st.mgr.as_mut() else { return "bad-op".into() };
			let mut h = mgr.add_sub_track(TrackBuilder::new()).unwrap();
			h.play(ProbeSoundData {
				// audible on the left channel only (the real static sounds use the right one)
				signal: Signal::Constant { left: 1.0, right: 0.0 },
				length: None,
				log: probe::new_log(),
			})
			.unwrap();
			st.t = Some(h);
			"ok".into()
		}
		"news" => {
			let Some(mgr) = st.mgr.as_mut() else { return "bad-op".into() };
			let h = mgr
				.play(StaticSoundData {
					sample_rate: 1000,
					frames: silent_frames(),
					settings: StaticSoundSettings::default(),
					slice: None,
				})
				.unwrap();
			st.s = Some(h);
			"ok".into()
		}
		"newc" => {
			let Some(mgr) = st.mgr.as_mut() else { return "bad-op".into() };
			st.c = Some(mgr.add_clock(ClockSpeed::TicksPerSecond(1.0)).unwrap());
			"ok".into()
		}
		"tvol" => match st.t.as_mut() {
			None => "skip".into(),
			Some(h) => {
				let k = pu(tok[1]);
				h.set_volume(Decibels(-6.0 * k as f32), instant());
				st.vol_pending = Some(k);
				"ok".into()
			}
		},
		"sseek" => match st.s.as_mut() {
			None => "skip".into(),
			Some(h) => {
				h.seek_by(1.0);
				st.seek_pending = true;
				"ok".into()
			}
		},
		"ctick" => match st.c.as_mut() {
			None => "skip".into(),
			Some(h) => {
				let b = pu(tok[1]);
				if b == 1 {
					h.start()
				} else {
					h.pause()
				}
				st.tick_pending = Some(b);
				"ok".into()
			}
		},
		"cb" => {
			let frames = pu(tok[1]) as usize;
			let Some(mgr) = st.mgr.as_mut() else { return "bad-op".into() };
			let o = mgr.backend_mut().callback(frames, 2);
			// ---- observations ----
			let vol = st.t.as_ref().map(|_| {
				let amp = o[(frames - 1) * 2] as f64;
				if amp <= 0.0 {
					99
				} else {
					(-(20.0 * amp.log10()) / 6.0).round() as u64
				}
			});
			let seeks = st.s.as_ref().map(|h| {
				// position published at the start of this callback = frames played before it + applied seeks
				let played: u64 = st.s_played.iter().sum();
				let pos = h.position();
				((pos - played as f64 / 1000.0) / 1.0).round().max(0.0) as u64
			});
			if st.s.is_some() {
				st.s_played.push(frames as u64);
				st.s_started = true;
			}
			let tick = st.c.as_ref().map(|h| h.ticking() as u64);
			// ---- oracles: what the property says this callback must have applied ----
			if st.t.is_some() {
				if let Some(k) = st.vol_pending.take() {
					st.vol_applied = k;
				}
				if vol != Some(st.vol_applied) {
					out.oracle_fail("volume_last_write_wins", detail);
				}
			}
			if st.s.is_some() {
				st.seeks_applied_prev = st.seeks_applied;
				if st.seek_pending {
					st.seek_pending = false;
					st.seeks_applied += 1;
				}
				if seeks != Some(st.seeks_applied_prev) {
					out.oracle_fail("seek_by_applied_once", detail);
				}
			}
			if st.c.is_some() {
				if let Some(b) = st.tick_pending.take() {
					st.tick_applied = b;
				}
				if tick != Some(st.tick_applied) {
					out.oracle_fail("ticking_last_write_wins", detail);
				}
			}
			// ---- real static sounds ----
			let amp = o[(frames - 1) * 2 + 1];
			let mut expected_amp = 0.0f64;
			let mut shown = vec![];
			for slot in st.snds.iter_mut() {
				let Some(sn) = slot else {
					shown.push("-".to_string());
					continue;
				};
				let obs_state = state_num(sn.h.state());
				let obs_posf = sn.h.position();
				shown.push(format!("{}:{}", obs_state, h64(obs_posf)));
				let obs_pos = obs_posf * 1000.0;
				if sn.state == 6 {
					// stopped before this callback: removed from its track, commands go nowhere
					sn.pause = false;
					sn.resume = false;
					sn.stop = false;
					sn.seekby = None;
					sn.seekto = None;
					sn.vol_pending = None;
					sn.rate_pending = None;
					if obs_state != 6 {
						out.oracle_fail("sound_state_next_callback", detail);
					}
					continue;
				}
				// the position published when this callback began: where the previous callback left the sound,
				// i.e. with every seek / rate command of the interval before it applied exactly once
				if !sn.stale && !sn.pos.iter().any(|p| (obs_pos - p).abs() <= 12.0) {
					out.oracle_fail("sound_position_next_callback", detail);
				}
				// the state after this callback: every pause / resume / stop issued in the interval applied
				let expected: Vec<u8> = if sn.stop {
					vec![6]
				} else {
					match (sn.pause, sn.resume) {
						(true, true) => vec![0, 2],
						(true, false) => vec![2],
						(false, true) => vec![0],
						(false, false) => vec![sn.state],
					}
				};
				if !expected.contains(&obs_state) {
					out.oracle_fail("sound_state_next_callback", detail);
				}
				// where the seeks / the rate of this interval must take the position
				let seeked = sn.seekby.is_some() || sn.seekto.is_some();
				let base: Vec<f64> = if sn.stale { sn.pos.clone() } else { vec![obs_pos] };
				let mut cand: Vec<f64> = match (sn.seekby, sn.seekto) {
					(None, None) => base,
					(Some(b), None) => base.iter().map(|p| (p + 1000.0 * b as f64).max(0.0)).collect(),
					(None, Some(t)) => vec![1000.0 * t as f64],
					(Some(b), Some(t)) => vec![1000.0 * t as f64, (1000.0 * (t as i64 + b) as f64).max(0.0)],
				};
				let rate = sn.rate_pending.unwrap_or(sn.rate);
				let vol = sn.vol_pending.unwrap_or(sn.vol);
				let advancing = obs_state == 0;
				if advancing {
					for p in cand.iter_mut() {
						*p += (frames as u64 * rate) as f64;
					}
					expected_amp += 0.125 * if vol == 0 { 1.0 } else { 10f64.powf(-6.0 * vol as f64 / 20.0) };
				}
				if obs_state == 6 {
					// a stopped sound publishes nothing any more
					cand = vec![obs_pos];
					sn.stale = false;
				} else if advancing {
					sn.stale = false;
				} else if seeked {
					sn.stale = true;
				}
				sn.pos = cand;
				sn.state = obs_state;
				sn.vol = vol;
				sn.rate = rate;
				sn.pause = false;
				sn.resume = false;
				sn.stop = false;
				sn.seekby = None;
				sn.seekto = None;
				sn.vol_pending = None;
				sn.rate_pending = None;
			}
			// the output level: every set_volume of the interval applied, paused / stopped sounds silent
			if (amp as f64 - expected_amp).abs() > 1e-4 {
				out.oracle_fail("sound_volume_next_callback", detail);
			}
			let sh = |v: Option<u64>| v.map(|x| x.to_string()).unwrap_or("-".into());
			format!("vol={} seeks={} tick={} snd={} amp={}", sh(vol), sh(seeks), sh(tick), shown.join(","), h32(amp))
		}
		"addt" => {
			let Some(mgr) = st.mgr.as_mut() else { return "bad-op".into() };
			match tok[1] {
				"sub" => {
					if st.sub.is_some() {
						return "skip".into();
					}
					st.sub = Some(mgr.add_sub_track(TrackBuilder::new()).unwrap());
					"ok".into()
				}
				"nest" => {
					if st.nest.is_some() {
						return "skip".into();
					}
					let Some(sub) = st.sub.as_mut() else { return "skip".into() };
					st.nest = Some(sub.add_sub_track(TrackBuilder::new()).unwrap());
					"ok".into()
				}
				_ => "bad-op".into(),
			}
		}
		"play" => {
			let Some(mgr) = st.mgr.as_mut() else { return "bad-op".into() };
			let slot = pu(tok[1]) as usize;
			if slot >= st.snds.len() {
				return "bad-op".into();
			}
			if st.snds[slot].is_some() {
				return "skip".into();
			}
			let data = StaticSoundData {
				sample_rate: 1000,
				frames: right_frames(),
				settings: StaticSoundSettings::default(),
				slice: None,
			};
			let r = match tok[2] {
				"main" => mgr.play(data),
				"sub" => match st.sub.as_mut() {
					Some(t) => t.play(data),
					None => return "skip".into(),
				},
				"nest" => match st.nest.as_mut() {
					Some(t) => t.play(data),
					None => return "skip".into(),
				},
				_ => return "bad-op".into(),
			};
			match r {
				Ok(h) => {
					st.snds[slot] = Some(Snd {
						h,
						state: 0,
						pause: false,
						resume: false,
						stop: false,
						seekby: None,
						seekto: None,
						vol_pending: None,
						rate_pending: None,
						vol: 0,
						rate: 1,
						pos: vec![0.0],
						stale: false,
					});
					"ok".into()
				}
				Err(_) => "limit".into(),
			}
		}
		"sc" => {
			let slot = pu(tok[1]) as usize;
			let Some(Some(sn)) = st.snds.get_mut(slot) else { return "skip".into() };
			match tok[2] {
				"pause" => {
					sn.h.pause(instant());
					sn.pause = true;
				}
				"resume" => {
					sn.h.resume(instant());
					sn.resume = true;
				}
				"stop" => {
					sn.h.stop(instant());
					sn.stop = true;
				}
				"seekby" => {
					let k: i64 = tok[3].parse().unwrap();
					sn.h.seek_by(k as f64);
					sn.seekby = Some(k);
				}
				"seekto" => {
					let k = pu(tok[3]);
					sn.h.seek_to(k as f64);
					sn.seekto = Some(k);
				}
				"vol" => {
					let k = pu(tok[3]);
					sn.h.set_volume(Decibels(-(6 * k as i64) as f32), instant());
					sn.vol_pending = Some(k);
				}
				"rate" => {
					let k = pu(tok[3]);
					sn.h.set_playback_rate(k as f64, instant());
					sn.rate_pending = Some(k);
				}
				_ => return "bad-op".into(),
			}
			"ok".into()
		}
		"stplay" => {
			let Some(mgr) = st.mgr.as_mut() else { return "bad-op".into() };
			let short = tok[1] == "short";
			let n = if short { 60 } else { 200_000 };
			let data = StreamingSoundData::from_decoder(VecDecoder {
				frames: vec![Frame::from_mono(0.25); n],
				pos: 0,
				chunk: 16,
			});
			let h = mgr.play(data).unwrap();
			// let the decoder thread run: it decodes until its data ends (short) or its ring is full (long)
			std::thread::sleep(Duration::from_millis(150));
			mgr.backend_mut().callback(16, 2);
			st.stream = Some((h, short));
			"ok".into()
		}
		"stseek" => match st.stream.as_mut() {
			None => "skip".into(),
			Some((h, short)) => {
				if *short {
					h.seek_to(0.0)
				} else {
					h.seek_to(199.0)
				}
				std::thread::sleep(Duration::from_millis(30));
				"ok".into()
			}
		},
		"stcheck" => {
			let Some(mgr) = st.mgr.as_mut() else { return "bad-op".into() };
			let Some((h, short)) = st.stream.as_mut() else { return "skip".into() };
			let got = if *short {
				// 4 × 16 more frames: 80 > 60 in total. If the seek to 0 took effect the sound is playing its
				// data a second time; if it was lost the sound has run out and stopped.
				for _ in 0..4 {
					mgr.backend_mut().callback(16, 2);
					std::thread::sleep(Duration::from_millis(5));
				}
				h.state() != PlaybackState::Stopped
			} else {
				// play out what was buffered before the seek (≤ 16 384 frames); the position then jumps to 199 s
				let mut ok = false;
				for _ in 0..12 {
					mgr.backend_mut().callback(4096, 2);
					std::thread::sleep(Duration::from_millis(10));
					if h.position() >= 150.0 {
						ok = true;
						break;
					}
				}
				ok
			};
			if !got {
				out.oracle_fail("streaming_seek_lost", detail);
			}
			format!("seek={}", got as u8)
		}
		"sthook" => {
			let log = Arc::new(std::sync::Mutex::new(vec![]));
			let data = StreamingSoundData::from_decoder(LogDecoder { cursor: 0, seeks: log.clone() });
			match kira::verif_hooks::streaming::split(data) {
				Ok((sound, handle, sched)) => {
					let seen = log.lock().unwrap().len();
					st.hook = Some(HookStream { _sound: sound, handle, sched, log, seen, by: None, to: None });
					"ok".into()
				}
				Err(()) => "bad-op".into(),
			}
		}
		"stcmd" => {
			let Some(h) = st.hook.as_mut() else { return "skip".into() };
			let k = pu(tok[2]);
			match tok[1] {
				"by" => {
					h.handle.seek_by(k as f64);
					h.by = Some(k);
				}
				"to" => {
					h.handle.seek_to(k as f64);
					h.to = Some(k);
				}
				_ => return "bad-op".into(),
			}
			"ok".into()
		}
		"ststep" => {
			let Some(h) = st.hook.as_mut() else { return "skip".into() };
			if h.sched.run().is_err() {
				return "decoder-error".into();
			}
			let made: Vec<usize> = h.log.lock().unwrap()[h.seen..].to_vec();
			h.seen += made.len();
			// C07 "a streaming sound's seek and loop-region commands [take effect exactly once] at the decoder's next
			// step; if several commands of the same kind are issued … only the last is applied, and none is applied
			// late or twice; commands of different kinds … do not interfere": the decoder seeks made in THIS step are
			// exactly the targets of the seek commands issued since the previous step - the last seek_by (relative to
			// the playback position, 0 s: the sound is not being played) and the last seek_to, in whatever order -
			// and a step that follows an interval without seek commands makes no seek at all. (1 Hz: frame = second;
			// no loop region, targets far from the end: nothing else makes this decoder seek.)
			let mut want: Vec<usize> = h.by.take().into_iter().chain(h.to.take()).map(|k| k as usize).collect();
			let mut got = made.clone();
			want.sort();
			got.sort();
			if got != want {
				out.oracle_fail(
					"streaming_seeks_once_at_next_step",
					format!("{} :: decoder seeks in this step {:?}, seek targets issued since the last step {:?}", detail, made, want),
				);
			}
			format!("seeks={}", made.len())
		}
		"readers" => readers_from_source(tok[1]),
		_ => "bad-op".into(),
	}
}

/// a 1 Hz decoder that decodes one frame at a time and records every seek it is asked to make
struct LogDecoder {
	cursor: usize,
	seeks: Arc<std::sync::Mutex<Vec<usize>>>,
}
impl Decoder for LogDecoder {
	type Error = ();
	fn sample_rate(&self) -> u32 {
		1
	}
	fn num_frames(&self) -> usize {
		1_000_000
	}
	fn decode(&mut self) -> Result<Vec<Frame>, ()> {
		self.cursor += 1;
		Ok(vec![Frame::from_mono(0.125)])
	}
	fn seek(&mut self, index: usize) -> Result<usize, ()> {
		self.cursor = index;
		self.seeks.lock().unwrap().push(index);
		Ok(index)
	}
}
/// a streaming sound whose decoder loop is stepped by hand
struct HookStream {
	_sound: Box<dyn kira::sound::Sound>,
	handle: StreamingSoundHandle<()>,
	sched: kira::verif_hooks::streaming::HScheduler<()>,
	log: Arc<std::sync::Mutex<Vec<usize>>>,
	/// seeks of the log already attributed to earlier steps
	seen: usize,
	/// seek commands issued since the last step (last write wins per kind)
	by: Option<u64>,
	to: Option<u64>,
}

/// The command readers a component reads in its per-callback function, in textual order, extracted
/// from /repo's source *now* (ties Model/CommandReaders.lean to the code on every run).
fn readers_from_source(component: &str) -> String {
	let (file, func) = match component {
		"static" => ("sound/static_sound/sound.rs", "fn read_commands"),
		"stream_sound" => ("sound/streaming/sound.rs", "fn read_commands"),
		"stream_decoder" => ("sound/streaming/sound/decode_scheduler.rs", "pub fn run"),
		"track" => ("track/sub.rs", "fn read_commands"),
		"clock" => ("clock.rs", "fn on_start_processing"),
		"listener" => ("listener.rs", "fn on_start_processing"),
		"lfo" => ("modulator/lfo.rs", "fn on_start_processing"),
		"tweener" => ("modulator/tweener.rs", "fn on_start_processing"),
		"filter" => ("effect/filter.rs", "fn on_start_processing"),
		_ => return "bad-op".into(),
	};
	let src = match std::fs::read_to_string(format!("{}/crates/kira/src/{}", std::env::var("KV_REPO").unwrap_or_else(|_| "/repo".to_string()), file)) {
		Ok(s) => s,
		Err(_) => return "no-source".into(),
	};
	let Some(start) = src.find(func) else { return "no-fn".into() };
	let Some(open) = src[start..].find('{') else { return "no-fn".into() };
	let mut depth = 0i32;
	let mut end = src.len();
	for (i, c) in src[start + open..].char_indices() {
		match c {
			'{' => depth += 1,
			'}' => {
				depth -= 1;
				if depth == 0 {
					end = start + open + i;
					break;
				}
			}
			_ => {}
		}
	}
	let body = &src[start + open..end];
	// occurrences, by position
	let mut found: Vec<(usize, String)> = vec![];
	let mut from = 0;
	while let Some(p) = body[from..].find("command_readers.") {
		let at = from + p + "command_readers.".len();
		let name: String = body[at..].chars().take_while(|c| c.is_alphanumeric() || *c == '_').collect();
		found.push((at, name));
		from = at;
	}
	from = 0;
	while let Some(p) = body[from..].find("read_commands_into_parameters!(") {
		let at = from + p + "read_commands_into_parameters!(".len();
		let close = body[at..].find(')').unwrap_or(0);
		let args: Vec<&str> = body[at..at + close].split(',').map(|x| x.trim()).filter(|x| !x.is_empty()).collect();
		for (j, a) in args.iter().enumerate().skip(1) {
			found.push((at + j, format!("set_{}", a)));
		}
		from = at;
	}
	found.sort();
	let names: Vec<String> = found.into_iter().map(|x| x.1).collect();
	if names.is_empty() {
		"-".into()
	} else {
		names.join(",")
	}
}
