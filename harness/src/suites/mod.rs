//! Suite registry. Each suite module provides
//!   `gen(rng, n, thorough, stats) -> Vec<String>`  (ops lines; cases start with `case <k>`)
//!   `run(ops) -> Vec<String>`                      (impl trace; one line per op line)
use crate::util::{Rng, Stats};

pub mod finalstage;
pub mod clock;
pub mod clocksys;
pub mod clocktear;
pub mod mixer;
pub mod fxa;
pub mod fxb;
pub mod fxrate;
pub mod param;
pub mod srate;
pub mod system;
pub mod syscore;
pub mod lfo;
pub mod modsys;
pub mod tweener;
pub mod spatial;
pub mod psm;
pub mod static_sound;
pub mod transport;
pub mod chan;
pub mod deliver;
pub mod life;
pub mod storage;
pub mod stream;
pub mod units;
pub mod wav;

pub fn suite_salt(name: &str) -> u64 {
	name.bytes()
		.fold(0xcbf29ce484222325u64, |h, b| (h ^ b as u64).wrapping_mul(0x100000001b3))
}

pub fn gen(suite: &str, rng: &mut Rng, n: usize, thorough: bool, stats: &mut Stats) -> Vec<String> {
	match suite {
		"units" => units::gen(rng, n, thorough, stats),
		"param" => param::gen(rng, n, thorough, stats),
		"srate" => srate::gen(rng, n, thorough, stats),
		"final" => finalstage::gen(rng, n, thorough, stats),
		"system" => system::gen(rng, n, thorough, stats),
		"syscore" => syscore::gen(rng, n, thorough, stats),
		"lfo" => lfo::gen(rng, n, thorough, stats),
		"tweener" => tweener::gen(rng, n, thorough, stats),
		"modsys" => modsys::gen(rng, n, thorough, stats),
		"clock" => clock::gen(rng, n, thorough, stats),
		"clocksys" => clocksys::gen(rng, n, thorough, stats),
		"clocktear" => clocktear::gen(rng, n, thorough, stats),
		"spatial" => spatial::gen(rng, n, thorough, stats),
		"wav" => wav::gen(rng, n, thorough, stats),
		"transport" => transport::gen(rng, n, thorough, stats),
		"psm" => psm::gen(rng, n, thorough, stats),
		"static" => static_sound::gen(rng, n, thorough, stats),
		"static_ood" => static_sound::gen_ood(rng, n, thorough, stats),
		"mixer" => mixer::gen(rng, n, thorough, stats, mixer::Mode::Flow),
		"mixtrk" => mixer::gen(rng, n, thorough, stats, mixer::Mode::Tracks),
		"mixpart" => mixer::gen(rng, n, thorough, stats, mixer::Mode::Partition),
		"fxa" => fxa::gen(rng, n, thorough, stats),
		"fxb" => fxb::gen(rng, n, thorough, stats),
		"fxrate" => fxrate::gen(rng, n, thorough, stats),
		"chan" => chan::gen(rng, n, thorough, stats),
		"deliver" => deliver::gen(rng, n, thorough, stats),
		"life" => life::gen(rng, n, thorough, stats),
		"storage" => storage::gen(rng, n, thorough, stats),
		"stream" => stream::gen(rng, n, thorough, stats),
		"decthread" => stream::gen_decthread(rng, n, thorough, stats),
		_ => panic!("unknown suite {}", suite),
	}
}

pub fn run(suite: &str, ops: &[String]) -> Vec<String> {
	match suite {
		"units" => units::run(ops),
		"param" => param::run(ops),
		"srate" => srate::run(ops),
		"final" => finalstage::run(ops),
		"system" => system::run(ops),
		"syscore" => syscore::run(ops),
		"lfo" => lfo::run(ops),
		"tweener" => tweener::run(ops),
		"modsys" => modsys::run(ops),
		"clock" => clock::run(ops),
		"clocksys" => clocksys::run(ops),
		"clocktear" => clocktear::run(ops),
		"spatial" => spatial::run(ops),
		"wav" => wav::run(ops),
		"transport" => transport::run(ops),
		"psm" => psm::run(ops),
		"static" | "static_ood" => static_sound::run(ops),
		"mixer" => mixer::run(ops, mixer::Mode::Flow),
		"mixtrk" => mixer::run(ops, mixer::Mode::Tracks),
		"mixpart" => mixer::run(ops, mixer::Mode::Partition),
		"fxa" => fxa::run(ops),
		"fxb" => fxb::run(ops),
		"fxrate" => fxrate::run(ops),
		"chan" => chan::run(ops),
		"deliver" => deliver::run(ops),
		"life" => life::run(ops),
		"storage" => storage::run(ops),
		"stream" | "decthread" => stream::run(ops),
		_ => panic!("unknown suite {}", suite),
	}
}
