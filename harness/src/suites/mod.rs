//! Suite registry. Each suite module provides
//!   `gen(rng, n, thorough, stats) -> Vec<String>`  (ops lines; cases start with `case <k>`)
//!   `run(ops) -> Vec<String>`                      (impl trace; one line per op line)
use crate::util::{Rng, Stats};

pub mod chan;
pub mod deliver;
pub mod life;
pub mod param;
pub mod storage;
pub mod units;

pub fn suite_salt(name: &str) -> u64 {
	name.bytes()
		.fold(0xcbf29ce484222325u64, |h, b| (h ^ b as u64).wrapping_mul(0x100000001b3))
}

pub fn gen(suite: &str, rng: &mut Rng, n: usize, thorough: bool, stats: &mut Stats) -> Vec<String> {
	match suite {
		"units" => units::gen(rng, n, thorough, stats),
		"param" => param::gen(rng, n, thorough, stats),
		"chan" => chan::gen(rng, n, thorough, stats),
		"deliver" => deliver::gen(rng, n, thorough, stats),
		"life" => life::gen(rng, n, thorough, stats),
		"storage" => storage::gen(rng, n, thorough, stats),
		_ => panic!("unknown suite {}", suite),
	}
}

pub fn run(suite: &str, ops: &[String]) -> Vec<String> {
	match suite {
		"units" => units::run(ops),
		"param" => param::run(ops),
		"chan" => chan::run(ops),
		"deliver" => deliver::run(ops),
		"life" => life::run(ops),
		"storage" => storage::run(ops),
		_ => panic!("unknown suite {}", suite),
	}
}
