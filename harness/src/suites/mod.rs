//! Suite registry. Each suite module provides
//!   `gen(rng, n, thorough, stats) -> Vec<String>`  (ops lines; cases start with `case <k>`)
//!   `run(ops) -> Vec<String>`                      (impl trace; one line per op line)
use crate::util::{Rng, Stats};

pub mod param;
pub mod psm;
pub mod static_sound;
pub mod transport;
pub mod units;

pub fn suite_salt(name: &str) -> u64 {
	name.bytes()
		.fold(0xcbf29ce484222325u64, |h, b| (h ^ b as u64).wrapping_mul(0x100000001b3))
}

pub fn gen(suite: &str, rng: &mut Rng, n: usize, thorough: bool, stats: &mut Stats) -> Vec<String> {
	match suite {
		"units" => units::gen(rng, n, thorough, stats),
		"param" => param::gen(rng, n, thorough, stats),
		"transport" => transport::gen(rng, n, thorough, stats),
		"psm" => psm::gen(rng, n, thorough, stats),
		"static" => static_sound::gen(rng, n, thorough, stats),
		"static_ood" => static_sound::gen_ood(rng, n, thorough, stats),
		_ => panic!("unknown suite {}", suite),
	}
}

pub fn run(suite: &str, ops: &[String]) -> Vec<String> {
	match suite {
		"units" => units::run(ops),
		"param" => param::run(ops),
		"transport" => transport::run(ops),
		"psm" => psm::run(ops),
		"static" | "static_ood" => static_sound::run(ops),
		_ => panic!("unknown suite {}", suite),
	}
}
