//! Suite `fxa` (C13/C14, first half): the built-in effects volume_control, panning_control, filter,
//! eq_filter, distortion and compressor, built through their public builders
//! (`EffectBuilder::build` → `Box<dyn Effect>` + handle) and driven with `init`, the handle setters,
//! `on_start_processing` and `process(frames, dt, MockInfo)`.
//!
//! ops:  case <k> <in|ood>                       — `in`: all parameters inside the documented ranges
//!       new vol <v32> | new pan <v32> | new filter <lp|bp|hp|notch> <cutoff v64> <res v64> <mix v32>
//!       new eq <bell|ls|hs> <freq v64> <gain v32> <q v64> | new dist <hard|soft> <drive v32> <mix v32>
//!       new comp <thr v64> <ratio v64> <attack vdur> <release vdur> <makeup v32> <mix v32>
//!       init <sr> <ibs>   sr <sr>   start   set <param> <value> <tween>   mode <m>
//!       info.clocks … / info.mods …             — as in suite `param`
//!       proc <dt> <k1,k2,…> {<l> <r>}*          — process the frames in consecutive slices of k1, k2, … frames
//!       run <sig> <amp32> <freq64> <seed> <dt> <ibs> <count>   — count buffers of ibs frames of a synthetic signal
//! value/tween syntax as in suite `param`. Trace: `ok`, `= l r l r …` (output bits), digest for `run`.
//!
//! The `dt` of `proc` / `run` varies WITHIN a case: an `sr <rate>` op (`Effect::on_change_sample_rate`) is followed
//! by process calls with `dt = 1 / rate`, and `dt` also changes without an `sr` op (the six effects take their
//! time base from `dt` alone); rate-change probe cases put a long settled `run` after such a change.
//!
//! Oracles (implementation side, on the real code only; `in` cases unless stated):
//!   finite_output, silence_to_silence, dry_identity_*, split_vs_whole, superposition, scaling,
//!   volume_law, pan_law, dc_gain, comp_below_threshold, comp_steady_state, dist_curve;
//!   rate_fresh_equiv (C14/C16): once `dt` has changed, a fresh instance built with the same settings and
//!   initialised at the new rate gets the same input; as soon as the transient of the old state has died out
//!   (immediately for volume / panning / distortion) the long-running instance must give the same output —
//!   nothing may be carried over from the earlier rate;
//!   `ood` cases: ood_nonfinite_<class> (a finite input and finite parameters gave NaN/inf).
use crate::runner::{run_cases, Out};
use crate::suites::param::{ids, parse_tween, Ids, InfoState, MAX_IDS};
use crate::suites::units::{fmt_easing, gen_easing, parse_easing};
use crate::util::*;
use kira::effect::compressor::{CompressorBuilder, CompressorHandle};
use kira::effect::distortion::{DistortionBuilder, DistortionHandle, DistortionKind};
use kira::effect::eq_filter::{EqFilterBuilder, EqFilterHandle, EqFilterKind};
use kira::effect::filter::{FilterBuilder, FilterHandle, FilterMode};
use kira::effect::panning_control::{PanningControlBuilder, PanningControlHandle};
use kira::effect::volume_control::{VolumeControlBuilder, VolumeControlHandle};
use kira::effect::{Effect, EffectBuilder};
use kira::info::Info;
use kira::{Decibels, Frame, Mapping, Mix, Panning, Tween, Value};
use std::collections::BTreeMap;
use std::time::Duration;

// ------------------------------------------------------------------------------------------
// real-code side
// ------------------------------------------------------------------------------------------

enum Handle {
	Vol(VolumeControlHandle),
	Pan(PanningControlHandle),
	Filter(FilterHandle),
	Eq(EqFilterHandle),
	Dist(DistortionHandle),
	Comp(CompressorHandle),
}

struct Inst {
	fx: Box<dyn Effect>,
	h: Handle,
}

fn pv<T: Copy>(s: &str, ids: &Ids, f: &dyn Fn(&str) -> T) -> Value<T> {
	let (k, rest) = s.split_once(':').unwrap();
	match k {
		"fix" => Value::Fixed(f(rest)),
		"mod" => {
			let (id, m) = rest.split_once(':').unwrap();
			let p: Vec<&str> = m.split(',').collect();
			Value::FromModulator {
				id: ids.mods[pu(id) as usize],
				mapping: Mapping {
					input_range: (p64(p[0]), p64(p[1])),
					output_range: (f(p[2]), f(p[3])),
					easing: parse_easing(p[4]),
				},
			}
		}
		_ => panic!("bad value {}", s),
	}
}
fn v64(s: &str, ids: &Ids) -> Value<f64> {
	pv(s, ids, &p64)
}
fn vdb(s: &str, ids: &Ids) -> Value<Decibels> {
	pv(s, ids, &|x| Decibels(p32(x)))
}
fn vpan(s: &str, ids: &Ids) -> Value<Panning> {
	pv(s, ids, &|x| Panning(p32(x)))
}
fn vmix(s: &str, ids: &Ids) -> Value<Mix> {
	pv(s, ids, &|x| Mix(p32(x)))
}
fn vdur(s: &str, ids: &Ids) -> Value<Duration> {
	pv(s, ids, &|x| Duration::from_nanos(pu(x)))
}
fn filter_mode(s: &str) -> FilterMode {
	match s {
		"lp" => FilterMode::LowPass,
		"bp" => FilterMode::BandPass,
		"hp" => FilterMode::HighPass,
		"notch" => FilterMode::Notch,
		_ => panic!("bad filter mode {}", s),
	}
}
fn eq_kind(s: &str) -> EqFilterKind {
	match s {
		"bell" => EqFilterKind::Bell,
		"ls" => EqFilterKind::LowShelf,
		"hs" => EqFilterKind::HighShelf,
		_ => panic!("bad eq kind {}", s),
	}
}
fn dist_kind(s: &str) -> DistortionKind {
	match s {
		"hard" => DistortionKind::HardClip,
		"soft" => DistortionKind::SoftClip,
		_ => panic!("bad distortion kind {}", s),
	}
}

fn build(tok: &[&str], ids: &Ids) -> Inst {
	match tok[1] {
		"vol" => {
			let (fx, h) = VolumeControlBuilder::new(vdb(tok[2], ids)).build();
			Inst { fx, h: Handle::Vol(h) }
		}
		"pan" => {
			let (fx, h) = PanningControlBuilder(vpan(tok[2], ids)).build();
			Inst { fx, h: Handle::Pan(h) }
		}
		"filter" => {
			let (fx, h) = FilterBuilder::new()
				.mode(filter_mode(tok[2]))
				.cutoff(v64(tok[3], ids))
				.resonance(v64(tok[4], ids))
				.mix(vmix(tok[5], ids))
				.build();
			Inst { fx, h: Handle::Filter(h) }
		}
		"eq" => {
			let (fx, h) =
				EqFilterBuilder::new(eq_kind(tok[2]), v64(tok[3], ids), vdb(tok[4], ids), v64(tok[5], ids)).build();
			Inst { fx, h: Handle::Eq(h) }
		}
		"dist" => {
			let (fx, h) = DistortionBuilder::new()
				.kind(dist_kind(tok[2]))
				.drive(vdb(tok[3], ids))
				.mix(vmix(tok[4], ids))
				.build();
			Inst { fx, h: Handle::Dist(h) }
		}
		"comp" => {
			let (fx, h) = CompressorBuilder::new()
				.threshold(v64(tok[2], ids))
				.ratio(v64(tok[3], ids))
				.attack_duration(vdur(tok[4], ids))
				.release_duration(vdur(tok[5], ids))
				.makeup_gain(vdb(tok[6], ids))
				.mix(vmix(tok[7], ids))
				.build();
			Inst { fx, h: Handle::Comp(h) }
		}
		_ => panic!("fxa: unknown effect {}", tok[1]),
	}
}

impl Inst {
	fn set(&mut self, param: &str, v: &str, tw: Tween, ids: &Ids) {
		match (&mut self.h, param) {
			(Handle::Vol(h), "volume") => h.set_volume(vdb(v, ids), tw),
			(Handle::Pan(h), "panning") => h.set_panning(vpan(v, ids), tw),
			(Handle::Filter(h), "cutoff") => h.set_cutoff(v64(v, ids), tw),
			(Handle::Filter(h), "resonance") => h.set_resonance(v64(v, ids), tw),
			(Handle::Filter(h), "mix") => h.set_mix(vmix(v, ids), tw),
			(Handle::Eq(h), "frequency") => h.set_frequency(v64(v, ids), tw),
			(Handle::Eq(h), "gain") => h.set_gain(vdb(v, ids), tw),
			(Handle::Eq(h), "q") => h.set_q(v64(v, ids), tw),
			(Handle::Dist(h), "drive") => h.set_drive(vdb(v, ids), tw),
			(Handle::Dist(h), "mix") => h.set_mix(vmix(v, ids), tw),
			(Handle::Comp(h), "threshold") => h.set_threshold(v64(v, ids), tw),
			(Handle::Comp(h), "ratio") => h.set_ratio(v64(v, ids), tw),
			(Handle::Comp(h), "attack") => h.set_attack_duration(vdur(v, ids), tw),
			(Handle::Comp(h), "release") => h.set_release_duration(vdur(v, ids), tw),
			(Handle::Comp(h), "makeup") => h.set_makeup_gain(vdb(v, ids), tw),
			(Handle::Comp(h), "mix") => h.set_mix(vmix(v, ids), tw),
			_ => panic!("fxa: bad parameter {}", param),
		}
	}
	fn mode(&mut self, m: &str) {
		match &mut self.h {
			Handle::Filter(h) => h.set_mode(filter_mode(m)),
			Handle::Eq(h) => h.set_kind(eq_kind(m)),
			Handle::Dist(h) => h.set_kind(dist_kind(m)),
			_ => panic!("fxa: effect has no mode"),
		}
	}
	fn process(&mut self, frames: &mut [Frame], dt: f64, info: &Info) {
		self.fx.process(frames, dt, info);
	}
}

// ------------------------------------------------------------------------------------------
// synthetic signals for `run` (same formulas in lean/KiraModel/Exec/SuiteFxA.lean)
// ------------------------------------------------------------------------------------------

fn lcg_next(s: u64) -> u64 {
	s.wrapping_mul(6364136223846793005).wrapping_add(1442695040888963407)
}
fn lcg_val(s: u64) -> f32 {
	(((s >> 40) as f64 - 8388608.0) / 8388608.0) as f32
}
fn sig_frame(sig: &str, amp: f32, freq: f64, dt: f64, k: u64, st: &mut u64) -> Frame {
	let neg = |v: f32| Frame::new(v, -v);
	match sig {
		"zero" => Frame::ZERO,
		"dc" => neg(amp),
		"imp" => {
			if k == 0 {
				neg(amp)
			} else {
				Frame::ZERO
			}
		}
		"step" => {
			if k < 8 {
				Frame::ZERO
			} else {
				neg(amp)
			}
		}
		"nyq" => {
			if k % 2 == 0 {
				neg(amp)
			} else {
				neg(-amp)
			}
		}
		"sine" => {
			let two_pi = 2.0 * std::f64::consts::PI;
			let v = ((two_pi * freq * k as f64 * dt).sin() as f32) * amp;
			neg(v)
		}
		_ => {
			let s1 = lcg_next(*st);
			let s2 = lcg_next(s1);
			*st = s2;
			Frame::new(lcg_val(s1) * amp, lcg_val(s2) * amp)
		}
	}
}

// ------------------------------------------------------------------------------------------
// what the harness knows about the case (premises of the oracles)
// ------------------------------------------------------------------------------------------

#[derive(Default)]
struct Spec {
	kind: String,
	/// current mode / kind (applied at `start`)
	mode: String,
	pending_mode: Option<String>,
	/// parameter values while every parameter is `Fixed` and no `set` was issued
	fixed: BTreeMap<String, f64>,
	/// all initial values fixed and no `set` so far: parameters are constant
	is_static: bool,
	/// every drive value ever given (initial, set targets, mapping ends) — for the finding class
	drive_silent: bool,
	ratio_zero: bool,
	in_domain: bool,
	/// no non-zero input so far
	fresh: bool,
	/// linear shadows still in step
	lin_ok: bool,
	/// running magnitude scale for tolerances
	scale: f64,
	/// largest rounding-noise gain over every `dt` the case has processed with so far
	ng_max: f64,
	/// a process call ran with the relative cutoff at the Nyquist clamp (integrators may have grown without bound)
	wild: bool,
	/// compressor: the release time in force as the documentation has it (seconds): the builder's fixed value, then
	/// the fixed target of the last `set release` once its tween is certainly over; None while one is in flight
	/// or after a change the bookkeeping cannot follow (modulator value, clock start time)
	comp_release: Option<f64>,
	/// written through the handle, not yet read by `start` (inner None: cannot be followed)
	comp_release_cmd: Option<Option<(f64, f64, f64)>>,
	/// (target, delay + duration, audio time seen, longest update) of the change read by the last `start`
	comp_release_inflight: Option<(f64, f64, f64, f64)>,
	/// a compressor parameter other than the release time was set through the handle
	comp_other_set: bool,
	/// compressor: the ratio may move between exactly 0 (dynamics unchanged, in domain since the repair) and a
	/// non-zero value along a tween or a modulator mapping. On the way it takes arbitrarily small positive values,
	/// i.e. it is an expander without bound (notes/C13_a.md: "ratios just above 0 expand without bound") - outside
	/// the documented range {0} u [0.5, 100] the finiteness clause is claimed for. (Found when a generator change
	/// moved the random stream: `set ratio fix:0 imm;25ms` on a ratio of ~2 gave 10^(huge) = inf, as it must.)
	ratio_path_open: bool,
}

/// the compressor's gain slope in dB per dB over the threshold: `1/ratio − 1`, and 0 (dynamics unchanged, like
/// a ratio of 1) for a ratio of exactly 0 — the repaired behaviour (`1.0 / 0.0` used to give NaN output)
fn comp_slope(ratio: f64) -> f64 {
	if ratio == 0.0 {
		0.0
	} else {
		1.0 / ratio - 1.0
	}
}

fn fixed_of(s: &str, is32: bool, isdur: bool) -> Option<f64> {
	let rest = s.strip_prefix("fix:")?;
	Some(if isdur {
		pu(rest) as f64 * 1e-9
	} else if is32 {
		p32(rest) as f64
	} else {
		p64(rest)
	})
}
/// every numeric end point a value can take (fixed value, or both mapping outputs)
fn ends_of(s: &str, is32: bool) -> Vec<f64> {
	let p = |x: &str| if is32 { p32(x) as f64 } else { p64(x) };
	if let Some(rest) = s.strip_prefix("fix:") {
		vec![p(rest)]
	} else {
		let m = s.splitn(3, ':').nth(2).unwrap();
		let q: Vec<&str> = m.split(',').collect();
		vec![p(q[2]), p(q[3])]
	}
}

const PARAMS: &[(&str, &[(&str, bool, bool)])] = &[
	("vol", &[("volume", true, false)]),
	("pan", &[("panning", true, false)]),
	("filter", &[("cutoff", false, false), ("resonance", false, false), ("mix", true, false)]),
	("eq", &[("frequency", false, false), ("gain", true, false), ("q", false, false)]),
	("dist", &[("drive", true, false), ("mix", true, false)]),
	(
		"comp",
		&[
			("threshold", false, false),
			("ratio", false, false),
			("attack", false, true),
			("release", false, true),
			("makeup", true, false),
			("mix", true, false),
		],
	),
];
fn params_of(kind: &str) -> &'static [(&'static str, bool, bool)] {
	PARAMS.iter().find(|(k, _)| *k == kind).unwrap().1
}
fn has_mode(kind: &str) -> bool {
	matches!(kind, "filter" | "eq" | "dist")
}
fn is_linear(kind: &str) -> bool {
	matches!(kind, "vol" | "pan" | "filter" | "eq")
}

impl Spec {
	fn from_new(tok: &[&str], in_domain: bool) -> Spec {
		let kind = tok[1].to_string();
		let mut sp = Spec {
			kind: kind.clone(),
			is_static: true,
			in_domain,
			fresh: true,
			lin_ok: true,
			scale: 1.0,
			ng_max: 1.0,
			..Default::default()
		};
		let mut i = 2;
		if has_mode(&kind) {
			sp.mode = tok[2].to_string();
			i = 3;
		}
		for (name, is32, isdur) in params_of(&kind) {
			match fixed_of(tok[i], *is32, *isdur) {
				Some(v) => {
					sp.fixed.insert(name.to_string(), v);
				}
				None => sp.is_static = false,
			}
			sp.note_value(name, tok[i], *is32, *isdur);
			i += 1;
		}
		sp.comp_release = if sp.kind == "comp" { sp.fixed.get("release").copied() } else { None };
		sp
	}
	/// a `set` on a compressor: follow the release time
	fn note_comp_set(&mut self, name: &str, value: &str, tween: &str) {
		if self.kind != "comp" {
			return;
		}
		if name != "release" {
			self.comp_other_set = true;
			return;
		}
		let p: Vec<&str> = tween.split(';').collect();
		let delay = if p[0] == "imm" { Some(0.0) } else { p[0].strip_prefix("del:").map(|d| pu(d) as f64 * 1e-9) };
		self.comp_release_cmd = Some(match (fixed_of(value, false, true), delay) {
			(Some(target), Some(delay)) => Some((target, delay, pu(p[1]) as f64 * 1e-9)),
			_ => None,
		});
	}
	/// `on_start_processing` reads the last command written
	fn note_comp_start(&mut self) {
		match self.comp_release_cmd.take() {
			Some(Some((target, delay, duration))) => {
				self.comp_release = None;
				self.comp_release_inflight = Some((target, delay + duration, 0.0, 0.0));
			}
			Some(None) => {
				self.comp_release = None;
				self.comp_release_inflight = None;
			}
			None => {}
		}
	}
	/// process calls of the given slice lengths ran: the tween has certainly lasted (time seen - delay - longest
	/// update), see `VolTrack::advance` in suite `mixer` for the argument; 1 us covers the countdown's ns rounding
	fn note_comp_time(&mut self, part: &[usize], dt: f64) {
		if let Some((target, need, seen, longest)) = self.comp_release_inflight.as_mut() {
			for k in part {
				*seen += dt * *k as f64;
				*longest = longest.max(dt * *k as f64);
			}
			if *seen - *longest >= *need + 1e-6 {
				self.comp_release = Some(*target);
				self.comp_release_inflight = None;
			}
		}
	}
	fn note_value(&mut self, name: &str, v: &str, is32: bool, isdur: bool) {
		if isdur {
			return;
		}
		for e in ends_of(v, is32) {
			if self.kind == "dist" && name == "drive" && e <= -59.9999 {
				self.drive_silent = true;
			}
			if self.kind == "comp" && name == "ratio" && (e as f32) == 0.0 {
				self.ratio_zero = true;
			}
		}
		if self.kind == "comp" && name == "ratio" {
			let ends = ends_of(v, is32);
			if ends.iter().any(|e| (*e as f32) == 0.0) && ends.iter().any(|e| (*e as f32) != 0.0) {
				self.ratio_path_open = true;
			}
		}
	}
	/// a `set ratio` whose tween takes time, in a case where the ratio is or becomes exactly 0
	fn note_ratio_tween(&mut self, name: &str, tween: &str) {
		if self.kind == "comp" && name == "ratio" && self.ratio_zero {
			let dur = tween.split(';').nth(1).map(pu).unwrap_or(0);
			if dur > 0 {
				self.ratio_path_open = true;
			}
		}
	}
	fn note_set(&mut self, name: &str, v: &str) {
		self.is_static = false;
		let (_, is32, isdur) = *params_of(&self.kind).iter().find(|(n, _, _)| *n == name).unwrap();
		self.note_value(name, v, is32, isdur);
	}
	fn p(&self, name: &str) -> f64 {
		self.fixed[name]
	}
	fn ood_class(&self) -> &'static str {
		if self.kind == "dist" && self.drive_silent {
			"dist_silent_drive"
		} else if self.kind == "comp" && self.ratio_zero {
			"comp_ratio_zero"
		} else {
			"other"
		}
	}
}

struct Run {
	main: Inst,
	/// same ops, but every `proc`/`run` is one single slice
	whole: Inst,
	/// linearity shadows: input y, input x + y, input 0.5 x
	ly: Inst,
	lsum: Inst,
	lhalf: Inst,
	spec: Spec,
	/// the `new` line (to build the fresh instance of `rate_fresh_equiv`) and the `init` buffer size
	new_line: String,
	ibs: usize,
	/// `dt` of the previous process call
	last_dt: Option<f64>,
	/// built when `dt` changes (static in-domain cases): same settings, initialised at the new rate
	fresh: Option<Inst>,
	/// frames the fresh instance has processed (restarted when the mode changes)
	fresh_frames: usize,
}

/// FXA_STATS=1: count how often an oracle's premise held (`!stat eval <name>` lines, ignored by the check)
fn evald(out: &mut Out, name: &str) {
	if std::env::var("FXA_STATS").is_ok() {
		out.oracle.push(format!("!stat eval {}", name));
	}
}
fn all_finite(fs: &[Frame]) -> bool {
	fs.iter().all(|f| f.left.is_finite() && f.right.is_finite())
}
fn maxabs(fs: &[Frame]) -> f64 {
	fs.iter().fold(0.0f64, |m, f| m.max(f.left.abs() as f64).max(f.right.abs() as f64))
}
fn same_bits(a: &[Frame], b: &[Frame]) -> bool {
	a.len() == b.len()
		&& a.iter().zip(b).all(|(x, y)| {
			(x.left.to_bits() == y.left.to_bits() || (x.left.is_nan() && y.left.is_nan()))
				&& (x.right.to_bits() == y.right.to_bits() || (x.right.is_nan() && y.right.is_nan()))
		})
}
fn same_value(a: &[Frame], b: &[Frame]) -> bool {
	a.len() == b.len() && a.iter().zip(b).all(|(x, y)| x.left == y.left && x.right == y.right)
}
fn close(a: f32, b: f32, tol: f64) -> bool {
	((a as f64) - (b as f64)).abs() <= tol
}
fn exact_add(a: f32, b: f32) -> Option<f32> {
	let s = a + b;
	if (a as f64) + (b as f64) == s as f64 && s.is_finite() {
		Some(s)
	} else {
		None
	}
}
fn exact_half(a: f32) -> Option<f32> {
	let h = a * 0.5;
	if h * 2.0 == a {
		Some(h)
	} else {
		None
	}
}

/// Superposition / scaling residuals are pure f32 rounding noise of the recursions. A rounding error
/// injected into an SVF integrator is amplified by at most ~1/(g·k) on its way to the output
/// (g = tan(π f/fs) ≥ 3e-4, k = damping), so the tolerance is `LIN_EPS · (1 + 1/(g·k)) · scale`
/// with `scale` the running magnitude of all signals of the case (for g > 1 the Nyquist-side pole gives g/k
/// instead). Measured worst case over 4·10^4 generated cases: residual ≤ 2.3 · 2^-24 · gain · scale
/// (FXA_STATS=1 prints the ratios); LIN_EPS leaves a factor 28.
const LIN_EPS: f64 = 64.0 / 16777216.0;

impl Spec {
	/// amplification bound of rounding noise for the current static parameters (1 for memoryless effects)
	fn noise_gain(&self, dt: f64) -> f64 {
		let pi = std::f64::consts::PI;
		match self.kind.as_str() {
			"filter" => {
				let g = (pi * (self.p("cutoff") * dt).clamp(0.0001, 0.5)).tan();
				let k = 2.0 - 1.9 * self.p("resonance").clamp(0.0, 1.0);
				1.0 + (1.0 + k) / (g.min(1.0 / g) * k)
			}
			"eq" => {
				let a = 10f64.powf(self.p("gain") / 40.0);
				let q = self.p("q").max(0.01);
				let t = (pi * (self.p("frequency") * dt).clamp(0.0001, 0.5)).tan();
				// the mode may change between bell and shelves: take the worst of the three designs
				let mut worst: f64 = 1.0;
				for (g, k, m) in [
					(t, 1.0 / (q * a), (1.0 / (q * a)) * (a * a - 1.0).abs()),
					(t / a.sqrt(), 1.0 / q, (a * a - 1.0).abs() + (a - 1.0).abs() / q),
					(t * a.sqrt(), 1.0 / q, a * a + (1.0 - a * a).abs() + (1.0 - a).abs() * a / q),
				] {
					worst = worst.max((1.0 + m) * (1.0 + (1.0 + k) / (g.min(1.0 / g) * k)));
				}
				worst
			}
			_ => 1.0,
		}
	}
	/// filter / EQ with static parameters: (relative cutoff, g, k) of the SVF design in force at `dt` (current mode)
	fn design(&self, dt: f64) -> Option<(f64, f64, f64)> {
		let pi = std::f64::consts::PI;
		match self.kind.as_str() {
			"filter" => {
				let rf = (self.p("cutoff") * dt).clamp(0.0001, 0.5);
				Some((rf, (pi * rf).tan(), 2.0 - 1.9 * self.p("resonance").clamp(0.0, 1.0)))
			}
			"eq" => {
				let rf = (self.p("frequency") * dt).clamp(0.0001, 0.5);
				let q = self.p("q").max(0.01);
				let a = 10f64.powf(self.p("gain") / 40.0);
				let t = (pi * rf).tan();
				Some(match self.mode.as_str() {
					"bell" => (rf, t, 1.0 / (q * a)),
					"ls" => (rf, t / a.sqrt(), 1.0 / q),
					_ => (rf, t * a.sqrt(), 1.0 / q),
				})
			}
			_ => None,
		}
	}
}

/// how `rate_fresh_equiv` compares the long-running instance with the fresh one
enum Cmp {
	Bits,
	Abs(f64),
	Rel(f64),
}

impl Run {
	/// `dt` differs from the previous process call: (re)build the fresh instance of `rate_fresh_equiv`
	fn note_dt(&mut self, dt: f64, ids: &Ids) {
		if self.last_dt.map_or(false, |d| d != dt) {
			self.fresh = None;
			self.fresh_frames = 0;
			if self.spec.in_domain && self.spec.is_static {
				let tok: Vec<&str> = self.new_line.split_whitespace().collect();
				let mut f = build(&tok, ids);
				f.fx.init((1.0 / dt).round() as u32, self.ibs);
				if has_mode(&self.spec.kind) {
					f.mode(&self.spec.mode);
					f.fx.on_start_processing();
					if let Some(m) = &self.spec.pending_mode {
						f.mode(m);
					}
				}
				self.fresh = Some(f);
			}
		}
		self.last_dt = Some(dt);
	}

	/// C14/C16 `rate_fresh_equiv`: feed the fresh instance the same slices and compare once the transient is gone
	fn check_fresh(&mut self, x: &[Frame], m: &[Frame], part: &[usize], dt: f64, info: &Info, op: &str, out: &mut Out) {
		let Some(fr) = self.fresh.as_mut() else { return };
		let sp = &self.spec;
		let n0 = self.fresh_frames;
		let mut f = x.to_vec();
		let mut o = 0;
		for k in part {
			fr.process(&mut f[o..o + k], dt, info);
			o += k;
		}
		self.fresh_frames += x.len();
		// (comparison, number of frames the fresh instance must have seen before the comparison starts)
		let cmp = match sp.kind.as_str() {
			"vol" | "pan" | "dist" => Some((Cmp::Bits, 0usize)),
			"filter" | "eq" => {
				let (rf, g, k) = sp.design(dt).unwrap();
				let r = pole_radius(g, k);
				if !sp.wild && rf < 0.45 && r < 1.0 {
					Some((Cmp::Abs((LIN_EPS * sp.ng_max + 1e-9) * sp.scale), (30.0 / (1.0 / r).ln()).ceil() as usize))
				} else {
					None
				}
			}
			_ => {
				// compressor: two envelope trajectories towards the same target approach each other by the factor
				// exp(-dt/tau) per frame; afterwards they stay within the f32 rounding of the envelope recursion
				let tau = sp.p("attack").max(sp.p("release"));
				let ratio = sp.p("ratio") as f32 as f64;
				let max_over = (20.0 * sp.scale.max(1.0).log10() - sp.p("threshold")).max(0.0) + 1.0;
				let one_minus_speed = if tau == 0.0 { 1.0 } else { 1.0 - (-dt / tau).exp() };
				let env_tol = 4.0 * max_over / 8388608.0 / one_minus_speed + 1e-9;
				let rel = 10f64.powf(env_tol * comp_slope(ratio).abs() / 20.0) - 1.0 + 1e-5;
				if rel <= 0.02 {
					Some((Cmp::Rel(rel), (30.0 * tau / dt).ceil() as usize + 1))
				} else {
					None
				}
			}
		};
		let Some((cmp, need)) = cmp else { return };
		// first frame of this call at which the transient of the old state is gone
		let from = need.saturating_sub(n0);
		if from >= x.len() || !all_finite(&f) {
			return;
		}
		evald(out, &format!("rate_fresh_equiv_{}", sp.kind));
		let (m, f) = (&m[from..], &f[from..]);
		let ok = match cmp {
			Cmp::Bits => same_bits(m, f),
			Cmp::Abs(t) => m.iter().zip(f).all(|(a, b)| close(a.left, b.left, t) && close(a.right, b.right, t)),
			Cmp::Rel(r) => m.iter().zip(f).all(|(a, b)| {
				let t = |u: f32, v: f32| r * (u.abs().max(v.abs()) as f64) + 1e-37;
				close(a.left, b.left, t(a.left, b.left)) && close(a.right, b.right, t(a.right, b.right))
			}),
		};
		if !ok {
			out.oracle_fail("rate_fresh_equiv", op);
		}
	}

	/// feed `x` (already split into slices by `part`) to the main instance and the shadows; returns main's output
	fn feed(&mut self, x: &[Frame], part: &[usize], dt: f64, info: &Info, op: &str, out: &mut Out, y_same: bool, ids: &Ids) -> Vec<Frame> {
		self.note_dt(dt, ids);
		let mut m = x.to_vec();
		let mut o = 0;
		for k in part {
			self.main.process(&mut m[o..o + k], dt, info);
			o += k;
		}
		assert_eq!(o, x.len());
		let sp = &mut self.spec;
		let nonzero_in = x.iter().any(|f| f.left != 0.0 || f.right != 0.0);
		if nonzero_in {
			sp.fresh = false;
		}
		sp.scale = sp.scale.max(maxabs(x)).max(if all_finite(&m) { maxabs(&m) } else { 0.0 });
		// ---- out-of-domain stream: only "finite in, non-finite out" is recorded
		if !sp.in_domain {
			if !all_finite(&m) {
				out.oracle_fail(&format!("ood_nonfinite_{}", sp.ood_class()), op);
			}
			return m;
		}
		// ---- C13 oracles
		if !all_finite(&m) {
			if !sp.ratio_path_open {
				out.oracle_fail("finite_output", op);
			}
			return m;
		}
		if sp.fresh && m.iter().any(|f| f.left != 0.0 || f.right != 0.0) {
			out.oracle_fail("silence_to_silence", op);
		}
		if !sp.is_static {
			return m;
		}
		if let Some((rf, _, _)) = sp.design(dt) {
			if rf >= 0.45 {
				sp.wild = true;
			}
		}
		sp.ng_max = sp.ng_max.max(sp.noise_gain(dt));
		// a long-running instance after a change of dt vs a fresh one at the new rate
		self.check_fresh(x, &m, part, dt, info, op, out);
		let sp = &mut self.spec;
		// split vs whole
		let mut w = x.to_vec();
		self.whole.process(&mut w, dt, info);
		if !same_bits(&m, &w) {
			out.oracle_fail("split_vs_whole", op);
		}
		if part.len() > 1 {
			evald(out, "split_vs_whole");
		}
		// linearity
		if is_linear(&sp.kind) && sp.lin_ok {
			let n = x.len();
			let y: Vec<Frame> = if y_same {
				x.to_vec()
			} else {
				(0..n).map(|i| Frame::new(x[n - 1 - i].right, x[n - 1 - i].left)).collect()
			};
			let mut s = Vec::with_capacity(n);
			let mut h = Vec::with_capacity(n);
			let mut exact = true;
			for i in 0..n {
				match (
					exact_add(x[i].left, y[i].left),
					exact_add(x[i].right, y[i].right),
					exact_half(x[i].left),
					exact_half(x[i].right),
				) {
					(Some(a), Some(b), Some(c), Some(d)) => {
						s.push(Frame::new(a, b));
						h.push(Frame::new(c, d));
					}
					_ => {
						exact = false;
						break;
					}
				}
			}
			if !exact {
				sp.lin_ok = false;
			} else {
				let mut yo = y.clone();
				self.ly.process(&mut yo, dt, info);
				self.lsum.process(&mut s, dt, info);
				self.lhalf.process(&mut h, dt, info);
				sp.scale = sp.scale.max(maxabs(&yo)).max(maxabs(&s));
				// rounding noise injected at an earlier dt (with its noise gain) may still be in the integrators
				let ng = sp.ng_max;
				let tol = LIN_EPS * ng * sp.scale;
				if std::env::var("FXA_STATS").is_ok() {
					let mut worst = 0.0f64;
					for i in 0..n {
						worst = worst
							.max(((s[i].left as f64) - (m[i].left as f64 + yo[i].left as f64)).abs())
							.max(((s[i].right as f64) - (m[i].right as f64 + yo[i].right as f64)).abs())
							.max(((h[i].left as f64) - 0.5 * (m[i].left as f64)).abs());
					}
					out.oracle.push(format!("!stat lin {:e} {:e} {}", worst / (sp.scale * ng / 16777216.0), worst / sp.scale, sp.kind));
				}
				for i in 0..n {
					if !close(s[i].left, m[i].left + yo[i].left, tol) || !close(s[i].right, m[i].right + yo[i].right, tol) {
						out.oracle_fail("superposition", op);
						break;
					}
				}
				for i in 0..n {
					if !close(h[i].left, 0.5 * m[i].left, tol) || !close(h[i].right, 0.5 * m[i].right, tol) {
						out.oracle_fail("scaling", op);
						break;
					}
				}
			}
		}
		// dry identity and the closed forms that hold frame by frame
		let sp = &self.spec;
		let tol6 = 1e-6 * sp.scale;
		match sp.kind.as_str() {
			"vol" => {
				let db = sp.p("volume") as f32;
				if db == 0.0 && !same_bits(&m, x) {
					out.oracle_fail("dry_identity_volume_0db", op);
				}
				// C14 volume law
				let amp = if db <= -60.0 { 0.0 } else { 10f64.powf(db as f64 / 20.0) };
				for i in 0..x.len() {
					let e = |v: f32| (v as f64 * amp) as f32;
					let t = 1e-5 * (x[i].left.abs().max(x[i].right.abs()) as f64) * amp + 1e-40;
					if !close(m[i].left, e(x[i].left), t) || !close(m[i].right, e(x[i].right), t) {
						out.oracle_fail("volume_law", op);
						break;
					}
				}
			}
			"pan" => {
				let p = sp.p("panning") as f32;
				if p == 0.0 && !same_bits(&m, x) {
					out.oracle_fail("dry_identity_pan_centre", op);
				}
				// C14 equal-power law
				let pc = (p as f64).clamp(-1.0, 1.0);
				let mixlr = (pc + 1.0) * 0.5;
				for i in 0..x.len() {
					let el = x[i].left as f64 * (1.0 - mixlr).sqrt() * std::f64::consts::SQRT_2;
					let er = x[i].right as f64 * mixlr.sqrt() * std::f64::consts::SQRT_2;
					let t = 1e-5 * (x[i].left.abs().max(x[i].right.abs()) as f64) + 1e-40;
					if p != 0.0 && (!close(m[i].left, el as f32, t) || !close(m[i].right, er as f32, t)) {
						out.oracle_fail("pan_law", op);
						break;
					}
				}
			}
			"filter" => {
				if sp.p("mix") <= 0.0 && !same_value(&m, x) {
					out.oracle_fail("dry_identity_filter_mix0", op);
				}
			}
			"eq" => {
				if sp.p("gain") == 0.0 {
					for i in 0..x.len() {
						if !close(m[i].left, x[i].left, tol6) || !close(m[i].right, x[i].right, tol6) {
							out.oracle_fail("dry_identity_eq_0db", op);
							break;
						}
					}
				}
			}
			"dist" => {
				if sp.p("mix") <= 0.0 && !same_value(&m, x) {
					out.oracle_fail("dry_identity_dist_mix0", op);
				}
				let db = sp.p("drive") as f32;
				if sp.mode == "hard" && db == 0.0 && sp.p("mix") >= 1.0 && maxabs(x) <= 1.0 && !same_value(&m, x) {
					out.oracle_fail("dry_identity_hardclip_0db", op);
				}
				// C14 clip curves (wet only)
				if sp.p("mix") >= 1.0 {
					let d = 10f64.powf(db as f64 / 20.0);
					for i in 0..x.len() {
						let e = |v: f32| {
							let u = v as f64 * d;
							(if sp.mode == "hard" { u.clamp(-1.0, 1.0) } else { u / (1.0 + u.abs()) }) / d
						};
						let t = |v: f32| 1e-5 * (v.abs() as f64) + 1e-37 / d.min(1.0);
						if !close(m[i].left, e(x[i].left) as f32, t(x[i].left))
							|| !close(m[i].right, e(x[i].right) as f32, t(x[i].right))
						{
							out.oracle_fail("dist_curve", op);
							break;
						}
					}
				}
			}
			"comp" => {
				if sp.p("mix") <= 0.0 && !same_value(&m, x) {
					out.oracle_fail("dry_identity_comp_mix0", op);
				}
			}
			_ => {}
		}
		m
	}
}

fn parse_frames(tok: &[&str]) -> Vec<Frame> {
	tok.chunks(2).map(|c| Frame::new(p32(c[0]), p32(c[1]))).collect()
}
fn show_frames(fs: &[Frame]) -> String {
	let mut s = String::from("=");
	for f in fs {
		s.push(' ');
		s += &h32(f.left);
		s.push(' ');
		s += &h32(f.right);
	}
	s
}

/// C14 "… with the configured attack and release time constants", for a release time configured at run time:
/// a constant input below the threshold (target envelope 0) while the gain is still reduced is the release phase,
/// where the envelope shrinks by exp(-dt/release) per frame (C14_compressor_envelope_contracts, release side) and
/// the applied gain is envelope·slope dB on top of the make-up gain (C14_compressor_output). The gain in dB is read
/// off the output, G_i = 20 log10(|out_i| / (|in|·makeup)), and has to follow G_i = G_0·exp(-dt/release)^i with the
/// release time in force — the builder's, or the last one set through the handle once its tween is over.
/// Premises: fully wet, every other parameter fixed and never set, a fixed release time certainly in force before
/// the run began. Tolerance: reading G off an f32 output costs < 1e-5 dB (a few roundings of 2^-24 are 5e-7 dB
/// each), the f32 recursion loses < 2^-23 of the value per frame: 1e-3·|G_0| + 2e-4 dB covers 8000 frames.
fn comp_release_oracle(sp: &Spec, release: Option<f64>, sig: &str, amp: f32, dt: f64, m: &[Frame], op: &str, out: &mut Out) {
	if !(sp.in_domain && sp.kind == "comp" && sig == "dc" && amp != 0.0 && !sp.comp_other_set && m.len() >= 2 && all_finite(m)) {
		return;
	}
	let Some(release) = release else { return };
	if !["threshold", "ratio", "attack", "makeup", "mix"].iter().all(|k| sp.fixed.contains_key(*k)) || sp.p("mix") < 1.0 {
		return;
	}
	let a = (amp as f64).abs();
	if !(20.0 * a.log10() - sp.p("threshold") < -0.5) || m.len() > 8000 {
		return;
	}
	let mk = 10f64.powf(sp.p("makeup") / 20.0);
	let gain_db = |v: f32| 20.0 * ((v as f64).abs() / (a * mk)).log10();
	let (g0l, g0r) = (gain_db(m[0].left), gain_db(m[0].right));
	if !(g0l.is_finite() && g0r.is_finite()) || g0l.abs() < 0.05 || g0r.abs() < 0.05 {
		return;
	}
	evald(out, "comp_release_rate");
	let s = if release == 0.0 { 0.0 } else { (-dt / release).exp() };
	let n = m.len();
	let tau = if release > 0.0 { ((release / dt).round() as usize).clamp(1, n - 1) } else { 1 };
	for i in [1, tau, n / 8, n / 4, n / 2, n - 1] {
		let decay = s.powi(i as i32);
		for (g0, v) in [(g0l, m[i].left), (g0r, m[i].right)] {
			let g = gain_db(v);
			if !((g - g0 * decay).abs() <= 1e-3 * g0.abs() + 2e-4) {
				out.oracle_fail(
					"comp_release_rate",
					format!("frame {} gain {:.6} dB documented {:.6} dB (release {} s) | {}", i, g, g0 * decay, release, op),
				);
				return;
			}
		}
	}
}

/// radius of the slower pole of the trapezoidal SVF with coefficients g, k (bilinear image of s² + k s + 1 at g)
pub fn pole_radius(g: f64, k: f64) -> f64 {
	let d = k * k / 4.0 - 1.0;
	if d >= 0.0 {
		let z = |s: f64| ((1.0 + s) / (1.0 - s)).abs();
		z(g * (-k / 2.0 + d.sqrt())).max(z(g * (-k / 2.0 - d.sqrt())))
	} else {
		let (re, im) = (-g * k / 2.0, g * (-d).sqrt());
		(((1.0 + re) * (1.0 + re) + im * im) / ((1.0 - re) * (1.0 - re) + im * im)).sqrt()
	}
}
/// has a transient decayed by e^-30 after n frames?
pub fn settled(g: f64, k: f64, n: usize) -> bool {
	let r = pole_radius(g, k);
	r < 1.0 && (n as f64) * (1.0 / r).ln() >= 30.0
}

/// compressor: every sample so far stayed below the threshold (with a margin) — envelope still 0
fn below_threshold(x: &[Frame], thr: f32) -> bool {
	x.iter().all(|f| {
		[f.left, f.right].iter().all(|v| *v == 0.0 || 20.0 * v.abs().log10() - thr < -1e-3)
	})
}

pub fn run(ops: &[String]) -> Vec<String> {
	run_cases(ops, None, |case: &[String], out: &mut Out| {
		let ids = ids();
		let mut info_state = InfoState::default();
		out.put(case[0].clone());
		let in_domain = case[0].split_whitespace().nth(2).map(|t| t != "ood").unwrap_or(true);
		let mut run: Option<Run> = None;
		// compressor: has any sample reached the threshold yet?
		let mut comp_quiet = true;
		for l in &case[1..] {
			let tok: Vec<&str> = l.split_whitespace().collect();
			match tok[0] {
				"info.clocks" => {
					info_state.parse_clocks(&tok);
					out.put("ok");
				}
				"info.mods" => {
					info_state.parse_mods(&tok);
					out.put("ok");
				}
				"new" => {
					run = Some(Run {
						main: build(&tok, &ids),
						whole: build(&tok, &ids),
						ly: build(&tok, &ids),
						lsum: build(&tok, &ids),
						lhalf: build(&tok, &ids),
						spec: Spec::from_new(&tok, in_domain),
						new_line: l.clone(),
						ibs: 1,
						last_dt: None,
						fresh: None,
						fresh_frames: 0,
					});
					comp_quiet = true;
					out.put("ok");
				}
				"init" => {
					let r = run.as_mut().unwrap();
					let (sr, ibs) = (pu(tok[1]) as u32, pu(tok[2]) as usize);
					for i in [&mut r.main, &mut r.whole, &mut r.ly, &mut r.lsum, &mut r.lhalf] {
						i.fx.init(sr, ibs);
					}
					r.ibs = ibs;
					out.put("ok");
				}
				"sr" => {
					let r = run.as_mut().unwrap();
					for i in [&mut r.main, &mut r.whole, &mut r.ly, &mut r.lsum, &mut r.lhalf].into_iter().chain(r.fresh.as_mut()) {
						i.fx.on_change_sample_rate(pu(tok[1]) as u32);
					}
					out.put("ok");
				}
				"start" => {
					let r = run.as_mut().unwrap();
					for i in [&mut r.main, &mut r.whole, &mut r.ly, &mut r.lsum, &mut r.lhalf].into_iter().chain(r.fresh.as_mut()) {
						i.fx.on_start_processing();
					}
					r.spec.note_comp_start();
					if let Some(m) = r.spec.pending_mode.take() {
						r.spec.mode = m;
						// new coefficients on both sides from here on: the settling time starts again
						r.fresh_frames = 0;
					}
					out.put("ok");
				}
				"set" => {
					let r = run.as_mut().unwrap();
					let tw = parse_tween(tok[3], &ids);
					r.main.set(tok[1], tok[2], tw, &ids);
					r.spec.note_set(tok[1], tok[2]);
					r.spec.note_comp_set(tok[1], tok[2], tok[3]);
					r.spec.note_ratio_tween(tok[1], tok[3]);
					out.put("ok");
				}
				"mode" => {
					let r = run.as_mut().unwrap();
					for i in [&mut r.main, &mut r.whole, &mut r.ly, &mut r.lsum, &mut r.lhalf].into_iter().chain(r.fresh.as_mut()) {
						i.mode(tok[1]);
					}
					r.spec.pending_mode = Some(tok[1].to_string());
					out.put("ok");
				}
				"proc" => {
					let r = run.as_mut().unwrap();
					let dt = p64(tok[1]);
					let part: Vec<usize> = tok[2].split(',').map(|s| s.parse().unwrap()).collect();
					let x = parse_frames(&tok[3..]);
					let info = info_state.build();
					let m = r.feed(&x, &part, dt, &info, l, out, false, &ids);
					out.put(show_frames(&m));
					r.spec.note_comp_time(&part, dt);
					let sp = &r.spec;
					if sp.in_domain && sp.is_static && sp.kind == "comp" && sp.p("mix") >= 1.0 {
						let thr = sp.p("threshold") as f32;
						comp_quiet = comp_quiet && below_threshold(&x, thr);
						if comp_quiet {
							evald(out, "comp_below_threshold");
							let mk = 10.0f32.powf(sp.p("makeup") as f32 / 20.0);
							let e: Vec<Frame> = x.iter().map(|f| Frame::new(f.left * mk, f.right * mk)).collect();
							if !same_value(&m, &e) {
								out.oracle_fail("comp_below_threshold", l);
							}
						}
					}
				}
				"twchk" => {
					tween_time_oracle(&tok, l, &ids, out);
					tween_during_oracle(&tok, l, &ids, out);
					out.put("ok");
				}
				"run" => {
					let r = run.as_mut().unwrap();
					let sig = tok[1];
					let (amp, freq, seed, dt) = (p32(tok[2]), p64(tok[3]), pu(tok[4]), p64(tok[5]));
					let (ibs, count) = (pu(tok[6]) as usize, pu(tok[7]) as usize);
					let mut st = seed;
					let x: Vec<Frame> = (0..(ibs * count) as u64).map(|k| sig_frame(sig, amp, freq, dt, k, &mut st)).collect();
					let part = vec![ibs; count];
					let info = info_state.build();
					let was_fresh = r.spec.fresh;
					let release_in_force = r.spec.comp_release;
					let m = r.feed(&x, &part, dt, &info, l, out, true, &ids);
					r.spec.note_comp_time(&part, dt);
					comp_release_oracle(&r.spec, release_in_force, sig, amp, dt, &m, l, out);
					let (mut sum, mut nonfinite) = (0u32, 0u64);
					for v in m.iter().flat_map(|f| [f.left, f.right]) {
						if !v.is_finite() {
							nonfinite += 1;
						}
						if !v.is_nan() {
							sum = sum.wrapping_add(v.to_bits());
						}
					}
					let last = m.last().copied().unwrap_or(Frame::ZERO);
					out.put(format!("{} {} {} {}", h32(last.left), h32(last.right), sum, nonfinite));
					comp_quiet = false;
					// ---- C14: settled responses to a constant input
					let sp = &r.spec;
					if sp.in_domain && sp.is_static && sig == "dc" && !m.is_empty() && amp != 0.0 && all_finite(&m) {
						let t_total = dt * (ibs * count) as f64;
						let a = amp as f64;
						match sp.kind.as_str() {
							"filter" => {
								let rf = (sp.p("cutoff") * dt).clamp(0.0001, 0.5);
								let k = 2.0 - 1.9 * sp.p("resonance").clamp(0.0, 1.0);
								let g = (std::f64::consts::PI * rf).tan();
								if rf < 0.45 && settled(g, k, ibs * count) {
									evald(out, "dc_gain_filter");
									let mix = sp.p("mix").clamp(0.0, 1.0);
									let wet = match sp.mode.as_str() {
										"lp" | "notch" => a,
										_ => 0.0,
									};
									let e = wet * mix.sqrt() + a * (1.0 - mix).sqrt();
									let t = 2e-3 * a.abs() + 1e-11 * sp.scale;
									if !close(last.left, e as f32, t) || !close(last.right, -e as f32, t) {
										out.oracle_fail("dc_gain_filter", l);
									}
								}
							}
							"eq" => {
								let rf = (sp.p("frequency") * dt).clamp(0.0001, 0.5);
								let q = sp.p("q").max(0.01);
								let g = 10f64.powf(sp.p("gain") / 40.0);
								let t = (std::f64::consts::PI * rf).tan();
								let (gg, k) = match sp.mode.as_str() {
									"bell" => (t, 1.0 / (q * g)),
									"ls" => (t / g.sqrt(), 1.0 / q),
									_ => (t * g.sqrt(), 1.0 / q),
								};
								if rf < 0.45 && settled(gg, k, ibs * count) {
									evald(out, "dc_gain_eq");
									let gain = if sp.mode == "ls" { g * g } else { 1.0 };
									let e = a * gain;
									let t = 2e-3 * e.abs().max(a.abs()) + 1e-11 * sp.scale;
									if !close(last.left, e as f32, t) || !close(last.right, -e as f32, t) {
										out.oracle_fail("dc_gain_eq", l);
									}
								}
							}
							"comp" => {
								let thr = sp.p("threshold") as f32 as f64;
								let ratio = sp.p("ratio") as f32 as f64;
								let level = 20.0 * a.abs().log10();
								let over = (level - thr).max(0.0);
								let tau = sp.p("attack").max(sp.p("release"));
								if sp.p("mix") >= 1.0 && (tau == 0.0 || t_total / tau >= 30.0) && (over > 0.5 || level - thr < -0.5) {
									evald(out, if over > 0.0 { "comp_steady_state_above" } else { "comp_steady_state_below" });
									let gr = over * comp_slope(ratio);
									let e = a * 10f64.powf(gr / 20.0) * 10f64.powf(sp.p("makeup") / 20.0);
									let t = 1e-3 * e.abs() + 1e-11 * sp.scale;
									if !close(last.left, e as f32, t) || !close(last.right, -e as f32, t) {
										out.oracle_fail("comp_steady_state", l);
									}
								}
							}
							_ => {}
						}
					}
					// ---- C14: the attack curve from rest: envelope_i = over (1 - exp(-dt/attack)^(i+1)) (theorem C14_compressor_constant_level)
					if sp.in_domain && sp.is_static && sp.kind == "comp" && was_fresh && sig == "dc" && amp != 0.0 && all_finite(&m)
						&& sp.p("mix") >= 1.0
					{
						let a = amp as f64;
						let thr = sp.p("threshold") as f32 as f64;
						let ratio = sp.p("ratio") as f32 as f64;
						let over = (20.0 * a.abs().log10() - thr).max(0.0);
						let att = sp.p("attack");
						let sp_a = if att == 0.0 { 0.0 } else { (-dt / att).exp() };
						if over > 0.5 {
							evald(out, "comp_attack_curve");
							let n = m.len();
							for i in [0, n / 4, n / 2, n - 1] {
								let env = over * (1.0 - sp_a.powi(i as i32 + 1));
								let e = a * 10f64.powf(env * comp_slope(ratio) / 20.0) * 10f64.powf(sp.p("makeup") / 20.0);
								let t = 2e-3 * e.abs() + 1e-30;
								if !close(m[i].left, e as f32, t) || !close(m[i].right, -e as f32, t) {
									out.oracle_fail("comp_attack_curve", l);
									break;
								}
							}
						}
					}
					// ---- C14: settled responses at the Nyquist frequency and to a sine at the corner frequency
					let n_total = ibs * count;
					if sp.in_domain && sp.is_static && (sig == "nyq" || sig == "sine") && n_total > 0 && amp != 0.0 && all_finite(&m)
						&& (sp.kind == "filter" || sp.kind == "eq")
					{
						let a = (amp as f64).abs();
						let pi = std::f64::consts::PI;
						// design coefficients (g, k) and the wet responses (dc, corner, nyquist) of the current mode
						let (rf, g, k, at_corner, at_nyq, mixv) = if sp.kind == "filter" {
							let rf = (sp.p("cutoff") * dt).clamp(0.0001, 0.5);
							let k = 2.0 - 1.9 * sp.p("resonance").clamp(0.0, 1.0);
							let (c, ny) = match sp.mode.as_str() {
								"lp" => (1.0 / k, 0.0),
								"bp" => (1.0 / k, 0.0),
								"hp" => (1.0 / k, 1.0),
								_ => (0.0, 1.0),
							};
							(rf, (pi * rf).tan(), k, c, ny, sp.p("mix").clamp(0.0, 1.0))
						} else {
							let rf = (sp.p("frequency") * dt).clamp(0.0001, 0.5);
							let q = sp.p("q").max(0.01);
							let ga = 10f64.powf(sp.p("gain") / 40.0);
							let t = (pi * rf).tan();
							match sp.mode.as_str() {
								"bell" => (rf, t, 1.0 / (q * ga), ga * ga, 1.0, 1.0),
								"ls" => (rf, t / ga.sqrt(), 1.0 / q, f64::NAN, 1.0, 1.0),
								_ => (rf, t * ga.sqrt(), 1.0 / q, f64::NAN, ga * ga, 1.0),
							}
						};
						let param_f = if sp.kind == "filter" { sp.p("cutoff") } else { sp.p("frequency") };
						if sig == "nyq" && rf < 0.45 && settled(g, k, n_total) && (sp.kind == "eq" || mixv >= 1.0) {
							evald(out, "nyquist_gain");
							let xl = if (n_total - 1) % 2 == 0 { amp as f64 } else { -(amp as f64) };
							let e = xl * at_nyq;
							let t = 2e-3 * a.max(e.abs()) + 1e-11 * sp.scale;
							if !close(last.left, e as f32, t) || !close(last.right, -e as f32, t) {
								out.oracle_fail("nyquist_gain", l);
							}
						}
						let period = 1.0 / (freq * dt);
						let win = (20.0 * period).round() as usize;
						if sig == "sine" && freq == param_f && !at_corner.is_nan() && rf == freq * dt && rf <= 0.2 && period >= 4.0
							&& n_total > win && settled(g, k, n_total - win) && (sp.kind == "eq" || mixv >= 1.0)
						{
							evald(out, "corner_gain");
							let ms: f64 = m[n_total - win..].iter().map(|f| (f.left as f64) * (f.left as f64)).sum::<f64>() / win as f64;
							let measured = (2.0 * ms).sqrt();
							let e = a * at_corner;
							if (measured - e).abs() > 0.03 * a.max(e) + 1e-9 * sp.scale {
								out.oracle_fail("corner_gain", l);
							}
						}
					}
				}
				_ => panic!("fxa: unknown op {}", tok[0]),
			}
		}
	})
}

// ------------------------------------------------------------------------------------------
// generator
// ------------------------------------------------------------------------------------------

const SAMPLE_RATES: &[u32] = &[8000, 11025, 22050, 44100, 48000, 88200, 96000, 192000];
const IBS: &[usize] = &[1, 2, 7, 16, 64, 128, 512];

fn log_uniform(rng: &mut Rng, lo: f64, hi: f64) -> f64 {
	(rng.uniform(lo.ln(), hi.ln())).exp()
}

/// one numeric value of parameter `name` (documented range when `ind`, beyond it otherwise)
fn gen_num(rng: &mut Rng, kind: &str, name: &str, sr: f64, ind: bool) -> f64 {
	let ny = sr / 2.0;
	match (kind, name) {
		("vol", _) => {
			if !ind && rng.chance(1, 2) {
				rng.pick(&[-100.0, -1000.0, 60.0, 100.0])
			} else if rng.chance(1, 2) {
				rng.pick(&[-60.0, 0.0, -6.0, 6.0, -59.9, -61.0, 12.0, -30.0, -3.0])
			} else {
				rng.uniform(-70.0, 12.0)
			}
		}
		("pan", _) => {
			if !ind && rng.chance(1, 2) {
				rng.pick(&[-5.0, 5.0, 1.5, -1.0000001])
			} else if rng.chance(1, 2) {
				rng.pick(&[-1.0, 0.0, 1.0, 0.5, -0.5, 0.25])
			} else {
				rng.uniform(-1.0, 1.0)
			}
		}
		("filter", "cutoff") | ("eq", "frequency") => {
			if !ind && rng.chance(1, 2) {
				rng.pick(&[0.0, -100.0, 1e9, 1e-9, -1e9])
			} else if rng.chance(1, 2) {
				rng.pick(&[20.0, 20000.0, 1000.0, ny, ny * 0.99, ny * 1.01, sr * 0.0001, 100.0, 5000.0, 500.0, sr, ny * 0.5])
			} else {
				log_uniform(rng, 20.0, 20000.0)
			}
		}
		("filter", "resonance") => {
			if !ind && rng.chance(1, 2) {
				rng.pick(&[-1.0, 2.0, 1.0000001, -0.001, 100.0])
			} else if rng.chance(1, 2) {
				rng.pick(&[0.0, 1.0, 0.5, 0.9, 0.99, 0.1])
			} else {
				rng.uniform(0.0, 1.0)
			}
		}
		(_, "mix") => {
			if !ind && rng.chance(1, 2) {
				rng.pick(&[-1.0, 2.0, -0.001, 1.0000001])
			} else if rng.chance(2, 3) {
				rng.pick(&[0.0, 1.0, 0.5, 1.0, 0.25])
			} else {
				rng.uniform(0.0, 1.0)
			}
		}
		("eq", "gain") => {
			if !ind && rng.chance(1, 2) {
				rng.pick(&[-100.0, 100.0, -200.0, 60.0])
			} else if rng.chance(1, 2) {
				rng.pick(&[0.0, 6.0, -6.0, 12.0, -12.0, 24.0, -24.0, 3.0, -60.0])
			} else {
				rng.uniform(-24.0, 24.0)
			}
		}
		("eq", "q") => {
			if !ind && rng.chance(1, 2) {
				rng.pick(&[0.0, -1.0, -0.01, 1e-12, 1e6])
			} else if rng.chance(1, 2) {
				rng.pick(&[0.01, 0.5, 0.7071067811865476, 1.0, 2.0, 10.0, 0.001, 0.1])
			} else {
				log_uniform(rng, 0.01, 20.0)
			}
		}
		("dist", "drive") => {
			if !ind && rng.chance(2, 3) {
				rng.pick(&[-60.0, -61.0, -100.0, -60.000004, -59.999996, 80.0])
			} else if rng.chance(1, 2) {
				rng.pick(&[0.0, 6.0, 12.0, 24.0, -6.0, -12.0, -59.0, -50.0, 40.0])
			} else {
				rng.uniform(-40.0, 40.0)
			}
		}
		("comp", "threshold") => {
			if !ind && rng.chance(1, 2) {
				rng.pick(&[-200.0, 200.0, 1000.0])
			} else if rng.chance(1, 2) {
				rng.pick(&[0.0, -6.0, -12.0, -24.0, -40.0, -3.0])
			} else {
				rng.uniform(-50.0, 0.0)
			}
		}
		("comp", "ratio") => {
			if !ind && rng.chance(2, 3) {
				rng.pick(&[0.0, -1.0, -0.0, -4.0])
			} else if rng.chance(1, 2) {
				// 0 and -0: no reciprocal — the dynamics stay unchanged, like ratio 1 (in domain since the repair)
				rng.pick(&[1.0, 2.0, 4.0, 8.0, 20.0, 0.5, 100.0, 1.5, 0.0, -0.0])
			} else {
				rng.uniform(0.5, 20.0)
			}
		}
		("comp", "makeup") => {
			if !ind && rng.chance(1, 2) {
				rng.pick(&[-100.0, 100.0, -60.0])
			} else if rng.chance(1, 2) {
				rng.pick(&[0.0, -6.0, 6.0, 12.0, 3.0])
			} else {
				rng.uniform(-12.0, 12.0)
			}
		}
		_ => panic!("gen_num {} {}", kind, name),
	}
}
fn gen_dur_ns(rng: &mut Rng) -> u64 {
	match rng.below(8) {
		0 => 0,
		1 => 1_000_000,
		2 => 10_000_000,
		3 => 100_000_000,
		4 => 1_000,
		5 => rng.below(2_000_000),
		_ => rng.below(200_000_000),
	}
}
fn fmt_num(x: f64, is32: bool) -> String {
	if is32 {
		o32(x as f32)
	} else {
		o64(x)
	}
}
/// a `Value` of parameter `name`: fixed, or (when `allow_mod`) linked to a modulator
fn gen_val(rng: &mut Rng, kind: &str, name: &str, is32: bool, isdur: bool, sr: f64, ind: bool, allow_mod: bool) -> String {
	let one = |rng: &mut Rng| {
		if isdur {
			format!("{}", gen_dur_ns(rng))
		} else {
			fmt_num(gen_num(rng, kind, name, sr, ind), is32)
		}
	};
	if !allow_mod || rng.chance(5, 6) {
		format!("fix:{}", one(rng))
	} else {
		let i0 = rng.uniform(-2.0, 2.0);
		let i1 = i0 + rng.pick(&[1.0, -1.0, 0.5, 3.0]);
		format!(
			"mod:{}:{},{},{},{},{}",
			rng.below(MAX_IDS as u64),
			o64(i0),
			o64(i1),
			one(rng),
			one(rng),
			fmt_easing(&gen_easing(rng))
		)
	}
}
fn gen_fx_tween(rng: &mut Rng) -> String {
	let start = match rng.below(10) {
		0..=5 => "imm".to_string(),
		6 => "del:0".into(),
		7 => format!("del:{}", rng.below(5_000_000)),
		_ => format!("clk:{}:{}:{}", rng.below(MAX_IDS as u64), rng.below(4), o64(rng.pick(&[0.0, 0.5, 0.25]))),
	};
	let dur = match rng.below(8) {
		0 => 0,
		1 => 1,
		2 => 1_000_000,
		3 => 10_000_000,
		4 => rng.below(100_000),
		_ => rng.below(30_000_000),
	};
	format!("{};{};{}", start, dur, fmt_easing(&gen_easing(rng)))
}

const SAMPLE_POOL: &[f32] = &[
	0.0, -0.0, 1.0, -1.0, 0.5, -0.5, 0.25, 0.999, -0.999, 1e-3, -1e-3, 1e-10, 1e-38, -1e-38, 1e-40, -1e-40, 1e-45, 0.1,
	-0.1, 0.70710677, 2.0, -2.0, 1.0000001, 0.99999994,
];

/// `n` frames of a generated input shape
fn gen_frames(rng: &mut Rng, n: usize, exactish: bool, stats: &mut Stats) -> Vec<(f32, f32)> {
	let grid = |rng: &mut Rng| (rng.range(-1024, 1024) as f32) / 1024.0;
	let shape = if exactish { rng.pick(&[1, 1, 2, 3, 4, 5, 7]) } else { rng.below(9) };
	stats.hit(match shape {
		0 => "in_noise",
		1 => "in_grid_noise",
		2 => "in_impulse",
		3 => "in_step",
		4 => "in_dc",
		5 => "in_fullscale",
		6 => "in_denormal",
		7 => "in_zeros",
		_ => "in_pool",
	});
	let a = if rng.chance(1, 2) { 1.0 } else { grid(rng) };
	(0..n)
		.map(|i| match shape {
			0 => (rng.uniform(-1.0, 1.0) as f32, rng.uniform(-1.0, 1.0) as f32),
			1 => (grid(rng), grid(rng)),
			2 => {
				if i == 0 {
					(a, -a)
				} else {
					(0.0, 0.0)
				}
			}
			3 => {
				if i < n / 2 {
					(0.0, 0.0)
				} else {
					(a, a)
				}
			}
			4 => (a, 0.5 * a),
			5 => (if rng.chance(1, 2) { 1.0 } else { -1.0 }, if i % 2 == 0 { 1.0 } else { -1.0 }),
			6 => (rng.pick(&[1e-40f32, -1e-40, 1e-45, 3e-39, 0.0]), rng.pick(&[1e-39f32, -1e-42, 1.1754942e-38])),
			7 => (0.0, 0.0),
			_ => (rng.pick(SAMPLE_POOL), rng.pick(SAMPLE_POOL)),
		})
		.collect()
}
fn gen_partition(rng: &mut Rng, n: usize, ibs: usize) -> Vec<usize> {
	if n == 0 {
		return vec![0];
	}
	let mut left = n;
	let mut p = vec![];
	let style = rng.below(4);
	while left > 0 {
		let k = match style {
			0 => left.min(ibs),
			1 => 1,
			_ => (rng.range(1, ibs.min(left) as i64) as usize).min(left),
		};
		p.push(k);
		left -= k;
		if rng.chance(1, 30) {
			p.push(0);
		}
	}
	p
}

fn gen_new(rng: &mut Rng, kind: &str, sr: f64, ind: bool, is_static: bool) -> String {
	let mut s = format!("new {}", kind);
	match kind {
		"filter" => s += &format!(" {}", rng.pick(&["lp", "bp", "hp", "notch"])),
		"eq" => s += &format!(" {}", rng.pick(&["bell", "ls", "hs"])),
		"dist" => s += &format!(" {}", rng.pick(&["hard", "soft"])),
		_ => {}
	}
	for (name, is32, isdur) in params_of(kind) {
		s += &format!(" {}", gen_val(rng, kind, name, *is32, *isdur, sr, ind, !is_static));
	}
	s
}

/// C14 probe case: a static in-domain effect and one long `run` that meets the premise of a
/// transfer-behaviour oracle (settled DC / Nyquist / corner-sine response, compressor steady state)
fn gen_probe(rng: &mut Rng, case: usize, thorough: bool, stats: &mut Stats, out: &mut Vec<String>) {
	let sr_hz = rng.pick(SAMPLE_RATES);
	let dt = 1.0 / sr_hz as f64;
	let budget = if thorough { 60000 } else { 8000 };
	let pi = std::f64::consts::PI;
	let fix64 = |x: f64| format!("fix:{}", o64(x));
	let fix32 = |x: f64| format!("fix:{}", o32(x as f32));
	let amp = rng.pick(&[1.0f32, 0.5, 0.25, 0.1]);
	let kind = rng.pick(&["filter", "eq", "comp"]);
	stats.hit(&format!("probe_{}", kind));
	out.push(format!("case {} in", case));
	// rate-change probe: the instance first runs at another rate, then the device rate changes and the
	// settled response is measured at the new rate (C14 "at any sample rate", C16)
	let other: Vec<u32> = SAMPLE_RATES.iter().copied().filter(|r| *r != sr_hz).collect();
	let before = if rng.chance(1, 2) { Some(rng.pick(&other)) } else { None };
	let prelude = |rng: &mut Rng, stats: &mut Stats, out: &mut Vec<String>, quiet: bool| match before {
		Some(sr0) => {
			stats.hit("probe_rate_change");
			out.push(format!("init {} 64", sr0));
			let sig = if quiet { "zero" } else { rng.pick(&["noise", "dc", "sine", "nyq"]) };
			let n0 = rng.range(1, 12) as u64;
			out.push(format!(
				"run {} {} {} {} {} 64 {}",
				sig, o32(rng.pick(&[1.0f32, 0.5, 0.25])), o64(rng.pick(&[100.0, 440.0, 1000.0])), rng.next() >> 1, o64(1.0 / sr0 as f64), n0
			));
			stats.add("run_frames", 64 * n0);
			if rng.chance(1, 6) {
				stats.hit("probe_rate_change_bare_dt");
			} else {
				out.push(format!("sr {}", sr_hz));
			}
		}
		None => out.push(format!("init {} 64", sr_hz)),
	};
	for _attempt in 0..50 {
		let rf = log_uniform(rng, 0.004, 0.2);
		let f = rf / dt;
		let sig = rng.pick(&["dc", "nyq", "sine"]);
		let (newline, g, k) = match kind {
			"filter" => {
				let res = rng.pick(&[0.0, 0.5, 0.9, 1.0, 0.25]);
				let mix = if sig == "dc" { rng.pick(&[1.0, 1.0, 0.5, 0.0]) } else { 1.0 };
				(
					format!("new filter {} {} {} {}", rng.pick(&["lp", "bp", "hp", "notch"]), fix64(f), fix64(res), fix32(mix)),
					(pi * rf).tan(),
					2.0 - 1.9 * res,
				)
			}
			"eq" => {
				let gain = rng.pick(&[0.0, 6.0, -6.0, 12.0, -12.0, 3.0, 18.0]);
				let q = rng.pick(&[0.5, 0.7071067811865476, 1.0, 2.0, 4.0]);
				let a = 10f64.powf(gain / 40.0);
				let mode = rng.pick(&["bell", "ls", "hs"]);
				let t = (pi * rf).tan();
				let (g, k) = match mode {
					"bell" => (t, 1.0 / (q * a)),
					"ls" => (t / a.sqrt(), 1.0 / q),
					_ => (t * a.sqrt(), 1.0 / q),
				};
				(format!("new eq {} {} {} {}", mode, fix64(f), fix32(gain), fix64(q)), g, k)
			}
			_ => {
				let thr = rng.pick(&[-6.0, -12.0, -24.0, -30.0]);
				let ratio = rng.pick(&[2.0, 4.0, 8.0, 1.0, 0.5, 20.0, 0.0]);
				let att = rng.pick(&[0u64, 100_000, 1_000_000, 2_000_000]);
				let rel = rng.pick(&[0u64, 100_000, 1_000_000, 2_000_000]);
				let makeup = rng.pick(&[0.0, 6.0, -6.0]);
				if rng.chance(1, 2) {
					// release probe: settle above the threshold, (mostly) give a new release time through the handle,
					// let its tween run out, then drop below the threshold and watch the gain recover
					stats.hit("probe_comp_release");
					let ratio = rng.pick(&[2.0, 4.0, 8.0, 0.5, 20.0]);
					let att = rng.pick(&[0u64, 100_000, 1_000_000]);
					let pool = [0u64, 100_000, 1_000_000, 2_000_000, 5_000_000, 20_000_000];
					let rel0 = rng.pick(&pool);
					let rel1 = rng.pick(&pool);
					out.push(format!(
						"new comp {} {} fix:{} fix:{} {} {}",
						fix64(thr), fix64(ratio), att, rel0, fix32(makeup), fix32(1.0)
					));
					out.push(format!("init {} 64", sr_hz));
					let n1 = ((30.5 * att as f64 * 1e-9 / dt).ceil() as usize) / 64 + 2;
					out.push(format!("run dc {} {} 0 {} 64 {}", o32(1.0), o64(0.0), o64(dt), n1));
					let mut rel = rel0;
					if rng.chance(3, 4) {
						let delay = rng.pick(&[0u64, 0, 500_000]);
						let dur = rng.pick(&[0u64, 1_000_000, 3_000_000]);
						let start = if delay == 0 { "imm".to_string() } else { format!("del:{}", delay) };
						out.push(format!("set release fix:{} {};{};{}", rel1, start, dur, fmt_easing(&gen_easing(rng))));
						out.push("start".into());
						let n2 = (((delay + dur) as f64 * 1e-9 / dt).ceil() as usize) / 64 + 3;
						out.push(format!("run dc {} {} 0 {} 64 {}", o32(1.0), o64(0.0), o64(dt), n2));
						rel = rel1;
					}
					let n3 = (((3.0 * rel as f64 * 1e-9 / dt).ceil() as usize) / 64 + 4).min(100);
					out.push(format!("run dc {} {} 0 {} 64 {}", o32(0.01), o64(0.0), o64(dt), n3));
					stats.add("run_frames", (64 * (n1 + n3)) as u64);
					return;
				}
				let tau = att.max(rel) as f64 * 1e-9;
				let n = ((30.5 * tau / dt).ceil() as usize).max(8);
				if n > budget {
					continue;
				}
				out.push(format!(
					"new comp {} {} fix:{} fix:{} {} {}",
					fix64(thr), fix64(ratio), att, rel, fix32(makeup), fix32(1.0)
				));
				let quiet = rng.chance(1, 2);
				prelude(rng, stats, out, quiet);
				out.push(format!("run dc {} {} 0 {} 64 {}", o32(amp), o64(0.0), o64(dt), n / 64 + 1));
				stats.add("run_frames", (64 * (n / 64 + 1)) as u64);
				return;
			}
		};
		let r = pole_radius(g, k);
		if !(r < 1.0) {
			continue;
		}
		let mut n = (30.5 / (1.0 / r).ln()).ceil() as usize;
		if sig == "sine" {
			n += (20.0 / rf).round() as usize + 1;
		}
		if n > budget {
			continue;
		}
		out.push(newline);
		prelude(rng, stats, out, false);
		out.push(format!("run {} {} {} 0 {} 64 {}", sig, o32(amp), o64(f), o64(dt), n / 64 + 1));
		stats.hit(&format!("probe_{}", sig));
		stats.add("run_frames", (64 * (n / 64 + 1)) as u64);
		return;
	}
	out.push("new vol fix:00000000".into());
}

pub fn gen(rng: &mut Rng, n: usize, thorough: bool, stats: &mut Stats) -> Vec<String> {
	let mut out = vec![];
	for case in 0..n {
		if rng.chance(1, 10) {
			gen_probe(rng, case, thorough, stats, &mut out);
			continue;
		}
		if rng.chance(1, 8) {
			let during = rng.chance(2, 5);
			gen_tween_time_case(rng, case, during, stats, &mut out);
			continue;
		}
		let ind = !rng.chance(1, 7);
		let kind = rng.pick(&["vol", "pan", "filter", "filter", "eq", "eq", "dist", "comp", "comp"]);
		let is_static = rng.chance(1, 2);
		let sr_hz = rng.pick(SAMPLE_RATES);
		// the rate in force: changes within the case (`sr` op, or a bare change of dt)
		let mut sr = sr_hz as f64;
		let mut dt = 1.0 / sr;
		let ibs = rng.pick(IBS);
		out.push(format!("case {} {}", case, if ind { "in" } else { "ood" }));
		stats.hit(&format!("fx_{}", kind));
		stats.hit(if ind { "domain_in" } else { "domain_ood" });
		stats.hit(if is_static { "static" } else { "dynamic" });
		stats.hit(&format!("sr_{}", sr_hz));
		out.push(gen_new(rng, kind, sr, ind, is_static));
		out.push(format!("init {} {}", sr_hz, ibs));
		let steps = rng.range(3, 9);
		let exactish = is_static && is_linear(kind) && rng.chance(3, 4);
		let mut long_runs = 0;
		for _ in 0..steps {
			if rng.chance(1, 14) {
				// a bare change of dt (no `sr` op): the six effects take their time base from dt alone
				sr = rng.pick(SAMPLE_RATES) as f64;
				dt = 1.0 / sr;
				stats.hit("dt_change");
			}
			let line = match rng.below(16) {
				0 if !is_static => {
					let k = rng.below(MAX_IDS as u64 + 1);
					let mut s = format!("info.clocks {}", k);
					for _ in 0..k {
						s += &format!(" {} {} {}", rng.below(2), rng.below(4), o64(rng.pick(&[0.0, 0.5, 0.25, 0.75])));
					}
					s
				}
				1 if !is_static => {
					let k = rng.below(MAX_IDS as u64 + 1);
					let mut s = format!("info.mods {}", k);
					for _ in 0..k {
						s += &format!(" {}", o64(rng.uniform(-3.0, 3.0)));
					}
					s
				}
				2 | 3 if !is_static => {
					let ps = params_of(kind);
					let (name, is32, isdur) = ps[rng.below(ps.len() as u64) as usize];
					format!("set {} {} {}", name, gen_val(rng, kind, name, is32, isdur, sr, ind, true), gen_fx_tween(rng))
				}
				4 if has_mode(kind) => format!(
					"mode {}",
					match kind {
						"filter" => rng.pick(&["lp", "bp", "hp", "notch"]),
						"eq" => rng.pick(&["bell", "ls", "hs"]),
						_ => rng.pick(&["hard", "soft"]),
					}
				),
				5 | 6 => "start".to_string(),
				7 | 10 if rng.chance(1, 2) => {
					// device sample-rate change: `on_change_sample_rate`, then (7 times in 8) dt = 1 / new rate
					let r = rng.pick(SAMPLE_RATES);
					if rng.chance(7, 8) {
						sr = r as f64;
						dt = 1.0 / sr;
						stats.hit("sr_then_dt");
					}
					format!("sr {}", r)
				}
				8 | 9 if long_runs < 2 => {
					long_runs += 1;
					let sig = rng.pick(&["zero", "dc", "dc", "imp", "step", "nyq", "noise", "noise", "sine"]);
					let amp = rng.pick(&[1.0f32, 0.5, 0.25, -1.0, 0.1, 1e-3, 1e-20, 1e-39, 2.0]);
					let freq = match rng.below(3) {
						0 => rng.pick(&[10.0, 100.0, 1000.0, 440.0]),
						1 => sr / 2.0 * rng.uniform(0.0, 1.0),
						_ => log_uniform(rng, 10.0, sr / 2.0),
					};
					let rb = rng.pick(&[1usize, 16, 64, 128, 512]);
					let budget = if thorough { 40000 } else { 6000 };
					let total = match rng.below(3) {
						0 => rng.range(1, 200) as usize,
						1 => rng.range(200, 2000) as usize,
						_ => rng.range(2000, budget) as usize,
					};
					let count = (total / rb).max(1).min(if rb == 1 { 300 } else { 100000 });
					stats.hit(&format!("run_{}", sig));
					stats.add("run_frames", (rb * count) as u64);
					format!("run {} {} {} {} {} {} {}", sig, o32(amp), o64(freq), rng.next() >> 1, o64(dt), rb, count)
				}
				_ => {
					let nfr = match rng.below(6) {
						0 => 0,
						1 => 1,
						2 => ibs.min(48),
						_ => rng.range(1, 48) as usize,
					};
					let fr = gen_frames(rng, nfr, exactish, stats);
					let part = gen_partition(rng, nfr, ibs);
					let mut s = format!(
						"proc {} {}",
						o64(dt),
						part.iter().map(|k| k.to_string()).collect::<Vec<_>>().join(",")
					);
					for (l, r) in fr {
						s += &format!(" {} {}", o32(l), o32(r));
					}
					stats.add("proc_frames", nfr as u64);
					s
				}
			};
			stats.hit(line.split(' ').next().unwrap());
			out.push(line);
		}
	}
	out
}

// ------------------------------------------------------------------------------------------
// C06 on the effects: every handle-settable parameter, tweened over a non-zero duration while the effect is
// processed in blocks of more than one frame
// ------------------------------------------------------------------------------------------

fn lcg_frames(seed: &mut u64, amp: f32, n: usize) -> Vec<Frame> {
	(0..n)
		.map(|_| {
			let s1 = lcg_next(*seed);
			let s2 = lcg_next(s1);
			*seed = s2;
			Frame::new(lcg_val(s1) * amp, lcg_val(s2) * amp)
		})
		.collect()
}

/// `twchk <sr> <N> <param> <target> <delay ns> <dur ns> <easing> <amp32> <seed> new <kind> …` (oracle only; the twin
/// prints `ok`).  Three instances of the effect described by the `new …` tail get the same noise, `dt = 1/sr`:
///   A: `set <param> <target>` with the tween (start delayed by <delay>, duration <dur>), processed in blocks of N frames;
///   C: the same, processed frame by frame;      B: the same `set` with an instant tween, blocks of N.
/// C06 (a tween ends on its target after its duration of AUDIO time, however that time is cut into updates): once
/// delay + duration (rounded up to a block, plus two blocks for the per-block sampling) has been processed, the
/// parameter sits at its target in all three.  Memoryless effects (volume, panning, distortion) must then give
/// identical output; for the filters and the compressor the memory of the tween decays (pole radius of the final
/// design / the envelope's time constants), after which the outputs must agree closely.
fn tween_time_oracle(tok: &[&str], line: &str, ids: &Ids, out: &mut Out) {
	let (sr, n) = (pu(tok[1]) as u32, pu(tok[2]) as usize);
	let (param, target) = (tok[3], tok[4]);
	let (delay, dur) = (pu(tok[5]), pu(tok[6]));
	let (amp, mut seed) = (p32(tok[8]), pu(tok[9]));
	let new = &tok[10..];
	let kind = new[1];
	let dt = 1.0 / sr as f64;
	// the settings after the tween: the `new` line with the target in place
	let pos = params_of(kind).iter().position(|(p, _, _)| *p == param).expect("twchk: parameter");
	let mut fin: Vec<&str> = new.to_vec();
	fin[2 + has_mode(kind) as usize + pos] = target;
	let sp = Spec::from_new(&fin, true);
	// frames until the memory of the tween has decayed, and the comparison
	let (settle, cmp) = match kind {
		"vol" | "pan" | "dist" => (0usize, Cmp::Bits),
		"filter" | "eq" => {
			let (rf, g, k) = sp.design(dt).unwrap();
			let r = pole_radius(g, k);
			if !(rf < 0.45 && r < 1.0) {
				return;
			}
			((30.0 / (1.0 / r).ln()).ceil() as usize, Cmp::Abs(4e-3 * amp.abs() as f64))
		}
		_ => {
			let tau = sp.p("attack").max(sp.p("release"));
			((30.0 * tau / dt).ceil() as usize + 1, Cmp::Rel(2e-3))
		}
	};
	if settle > 40_000 {
		return;
	}
	let tween = Tween {
		start_time: if delay == 0 { kira::StartTime::Immediate } else { kira::StartTime::Delayed(Duration::from_nanos(delay)) },
		duration: Duration::from_nanos(dur),
		easing: parse_easing(tok[7]),
	};
	let instant = Tween { duration: Duration::ZERO, ..Default::default() };
	let mk = |tw: Tween, ibs: usize| {
		let mut i = build(new, ids);
		i.fx.init(sr, ibs);
		i.fx.on_start_processing();
		i.set(param, target, tw, ids);
		i.fx.on_start_processing();
		i
	};
	let (mut a, mut b, mut c) = (mk(tween, n), mk(instant, n), mk(tween, 1));
	let info = kira::info::MockInfoBuilder::new().build();
	let tween_frames = ((delay + dur) as f64 * 1e-9 * sr as f64).ceil() as usize;
	let blocks = tween_frames.div_ceil(n) + 2 + settle.div_ceil(n);
	let window = 4usize.max(64 / n);
	let (mut oa, mut ob, mut oc) = (vec![], vec![], vec![]);
	for j in 0..blocks + window {
		let x = lcg_frames(&mut seed, amp, n);
		let (mut xa, mut xb, mut xc) = (x.clone(), x.clone(), x);
		a.process(&mut xa, dt, &info);
		b.process(&mut xb, dt, &info);
		for f in xc.chunks_mut(1) {
			c.process(f, dt, &info);
		}
		if j >= blocks {
			// parameters are sampled once per block: compare where every instance is at a block end
			oa.push(*xa.last().unwrap());
			ob.push(*xb.last().unwrap());
			oc.push(*xc.last().unwrap());
		}
	}
	if !(all_finite(&oa) && all_finite(&ob) && all_finite(&oc)) {
		return;
	}
	let agree = |u: &[Frame], v: &[Frame]| match cmp {
		Cmp::Bits => same_bits(u, v),
		Cmp::Abs(t) => u.iter().zip(v).all(|(p, q)| close(p.left, q.left, t) && close(p.right, q.right, t)),
		Cmp::Rel(r) => u.iter().zip(v).all(|(p, q)| {
			let t = |u: f32, v: f32| r * (u.abs().max(v.abs()) as f64) + 1e-6;
			close(p.left, q.left, t(p.left, q.left)) && close(p.right, q.right, t(p.right, q.right))
		}),
	};
	evald(out, "tween_audio_time");
	if !agree(&oa, &ob) {
		out.oracle_fail("tween_audio_time", format!("{} {}: blocks of {} not on target after the tween | {}", kind, param, n, line));
	}
	if !agree(&oc, &ob) {
		out.oracle_fail("tween_audio_time", format!("{} {}: frame by frame not on target after the tween | {}", kind, param, line));
	}
	if !agree(&oa, &oc) {
		out.oracle_fail("tween_block_size_invariance", format!("{} {}: blocks of {} vs 1 | {}", kind, param, n, line));
	}
}

/// The same `twchk` line, DURING the tween (C13 "chunk-free" / C06 "follows its easing, never jumps"): for the
/// parameters kira's `process` evaluates once per FRAME (`interpolated_value(time_in_chunk)`: volume, panning, every
/// filter / eq / distortion parameter, the compressor's makeup gain and mix — NOT its threshold, ratio, attack,
/// release, which are read once per block) instance A (blocks of N) and instance C (frame by frame) must agree
/// while the tween is under way.  Premise: Linear easing and no start delay — A interpolates linearly between the
/// tween's values at the block ends, which for a Linear tween is the same line C samples frame by frame, so both see
/// the same parameter values up to rounding; filter/eq: a well-conditioned design at BOTH ends of the tween.
/// Compared: the blocks lying wholly inside the tween except the first one and the last one before the block in
/// which the tween ends (in that block A interpolates towards the already-reached target: a different line).
fn tween_during_oracle(tok: &[&str], line: &str, ids: &Ids, out: &mut Out) {
	let (sr, n) = (pu(tok[1]) as u32, pu(tok[2]) as usize);
	let (param, target) = (tok[3], tok[4]);
	let (delay, dur) = (pu(tok[5]), pu(tok[6]));
	let (amp, mut seed) = (p32(tok[8]), pu(tok[9]));
	let new = &tok[10..];
	let kind = new[1];
	let dt = 1.0 / sr as f64;
	if delay != 0 || !matches!(parse_easing(tok[7]), kira::Easing::Linear) {
		return;
	}
	if kind == "comp" && !(param == "makeup" || param == "mix") {
		return;
	}
	if !matches!(kind, "vol" | "pan" | "dist" | "filter" | "eq" | "comp") {
		return;
	}
	let pos = params_of(kind).iter().position(|(p, _, _)| *p == param).expect("twchk: parameter");
	let mut fin: Vec<&str> = new.to_vec();
	fin[2 + has_mode(kind) as usize + pos] = target;
	if kind == "filter" || kind == "eq" {
		for v in [new, &fin[..]] {
			let (rf, g, k) = Spec::from_new(v, true).design(dt).unwrap();
			if !(rf < 0.45 && pole_radius(g, k) < 1.0) {
				return;
			}
		}
	}
	// blocks 1 ..= last are compared: block j covers tween time (j·N·dt, (j+1)·N·dt]
	let tween_frames = dur as f64 * 1e-9 * sr as f64;
	let inside = (tween_frames / n as f64).floor() as usize;
	if inside < 3 || amp == 0.0 {
		return;
	}
	let last = inside - 2;
	let tween = Tween { start_time: kira::StartTime::Immediate, duration: Duration::from_nanos(dur), easing: kira::Easing::Linear };
	let mk = |ibs: usize| {
		let mut i = build(new, ids);
		i.fx.init(sr, ibs);
		i.fx.on_start_processing();
		i.set(param, target, tween, ids);
		i.fx.on_start_processing();
		i
	};
	let (mut a, mut c) = (mk(n), mk(1));
	let info = kira::info::MockInfoBuilder::new().build();
	let mut worst = 0.0f64;
	for j in 0..=last {
		let x = lcg_frames(&mut seed, amp, n);
		let (mut xa, mut xc) = (x.clone(), x);
		a.process(&mut xa, dt, &info);
		for f in xc.chunks_mut(1) {
			c.process(f, dt, &info);
		}
		if !(all_finite(&xa) && all_finite(&xc)) {
			return;
		}
		if j >= 1 {
			for (p, q) in xa.iter().zip(&xc) {
				worst = worst.max((p.left as f64 - q.left as f64).abs()).max((p.right as f64 - q.right as f64).abs());
			}
		}
	}
	let rel = worst / amp.abs() as f64;
	if std::env::var("FXA_DURING_STAT").is_ok() {
		eprintln!("DURING {} {} n={} inside={} rel={:e}", kind, param, n, inside, rel);
	}
	evald(out, "tween_block_size_invariance_during");
	if rel > DURING_TOL {
		out.oracle_fail(
			"tween_block_size_invariance_during",
			format!("{} {}: blocks of {} vs 1 differ by {:e}·amp while the tween is under way | {}", kind, param, n, rel, line),
		);
	}
}
/// relative to the noise amplitude; see notes/C13-during.md for the measured margin on the unchanged code
const DURING_TOL: f64 = 1e-3;

/// one case per (effect, parameter): moderate fixed settings, the parameter tweened to another value while the
/// effect runs in blocks of N > 1 frames (ops mirrored by the twin), then the `twchk` oracle on the same data
///
/// `during`: the family for `tween_block_size_invariance_during` — a filter/eq parameter, Linear easing, no start
/// delay, large blocks (64–512 frames) and a tween only a few (3–10 and a fraction) blocks long
fn gen_tween_time_case(rng: &mut Rng, case: usize, during: bool, stats: &mut Stats, out: &mut Vec<String>) {
	let mut all: Vec<(&str, &str)> = PARAMS.iter().flat_map(|(k, ps)| ps.iter().map(move |(p, _, _)| (*k, *p))).collect();
	if during {
		all.retain(|(k, _)| *k == "filter" || *k == "eq");
	}
	let (kind, param) = all[rng.below(all.len() as u64) as usize];
	let f32s = |rng: &mut Rng, pool: &[f32]| format!("fix:{}", o32(rng.pick(pool)));
	let f64s = |rng: &mut Rng, pool: &[f64]| format!("fix:{}", o64(rng.pick(pool)));
	let durs = |rng: &mut Rng, pool: &[u64]| format!("fix:{}", rng.pick(pool));
	// (name, value) in builder order, drawn twice: the initial settings and the pool the target comes from
	let draw = |rng: &mut Rng| -> Vec<(&'static str, String)> {
		match kind {
			"vol" => vec![("volume", f32s(rng, &[0.0, -6.0, 6.0, -12.0, 3.0]))],
			"pan" => vec![("panning", f32s(rng, &[0.0, -0.5, 1.0, 0.5, -1.0]))],
			"filter" => vec![
				("cutoff", f64s(rng, &[500.0, 1000.0, 2000.0, 250.0, 4000.0])),
				("resonance", f64s(rng, &[0.0, 0.3, 0.5, 0.1])),
				("mix", f32s(rng, &[1.0, 0.5, 0.25])),
			],
			"eq" => vec![
				("frequency", f64s(rng, &[500.0, 1000.0, 3000.0, 200.0])),
				("gain", f32s(rng, &[0.0, 6.0, -6.0, 12.0, -12.0])),
				("q", f64s(rng, &[0.7, 1.0, 2.0, 0.5])),
			],
			"dist" => vec![("drive", f32s(rng, &[0.0, 6.0, 12.0, 24.0])), ("mix", f32s(rng, &[1.0, 0.5, 0.25]))],
			_ => vec![
				("threshold", f64s(rng, &[-24.0, -30.0, -18.0, -12.0])),
				("ratio", f64s(rng, &[2.0, 4.0, 8.0, 1.5])),
				("attack", durs(rng, &[1_000_000, 2_000_000, 5_000_000, 500_000])),
				("release", durs(rng, &[5_000_000, 10_000_000, 20_000_000, 2_000_000])),
				("makeup", f32s(rng, &[0.0, 6.0, -6.0, 12.0])),
				("mix", f32s(rng, &[1.0, 0.5, 0.25])),
			],
		}
	};
	let init = draw(rng);
	let start = init.iter().find(|(p, _)| *p == param).unwrap().1.clone();
	let mut target = start.clone();
	while target == start {
		target = draw(rng).into_iter().find(|(p, _)| *p == param).unwrap().1;
	}
	let mode = match kind {
		"filter" => format!(" {}", rng.pick(&["lp", "bp", "hp", "notch"])),
		"eq" => format!(" {}", rng.pick(&["bell", "ls", "hs"])),
		"dist" => format!(" {}", rng.pick(&["hard", "soft"])),
		_ => String::new(),
	};
	let new = format!("new {}{} {}", kind, mode, init.iter().map(|(_, v)| v.clone()).collect::<Vec<_>>().join(" "));
	let sr = rng.pick(&[22050u64, 32000, 44100, 48000]);
	let n = rng.pick(&[2u64, 3, 16, 64, 128, 128]);
	let delay = rng.pick(&[0u64, 0, 0, 2_000_000, 10_000_000]);
	let dur = rng.pick(&[5_000_000u64, 10_000_000, 20_000_000, 50_000_000, 3_333_333]);
	let easing = fmt_easing(&if rng.chance(1, 2) { kira::Easing::Linear } else { gen_easing(rng) });
	let amp = rng.pick(&[0.5f32, 0.25, 1.0]);
	let seed = rng.below(1 << 40);
	let dt = 1.0 / sr as f64;
	let (n, delay, dur, easing) = if during {
		let n = rng.pick(&[64u64, 128, 256, 512]);
		let frames = n * (3 + rng.below(8)) + rng.below(n);
		(n, 0, (frames as f64 * 1e9 / sr as f64) as u64, fmt_easing(&kira::Easing::Linear))
	} else {
		(n, delay, dur, easing)
	};
	if during {
		stats.hit("tween_during_case");
	}
	out.push(format!("case {} in", case));
	out.push(new.clone());
	out.push(format!("init {} {}", sr, n));
	out.push("start".into());
	out.push(format!("set {} {} {};{};{}", param, target, if delay == 0 { "imm".to_string() } else { format!("del:{}", delay) }, dur, easing));
	out.push("start".into());
	// the twin follows the tween through its whole duration and a little beyond, in blocks of N frames
	let frames = ((delay + dur) as f64 * 1e-9 * sr as f64).ceil() as u64;
	let count = frames.div_ceil(n) + 2;
	let half = (count / 2).max(1);
	out.push(format!("run noise {} {} {} {} {} {}", o32(amp), o64(0.0), seed, o64(dt), n, half));
	out.push(format!("run noise {} {} {} {} {} {}", o32(amp), o64(0.0), seed ^ 0x5555, o64(dt), n, count - half + 1));
	out.push(format!("twchk {} {} {} {} {} {} {} {} {} {}", sr, n, param, target, delay, dur, easing, o32(amp), seed, new));
	stats.hit("tween_time_case");
	stats.hit(&format!("tween_time_{}_{}", kind, param));
}
