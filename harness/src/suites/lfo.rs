//! Suite `lfo` (C17): the LFO modulator built by `LfoBuilder` through the public
//! `ModulatorBuilder::build` → `Box<dyn Modulator>`, its `LfoHandle` issuing commands between
//! updates, `MockInfoBuilder` for `Info`.
//!
//! ops:  info.clocks … / info.mods …                       (as in suite `param`)
//!       new <waveform> <frequency> <amplitude> <offset> <starting phase>      → value()
//!       set_waveform <waveform> | set_frequency <value> <tween> | set_amplitude <value> <tween>
//!       | set_offset <value> <tween> | set_phase <phase>                      → ok / nohandle
//!       start                 — on_start_processing                           → ok
//!       update <dt>           — update(dt, info)                              → value() finished()
//!       drop                  — drop the handle                               → ok
//! waveform: sin | tri | saw | pul:<width>      value / tween: as in suite `param` (type f64)
use crate::runner::{run_cases, Out};
use crate::suites::param::{gen_dt, gen_tween, gen_value, ids, parse_tween, parse_value, Ids, InfoState, MAX_IDS};
use crate::util::*;
use kira::modulator::lfo::{LfoBuilder, LfoHandle, Waveform};
use kira::modulator::{Modulator, ModulatorBuilder};
use kira::{Parameter, Tween, Value};
use std::f64::consts::{PI, TAU};

pub fn parse_waveform(s: &str) -> Waveform {
	match s {
		"sin" => Waveform::Sine,
		"tri" => Waveform::Triangle,
		"saw" => Waveform::Saw,
		_ => {
			let (k, v) = s.split_once(':').expect("bad waveform");
			assert_eq!(k, "pul");
			Waveform::Pulse { width: p64(v) }
		}
	}
}
pub fn gen_waveform(rng: &mut Rng) -> String {
	match rng.below(5) {
		0 => "sin".into(),
		1 => "tri".into(),
		2 => "saw".into(),
		3 => format!("pul:{}", o64(rng.pick(&[0.5, 0.25, 0.0, 1.0, 0.75, -0.5, 1.5]))),
		_ => format!("pul:{}", o64(rng.uniform(0.0, 1.0))),
	}
}
pub fn wf_name(w: Waveform) -> &'static str {
	match w {
		Waveform::Sine => "sin",
		Waveform::Triangle => "tri",
		Waveform::Saw => "saw",
		Waveform::Pulse { .. } => "pul",
	}
}
pub fn gen_phase(rng: &mut Rng) -> f64 {
	match rng.below(10) {
		0 => 0.0,
		1 => rng.pick(&[PI / 2.0, PI, 3.0 * PI / 2.0, TAU, 1.0, 0.75 * TAU, 2.5 * TAU]),
		// negative phases (radians are signed: -π/2 is a perfectly ordinary phase)
		2 => rng.pick(&[-PI / 2.0, -PI, -3.5, -5.0, -TAU, -0.75 * TAU - 0.1, -2.5 * TAU]),
		// rem_euclid corners: a tiny negative remainder rounds to exactly 1.0; -0.0 and whole negative
		// numbers of cycles give a remainder of -0.0, which is not < 0.0
		3 => rng.pick(&[-1e-17, -1e-300, -0.0, -2.0 * TAU, -1e-15, -f64::MIN_POSITIVE]),
		4 | 5 | 6 => rng.uniform(-7.0, 0.0),
		_ => rng.uniform(0.0, 7.0),
	}
}
/// a fixed f64 setting of an LFO
pub fn gen_fixed(rng: &mut Rng, what: u8) -> f64 {
	match what {
		// frequency
		0 => match rng.below(10) {
			0 => 0.0,
			1 => rng.pick(&[0.5, 1.0, 2.0, 4.0, 10.0, 0.25]),
			2 => rng.pick(&[-1.0, -0.5, -2.0, -1e-20, -1e-300]),
			3 | 4 => rng.uniform(-20.0, 0.0),
			_ => rng.uniform(0.0, 20.0),
		},
		// amplitude / offset
		_ => match rng.below(6) {
			0 => rng.pick(&[0.0, 1.0, -1.0, 0.5, 2.0, -2.0]),
			_ => rng.uniform(-3.0, 3.0),
		},
	}
}
fn gen_setting(rng: &mut Rng, what: u8) -> String {
	if rng.chance(5, 6) {
		format!("fix:{}", o64(gen_fixed(rng, what)))
	} else {
		gen_value::<f64>(rng)
	}
}

/// Reference waveforms, written from the documentation ("moves back and forth smoothly / at a
/// constant speed / gradually in one direction then jumps / jumps between two values"), for a phase
/// in [0, 1) (the caller reduces `phase0 + f·t` with `x - floor(x)`, whatever its sign).
/// `None` = too close to a discontinuity to compare.
pub fn reference_wave(w: Waveform, p: f64) -> Option<f64> {
	let near = |x: f64| (p - x).abs() < 1e-6 || (p - x - 1.0).abs() < 1e-6 || (p - x + 1.0).abs() < 1e-6;
	match w {
		Waveform::Sine => Some((TAU * p).sin()),
		Waveform::Triangle => Some(if p < 0.25 {
			4.0 * p
		} else if p < 0.75 {
			2.0 - 4.0 * p
		} else {
			4.0 * p - 4.0
		}),
		Waveform::Saw => {
			if near(0.5) {
				None
			} else {
				Some(if p < 0.5 { 2.0 * p } else { 2.0 * p - 2.0 })
			}
		}
		Waveform::Pulse { width } => {
			if near(width) || near(0.0) {
				None
			} else {
				Some(if p < width { 1.0 } else { -1.0 })
			}
		}
	}
}

#[derive(Default)]
struct Pending {
	frequency: Option<(Value<f64>, Tween)>,
	amplitude: Option<(Value<f64>, Tween)>,
	offset: Option<(Value<f64>, Tween)>,
	waveform: Option<Waveform>,
	phase: Option<f64>,
}

struct Run {
	m: Box<dyn Modulator>,
	h: Option<LfoHandle>,
	// --- oracle bookkeeping: shadow copies of the three settings (kira's own Parameter, covered by C06)
	freq: Parameter<f64>,
	amp: Parameter<f64>,
	off: Parameter<f64>,
	waveform: Waveform,
	pending: Pending,
	/// "pure" = all three settings fixed and never changed, waveform never changed, phase never set:
	/// the documented curve is known in closed form
	pure: Option<(f64, f64, f64, f64)>, // (f, amp, off, phase0 in cycles)
	elapsed: f64,
}

pub fn run(ops: &[String]) -> Vec<String> {
	run_cases(ops, None, |case: &[String], out: &mut Out| {
		let ids: Ids = ids();
		let mut info_state = InfoState::default();
		out.put(case[0].clone());
		let mut run: Option<Run> = None;
		for l in &case[1..] {
			let tok: Vec<&str> = l.split_whitespace().collect();
			match tok[0] {
				"info.clocks" => {
					info_state.parse_clocks(&tok);
					out.put("ok");
				}
				"info.mods" => {
					info_state.parse_mods(&tok);
					out.put("ok");
				}
				"new" => {
					let waveform = parse_waveform(tok[1]);
					let f: Value<f64> = parse_value(tok[2], &ids);
					let a: Value<f64> = parse_value(tok[3], &ids);
					let o: Value<f64> = parse_value(tok[4], &ids);
					let ph = p64(tok[5]);
					let b = LfoBuilder { waveform, frequency: f, amplitude: a, offset: o, starting_phase: ph };
					// ModulatorBuilder::build is the public way to obtain the Box<dyn Modulator>
					let (m, h) = b.build(ids.mods[0]);
					out.put(h64(m.value()));
					// negative frequencies and phases are ordinary inputs: the curve runs backwards / starts earlier
					let pure = match (f, a, o) {
						(Value::Fixed(f), Value::Fixed(a), Value::Fixed(o)) => Some((f, a, o, ph / TAU)),
						_ => None,
					};
					run = Some(Run {
						m,
						h: Some(h),
						freq: Parameter::new(f, 2.0),
						amp: Parameter::new(a, 1.0),
						off: Parameter::new(o, 0.0),
						waveform,
						pending: Pending::default(),
						pure,
						elapsed: 0.0,
					});
				}
				"set_waveform" | "set_frequency" | "set_amplitude" | "set_offset" | "set_phase" => {
					let r = run.as_mut().unwrap();
					match r.h.as_mut() {
						None => out.put("nohandle"),
						Some(h) => {
							match tok[0] {
								"set_waveform" => {
									let w = parse_waveform(tok[1]);
									h.set_waveform(w);
									r.pending.waveform = Some(w);
								}
								"set_phase" => {
									let p = p64(tok[1]);
									h.set_phase(p);
									r.pending.phase = Some(p);
								}
								_ => {
									let v: Value<f64> = parse_value(tok[1], &ids);
									let tw = parse_tween(tok[2], &ids);
									match tok[0] {
										"set_frequency" => {
											h.set_frequency(v, tw);
											r.pending.frequency = Some((v, tw));
										}
										"set_amplitude" => {
											h.set_amplitude(v, tw);
											r.pending.amplitude = Some((v, tw));
										}
										_ => {
											h.set_offset(v, tw);
											r.pending.offset = Some((v, tw));
										}
									}
								}
							}
							out.put("ok");
						}
					}
				}
				"start" => {
					let r = run.as_mut().unwrap();
					r.m.on_start_processing();
					let p = std::mem::take(&mut r.pending);
					if p.frequency.is_some() || p.amplitude.is_some() || p.offset.is_some() || p.waveform.is_some() {
						r.pure = None;
					}
					if let (Some(ph), Some((f, a, o, _))) = (p.phase, r.pure) {
						// a new phase (of any sign) restarts the closed-form curve from that phase
						r.pure = Some((f, a, o, ph / TAU));
						r.elapsed = 0.0;
					}
					if let Some((v, tw)) = p.frequency {
						r.freq.set(v, tw);
					}
					if let Some((v, tw)) = p.amplitude {
						r.amp.set(v, tw);
					}
					if let Some((v, tw)) = p.offset {
						r.off.set(v, tw);
					}
					if let Some(w) = p.waveform {
						r.waveform = w;
					}
					out.put("ok");
				}
				"update" => {
					let r = run.as_mut().unwrap();
					let dt = p64(tok[1]);
					let info = info_state.build();
					r.m.update(dt, &info);
					let v = r.m.value();
					out.put(format!("{} {}", h64(v), r.m.finished() as u8));
					// --- oracles (C17) ---
					r.freq.update(dt, &info);
					r.amp.update(dt, &info);
					r.off.update(dt, &info);
					let (a, o) = (r.amp.value(), r.off.value());
					if v.is_finite() && a.is_finite() && o.is_finite() {
						// stays within offset ± |amplitude| — for every phase and frequency, negative ones included
						let slack = 1e-12 * (1.0 + a.abs() + o.abs());
						if (v - o).abs() > a.abs() + slack {
							out.oracle_fail("lfo_range", format!("{} :: wf={}", l, wf_name(r.waveform)));
						}
					}
					// the documented curve, where it is known in closed form
					if let Some((f, a, o, p0)) = r.pure {
						r.elapsed += dt;
						let cycles = p0 + f * r.elapsed;
						if cycles.abs() < 1e6 {
							// Euclidean fractional part: in [0, 1] also for negative `cycles`
							let p = cycles - cycles.floor();
							if let Some(w) = reference_wave(r.waveform, p) {
								let expect = o + a * w;
								// slope of the waveforms ≤ 2π per cycle; phase error ≤ a few ulps of `cycles` per update
								let tol = 1e-7 * (1.0 + a.abs()) * (1.0 + cycles.abs() * 1e-3);
								let near_corner = matches!(r.waveform, Waveform::Saw | Waveform::Pulse { .. })
									&& ((p < 1e-6) || (p > 1.0 - 1e-6));
								if !near_corner && (v - expect).abs() > tol {
									out.oracle_fail("lfo_curve", l);
								}
							}
						}
					}
				}
				"drop" => {
					let r = run.as_mut().unwrap();
					r.h = None;
					out.put("ok");
				}
				_ => panic!("lfo: unknown op {}", tok[0]),
			}
		}
	})
}

pub fn gen(rng: &mut Rng, n: usize, _thorough: bool, stats: &mut Stats) -> Vec<String> {
	let mut out = vec![];
	for case in 0..n {
		out.push(format!("case {}", case));
		// some cases: everything fixed for the whole case (the closed-form curve applies)
		let pure = rng.chance(1, 3);
		let setting = |rng: &mut Rng, what: u8| -> String {
			if pure {
				format!("fix:{}", o64(gen_fixed(rng, what)))
			} else {
				gen_setting(rng, what)
			}
		};
		let ph = gen_phase(rng);
		stats.hit(if pure { "case_pure" } else { "case_general" });
		if ph < 0.0 {
			stats.hit("negative_starting_phase");
		}
		let wf = gen_waveform(rng);
		stats.hit(&format!("wf_{}", &wf[..3]));
		let (f, a, o) = (setting(rng, 0), setting(rng, 1), setting(rng, 1));
		if f.starts_with("fix:") && p64(&f[4..]) < 0.0 {
			stats.hit("negative_frequency");
		}
		out.push(format!("new {} {} {} {} {}", wf, f, a, o, o64(ph)));
		let steps = rng.range(6, 30);
		for _ in 0..steps {
			if pure && rng.chance(1, 12) {
				// the handle sets a new phase: takes effect at the next on_start_processing
				let p = gen_phase(rng);
				if p < 0.0 {
					stats.hit("negative_set_phase");
				}
				out.push(format!("set_phase {}", o64(p)));
				out.push("start".into());
				stats.hit("set_phase");
				stats.hit("start");
				continue;
			}
			let line = match if pure { 20 } else { rng.below(24) } {
				0 => {
					let k = rng.below(MAX_IDS as u64 + 1);
					let mut s = format!("info.clocks {}", k);
					for _ in 0..k {
						s += &format!(" {} {} {}", rng.below(2), rng.below(6), o64(rng.pick(&[0.0, 0.5, 0.25, 0.75, 0.999])));
					}
					s
				}
				1 => {
					let k = rng.below(MAX_IDS as u64 + 1);
					let mut s = format!("info.mods {}", k);
					for _ in 0..k {
						s += &format!(" {}", o64(rng.uniform(-3.0, 3.0)));
					}
					s
				}
				2 => format!("set_waveform {}", gen_waveform(rng)),
				3 => format!("set_frequency {} {}", gen_setting(rng, 0), gen_tween(rng)),
				4 => format!("set_amplitude {} {}", gen_setting(rng, 1), gen_tween(rng)),
				5 => format!("set_offset {} {}", gen_setting(rng, 1), gen_tween(rng)),
				6 => format!("set_phase {}", o64(gen_phase(rng))),
				7 | 8 | 9 => "start".into(),
				10 => {
					if rng.chance(1, 6) {
						"drop".into()
					} else {
						"start".into()
					}
				}
				_ => format!("update {}", o64(gen_dt(rng))),
			};
			stats.hit(line.split(' ').next().unwrap());
			out.push(line);
		}
	}
	out
}
