//! Suite `param` (C06): `kira::Parameter<T>` driven through its public API with `MockInfoBuilder`.
//!
//! ops:  info.clocks <k> {<ticking> <ticks> <frac>}*k     — the k clocks that exist from now on
//!       info.mods <k> {<value>}*k                         — the k modulators that exist from now on
//!       new <ty> <value> <default>   set <value> <tween>   update <dt>   interp <amount>
//! value: fix:<v> | mod:<id>:<in0>,<in1>,<out0>,<out1>,<easing>
//! tween: <start>;<duration ns>;<easing>     start: imm | del:<ns> | clk:<id>:<ticks>:<frac>
//! types: f64 f32 db pan rate dur cs
use crate::runner::{run_cases, Out};
use crate::suites::units::{fmt_easing, gen_easing, parse_easing};
use crate::util::*;
use kira::clock::{ClockId, ClockSpeed, ClockTime};
use kira::info::{Info, MockInfoBuilder};
use kira::modulator::ModulatorId;
use kira::{Decibels, Mapping, Panning, Parameter, PlaybackRate, StartTime, Tween, Tweenable, Value};
use std::time::Duration;

pub const MAX_IDS: usize = 3;

pub struct Ids {
	pub clocks: Vec<ClockId>,
	pub mods: Vec<ModulatorId>,
}
pub fn ids() -> Ids {
	let mut b = MockInfoBuilder::new();
	Ids {
		clocks: (0..MAX_IDS).map(|_| b.add_clock(false, 0, 0.0)).collect(),
		mods: (0..MAX_IDS).map(|_| b.add_modulator(0.0)).collect(),
	}
}

#[derive(Clone, Default)]
pub struct InfoState {
	pub clocks: Vec<(bool, u64, f64)>,
	pub mods: Vec<f64>,
}
impl InfoState {
	pub fn build(&self) -> Info<'static> {
		let mut b = MockInfoBuilder::new();
		for (t, k, f) in &self.clocks {
			b.add_clock(*t, *k, *f);
		}
		for v in &self.mods {
			b.add_modulator(*v);
		}
		b.build()
	}
	pub fn parse_clocks(&mut self, tok: &[&str]) {
		let k: usize = tok[1].parse().unwrap();
		self.clocks = (0..k)
			.map(|i| (tok[2 + 3 * i] == "1", pu(tok[3 + 3 * i]), p64(tok[4 + 3 * i])))
			.collect();
	}
	pub fn parse_mods(&mut self, tok: &[&str]) {
		let k: usize = tok[1].parse().unwrap();
		self.mods = (0..k).map(|i| p64(tok[2 + i])).collect();
	}
}

pub fn parse_start(s: &str, ids: &Ids) -> StartTime {
	if s == "imm" {
		return StartTime::Immediate;
	}
	let p: Vec<&str> = s.split(':').collect();
	match p[0] {
		"del" => StartTime::Delayed(Duration::from_nanos(pu(p[1]))),
		"clk" => StartTime::ClockTime(ClockTime {
			clock: ids.clocks[pu(p[1]) as usize],
			ticks: pu(p[2]),
			fraction: p64(p[3]),
		}),
		_ => panic!("bad start time {}", s),
	}
}
pub fn parse_tween(s: &str, ids: &Ids) -> Tween {
	let p: Vec<&str> = s.split(';').collect();
	Tween {
		start_time: parse_start(p[0], ids),
		duration: Duration::from_nanos(pu(p[1])),
		easing: parse_easing(p[2]),
	}
}
pub fn gen_start(rng: &mut Rng) -> String {
	match rng.below(10) {
		0..=5 => "imm".into(),
		6 => "del:0".into(),
		7 => format!("del:{}", rng.below(3_000_000_000)),
		_ => format!("clk:{}:{}:{}", rng.below(MAX_IDS as u64), rng.below(6), o64(rng.pick(&[0.0, 0.5, 0.25, 0.999]))),
	}
}
pub fn gen_duration_ns(rng: &mut Rng) -> u64 {
	match rng.below(8) {
		0 => 0,
		1 => 1,
		2 => 10_000_000,
		3 => rng.below(1_000_000),
		4 => 1_000_000_000,
		5 => 1_000_000_000 * rng.below(5),
		_ => rng.below(4_000_000_000),
	}
}
pub fn gen_tween(rng: &mut Rng) -> String {
	format!("{};{};{}", gen_start(rng), gen_duration_ns(rng), fmt_easing(&gen_easing(rng)))
}
pub fn gen_dt(rng: &mut Rng) -> f64 {
	match rng.below(8) {
		0 => 1.0,
		1 => 0.5,
		2 => 1.0 / 44100.0,
		3 => 128.0 / 48000.0,
		4 => 0.0,
		5 => rng.uniform(0.0, 2.0),
		_ => rng.uniform(0.0, 0.05),
	}
}

/// A value type that can sit in a `Parameter`.
pub trait Ty: Tweenable + Send + 'static {
	fn parse(s: &str) -> Self;
	fn show(self) -> String;
	fn gen(rng: &mut Rng) -> Self;
	/// scalar view for the oracles (None = not totally ordered / not applicable)
	fn scalar(self) -> Option<f64>;
}
impl Ty for f64 {
	fn parse(s: &str) -> Self {
		p64(s)
	}
	fn show(self) -> String {
		h64(self)
	}
	fn gen(rng: &mut Rng) -> Self {
		match rng.below(4) {
			0 => rng.pick(&[0.0, 1.0, -1.0, 0.5, 100.0]),
			_ => rng.uniform(-10.0, 10.0),
		}
	}
	fn scalar(self) -> Option<f64> {
		Some(self)
	}
}
fn gen32(rng: &mut Rng) -> f32 {
	match rng.below(4) {
		0 => rng.pick(&[0.0f32, 1.0, -1.0, -60.0, -6.0, 0.5]),
		_ => rng.uniform(-60.0, 6.0) as f32,
	}
}
impl Ty for f32 {
	fn parse(s: &str) -> Self {
		p32(s)
	}
	fn show(self) -> String {
		h32(self)
	}
	fn gen(rng: &mut Rng) -> Self {
		gen32(rng)
	}
	fn scalar(self) -> Option<f64> {
		Some(self as f64)
	}
}
macro_rules! newtype32 {
	($t:ident) => {
		impl Ty for $t {
			fn parse(s: &str) -> Self {
				$t(p32(s))
			}
			fn show(self) -> String {
				h32(self.0)
			}
			fn gen(rng: &mut Rng) -> Self {
				$t(gen32(rng))
			}
			fn scalar(self) -> Option<f64> {
				Some(self.0 as f64)
			}
		}
	};
}
newtype32!(Decibels);
newtype32!(Panning);
impl Ty for PlaybackRate {
	fn parse(s: &str) -> Self {
		PlaybackRate(p64(s))
	}
	fn show(self) -> String {
		h64(self.0)
	}
	fn gen(rng: &mut Rng) -> Self {
		PlaybackRate(<f64 as Ty>::gen(rng))
	}
	fn scalar(self) -> Option<f64> {
		Some(self.0)
	}
}
impl Ty for Duration {
	fn parse(s: &str) -> Self {
		Duration::from_nanos(pu(s))
	}
	fn show(self) -> String {
		format!("{}", self.as_nanos())
	}
	fn gen(rng: &mut Rng) -> Self {
		Duration::from_nanos(match rng.below(3) {
			0 => rng.pick(&[0, 1, 1_000_000_000, 500_000_000]),
			_ => rng.below(10_000_000_000),
		})
	}
	fn scalar(self) -> Option<f64> {
		Some(self.as_secs_f64())
	}
}
impl Ty for ClockSpeed {
	fn parse(s: &str) -> Self {
		let (k, v) = s.split_once('=').unwrap();
		match k {
			"spt" => ClockSpeed::SecondsPerTick(p64(v)),
			"tps" => ClockSpeed::TicksPerSecond(p64(v)),
			_ => ClockSpeed::TicksPerMinute(p64(v)),
		}
	}
	fn show(self) -> String {
		match self {
			ClockSpeed::SecondsPerTick(v) => format!("spt={}", h64(v)),
			ClockSpeed::TicksPerSecond(v) => format!("tps={}", h64(v)),
			ClockSpeed::TicksPerMinute(v) => format!("tpm={}", h64(v)),
		}
	}
	fn gen(rng: &mut Rng) -> Self {
		let v = rng.uniform(0.1, 200.0);
		match rng.below(3) {
			0 => ClockSpeed::SecondsPerTick(v),
			1 => ClockSpeed::TicksPerSecond(v),
			_ => ClockSpeed::TicksPerMinute(v),
		}
	}
	fn scalar(self) -> Option<f64> {
		None
	}
}

pub fn parse_value<T: Ty>(s: &str, ids: &Ids) -> Value<T> {
	let (k, rest) = s.split_once(':').unwrap();
	match k {
		"fix" => Value::Fixed(T::parse(rest)),
		"mod" => {
			let (id, m) = rest.split_once(':').unwrap();
			let p: Vec<&str> = m.split(',').collect();
			Value::FromModulator {
				id: ids.mods[pu(id) as usize],
				mapping: Mapping {
					input_range: (p64(p[0]), p64(p[1])),
					output_range: (T::parse(p[2]), T::parse(p[3])),
					easing: parse_easing(p[4]),
				},
			}
		}
		_ => panic!("bad value {}", s),
	}
}
pub fn gen_value<T: Ty>(rng: &mut Rng) -> String {
	if rng.chance(4, 5) {
		format!("fix:{}", T::gen(rng).show_operand())
	} else {
		let i0 = rng.uniform(-2.0, 2.0);
		let i1 = i0 + rng.pick(&[1.0, -1.0, 0.5, 3.0]);
		format!(
			"mod:{}:{},{},{},{},{}",
			rng.below(MAX_IDS as u64),
			o64(i0),
			o64(i1),
			T::gen(rng).show_operand(),
			T::gen(rng).show_operand(),
			fmt_easing(&gen_easing(rng))
		)
	}
}
trait ShowOperand {
	fn show_operand(self) -> String;
}
impl<T: Ty> ShowOperand for T {
	fn show_operand(self) -> String {
		self.show()
	}
}

struct Run<T: Ty> {
	p: Parameter<T>,
	/// oracle bookkeeping for the tween in flight (fixed targets only)
	tween_start: Option<f64>,
	tween_target: Option<f64>,
	landed: bool,
	finished_flags: u32,
	positive_easing: bool,
	/// the tween in flight starts immediately (so its timing does not depend on the update partition)
	immediate: bool,
	/// documented-formula reference for the tween in flight: (easing, duration s, elapsed s)
	formula: Option<(kira::Easing, f64, f64)>,
	/// the value the parameter is idle on is linked to this modulator (index, mapping): set by `new` with a
	/// modulator value and when a tween to a modulator target has finished; cleared by every `set`
	idle_on_mod: Option<(usize, Mapping<T>)>,
	/// modulator target of the tween in flight
	pending_mod: Option<(usize, Mapping<T>)>,
}

/// `mod:<id>:…` → (index of the modulator, mapping)
fn mod_link<T: Ty>(s: &str, ids: &Ids) -> Option<(usize, Mapping<T>)> {
	let id = s.strip_prefix("mod:")?.split(':').next()?.parse::<usize>().ok()?;
	match parse_value::<T>(s, ids) {
		Value::FromModulator { mapping, .. } => Some((id, mapping)),
		_ => None,
	}
}

fn exec_typed<T: Ty>(case: &[String], first: usize, out: &mut Out, ids: &Ids, info_state: &mut InfoState) {
	let mut run: Option<Run<T>> = None;
	for l in &case[first..] {
		let tok: Vec<&str> = l.split_whitespace().collect();
		match tok[0] {
			"info.clocks" => {
				info_state.parse_clocks(&tok);
				out.put("ok");
			}
			"info.mods" => {
				info_state.parse_mods(&tok);
				out.put("ok");
			}
			"new" => {
				let v: Value<T> = parse_value(tok[2], ids);
				let p = Parameter::new(v, T::parse(tok[3]));
				out.put(format!("{} {}", p.value().show(), p.previous_value().show()));
				run = Some(Run {
					p,
					tween_start: None,
					tween_target: None,
					landed: false,
					finished_flags: 0,
					positive_easing: true,
					immediate: true,
					formula: None,
					idle_on_mod: mod_link::<T>(tok[2], ids),
					pending_mod: None,
				});
			}
			"set" => {
				let r = run.as_mut().unwrap();
				let v: Value<T> = parse_value(tok[1], ids);
				let tw = parse_tween(tok[2], ids);
				r.tween_start = r.p.value().scalar();
				r.tween_target = match v {
					Value::Fixed(x) => x.scalar(),
					_ => None,
				};
				r.landed = false;
				r.finished_flags = 0;
				r.immediate = tw.start_time == StartTime::Immediate;
				r.formula = if r.immediate && r.tween_target.is_some() {
					Some((tw.easing, tw.duration.as_secs_f64(), 0.0))
				} else {
					None
				};
				r.idle_on_mod = None;
				r.pending_mod = mod_link::<T>(tok[1], ids);
				r.p.set(v, tw);
				out.put("ok");
			}
			"update" => {
				let r = run.as_mut().unwrap();
				let dt = p64(tok[1]);
				let info = info_state.build();
				let before = r.p.value().show();
				// shadow copy updated with the same time split in two: partition independence (C06)
				let mut shadow = r.p.clone();
				shadow.update(dt * 0.5, &info);
				shadow.update(dt * 0.5, &info);
				let fin = r.p.update(dt, &info);
				if r.immediate {
					if let (Some(a), Some(b)) = (r.p.value().scalar(), shadow.value().scalar()) {
						let scale = match (r.tween_start, r.tween_target) {
							(Some(s), Some(t)) => (s - t).abs().max(a.abs()),
							_ => a.abs(),
						};
						if (a - b).abs() > 1e-5 * scale.max(1e-12) {
							out.oracle_fail("partition_independent", l);
						}
					}
				}
				out.put(format!(
					"{} {} {}",
					r.p.value().show(),
					r.p.previous_value().show(),
					fin as u8
				));
				// --- oracles (C06) ---
				// follows start + (target - start) * ease(elapsed / duration) while the tween runs
				if let (Some((easing, dur, elapsed)), Some(st), Some(tg), Some(v)) =
					(r.formula.as_mut(), r.tween_start, r.tween_target, r.p.value().scalar())
				{
					*elapsed += dt;
					if *elapsed < *dur * (1.0 - 1e-9) && !fin && dt >= 0.0 {
						let want = st + (tg - st) * kira::verif_hooks::easing_apply(*easing, *elapsed / *dur);
						let tol = 1e-5 * (st - tg).abs().max(want.abs()).max(1e-12) + 2e-9;
						if (v - want).abs() > tol {
							out.oracle_fail("follows_easing", l);
						}
					} else {
						r.formula = None;
					}
				}
				if r.p.previous_value().show() != before {
					out.oracle_fail("chunk_continuity", l);
				}
				if fin {
					r.finished_flags += 1;
					if r.finished_flags > 1 {
						out.oracle_fail("finished_flag_once", l);
					}
					if let (Some(t), Some(v)) = (r.tween_target, r.p.value().scalar()) {
						if v.to_bits() != t.to_bits() && !(v == 0.0 && t == 0.0) {
							out.oracle_fail("ends_exactly_on_target", l);
						}
					}
					r.landed = true;
				} else if r.landed {
					if let (Some(t), Some(v)) = (r.tween_target, r.p.value().scalar()) {
						if v.to_bits() != t.to_bits() && !(v == 0.0 && t == 0.0) {
							out.oracle_fail("holds_target", l);
						}
					}
				}
				// C06 "from the end of the tween onward equals the target", for a target that is a modulator:
				// the target is the mapping of the modulator's value at this update (Value::FromModulator docs),
				// so from the finishing update on - and for a parameter linked from construction - the value
				// is exactly Mapping::map(modulator value) whenever that modulator exists. Exact (same f64/f32
				// mapping arithmetic, no interpolation involved once the tween is over).
				if fin {
					r.idle_on_mod = r.pending_mod.take();
				}
				if let Some((id, mapping)) = &r.idle_on_mod {
					if let Some(mv) = info_state.mods.get(*id) {
						if r.p.value().show() != mapping.map(*mv).show() {
							out.oracle_fail("follows_modulator_target", l);
						}
					}
				}
				if let (Some(s), Some(t), Some(v)) = (r.tween_start, r.tween_target, r.p.value().scalar()) {
					let (lo, hi) = (s.min(t), s.max(t));
					let slack = 1e-6 * (hi - lo).abs().max(lo.abs()).max(hi.abs()).max(1e-30);
					if r.positive_easing && !(v >= lo - slack && v <= hi + slack) {
						out.oracle_fail("within_interval", l);
					}
				}
			}
			"interp" => {
				let r = run.as_ref().unwrap();
				out.put(r.p.interpolated_value(p64(tok[1])).show());
			}
			_ => panic!("param: unknown op {}", tok[0]),
		}
	}
}

pub fn run(ops: &[String]) -> Vec<String> {
	run_cases(ops, None, |case: &[String], out: &mut Out| {
		let ids = ids();
		let mut info_state = InfoState::default();
		out.put(case[0].clone());
		// the case's type is given by its `new` op (first one)
		let ty = case
			.iter()
			.find(|l| l.starts_with("new "))
			.map(|l| l.split_whitespace().nth(1).unwrap().to_string())
			.unwrap_or_else(|| "f64".into());
		match ty.as_str() {
			"f64" => exec_typed::<f64>(case, 1, out, &ids, &mut info_state),
			"f32" => exec_typed::<f32>(case, 1, out, &ids, &mut info_state),
			"db" => exec_typed::<Decibels>(case, 1, out, &ids, &mut info_state),
			"pan" => exec_typed::<Panning>(case, 1, out, &ids, &mut info_state),
			"rate" => exec_typed::<PlaybackRate>(case, 1, out, &ids, &mut info_state),
			"dur" => exec_typed::<Duration>(case, 1, out, &ids, &mut info_state),
			"cs" => exec_typed::<ClockSpeed>(case, 1, out, &ids, &mut info_state),
			_ => panic!("bad type {}", ty),
		}
	})
}

fn gen_typed<T: Ty>(ty: &str, rng: &mut Rng, out: &mut Vec<String>, stats: &mut Stats) {
	out.push(format!("new {} {} {}", ty, gen_value::<T>(rng), T::gen(rng).show()));
	let steps = rng.range(4, 24);
	for _ in 0..steps {
		let line = match rng.below(12) {
			0 => {
				let k = rng.below(MAX_IDS as u64 + 1);
				let mut s = format!("info.clocks {}", k);
				for _ in 0..k {
					s += &format!(" {} {} {}", rng.below(2), rng.below(6), o64(rng.pick(&[0.0, 0.5, 0.25, 0.75, 0.999])));
				}
				s
			}
			1 => {
				let k = rng.below(MAX_IDS as u64 + 1);
				let mut s = format!("info.mods {}", k);
				for _ in 0..k {
					s += &format!(" {}", o64(rng.uniform(-3.0, 3.0)));
				}
				s
			}
			2 | 3 => format!("set {} {}", gen_value::<T>(rng), gen_tween(rng)),
			4 => format!("interp {}", o64(rng.pick(&[0.0, 1.0, 0.5, 0.25, 1.0 / 3.0]))),
			_ => format!("update {}", o64(gen_dt(rng))),
		};
		stats.hit(line.split(' ').next().unwrap());
		out.push(line);
	}
}

pub fn gen(rng: &mut Rng, n: usize, _thorough: bool, stats: &mut Stats) -> Vec<String> {
	let mut out = vec![];
	for case in 0..n {
		out.push(format!("case {}", case));
		let ty = rng.pick(&["f64", "f64", "f32", "db", "db", "pan", "rate", "dur", "cs"]);
		stats.hit(&format!("type_{}", ty));
		match ty {
			"f64" => gen_typed::<f64>(ty, rng, &mut out, stats),
			"f32" => gen_typed::<f32>(ty, rng, &mut out, stats),
			"db" => gen_typed::<Decibels>(ty, rng, &mut out, stats),
			"pan" => gen_typed::<Panning>(ty, rng, &mut out, stats),
			"rate" => gen_typed::<PlaybackRate>(ty, rng, &mut out, stats),
			"dur" => gen_typed::<Duration>(ty, rng, &mut out, stats),
			_ => gen_typed::<ClockSpeed>(ty, rng, &mut out, stats),
		}
	}
	out
}
