//! Suite `syscore` (C01, C02, C11): whole-system scenes through kira's PUBLIC API, compared bit for bit with the
//! whole-system Lean twin (`Model/System.lean`: the mixer / renderer model instantiated with the real static
//! sound, the eight real effects, clocks and LFO / tweener modulators).
//!
//! Objects live in index-addressed handle tables (an index is taken modulo the table length, an op whose table
//! is empty prints `skip`), so any sub-sequence of an ops file is a valid ops file.
//!
//! values:   V  = f<bits> | m<l|t><idx>_<in0 f64>_<in1 f64>_<out0>_<out1>   (Value::FromModulator on the idx-th
//!                live LFO / tweener handle, linear mapping; an empty table gives Fixed(out0)); out bits are f32
//!                for Decibels / Panning / Mix and f64 for f64 / PlaybackRate;   durations: f<ns>
//!           V may also be d<in0 f64>_<in1 f64>_<out0>_<out1> = Value::FromListenerDistance (linear mapping): it follows the
//!                distance between the innermost enclosing spatial track and its listener, and holds its value elsewhere
//!           P (Value<Vector3>) / Q (Value<Quaternion>) = the same three forms with f32 `x,y,z` / `x,y,z,w` as the fixed
//!                value and as the mapping outputs: f<x>,<y>,<z> | m<l|t><idx>_<in0>_<in1>_<x,y,z>_<x,y,z> | d<in0>_<in1>_<..>_<..>
//!           start = imm | del:<ns> | clk:<clock idx>:<ticks>:<fraction f64>   (empty clock table: immediate)
//!           tween = <start>;<duration ns>;<easing>
//! effects:  filter:<mode 0..3>:<cutoff V64>:<resonance V64>:<mix V32> | eq:<kind 0..2>:<freq V64>:<gain V32>:<q V64>
//!           | dist:<kind 0..1>:<drive V32>:<mix V32> | comp:<thr V64>:<ratio V64>:<attack dur>:<release dur>:<makeup V32>:<mix V32>
//!           | delay:<ns>:<feedback V32>:<mix V32>:<k> followed by k nested effects (`:`-joined, depth ≤ 2)
//!           | reverb:<feedback V64>:<damping V64>:<width V64>:<mix V32> | vol:<V32> | pan:<V32>
//!           list: `-` or effects joined by `,`; every top-level effect's handle goes to the fx table
//! ops:      mgr <ibs> <sr> <main volume V32> <fx list>
//!           send <volume V32> <fx list>
//!           track <parent track idx | -1> <volume V32> <persist 0|1> <sends: - | <send idx>=<V32>,…> <fx list>
//!           listener <position P> <orientation Q>     lis.pos <idx> <P> <tween>     lis.ori <idx> <Q> <tween>
//!           strack <parent track idx | -1> <listener: l<idx> live table | g<idx> ids of dropped listeners; the other table
//!                  when the named one is empty, `skip` when both are> <position P> <min f32> <max f32> <attenuation: none | easing>
//!                  <strength V32> <volume V32> <persist 0|1> <sends> <fx list>          (a spatial sub-track; the track table
//!                  holds plain and spatial handles alike: play / track / strack / trk / drop address either kind)
//!           clock <spt|tps|tpm>=<f64>     clock.cmd <idx> start|pause|stop     clock.speed <idx> <speed> <tween>
//!           lfo <sin|tri|saw|pul:<w>> <freq V64> <amp V64> <offset V64> <phase f64>
//!           lfo.set <idx> freq|amp|off <V64> <tween>    lfo.wave <idx> <wave>    lfo.phase <idx> <f64>
//!           tweener <f64>    tweener.set <idx> <f64> <tween>
//!           play <track idx | -1> <coding> <len> <sr> <volume V32> <rate V64> <pan V32> <loop region|none> <reverse>
//!                <start position> <fade-in tween | -> <start>
//!           snd <idx> pause|resume|stop <tween>  |  snd <idx> resume_at <start> <tween>
//!           snd.seek <idx> to|by <f64>   snd.set <idx> vol|rate|pan <V> <tween>   snd.loop <idx> <region|none>
//!           trk <idx> vol <V32> <tween> | pause <tween> | resume <tween> | resume_at <start> <tween> | send <send idx> <V32> <tween>
//!           trk <idx> pos <P> <tween> | str <V32> <tween>      (SpatialTrackHandle only: `nop` on a plain track)
//!           main.vol <V32> <tween>   send.vol <idx> <V32> <tween>
//!           fx.set <idx> <param> <V> <tween>   fx.mode <idx> <k>
//!           drop track|send|clock|lfo|tweener|sound|fx|listener <idx>
//!           rate <sr>          (device sample-rate change)
//!           cb <frames> <channels>   → every device sample (bits; a hash + head + tail above 192 samples), then
//!                                      manager counts, every sound handle's state@position, every track handle's
//!                                      state/num_sounds/num_sub_tracks
//!           part <k> <sr> <ibs>      (oracle only, see `partition_oracle`)
use crate::probe::{self, ProbeBackend};
use crate::runner::{run_cases, Out};
use crate::suites::static_sound::{gen_frames, gen_valid_loop};
use crate::suites::transport::{parse_pos, parse_region};
use crate::suites::units::{fmt_easing, gen_easing, parse_easing};
use crate::util::*;
use kira::clock::{ClockHandle, ClockSpeed, ClockTime};
use kira::effect::compressor::{CompressorBuilder, CompressorHandle};
use kira::effect::delay::{DelayBuilder, DelayHandle};
use kira::effect::distortion::{DistortionBuilder, DistortionHandle, DistortionKind};
use kira::effect::eq_filter::{EqFilterBuilder, EqFilterHandle, EqFilterKind};
use kira::effect::filter::{FilterBuilder, FilterHandle, FilterMode};
use kira::effect::panning_control::{PanningControlBuilder, PanningControlHandle};
use kira::effect::reverb::{ReverbBuilder, ReverbHandle};
use kira::effect::volume_control::{VolumeControlBuilder, VolumeControlHandle};
use kira::effect::EffectBuilder;
use kira::modulator::lfo::{LfoBuilder, LfoHandle, Waveform};
use kira::modulator::tweener::{TweenerBuilder, TweenerHandle};
use kira::modulator::ModulatorId;
use kira::sound::static_sound::{StaticSoundData, StaticSoundHandle, StaticSoundSettings};
use kira::listener::{ListenerHandle, ListenerId};
use kira::track::{
	MainTrackBuilder, SendTrackBuilder, SendTrackHandle, SendTrackId, SpatialTrackBuilder, SpatialTrackHandle, TrackBuilder,
	TrackHandle, TrackPlaybackState,
};
use kira::{
	AudioManager, Capacities, Decibels, Easing, Mapping, Mix, Panning, PlaybackRate, StartTime, Tween, Value,
};
use std::time::Duration;

// ------------------------------------------------------------------------------------------------
// scene
// ------------------------------------------------------------------------------------------------

enum FxH {
	Filter(FilterHandle),
	Eq(EqFilterHandle),
	Dist(DistortionHandle),
	Comp(CompressorHandle),
	Delay(DelayHandle),
	Reverb(ReverbHandle),
	Vol(VolumeControlHandle),
	Pan(PanningControlHandle),
}

impl FxH {
	fn kind(&self) -> &'static str {
		match self {
			FxH::Filter(_) => "filter",
			FxH::Eq(_) => "eq",
			FxH::Dist(_) => "dist",
			FxH::Comp(_) => "comp",
			FxH::Delay(_) => "delay",
			FxH::Reverb(_) => "reverb",
			FxH::Vol(_) => "vol",
			FxH::Pan(_) => "pan",
		}
	}
}

/// a handle of the track table: plain and spatial sub-tracks live in one table
enum TrkH {
	Plain(TrackHandle),
	Spatial(SpatialTrackHandle),
}

macro_rules! both {
	($s:expr, $h:ident => $e:expr) => {
		match $s {
			TrkH::Plain($h) => $e,
			TrkH::Spatial($h) => $e,
		}
	};
}

impl TrkH {
	fn state(&self) -> TrackPlaybackState {
		both!(self, h => h.state())
	}
	fn num_sounds(&self) -> usize {
		both!(self, h => h.num_sounds())
	}
	fn num_sub_tracks(&self) -> usize {
		both!(self, h => h.num_sub_tracks())
	}
	fn play(&mut self, d: StaticSoundData) -> Result<StaticSoundHandle, ()> {
		both!(self, h => h.play(d).map_err(|_| ()))
	}
	fn add_sub_track(&mut self, b: TrackBuilder) -> Result<TrackHandle, ()> {
		both!(self, h => h.add_sub_track(b).map_err(|_| ()))
	}
	fn add_spatial_sub_track(
		&mut self,
		l: ListenerId,
		p: Value<mint::Vector3<f32>>,
		b: SpatialTrackBuilder,
	) -> Result<SpatialTrackHandle, ()> {
		both!(self, h => h.add_spatial_sub_track(l, p, b).map_err(|_| ()))
	}
	fn set_volume(&mut self, v: Value<Decibels>, tw: Tween) {
		both!(self, h => h.set_volume(v, tw))
	}
	fn set_send(&mut self, to: SendTrackId, v: Value<Decibels>, tw: Tween) -> Result<(), ()> {
		both!(self, h => h.set_send(to, v, tw).map_err(|_| ()))
	}
	fn pause(&mut self, tw: Tween) {
		both!(self, h => h.pause(tw))
	}
	fn resume(&mut self, tw: Tween) {
		both!(self, h => h.resume(tw))
	}
	fn resume_at(&mut self, st: StartTime, tw: Tween) {
		both!(self, h => h.resume_at(st, tw))
	}
}

struct Scene {
	mgr: AudioManager<ProbeBackend>,
	tracks: Vec<TrkH>,
	listeners: Vec<ListenerHandle>,
	/// ids of dropped listeners (a spatial track may still name one: it is silent)
	ghosts: Vec<ListenerId>,
	sends: Vec<SendTrackHandle>,
	clocks: Vec<ClockHandle>,
	lfos: Vec<LfoHandle>,
	tweeners: Vec<TweenerHandle>,
	sounds: Vec<StaticSoundHandle>,
	fxs: Vec<FxH>,
	/// handles of the effects nested in delay feedback loops (`DelayBuilder::add_feedback_effect`), at any depth, in the
	/// order in which they were returned (a delay's children before the delay itself); never dropped
	subfxs: Vec<FxH>,
}

thread_local! {
	/// nested handles collected by `add_fx` while an effect list is being built (moved into `Scene::subfxs`)
	static NESTED: std::cell::RefCell<Vec<FxH>> = std::cell::RefCell::new(vec![]);
}
fn take_nested() -> Vec<FxH> {
	NESTED.with(|n| std::mem::take(&mut *n.borrow_mut()))
}

/// the handle tables a value / start time may refer to
struct Tables<'a> {
	clocks: &'a [ClockHandle],
	lfos: &'a [LfoHandle],
	tweeners: &'a [TweenerHandle],
}

impl Scene {
	fn tables(&self) -> Tables<'_> {
		Tables { clocks: &self.clocks, lfos: &self.lfos, tweeners: &self.tweeners }
	}
}

impl Tables<'_> {
	fn modulator(&self, kind: char, idx: usize) -> Option<ModulatorId> {
		if kind == 'l' {
			if self.lfos.is_empty() {
				None
			} else {
				Some(self.lfos[idx % self.lfos.len()].id())
			}
		} else if self.tweeners.is_empty() {
			None
		} else {
			Some(self.tweeners[idx % self.tweeners.len()].id())
		}
	}
	fn val<T: Copy>(&self, s: &str, conv: fn(&str) -> T) -> Value<T> {
		if let Some(r) = s.strip_prefix('f') {
			return Value::Fixed(conv(r));
		}
		if let Some(r) = s.strip_prefix('d') {
			let p: Vec<&str> = r.split('_').collect();
			return Value::FromListenerDistance(Mapping {
				input_range: (p64(p[0]), p64(p[1])),
				output_range: (conv(p[2]), conv(p[3])),
				easing: Easing::Linear,
			});
		}
		let kind = s[1..].chars().next().expect("bad value");
		let p: Vec<&str> = s[2..].split('_').collect();
		let (o0, o1) = (conv(p[3]), conv(p[4]));
		match self.modulator(kind, pu(p[0]) as usize) {
			Some(id) => Value::FromModulator {
				id,
				mapping: Mapping { input_range: (p64(p[1]), p64(p[2])), output_range: (o0, o1), easing: Easing::Linear },
			},
			None => Value::Fixed(o0),
		}
	}
	fn db(&self, s: &str) -> Value<Decibels> {
		self.val(s, |x| Decibels(p32(x)))
	}
	fn pan(&self, s: &str) -> Value<Panning> {
		self.val(s, |x| Panning(p32(x)))
	}
	fn mix(&self, s: &str) -> Value<Mix> {
		self.val(s, |x| Mix(p32(x)))
	}
	fn f(&self, s: &str) -> Value<f64> {
		self.val(s, p64)
	}
	fn rate(&self, s: &str) -> Value<PlaybackRate> {
		self.val(s, |x| PlaybackRate(p64(x)))
	}
	fn vec3(&self, s: &str) -> Value<mint::Vector3<f32>> {
		self.val(s, |x| {
			let c: Vec<f32> = x.split(',').map(p32).collect();
			mint::Vector3 { x: c[0], y: c[1], z: c[2] }
		})
	}
	fn quat(&self, s: &str) -> Value<mint::Quaternion<f32>> {
		self.val(s, |x| {
			let c: Vec<f32> = x.split(',').map(p32).collect();
			mint::Quaternion { v: mint::Vector3 { x: c[0], y: c[1], z: c[2] }, s: c[3] }
		})
	}
	fn dur(&self, s: &str) -> Value<Duration> {
		Value::Fixed(Duration::from_nanos(pu(s.strip_prefix('f').expect("bad duration"))))
	}
	fn start(&self, s: &str) -> StartTime {
		if s == "imm" {
			return StartTime::Immediate;
		}
		let p: Vec<&str> = s.split(':').collect();
		match p[0] {
			"del" => StartTime::Delayed(Duration::from_nanos(pu(p[1]))),
			"clk" if !self.clocks.is_empty() => StartTime::ClockTime(ClockTime {
				clock: self.clocks[pu(p[1]) as usize % self.clocks.len()].id(),
				ticks: pu(p[2]),
				fraction: p64(p[3]),
			}),
			_ => StartTime::Immediate,
		}
	}
	fn tween(&self, s: &str) -> Tween {
		let p: Vec<&str> = s.split(';').collect();
		Tween { start_time: self.start(p[0]), duration: Duration::from_nanos(pu(p[1])), easing: parse_easing(p[2]) }
	}
}

impl Tables<'_> {
	/// `<spt|tps|tpm>=<f64>` | `m<l|t><idx>_<in0>_<in1>_<speed>_<speed>`
	fn cs(&self, s: &str) -> Value<ClockSpeed> {
		if !s.starts_with('m') {
			return Value::Fixed(clock_speed(s));
		}
		let kind = s[1..].chars().next().expect("bad value");
		let p: Vec<&str> = s[2..].split('_').collect();
		let (o0, o1) = (clock_speed(p[3]), clock_speed(p[4]));
		match self.modulator(kind, pu(p[0]) as usize) {
			Some(id) => Value::FromModulator {
				id,
				mapping: Mapping { input_range: (p64(p[1]), p64(p[2])), output_range: (o0, o1), easing: Easing::Linear },
			},
			None => Value::Fixed(o0),
		}
	}
}

fn clock_speed(s: &str) -> ClockSpeed {
	let (k, v) = s.split_once('=').expect("bad clock speed");
	match k {
		"spt" => ClockSpeed::SecondsPerTick(p64(v)),
		"tps" => ClockSpeed::TicksPerSecond(p64(v)),
		_ => ClockSpeed::TicksPerMinute(p64(v)),
	}
}

fn waveform(s: &str) -> Waveform {
	match s {
		"sin" => Waveform::Sine,
		"tri" => Waveform::Triangle,
		"saw" => Waveform::Saw,
		_ => Waveform::Pulse { width: p64(s.split_once(':').expect("bad waveform").1) },
	}
}

// ------------------------------------------------------------------------------------------------
// effects
// ------------------------------------------------------------------------------------------------

/// anything an effect can be added to (with its handle returned)
trait FxHost {
	fn add<B: EffectBuilder>(&mut self, b: B) -> B::Handle;
}
impl FxHost for MainTrackBuilder {
	fn add<B: EffectBuilder>(&mut self, b: B) -> B::Handle {
		self.add_effect(b)
	}
}
impl FxHost for TrackBuilder {
	fn add<B: EffectBuilder>(&mut self, b: B) -> B::Handle {
		self.add_effect(b)
	}
}
impl FxHost for SpatialTrackBuilder {
	fn add<B: EffectBuilder>(&mut self, b: B) -> B::Handle {
		self.add_effect(b)
	}
}
impl FxHost for SendTrackBuilder {
	fn add<B: EffectBuilder>(&mut self, b: B) -> B::Handle {
		self.add_effect(b)
	}
}
impl FxHost for DelayBuilder {
	fn add<B: EffectBuilder>(&mut self, b: B) -> B::Handle {
		self.add_feedback_effect(b)
	}
}

fn filter_mode(k: u64) -> FilterMode {
	match k {
		0 => FilterMode::LowPass,
		1 => FilterMode::BandPass,
		2 => FilterMode::HighPass,
		_ => FilterMode::Notch,
	}
}
fn eq_kind(k: u64) -> EqFilterKind {
	match k {
		0 => EqFilterKind::Bell,
		1 => EqFilterKind::LowShelf,
		_ => EqFilterKind::HighShelf,
	}
}
fn dist_kind(k: u64) -> DistortionKind {
	if k == 0 {
		DistortionKind::HardClip
	} else {
		DistortionKind::SoftClip
	}
}

/// parse one effect from `toks[*i..]` (a delay consumes its nested effects) and add it to `host`
fn add_fx<H: FxHost>(host: &mut H, toks: &[&str], i: &mut usize, t: &Tables) -> FxH {
	let kind = toks[*i];
	let a = |k: usize| toks[*i + k];
	match kind {
		"filter" => {
			let b = FilterBuilder::new().mode(filter_mode(pu(a(1)))).cutoff(t.f(a(2))).resonance(t.f(a(3))).mix(t.mix(a(4)));
			*i += 5;
			FxH::Filter(host.add(b))
		}
		"eq" => {
			let b = EqFilterBuilder::new(eq_kind(pu(a(1))), t.f(a(2)), t.db(a(3)), t.f(a(4)));
			*i += 5;
			FxH::Eq(host.add(b))
		}
		"dist" => {
			let b = DistortionBuilder::new().kind(dist_kind(pu(a(1)))).drive(t.db(a(2))).mix(t.mix(a(3)));
			*i += 4;
			FxH::Dist(host.add(b))
		}
		"comp" => {
			let b = CompressorBuilder::new()
				.threshold(t.f(a(1)))
				.ratio(t.f(a(2)))
				.attack_duration(t.dur(a(3)))
				.release_duration(t.dur(a(4)))
				.makeup_gain(t.db(a(5)))
				.mix(t.mix(a(6)));
			*i += 7;
			FxH::Comp(host.add(b))
		}
		"delay" => {
			let mut b = DelayBuilder::new()
				.delay_time(Duration::from_nanos(pu(a(1))))
				.feedback(t.db(a(2)))
				.mix(t.mix(a(3)));
			let k = pu(a(4));
			*i += 5;
			for _ in 0..k {
				let h = add_fx(&mut b, toks, i, t);
				NESTED.with(|n| n.borrow_mut().push(h));
			}
			FxH::Delay(host.add(b))
		}
		"reverb" => {
			let b = ReverbBuilder::new().feedback(t.f(a(1))).damping(t.f(a(2))).stereo_width(t.f(a(3))).mix(t.mix(a(4)));
			*i += 5;
			FxH::Reverb(host.add(b))
		}
		"vol" => {
			let b = VolumeControlBuilder::new(t.db(a(1)));
			*i += 2;
			FxH::Vol(host.add(b))
		}
		"pan" => {
			let b = PanningControlBuilder(t.pan(a(1)));
			*i += 2;
			FxH::Pan(host.add(b))
		}
		_ => panic!("syscore: bad effect {}", kind),
	}
}

fn add_fx_list<H: FxHost>(host: &mut H, desc: &str, t: &Tables) -> Vec<FxH> {
	take_nested();
	if desc == "-" {
		return vec![];
	}
	desc.split(',')
		.map(|item| {
			let toks: Vec<&str> = item.split(':').collect();
			let mut i = 0;
			let h = add_fx(host, &toks, &mut i, t);
			assert_eq!(i, toks.len(), "syscore: trailing effect tokens");
			h
		})
		.collect()
}

// ------------------------------------------------------------------------------------------------
// observables
// ------------------------------------------------------------------------------------------------

fn show_out(buf: &[f32]) -> String {
	if buf.len() <= 192 {
		return buf.iter().map(|x| h32(*x)).collect::<Vec<_>>().join(" ");
	}
	let mut h = 0xcbf29ce484222325u64;
	for x in buf {
		h = (h ^ x.to_bits() as u64).wrapping_mul(0x100000001b3);
	}
	format!(
		"#{} {:016x} {} .. {}",
		buf.len(),
		h,
		buf[..16].iter().map(|x| h32(*x)).collect::<Vec<_>>().join(" "),
		buf[buf.len() - 16..].iter().map(|x| h32(*x)).collect::<Vec<_>>().join(" ")
	)
}

fn show_sound(h: &StaticSoundHandle) -> String {
	format!("{}@{}", format!("{:?}", h.state()).to_lowercase(), h64(h.position()))
}

fn show_scene(s: &mut Scene) -> String {
	let snd = s.sounds.iter().map(show_sound).collect::<Vec<_>>().join(" ");
	let trk = s
		.tracks
		.iter()
		.map(|t| format!("{}/{}/{}", format!("{:?}", t.state()).to_lowercase(), t.num_sounds(), t.num_sub_tracks()))
		.collect::<Vec<_>>()
		.join(" ");
	let clk = s
		.clocks
		.iter()
		.map(|c| {
			let t = c.time();
			format!("{}/{}/{}", c.ticking() as u8, t.ticks, h64(t.fraction))
		})
		.collect::<Vec<_>>()
		.join(" ");
	format!(
		"subs={} sends={} main={} ; {} ; {} ; {}",
		s.mgr.num_sub_tracks(),
		s.mgr.num_send_tracks(),
		s.mgr.main_track().num_sounds(),
		snd,
		trk,
		clk
	)
}

// ------------------------------------------------------------------------------------------------
// interpreter
// ------------------------------------------------------------------------------------------------

fn idx(i: &str, len: usize) -> Option<usize> {
	if len == 0 {
		None
	} else {
		Some(pu(i) as usize % len)
	}
}

const CAP: usize = 256;

fn new_scene(tok: &[&str]) -> Scene {
	let caps = Capacities {
		sub_track_capacity: CAP,
		send_track_capacity: CAP,
		clock_capacity: CAP,
		modulator_capacity: CAP,
		listener_capacity: CAP,
	};
	let none = Tables { clocks: &[], lfos: &[], tweeners: &[] };
	let mut mb = MainTrackBuilder::new().volume(none.db(tok[3])).sound_capacity(CAP);
	let fxs = add_fx_list(&mut mb, tok[4], &none);
	let mgr = probe::manager(caps, pu(tok[1]) as usize, pu(tok[2]) as u32, mb);
	Scene { mgr, tracks: vec![], listeners: vec![], ghosts: vec![], sends: vec![], clocks: vec![], lfos: vec![], tweeners: vec![], sounds: vec![], fxs, subfxs: take_nested() }
}

/// one setter of an effect handle (`param` names the method; a name the handle does not have does nothing)
fn fx_apply(h: &mut FxH, param: &str, v: &str, tw: Tween, t: &Tables) -> bool {
	match (h, param) {
		(FxH::Filter(h), "cutoff") => h.set_cutoff(t.f(v), tw),
		(FxH::Filter(h), "resonance") => h.set_resonance(t.f(v), tw),
		(FxH::Filter(h), "mix") => h.set_mix(t.mix(v), tw),
		(FxH::Eq(h), "frequency") => h.set_frequency(t.f(v), tw),
		(FxH::Eq(h), "gain") => h.set_gain(t.db(v), tw),
		(FxH::Eq(h), "q") => h.set_q(t.f(v), tw),
		(FxH::Dist(h), "drive") => h.set_drive(t.db(v), tw),
		(FxH::Dist(h), "mix") => h.set_mix(t.mix(v), tw),
		(FxH::Comp(h), "threshold") => h.set_threshold(t.f(v), tw),
		(FxH::Comp(h), "ratio") => h.set_ratio(t.f(v), tw),
		(FxH::Comp(h), "attack") => h.set_attack_duration(t.dur(v), tw),
		(FxH::Comp(h), "release") => h.set_release_duration(t.dur(v), tw),
		(FxH::Comp(h), "makeup") => h.set_makeup_gain(t.db(v), tw),
		(FxH::Comp(h), "mix") => h.set_mix(t.mix(v), tw),
		(FxH::Reverb(h), "rfeedback") => h.set_feedback(t.f(v), tw),
		(FxH::Reverb(h), "damping") => h.set_damping(t.f(v), tw),
		(FxH::Reverb(h), "width") => h.set_stereo_width(t.f(v), tw),
		(FxH::Reverb(h), "mix") => h.set_mix(t.mix(v), tw),
		(FxH::Vol(h), "volume") => h.set_volume(t.db(v), tw),
		(FxH::Pan(h), "panning") => h.set_panning(t.pan(v), tw),
		(FxH::Delay(h), "feedback") => h.set_feedback(t.db(v), tw),
		(FxH::Delay(h), "mix") => h.set_mix(t.mix(v), tw),
		_ => return false,
	}
	true
}

// ------------------------------------------------------------------------------------------------
// C07 oracle: commands to effects nested in delay feedback loops (real code only; the twin prints `ok`)
// ------------------------------------------------------------------------------------------------

/// A user-defined effect (audio untouched) that receives commands the documented way (`kira::command`) and logs
/// every command it reads together with the number of the callback (`on_start_processing`) it read it in.
struct CmdProbe {
	reader: kira::command::CommandReader<u64>,
	callbacks: u64,
	log: std::sync::Arc<std::sync::Mutex<Vec<(u64, u64)>>>,
}
impl kira::effect::Effect for CmdProbe {
	fn on_start_processing(&mut self) {
		self.callbacks += 1;
		if let Some(c) = self.reader.read() {
			self.log.lock().unwrap().push((self.callbacks, c));
		}
	}
	fn process(&mut self, _input: &mut [kira::Frame], _dt: f64, _info: &kira::info::Info) {}
}
struct CmdProbeBuilder(std::sync::Arc<std::sync::Mutex<Vec<(u64, u64)>>>);
impl EffectBuilder for CmdProbeBuilder {
	type Handle = kira::command::CommandWriter<u64>;
	fn build(self) -> (Box<dyn kira::effect::Effect>, Self::Handle) {
		let (w, r) = kira::command::command_writer_and_reader();
		(Box::new(CmdProbe { reader: r, callbacks: 0, log: self.0 }), w)
	}
}

/// `nest <depth 1..> <sr> <ibs> <probe first 0|1> <script>`; script items joined by `,`:
/// `p<k>` write command `k` through the probe's `CommandWriter`, `v0` / `v1` `set_volume(SILENCE / IDENTITY, instant)`
/// through the nested `VolumeControlHandle`, `c<frames>` one device callback.
///
/// Scene: the main track carries `depth` delays nested in each other's feedback loops (1 ms, fully wet, −6 dB
/// feedback); the innermost loop holds the command probe and a volume control; a DC sound plays on the main track.
/// C07, from the documentation only: (a) the probe reads, in callback j, exactly the LAST command written since
/// callback j−1 and nothing otherwise (`nested_cmd_exactly_once`); (b) once a callback long enough to flush every
/// delay line has run after `set_volume(SILENCE)`, the fully wet output is exact silence (`nested_cmd_takes_effect`;
/// premise: it was not silent before).
fn nest_oracle(tok: &[&str], line: &str, out: &mut Out) {
	let (depth, sr, ibs, probe_first) = (pu(tok[1]).max(1), pu(tok[2]) as u32, pu(tok[3]) as usize, tok[4] == "1");
	let log = std::sync::Arc::new(std::sync::Mutex::new(vec![]));
	let delay = |b: DelayBuilder| b.delay_time(Duration::from_millis(1)).feedback(Decibels(-6.0)).mix(Mix::WET);
	let mut inner = delay(DelayBuilder::new());
	let (mut writer, mut vol);
	if probe_first {
		writer = inner.add_feedback_effect(CmdProbeBuilder(log.clone()));
		vol = inner.add_feedback_effect(VolumeControlBuilder::new(Decibels::IDENTITY));
	} else {
		vol = inner.add_feedback_effect(VolumeControlBuilder::new(Decibels::IDENTITY));
		writer = inner.add_feedback_effect(CmdProbeBuilder(log.clone()));
	}
	for _ in 1..depth {
		inner = delay(DelayBuilder::new()).with_feedback_effect(inner);
	}
	let mut mb = MainTrackBuilder::new();
	let _outer = mb.add_effect(inner);
	let mut mgr = probe::manager(Capacities::default(), ibs, sr, mb);
	let data = StaticSoundData {
		sample_rate: sr,
		frames: (0..200_000).map(|_| kira::Frame::from_mono(0.5)).collect(),
		settings: StaticSoundSettings::default(),
		slice: None,
	};
	let _snd = mgr.play(data);
	let delay_frames = (sr as usize).div_ceil(1000).max(1);
	let flush = 4 * ibs + 4 * delay_frames * depth as usize;
	let instant = Tween { duration: Duration::ZERO, ..Default::default() };
	let (mut pending, mut expected, mut callbacks): (Option<u64>, Vec<(u64, u64)>, u64) = (None, vec![], 0);
	// volume oracle state: last observed output frame, and whether SILENCE is the last volume command
	let (mut last_nonzero, mut want_silence, mut armed) = (false, false, false);
	for item in tok[5].split(',') {
		let (k, v) = item.split_at(1);
		match k {
			"p" => {
				writer.write(pu(v));
				pending = Some(pu(v));
			}
			"v" => {
				vol.set_volume(if v == "0" { Decibels::SILENCE } else { Decibels::IDENTITY }, instant);
				// premise of (b): audible before the command
				armed = v == "0" && last_nonzero;
				want_silence = v == "0";
			}
			_ => {
				let frames = pu(v) as usize;
				let o = mgr.backend_mut().callback(frames, 2);
				callbacks += 1;
				if let Some(c) = pending.take() {
					expected.push((callbacks, c));
				}
				if frames >= flush {
					let tail = (o[o.len() - 2], o[o.len() - 1]);
					if want_silence && armed && (tail.0 != 0.0 || tail.1 != 0.0) {
						out.oracle_fail("nested_cmd_takes_effect", format!("callback {} still outputs {} {} | {}", callbacks, tail.0, tail.1, line));
						armed = false;
					}
					last_nonzero = tail.0 != 0.0 || tail.1 != 0.0;
				}
			}
		}
	}
	let got = log.lock().unwrap().clone();
	if got != expected {
		out.oracle_fail("nested_cmd_exactly_once", format!("probe read {:?}, written {:?} | {}", got, expected, line));
	}
}

fn exec(sc: &mut Option<Scene>, l: &str, out: &mut Out, collect: &mut Vec<f32>) {
	let tok: Vec<&str> = l.split_whitespace().collect();
	if tok[0] == "mgr" {
		*sc = Some(new_scene(&tok));
		out.put("ok");
		return;
	}
	if tok[0] == "nest" {
		nest_oracle(&tok, l, out);
		out.put("ok");
		return;
	}
	let s = sc.as_mut().expect("no manager");
	match tok[0] {
		"send" => {
			let mut b = SendTrackBuilder::new().volume(s.tables().db(tok[1]));
			let hs = add_fx_list(&mut b, tok[2], &s.tables());
			match s.mgr.add_send_track(b) {
				Ok(h) => {
					s.sends.push(h);
					s.fxs.extend(hs);
					s.subfxs.extend(take_nested());
					out.put("ok")
				}
				Err(_) => out.put("limit"),
			}
		}
		"track" => {
			let mut b = TrackBuilder::new()
				.volume(s.tables().db(tok[2]))
				.persist_until_sounds_finish(tok[3] == "1")
				.sound_capacity(CAP)
				.sub_track_capacity(CAP);
			if tok[4] != "-" {
				for item in tok[4].split(',') {
					let (k, v) = item.split_once('=').expect("bad send");
					if let Some(i) = idx(k, s.sends.len()) {
						b = b.with_send(s.sends[i].id(), s.tables().db(v));
					}
				}
			}
			let hs = add_fx_list(&mut b, tok[5], &s.tables());
			let parent = if pi(tok[1]) >= 0 { idx(tok[1], s.tracks.len()) } else { None };
			let r = match parent {
				Some(p) => s.tracks[p].add_sub_track(b),
				None => s.mgr.add_sub_track(b).map_err(|_| ()),
			};
			match r {
				Ok(h) => {
					s.tracks.push(TrkH::Plain(h));
					s.fxs.extend(hs);
					s.subfxs.extend(take_nested());
					let cnt = match parent {
						Some(p) => s.tracks[p].num_sub_tracks(),
						None => s.mgr.num_sub_tracks(),
					};
					out.put(format!("ok {}", cnt))
				}
				Err(_) => out.put("limit"),
			}
		}
		"listener" => {
			let (p, q) = (s.tables().vec3(tok[1]), s.tables().quat(tok[2]));
			match s.mgr.add_listener(p, q) {
				Ok(h) => {
					s.listeners.push(h);
					out.put("ok")
				}
				Err(_) => out.put("limit"),
			}
		}
		"lis.pos" => match idx(tok[1], s.listeners.len()) {
			Some(i) => {
				let (p, tw) = (s.tables().vec3(tok[2]), s.tables().tween(tok[3]));
				s.listeners[i].set_position(p, tw);
				out.put("ok")
			}
			None => out.put("skip"),
		},
		"lis.ori" => match idx(tok[1], s.listeners.len()) {
			Some(i) => {
				let (q, tw) = (s.tables().quat(tok[2]), s.tables().tween(tok[3]));
				s.listeners[i].set_orientation(q, tw);
				out.put("ok")
			}
			None => out.put("skip"),
		},
		"strack" => {
			// the listener: the live table (`l`) or the ids of dropped listeners (`g`), the other one when empty
			let live = |s: &Scene, k: &str| idx(k, s.listeners.len()).map(|i| s.listeners[i].id());
			let ghost = |s: &Scene, k: &str| idx(k, s.ghosts.len()).map(|i| s.ghosts[i]);
			let k = &tok[2][1..];
			let lid = if tok[2].starts_with('l') { live(s, k).or(ghost(s, k)) } else { ghost(s, k).or(live(s, k)) };
			let Some(lid) = lid else {
				out.put("skip");
				return;
			};
			let mut b = SpatialTrackBuilder::new()
				.distances((p32(tok[4]), p32(tok[5])))
				.attenuation_function(if tok[6] == "none" { None } else { Some(parse_easing(tok[6])) })
				.spatialization_strength(s.tables().val(tok[7], p32))
				.volume(s.tables().db(tok[8]))
				.persist_until_sounds_finish(tok[9] == "1")
				.sound_capacity(CAP)
				.sub_track_capacity(CAP);
			if tok[10] != "-" {
				for item in tok[10].split(',') {
					let (k, v) = item.split_once('=').expect("bad send");
					if let Some(i) = idx(k, s.sends.len()) {
						b = b.with_send(s.sends[i].id(), s.tables().db(v));
					}
				}
			}
			let hs = add_fx_list(&mut b, tok[11], &s.tables());
			let pos = s.tables().vec3(tok[3]);
			let parent = if pi(tok[1]) >= 0 { idx(tok[1], s.tracks.len()) } else { None };
			let r = match parent {
				Some(p) => s.tracks[p].add_spatial_sub_track(lid, pos, b),
				None => s.mgr.add_spatial_sub_track(lid, pos, b).map_err(|_| ()),
			};
			match r {
				Ok(h) => {
					s.tracks.push(TrkH::Spatial(h));
					s.fxs.extend(hs);
					s.subfxs.extend(take_nested());
					let cnt = match parent {
						Some(p) => s.tracks[p].num_sub_tracks(),
						None => s.mgr.num_sub_tracks(),
					};
					out.put(format!("ok {}", cnt))
				}
				Err(_) => out.put("limit"),
			}
		}
		"clock" => match s.mgr.add_clock(Tables { clocks: &s.clocks, lfos: &s.lfos, tweeners: &s.tweeners }.cs(tok[1])) {
			Ok(h) => {
				s.clocks.push(h);
				out.put("ok")
			}
			Err(_) => out.put("limit"),
		},
		"clock.cmd" => match idx(tok[1], s.clocks.len()) {
			Some(i) => {
				match tok[2] {
					"start" => s.clocks[i].start(),
					"pause" => s.clocks[i].pause(),
					_ => s.clocks[i].stop(),
				}
				out.put("ok")
			}
			None => out.put("skip"),
		},
		"clock.speed" => match idx(tok[1], s.clocks.len()) {
			Some(i) => {
				let tw = s.tables().tween(tok[3]);
				let v = s.tables().cs(tok[2]);
				s.clocks[i].set_speed(v, tw);
				out.put("ok")
			}
			None => out.put("skip"),
		},
		"lfo" => {
			let t = s.tables();
			let b = LfoBuilder::new()
				.waveform(waveform(tok[1]))
				.frequency(t.f(tok[2]))
				.amplitude(t.f(tok[3]))
				.offset(t.f(tok[4]))
				.starting_phase(p64(tok[5]));
			match s.mgr.add_modulator(b) {
				Ok(h) => {
					s.lfos.push(h);
					out.put("ok")
				}
				Err(_) => out.put("limit"),
			}
		}
		"lfo.set" => match idx(tok[1], s.lfos.len()) {
			Some(i) => {
				let v = s.tables().f(tok[3]);
				let tw = s.tables().tween(tok[4]);
				match tok[2] {
					"freq" => s.lfos[i].set_frequency(v, tw),
					"amp" => s.lfos[i].set_amplitude(v, tw),
					_ => s.lfos[i].set_offset(v, tw),
				}
				out.put("ok")
			}
			None => out.put("skip"),
		},
		"lfo.wave" => match idx(tok[1], s.lfos.len()) {
			Some(i) => {
				s.lfos[i].set_waveform(waveform(tok[2]));
				out.put("ok")
			}
			None => out.put("skip"),
		},
		"lfo.phase" => match idx(tok[1], s.lfos.len()) {
			Some(i) => {
				s.lfos[i].set_phase(p64(tok[2]));
				out.put("ok")
			}
			None => out.put("skip"),
		},
		"tweener" => match s.mgr.add_modulator(TweenerBuilder { initial_value: p64(tok[1]) }) {
			Ok(h) => {
				s.tweeners.push(h);
				out.put("ok")
			}
			Err(_) => out.put("limit"),
		},
		"tweener.set" => match idx(tok[1], s.tweeners.len()) {
			Some(i) => {
				let tw = s.tables().tween(tok[3]);
				s.tweeners[i].set(p64(tok[2]), tw);
				out.put("ok")
			}
			None => out.put("skip"),
		},
		"play" => {
			let t = s.tables();
			let settings = StaticSoundSettings {
				start_time: t.start(tok[12]),
				start_position: parse_pos(tok[10]),
				loop_region: parse_region(tok[8]),
				reverse: tok[9] == "1",
				volume: t.db(tok[5]),
				playback_rate: t.rate(tok[6]),
				panning: t.pan(tok[7]),
				fade_in_tween: if tok[11] == "-" { None } else { Some(t.tween(tok[11])) },
			};
			let data = StaticSoundData {
				sample_rate: pu(tok[4]) as u32,
				frames: gen_frames(tok[2], pu(tok[3]) as usize),
				settings,
				slice: None,
			};
			let target = if pi(tok[1]) >= 0 { idx(tok[1], s.tracks.len()) } else { None };
			let r = match target {
				Some(i) => s.tracks[i].play(data),
				None => s.mgr.play(data).map_err(|_| ()),
			};
			match r {
				Ok(h) => {
					let cnt = match target {
						Some(i) => s.tracks[i].num_sounds(),
						None => s.mgr.main_track().num_sounds(),
					};
					out.put(format!("ok {} {}", cnt, show_sound(&h)));
					s.sounds.push(h);
				}
				Err(_) => out.put("limit"),
			}
		}
		"snd" => match idx(tok[1], s.sounds.len()) {
			Some(i) => {
				let t = s.tables();
				match tok[2] {
					"pause" => {
						let tw = t.tween(tok[3]);
						s.sounds[i].pause(tw)
					}
					"resume" => {
						let tw = t.tween(tok[3]);
						s.sounds[i].resume(tw)
					}
					"stop" => {
						let tw = t.tween(tok[3]);
						s.sounds[i].stop(tw)
					}
					_ => {
						let (st, tw) = (t.start(tok[3]), t.tween(tok[4]));
						s.sounds[i].resume_at(st, tw)
					}
				}
				out.put(show_sound(&s.sounds[i]))
			}
			None => out.put("skip"),
		},
		"snd.seek" => match idx(tok[1], s.sounds.len()) {
			Some(i) => {
				if tok[2] == "to" {
					s.sounds[i].seek_to(p64(tok[3]))
				} else {
					s.sounds[i].seek_by(p64(tok[3]))
				}
				out.put("ok")
			}
			None => out.put("skip"),
		},
		"snd.set" => match idx(tok[1], s.sounds.len()) {
			Some(i) => {
				let t = s.tables();
				let tw = t.tween(tok[4]);
				match tok[2] {
					"vol" => {
						let v = t.db(tok[3]);
						s.sounds[i].set_volume(v, tw)
					}
					"rate" => {
						let v = t.rate(tok[3]);
						s.sounds[i].set_playback_rate(v, tw)
					}
					_ => {
						let v = t.pan(tok[3]);
						s.sounds[i].set_panning(v, tw)
					}
				}
				out.put("ok")
			}
			None => out.put("skip"),
		},
		"snd.loop" => match idx(tok[1], s.sounds.len()) {
			Some(i) => {
				s.sounds[i].set_loop_region(parse_region(tok[2]));
				out.put("ok")
			}
			None => out.put("skip"),
		},
		"trk" => match idx(tok[1], s.tracks.len()) {
			Some(i) => {
				let t = s.tables();
				match tok[2] {
					"vol" => {
						let (v, tw) = (t.db(tok[3]), t.tween(tok[4]));
						s.tracks[i].set_volume(v, tw);
						out.put("ok")
					}
					"pause" => {
						let tw = t.tween(tok[3]);
						s.tracks[i].pause(tw);
						out.put("ok")
					}
					"resume" => {
						let tw = t.tween(tok[3]);
						s.tracks[i].resume(tw);
						out.put("ok")
					}
					"resume_at" => {
						let (st, tw) = (t.start(tok[3]), t.tween(tok[4]));
						s.tracks[i].resume_at(st, tw);
						out.put("ok")
					}
					"pos" => {
						let (p, tw) = (t.vec3(tok[3]), t.tween(tok[4]));
						match &mut s.tracks[i] {
							TrkH::Spatial(h) => {
								h.set_position(p, tw);
								out.put("ok")
							}
							TrkH::Plain(_) => out.put("nop"),
						}
					}
					"str" => {
						let (v, tw) = (t.val(tok[3], p32), t.tween(tok[4]));
						match &mut s.tracks[i] {
							TrkH::Spatial(h) => {
								h.set_spatialization_strength(v, tw);
								out.put("ok")
							}
							TrkH::Plain(_) => out.put("nop"),
						}
					}
					_ => match idx(tok[3], s.sends.len()) {
						Some(k) => {
							let (v, tw) = (t.db(tok[4]), t.tween(tok[5]));
							let id = s.sends[k].id();
							match s.tracks[i].set_send(id, v, tw) {
								Ok(()) => out.put("ok"),
								Err(_) => out.put("noroute"),
							}
						}
						None => out.put("skip"),
					},
				}
			}
			None => out.put("skip"),
		},
		"main.vol" => {
			let (v, tw) = (s.tables().db(tok[1]), s.tables().tween(tok[2]));
			s.mgr.main_track().set_volume(v, tw);
			out.put("ok")
		}
		"send.vol" => match idx(tok[1], s.sends.len()) {
			Some(i) => {
				let (v, tw) = (s.tables().db(tok[2]), s.tables().tween(tok[3]));
				s.sends[i].set_volume(v, tw);
				out.put("ok")
			}
			None => out.put("skip"),
		},
		"fx.set" => match idx(tok[1], s.fxs.len()) {
			Some(i) => {
				let t = Tables { clocks: &s.clocks, lfos: &s.lfos, tweeners: &s.tweeners };
				let kind = s.fxs[i].kind();
				let done = fx_apply(&mut s.fxs[i], tok[2], tok[3], t.tween(tok[4]), &t);
				out.put(format!("{} {}", if done { "ok" } else { "nop" }, kind))
			}
			None => out.put("skip"),
		},
		// the same setters through the handle of an effect nested in a delay's feedback loop (any depth)
		"fx.sub" => match idx(tok[1], s.subfxs.len()) {
			Some(i) => {
				let t = Tables { clocks: &s.clocks, lfos: &s.lfos, tweeners: &s.tweeners };
				let kind = s.subfxs[i].kind();
				let done = if tok[2] == "mode" {
					let k = pu(tok[3]);
					match &mut s.subfxs[i] {
						FxH::Filter(h) => h.set_mode(filter_mode(k)),
						FxH::Eq(h) => h.set_kind(eq_kind(k)),
						FxH::Dist(h) => h.set_kind(dist_kind(k)),
						_ => {}
					}
					true
				} else {
					fx_apply(&mut s.subfxs[i], tok[2], tok[3], t.tween(tok[4]), &t)
				};
				out.put(format!("{} {}", if done { "ok" } else { "nop" }, kind))
			}
			None => out.put("skip"),
		},
		"fx.mode" => match idx(tok[1], s.fxs.len()) {
			Some(i) => {
				let k = pu(tok[2]);
				match &mut s.fxs[i] {
					FxH::Filter(h) => h.set_mode(filter_mode(k)),
					FxH::Eq(h) => h.set_kind(eq_kind(k)),
					FxH::Dist(h) => h.set_kind(dist_kind(k)),
					_ => {}
				}
				out.put("ok")
			}
			None => out.put("skip"),
		},
		"drop" => {
			macro_rules! drop_from {
				($v:expr) => {
					match idx(tok[2], $v.len()) {
						Some(i) => {
							$v.remove(i);
							out.put("ok")
						}
						None => out.put("skip"),
					}
				};
			}
			match tok[1] {
				"track" => drop_from!(s.tracks),
				"send" => drop_from!(s.sends),
				"clock" => drop_from!(s.clocks),
				"lfo" => drop_from!(s.lfos),
				"tweener" => drop_from!(s.tweeners),
				"sound" => drop_from!(s.sounds),
				"listener" => match idx(tok[2], s.listeners.len()) {
					Some(i) => {
						let h = s.listeners.remove(i);
						s.ghosts.push(h.id());
						drop(h);
						out.put("ok")
					}
					None => out.put("skip"),
				},
				_ => drop_from!(s.fxs),
			}
		}
		"rate" => {
			s.mgr.backend_mut().change_sample_rate(pu(tok[1]) as u32);
			out.put("ok")
		}
		"cb" => {
			let buf = s.mgr.backend_mut().callback(pu(tok[1]) as usize, pu(tok[2]) as u16);
			collect.extend_from_slice(&buf);
			let scene = show_scene(s);
			out.put(format!("{} ; {}", show_out(&buf), scene))
		}
		_ => panic!("syscore: unknown op {}", tok[0]),
	}
}

/// Implementation-side oracle (C11's clause with REAL components): a case whose header is
/// `case <k> part <ibs2> <seed>` builds its whole scene with fixed values (settled parameters, immediate start
/// times, no commands) before its first callback and then only renders 2-channel callbacks.  The same scene is
/// built again with internal buffer size `ibs2` and rendered with another callback partition of the same total
/// length: the two device sample streams must be IDENTICAL (every sound, effect, gain and sum advances per
/// frame; with settled parameters the per-chunk interpolation returns the constant exactly).
fn partition_oracle(case: &[String], base: &[f32], out: &mut Out) {
	let head: Vec<&str> = case[0].split_whitespace().collect();
	if head.len() < 5 || head[2] != "part" {
		return;
	}
	let (ibs2, seed) = (pu(head[3]), pu(head[4]));
	// premise: every scene-building op precedes the first callback, all callbacks have two channels
	let mut seen_cb = false;
	let mut total = 0usize;
	for l in &case[1..] {
		let tok: Vec<&str> = l.split_whitespace().collect();
		if tok[0] == "cb" {
			seen_cb = true;
			if tok[2] != "2" {
				return;
			}
			total += pu(tok[1]) as usize;
		} else if seen_cb {
			return;
		}
	}
	if total == 0 || base.len() != total * 2 {
		return;
	}
	let mut sc: Option<Scene> = None;
	let mut sink = Out::new();
	let mut other: Vec<f32> = vec![];
	for l in &case[1..] {
		if l.starts_with("cb") {
			continue;
		}
		if l.starts_with("mgr") {
			let mut tok: Vec<String> = l.split_whitespace().map(|x| x.to_string()).collect();
			tok[1] = ibs2.to_string();
			exec(&mut sc, &tok.join(" "), &mut sink, &mut other);
		} else {
			exec(&mut sc, l, &mut sink, &mut other);
		}
	}
	let mut rng = Rng::new(seed);
	let mut left = total;
	while left > 0 {
		let n = match rng.below(4) {
			0 => 1,
			1 => ibs2 as usize,
			2 => rng.below(40) as usize + 1,
			_ => rng.below(500) as usize + 1,
		}
		.min(left);
		exec(&mut sc, &format!("cb {} 2", n), &mut sink, &mut other);
		left -= n;
	}
	if let Some(i) = (0..base.len()).find(|&i| base[i].to_bits() != other[i].to_bits()) {
		out.oracle_fail(
			"buffer_size_invariance",
			format!(
				"{} :: frame {} ch {}: {} (as given) vs {} (ibs {}, partition seed {})",
				case[0],
				i / 2,
				i % 2,
				h32(base[i]),
				h32(other[i]),
				ibs2,
				seed
			),
		);
	}
}

pub fn run(ops: &[String]) -> Vec<String> {
	run_cases(ops, Some(Duration::from_secs(20)), |case: &[String], out: &mut Out| {
		let mut sc: Option<Scene> = None;
		let mut base: Vec<f32> = vec![];
		for l in case {
			if l.starts_with("case") {
				out.put(l.clone());
				continue;
			}
			// a panic on the audio thread (inside a callback or a sample-rate change) is C01's failing input; the
			// generator stays inside the documented domain, so none is expected (the panic is re-raised for the runner)
			if l.starts_with("cb") || l.starts_with("rate") {
				let r = std::panic::catch_unwind(std::panic::AssertUnwindSafe(|| exec(&mut sc, l, out, &mut base)));
				if let Err(p) = r {
					out.oracle_fail("audio_thread_panic", l);
					std::panic::resume_unwind(p);
				}
			} else {
				exec(&mut sc, l, out, &mut base);
			}
		}
		drop(sc);
		partition_oracle(case, &base, out);
	})
}

// ------------------------------------------------------------------------------------------------
// generator
// ------------------------------------------------------------------------------------------------

const RATES: &[u64] = &[8000, 11025, 22050, 44100, 48000, 96000, 192000];

/// what the generator knows about the scene it is building (only to bias choices; never needed for validity)
#[derive(Default)]
struct G {
	ibs: u64,
	tracks: u64,
	sends: u64,
	clocks: u64,
	lfos: u64,
	tweeners: u64,
	sounds: u64,
	fxs: u64,
	/// handles of nested feedback effects so far (the `fx.sub` table)
	subs: u64,
	/// allow modulator-linked values
	mods: bool,
	listeners: u64,
	ghosts: u64,
	/// spatial tracks made so far (listener-distance values are drawn once there is one)
	spatial: u64,
}

/// a `Value::FromListenerDistance` descriptor with the given (already formatted) outputs
fn dist_value(rng: &mut Rng, a: String, b: String) -> String {
	let (i0, i1) = rng.pick(&[(0.0, 10.0), (1.0, 100.0), (10.0, 0.0), (0.0, 1.0), (2.0, 50.0), (0.0, 4.0)]);
	format!("d{}_{}_{}_{}", o64(i0), o64(i1), a, b)
}
fn dist_on(rng: &mut Rng, g: &G) -> bool {
	g.spatial > 0 && rng.chance(1, 6)
}

fn v32(rng: &mut Rng, g: &G, pool: &[f32]) -> String {
	if dist_on(rng, g) {
		let (a, b) = (o32(rng.pick(pool)), o32(rng.pick(pool)));
		return dist_value(rng, a, b);
	}
	if g.mods && g.lfos + g.tweeners > 0 && rng.chance(1, 5) {
		let a = rng.pick(pool);
		let b = rng.pick(pool);
		let (i0, i1) = rng.pick(&[(-1.0, 1.0), (0.0, 1.0), (1.0, -1.0), (-0.5, 0.25)]);
		format!("m{}{}_{}_{}_{}_{}", rng.pick(&['l', 't']), rng.below(3), o64(i0), o64(i1), o32(a), o32(b))
	} else {
		format!("f{}", o32(rng.pick(pool)))
	}
}
fn v64(rng: &mut Rng, g: &G, pool: &[f64]) -> String {
	if dist_on(rng, g) {
		let (a, b) = (o64(rng.pick(pool)), o64(rng.pick(pool)));
		return dist_value(rng, a, b);
	}
	if g.mods && g.lfos + g.tweeners > 0 && rng.chance(1, 5) {
		let a = rng.pick(pool);
		let b = rng.pick(pool);
		let (i0, i1) = rng.pick(&[(-1.0, 1.0), (0.0, 1.0), (1.0, -1.0), (-0.5, 0.25)]);
		format!("m{}{}_{}_{}_{}_{}", rng.pick(&['l', 't']), rng.below(3), o64(i0), o64(i1), o64(a), o64(b))
	} else {
		format!("f{}", o64(rng.pick(pool)))
	}
}

const DBS: &[f32] = &[0.0, 0.0, -6.0, -60.0, 6.0, -3.0, -20.0, -61.0, 12.0, -59.9];
const PANS: &[f32] = &[0.0, 0.0, -1.0, 1.0, 0.3, -0.5, 2.0, -1.0000001];
const MIXES: &[f32] = &[0.0, 1.0, 0.5, 0.25, 1.0, -0.5, 1.5];

fn gen_db(rng: &mut Rng, g: &G) -> String {
	v32(rng, g, DBS)
}

// ---- spatial scenes: vectors, quaternions, listeners, spatial tracks

fn fmt_vec(v: &[f32]) -> String {
	v.iter().map(|x| o32(*x)).collect::<Vec<_>>().join(",")
}

fn gen_vec3_raw(rng: &mut Rng) -> String {
	const POOL: &[[f32; 3]] = &[
		[0.0, 0.0, 0.0],
		[0.0, 0.0, 0.0],
		[1.0, 0.0, 0.0],
		[-1.0, 0.0, 0.0],
		[0.0, 0.0, -1.0],
		[-3.0, 0.0, 4.0],
		[0.0, 2.0, -10.0],
		[50.0, 2.0, -30.0],
		[0.05, 0.0, 0.02],
		[0.0225, 0.0, 0.02195],
		[0.1, 0.0, 0.0],
		[100.0, 0.0, 0.0],
		[0.0, 0.0, 5.0],
		[1000.0, -1000.0, 1000.0],
	];
	if rng.chance(1, 3) {
		let r = |rng: &mut Rng| (rng.uniform(-12.0, 12.0)) as f32;
		fmt_vec(&[r(rng), r(rng) * 0.25, r(rng)])
	} else {
		fmt_vec(&rng.pick(POOL))
	}
}

fn gen_quat_raw(rng: &mut Rng) -> String {
	const H: f32 = std::f32::consts::FRAC_1_SQRT_2;
	const POOL: &[[f32; 4]] = &[
		[0.0, 0.0, 0.0, 1.0],
		[0.0, 0.0, 0.0, 1.0],
		[0.0, H, 0.0, H],
		[0.0, -H, 0.0, H],
		[0.0, 1.0, 0.0, 0.0],
		[H, 0.0, 0.0, H],
		[0.0, 0.0, 0.0, -1.0],
		[0.0, 0.0, 0.0, 0.0],
		[0.0, 0.0, 0.0, 2.0],
		[0.5, 0.5, 0.5, 0.5],
		[1e-30, 0.0, 0.0, 1e-30],
	];
	if rng.chance(1, 3) {
		let r = |rng: &mut Rng| rng.uniform(-1.0, 1.0) as f32;
		let (x, y, z, w) = (r(rng), r(rng), r(rng), r(rng));
		let n = (x * x + y * y + z * z + w * w).sqrt();
		if n > 1e-3 && rng.chance(3, 4) {
			fmt_vec(&[x / n, y / n, z / n, w / n])
		} else {
			fmt_vec(&[x, y, z, w])
		}
	} else {
		fmt_vec(&rng.pick(POOL))
	}
}

/// a `Value<Vector3>` / `Value<Quaternion>` descriptor: mostly fixed, sometimes linked to a modulator or the listener distance
fn gen_vq(rng: &mut Rng, g: &G, raw: fn(&mut Rng) -> String) -> String {
	if dist_on(rng, g) {
		let (a, b) = (raw(rng), raw(rng));
		return dist_value(rng, a, b);
	}
	if g.mods && g.lfos + g.tweeners > 0 && rng.chance(1, 6) {
		let (i0, i1) = rng.pick(&[(-1.0, 1.0), (0.0, 1.0), (1.0, -1.0)]);
		return format!("m{}{}_{}_{}_{}_{}", rng.pick(&['l', 't']), rng.below(3), o64(i0), o64(i1), raw(rng), raw(rng));
	}
	format!("f{}", raw(rng))
}
fn gen_p(rng: &mut Rng, g: &G) -> String {
	gen_vq(rng, g, gen_vec3_raw)
}
fn gen_q(rng: &mut Rng, g: &G) -> String {
	gen_vq(rng, g, gen_quat_raw)
}

const DISTANCES: &[(f32, f32)] =
	&[(1.0, 100.0), (1.0, 100.0), (1.0, 10.0), (0.0, 5.0), (5.0, 5.0), (10.0, 1.0), (0.0, 0.0), (0.5, 50.0), (-1.0, 3.0), (3.0, 3.5)];
const STRENGTHS: &[f32] = &[0.75, 0.75, 0.0, 1.0, 0.5, 1.5, -0.5, 0.25];

fn gen_listener_ref(rng: &mut Rng, g: &G) -> String {
	if g.ghosts > 0 && rng.chance(1, 6) {
		format!("g{}", rng.below(3))
	} else {
		format!("l{}", rng.below(3))
	}
}

fn gen_strack(rng: &mut Rng, g: &mut G, parent: i64, lref: String) -> String {
	let (mn, mx) = rng.pick(DISTANCES);
	let att = if rng.chance(1, 4) { "none".to_string() } else { fmt_easing(&gen_easing(rng)) };
	let sends = match rng.below(5) {
		0 if g.sends > 0 => format!("{}={}", rng.below(3), gen_db(rng, g)),
		_ => "-".to_string(),
	};
	let line = format!(
		"strack {} {} {} {} {} {} {} {} {} {} {}",
		parent,
		lref,
		gen_p(rng, g),
		o32(mn),
		o32(mx),
		att,
		v32(rng, g, STRENGTHS),
		gen_db(rng, g),
		rng.below(2),
		sends,
		gen_fx_list(rng, g)
	);
	g.tracks += 1;
	g.spatial += 1;
	line
}

fn gen_cs_fixed(rng: &mut Rng) -> String {
	match rng.below(3) {
		0 => format!("spt={}", o64(rng.pick(&[0.5, 1.0, 0.01, 0.001, 0.25]))),
		1 => format!("tps={}", o64(rng.pick(&[1.0, 2.0, 1000.0, 0.5, 0.0, 100.0]))),
		_ => format!("tpm={}", o64(rng.pick(&[120.0, 60000.0, 90.0]))),
	}
}
fn gen_cs(rng: &mut Rng, g: &G) -> String {
	if g.mods && g.lfos + g.tweeners > 0 && rng.chance(1, 3) {
		let (i0, i1) = rng.pick(&[(-1.0, 1.0), (0.0, 1.0), (1.0, -1.0)]);
		format!(
			"m{}{}_{}_{}_{}_{}",
			rng.pick(&['l', 't']),
			rng.below(3),
			o64(i0),
			o64(i1),
			gen_cs_fixed(rng),
			gen_cs_fixed(rng)
		)
	} else {
		gen_cs_fixed(rng)
	}
}

fn gen_start(rng: &mut Rng, g: &G) -> String {
	match rng.below(8) {
		0 => format!("del:{}", rng.pick(&[0u64, 1, 1_000_000, 50_000_000])),
		1 if g.clocks > 0 => format!("clk:{}:{}:{}", rng.below(3), rng.below(4), o64(rng.pick(&[0.0, 0.5, 0.999]))),
		_ => "imm".into(),
	}
}

fn gen_tween(rng: &mut Rng, g: &G) -> String {
	format!(
		"{};{};{}",
		gen_start(rng, g),
		rng.pick(&[0u64, 0, 1, 1_000_000, 10_000_000, 100_000_000, 1_000_000_000, 3_333_333]),
		fmt_easing(&gen_easing(rng))
	)
}

fn gen_fx(rng: &mut Rng, g: &G, depth: u32, kinds: u64) -> String {
	let mix = |rng: &mut Rng| v32(rng, g, MIXES);
	match rng.below(kinds) {
		0 => format!("vol:{}", v32(rng, g, &[0.0, -6.0, -60.0, 6.0, -70.0, -59.0])),
		1 => format!("pan:{}", v32(rng, g, PANS)),
		2 => format!(
			"filter:{}:{}:{}:{}",
			rng.below(4),
			v64(rng, g, &[20.0, 200.0, 1000.0, 5000.0, 20000.0, 3999.0, 12345.6, 0.0, 1e6]),
			v64(rng, g, &[0.0, 0.5, 1.0, 0.9, -0.5, 1.5]),
			mix(rng)
		),
		3 => {
			let k = if depth > 0 { rng.pick(&[0u64, 0, 1, 1, 2]) } else { 0 };
			let mut s = format!(
				"delay:{}:{}:{}:{}",
				rng.pick(&[0u64, 1, 20_833, 1_000_000, 2_000_000, 5_000_000, 10_000_000, 125_000]),
				v32(rng, g, &[-6.0, -60.0, -1.0, -12.0, -0.1, 0.0, -61.0]),
				mix(rng),
				k
			);
			for _ in 0..k {
				s.push(':');
				s.push_str(&gen_fx(rng, g, depth - 1, kinds));
			}
			s
		}
		4 => format!(
			"reverb:{}:{}:{}:{}",
			v64(rng, g, &[0.9, 0.0, 0.5, 0.99, 1.0]),
			v64(rng, g, &[0.1, 0.0, 1.0, 0.5]),
			v64(rng, g, &[1.0, 0.0, 0.5]),
			mix(rng)
		),
		5 => format!(
			"comp:{}:{}:f{}:f{}:{}:{}",
			v64(rng, g, &[0.0, -12.0, -24.0, -60.0, 6.0]),
			v64(rng, g, &[1.0, 2.0, 4.0, 100.0, 0.5]),
			rng.pick(&[0u64, 1_000_000, 10_000_000, 300_000_000]),
			rng.pick(&[0u64, 1_000_000, 100_000_000, 1_000_000_000]),
			v32(rng, g, &[0.0, 6.0, -6.0]),
			mix(rng)
		),
		6 => format!(
			"eq:{}:{}:{}:{}",
			rng.below(3),
			v64(rng, g, &[20.0, 100.0, 1000.0, 8000.0, 20000.0]),
			v32(rng, g, &[0.0, 6.0, -6.0, 12.0, -24.0]),
			v64(rng, g, &[0.01, 0.5, 1.0, 4.0, 0.0])
		),
		_ => format!("dist:{}:{}:{}", rng.below(2), v32(rng, g, &[0.0, 6.0, 24.0, -12.0, -59.0, -60.0]), mix(rng)),
	}
}

/// number of effect kinds enabled (KV_SYSCORE_FX narrows the generator while the twin is being grown)
fn fx_kinds() -> u64 {
	std::env::var("KV_SYSCORE_FX").ok().and_then(|s| s.parse().ok()).unwrap_or(8)
}

fn gen_fx_list(rng: &mut Rng, g: &mut G) -> String {
	let n = rng.pick(&[0u64, 0, 0, 1, 1, 2, 3]);
	if n == 0 || fx_kinds() == 0 {
		return "-".into();
	}
	g.fxs += n;
	let desc = (0..n).map(|_| gen_fx(rng, g, 2, fx_kinds())).collect::<Vec<_>>().join(",");
	g.subs += count_nested(&desc);
	desc
}

/// how many effects of an effect-list descriptor are nested in delays (each yields a handle in the `fx.sub` table)
fn count_nested(desc: &str) -> u64 {
	if desc == "-" {
		return 0;
	}
	let all = desc
		.split([',', ':'])
		.filter(|t| matches!(*t, "vol" | "pan" | "filter" | "eq" | "dist" | "comp" | "reverb" | "delay"))
		.count();
	(all - desc.split(',').count()) as u64
}

/// a delay whose feedback loop holds 1–3 effects of known kinds (delays nested up to `depth` more levels); returns the
/// descriptor and the kinds of the nested effects in `fx.sub` table order (a delay's children before the delay)
fn gen_nested_delay(rng: &mut Rng, depth: u32) -> (String, Vec<&'static str>) {
	let k = rng.range(1, 3) as u64;
	let mut s = format!(
		"delay:{}:f{}:f{}:{}",
		rng.pick(&[1_000_000u64, 2_000_000, 125_000, 20_833, 5_000_000]),
		o32(rng.pick(&[-6.0f32, -1.0, -12.0, 0.0])),
		o32(rng.pick(&[0.5f32, 1.0, 0.25])),
		k
	);
	let mut kinds = vec![];
	for _ in 0..k {
		let (d, ks): (String, Vec<&'static str>) = match rng.below(if depth > 0 { 9 } else { 7 }) {
			0 => (format!("vol:f{}", o32(rng.pick(&[0.0f32, -6.0, 6.0]))), vec!["vol"]),
			1 => (format!("pan:f{}", o32(rng.pick(&[0.0f32, -1.0, 0.3]))), vec!["pan"]),
			2 => (
				format!("filter:{}:f{}:f{}:f{}", rng.below(4), o64(rng.pick(&[200.0, 1000.0, 5000.0])), o64(rng.pick(&[0.0, 0.5])), o32(rng.pick(&[1.0f32, 0.5]))),
				vec!["filter"],
			),
			3 => (
				format!("eq:{}:f{}:f{}:f{}", rng.below(3), o64(rng.pick(&[100.0, 1000.0, 8000.0])), o32(rng.pick(&[0.0f32, 6.0, -6.0])), o64(rng.pick(&[0.5, 1.0, 4.0]))),
				vec!["eq"],
			),
			4 => (format!("dist:{}:f{}:f{}", rng.below(2), o32(rng.pick(&[0.0f32, 6.0, 24.0])), o32(rng.pick(&[1.0f32, 0.5]))), vec!["dist"]),
			5 => (
				format!(
					"comp:f{}:f{}:f{}:f{}:f{}:f{}",
					o64(rng.pick(&[-12.0, -24.0, -40.0])),
					o64(rng.pick(&[2.0, 4.0, 100.0])),
					rng.pick(&[0u64, 1_000_000, 10_000_000]),
					rng.pick(&[0u64, 1_000_000, 100_000_000]),
					o32(rng.pick(&[0.0f32, 6.0])),
					o32(rng.pick(&[1.0f32, 0.5]))
				),
				vec!["comp"],
			),
			6 => (format!("reverb:f{}:f{}:f{}:f{}", o64(rng.pick(&[0.9, 0.5])), o64(rng.pick(&[0.1, 0.5])), o64(1.0), o32(rng.pick(&[0.5f32, 1.0]))), vec!["reverb"]),
			_ => {
				let (d, mut ks) = gen_nested_delay(rng, depth - 1);
				ks.push("delay");
				(d, ks)
			}
		};
		s.push(':');
		s.push_str(&d);
		kinds.extend(ks);
	}
	(s, kinds)
}

/// a setter that the handle of a nested effect of this kind has: `fx.sub <k> <param> <value> <tween>`
fn gen_fx_sub(rng: &mut Rng, g: &G, k: u64, kind: &str) -> String {
	let (param, v) = match kind {
		"vol" => ("volume", gen_db(rng, g)),
		"pan" => ("panning", v32(rng, g, PANS)),
		"filter" => match rng.below(4) {
			0 => ("cutoff", v64(rng, g, &[100.0, 4000.0, 20000.0, 20.0])),
			1 => ("resonance", v64(rng, g, &[0.0, 1.0, 0.7])),
			2 => ("mix", v32(rng, g, MIXES)),
			_ => ("mode", rng.below(4).to_string()),
		},
		"eq" => match rng.below(4) {
			0 => ("frequency", v64(rng, g, &[50.0, 500.0, 15000.0])),
			1 => ("gain", v32(rng, g, &[0.0, 6.0, -12.0])),
			2 => ("q", v64(rng, g, &[0.5, 1.0, 4.0])),
			_ => ("mode", rng.below(3).to_string()),
		},
		"dist" => match rng.below(3) {
			0 => ("drive", v32(rng, g, &[0.0, 12.0, -59.0, -60.0])),
			1 => ("mix", v32(rng, g, MIXES)),
			_ => ("mode", rng.below(2).to_string()),
		},
		"comp" => match rng.below(6) {
			0 => ("threshold", v64(rng, g, &[0.0, -20.0, -40.0])),
			1 => ("ratio", v64(rng, g, &[1.0, 8.0, 0.5])),
			2 => ("attack", format!("f{}", rng.pick(&[0u64, 5_000_000, 50_000_000]))),
			3 => ("release", format!("f{}", rng.pick(&[0u64, 5_000_000, 50_000_000]))),
			4 => ("makeup", v32(rng, g, &[0.0, 6.0, -6.0])),
			_ => ("mix", v32(rng, g, MIXES)),
		},
		"reverb" => match rng.below(4) {
			0 => ("rfeedback", v64(rng, g, &[0.5, 0.9, 0.0])),
			1 => ("damping", v64(rng, g, &[0.0, 0.5, 1.0])),
			2 => ("width", v64(rng, g, &[0.0, 0.5, 1.0])),
			_ => ("mix", v32(rng, g, MIXES)),
		},
		_ => {
			if rng.chance(1, 2) {
				("feedback", v32(rng, g, &[-6.0, -60.0, -1.0]))
			} else {
				("mix", v32(rng, g, MIXES))
			}
		}
	};
	format!("fx.sub {} {} {} {}", k, param, v, gen_tween(rng, g))
}

/// the oracle-only op `nest` (see `nest_oracle`): writes and callbacks interleaved, including writes before the first
/// callback, several writes between two callbacks, callbacks without a write, volume commands followed by a long callback
fn gen_nest(rng: &mut Rng) -> String {
	let depth = rng.pick(&[1u64, 1, 2, 2, 3]);
	let sr = rng.pick(&[8000u64, 22050, 44100, 48000]);
	let ibs = rng.pick(&[1u64, 7, 16, 64, 128]);
	let flush = 4 * ibs + 4 * sr.div_ceil(1000) * depth;
	let mut items: Vec<String> = vec![];
	let mut next = 1u64;
	if rng.chance(1, 2) {
		// audible first (the premise of the volume oracle)
		items.push(format!("c{}", flush));
	}
	for _ in 0..rng.range(2, 6) {
		for _ in 0..rng.pick(&[0u64, 1, 1, 1, 2, 3]) {
			if rng.chance(2, 3) {
				items.push(format!("p{}", next));
				next += rng.range(1, 9) as u64;
			} else {
				items.push(format!("v{}", rng.pick(&[0u64, 0, 1])));
			}
		}
		let small = rng.below(40) + 1;
		items.push(format!("c{}", rng.pick(&[1, ibs, flush, flush + 3, small])));
	}
	format!("nest {} {} {} {} {}", depth, sr, ibs, rng.below(2), items.join(","))
}

fn gen_play(rng: &mut Rng, g: &mut G) -> String {
	let len = rng.pick(&[0u64, 1, 2, 3, 5, 10, 64, 100, 1000, 4000]);
	let sr = rng.pick(&[1u64, 100, 8000, 22050, 44100, 48000, 48000]);
	let coding = match rng.below(6) {
		0 => "idx".to_string(),
		1 => "lr".to_string(),
		2 => format!("dc={}", o32(rng.pick(&[0.25f32, -0.5, 1.0, 0.75, 1e-40]))),
		_ => format!("rnd={}", rng.below(1 << 30)),
	};
	let lp = match rng.below(8) {
		0 | 1 => gen_valid_loop(rng, len, sr),
		// empty / inverted regions are ignored by kira
		2 if len >= 2 => format!("n={}~n={}", rng.below(len), rng.below(len)),
		_ => "none".to_string(),
	};
	let reverse = len >= 1 && rng.chance(1, 5);
	let startpos = if len == 0 {
		"n=0".to_string()
	} else {
		let k = rng.pick(&[0, 0, 0, (len - 1) / 2, len - 1]);
		if rng.chance(1, 3) {
			format!("s={}", o64(k as f64 / sr as f64))
		} else {
			format!("n={}", k)
		}
	};
	g.sounds += 1;
	format!(
		"play {} {} {} {} {} {} {} {} {} {} {} {}",
		rng.range(-1, 4),
		coding,
		len,
		sr,
		gen_db(rng, g),
		v64(rng, g, &[1.0, 1.0, 1.0, 0.5, 2.0, -1.0, 0.0, 1.0 / 3.0, 10.0, 1.4142135623730951, -0.25]),
		v32(rng, g, PANS),
		lp,
		reverse as u8,
		startpos,
		if rng.chance(1, 4) { gen_tween(rng, g) } else { "-".into() },
		if rng.chance(1, 5) { gen_start(rng, g) } else { "imm".into() }
	)
}

fn gen_cb(rng: &mut Rng, g: &G) -> String {
	let frames = match rng.below(8) {
		0 => 1,
		1 => g.ibs,
		2 => g.ibs * 3 + 1,
		3 => rng.below(50) + 1,
		4 => 0,
		5 => g.ibs.saturating_sub(1).max(1),
		_ => rng.below(300) + 1,
	};
	format!("cb {} {}", frames.min(600), rng.pick(&[2u64, 2, 2, 1, 1, 3, 6, 8]))
}

fn gen_case(rng: &mut Rng, thorough: bool, stats: &mut Stats, out: &mut Vec<String>) {
	let mut g = G { mods: false, ..G::default() };
	g.ibs = rng.pick(&[1u64, 2, 3, 7, 16, 64, 128, 128, 256]);
	let sr = rng.pick(RATES);
	let main_fx = gen_fx_list(rng, &mut g);
	out.push(format!("mgr {} {} f{} {}", g.ibs, sr, o32(rng.pick(&[0.0f32, 0.0, 0.0, -6.0, 6.0, -3.0, -60.0, 1.5])), main_fx));
	g.mods = std::env::var("KV_SYSCORE_NOMODS").is_err();
	let clocks_on = std::env::var("KV_SYSCORE_NOCLOCKS").is_err();
	let rate_on = std::env::var("KV_SYSCORE_NORATE").is_err();
	let steps = if thorough { rng.range(20, 70) } else { rng.range(10, 36) };
	if rng.chance(3, 4) {
		// an audible bed: a looping (or long) sound at unity so that effects, tracks and the final stage have signal
		let len = rng.pick(&[64u64, 100, 1000, 4000]);
		let sr2 = rng.pick(&[8000u64, 22050, 44100, 48000]);
		g.sounds += 1;
		out.push(format!(
			"play -1 {} {} {} f{} f{} f{} {} 0 n=0 - imm",
			match rng.below(4) {
				0 => "idx".to_string(),
				1 => "lr".to_string(),
				2 => format!("dc={}", o32(0.25)),
				_ => format!("rnd={}", rng.below(1 << 30)),
			},
			len,
			sr2,
			o32(rng.pick(&[0.0f32, -6.0, -20.0])),
			o64(rng.pick(&[1.0, 1.0, 0.5, 2.0])),
			o32(0.0),
			if rng.chance(2, 3) { "n=0~end" } else { "none" }
		));
	}
	let spatial_on = std::env::var("KV_SYSCORE_NOSPATIAL").is_err();
	if spatial_on && rng.chance(1, 2) {
		// an audible spatial bed: a listener, a spatial track bound to it, a looping sound on the track
		out.push(format!("listener {} {}", gen_p(rng, &g), gen_q(rng, &g)));
		g.listeners += 1;
		let st = gen_strack(rng, &mut g, -1, "l0".into());
		out.push(st);
		out.push(format!(
			"play {} {} {} 48000 f{} f{} f{} n=0~end 0 n=0 - imm",
			g.tracks - 1,
			rng.pick(&["idx", "lr", "dc=3e800000", "rnd=77"]),
			rng.pick(&[64u64, 1000, 4000]),
			o32(rng.pick(&[0.0f32, -6.0])),
			o64(1.0),
			o32(rng.pick(&[0.0f32, 0.0, -1.0, 0.5]))
		));
		g.sounds += 1;
		stats.hit("spatial_bed");
	}
	if fx_kinds() >= 8 && rng.chance(1, 3) {
		// commands to effects nested in a delay's feedback loop (C07): a track whose delay nests effects of known kinds, an
		// audible sound on it, then setters on the nested handles between callbacks (the first ones before any callback)
		let (desc, kinds) = gen_nested_delay(rng, 1);
		let base = g.subs;
		g.tracks += 1;
		g.fxs += 1;
		g.subs += kinds.len() as u64;
		out.push(format!("track -1 f{} 0 - {}", o32(0.0), desc));
		out.push(format!(
			"play {} {} 4000 48000 f{} f{} f{} n=0~end 0 n=0 - imm",
			g.tracks - 1,
			rng.pick(&["idx", "lr", "dc=3e800000", "rnd=5"]),
			o32(-6.0),
			o64(1.0),
			o32(0.0)
		));
		g.sounds += 1;
		for _ in 0..rng.range(2, 5) {
			for _ in 0..rng.range(1, 3) {
				let j = rng.below(kinds.len() as u64);
				out.push(gen_fx_sub(rng, &g, base + j, kinds[j as usize]));
			}
			out.push(gen_cb(rng, &g));
		}
		stats.hit("burst_nested_cmd");
	}
	if rng.chance(1, 4) {
		out.push(gen_nest(rng));
		stats.hit("nest");
	}
	for _ in 0..steps {
		if spatial_on && rng.chance(1, 25) {
			// nesting: an outer spatial track (its own effect / send / a plain child may follow ITS listener distance), an
			// inner spatial track bound to another listener (own info wins), sounds on the inner track and on the plain
			// child; then the outer listener moves and the inner listener is dropped
			out.push(format!("listener {} {}", gen_p(rng, &g), gen_q(rng, &g)));
			out.push(format!("listener {} {}", gen_p(rng, &g), gen_q(rng, &g)));
			g.listeners += 2;
			let (la, lb) = (g.listeners - 2, g.listeners - 1);
			let outer = gen_strack(rng, &mut g, -1, format!("l{}", la));
			out.push(outer);
			let o = g.tracks as i64 - 1;
			let inner = gen_strack(rng, &mut g, o, format!("l{}", lb));
			out.push(inner);
			let i = g.tracks - 1;
			out.push(format!("track {} {} 0 - {}", o, gen_db(rng, &g), gen_fx_list(rng, &mut g)));
			g.tracks += 1;
			let c = g.tracks - 1;
			for t in [i, c] {
				out.push(format!(
					"play {} {} 4000 48000 {} f{} {} n=0~end 0 n=0 - imm",
					t,
					rng.pick(&["idx", "lr", "dc=3e800000"]),
					gen_db(rng, &g),
					o64(rng.pick(&[1.0, 1.0, 0.5])),
					v32(rng, &g, PANS)
				));
				g.sounds += 1;
			}
			out.push(gen_cb(rng, &g));
			out.push(format!("lis.pos {} {} {}", la, gen_p(rng, &g), gen_tween(rng, &g)));
			out.push(format!("trk {} pos {} {}", rng.pick(&[o as u64, i]), gen_p(rng, &g), gen_tween(rng, &g)));
			for _ in 0..rng.range(1, 3) {
				out.push(gen_cb(rng, &g));
			}
			out.push(format!("drop listener {}", lb));
			g.listeners -= 1;
			g.ghosts += 1;
			for _ in 0..rng.range(2, 3) {
				out.push(gen_cb(rng, &g));
			}
			stats.hit("burst_nested_spatial");
		}
		if spatial_on && clocks_on && rng.chance(1, 30) {
			// clock → listener → spatial track: a listener (and the emitter) jump at a clock time; the listeners are
			// updated after the clocks of the same chunk, so the jump is heard in the chunk in which the tick is reached
			out.push(format!("clock tps={}", o64(rng.pick(&[1000.0, 200.0, 4000.0]))));
			g.clocks += 1;
			let c = g.clocks - 1;
			out.push(format!("clock.cmd {} start", c));
			out.push(format!("listener f{} f{}", gen_vec3_raw(rng), gen_quat_raw(rng)));
			g.listeners += 1;
			let l = g.listeners - 1;
			let st = gen_strack(rng, &mut g, -1, format!("l{}", l));
			out.push(st);
			let t = g.tracks - 1;
			out.push(format!(
				"play {} {} 4000 48000 f{} f{} f{} n=0~end 0 n=0 - imm",
				t,
				rng.pick(&["idx", "lr", "dc=3e800000"]),
				o32(0.0),
				o64(1.0),
				o32(0.0)
			));
			g.sounds += 1;
			out.push(gen_cb(rng, &g));
			let dur = |rng: &mut Rng| rng.pick(&[0u64, 0, 1_000_000, 5_000_000]);
			out.push(format!("lis.pos {} f{} clk:{}:{}:{};{};lin", l, gen_vec3_raw(rng), c, rng.range(1, 30), o64(0.0), dur(rng)));
			out.push(format!("lis.ori {} f{} clk:{}:{}:{};{};lin", l, gen_quat_raw(rng), c, rng.range(1, 30), o64(0.5), dur(rng)));
			out.push(format!("trk {} pos f{} clk:{}:{}:{};{};lin", t, gen_vec3_raw(rng), c, rng.range(1, 30), o64(0.0), dur(rng)));
			for _ in 0..rng.range(3, 6) {
				out.push(gen_cb(rng, &g));
			}
			stats.hit("burst_listener_clock");
		}
		if rate_on && fx_kinds() >= 5 && rng.chance(1, 40) {
			// a track or send with a rate-dependent effect (delay / reverb) that is still in the new-resource ring
			// when the device rate changes, then heard
			let fx = if rng.chance(1, 2) {
				format!("delay:{}:f{}:f{}:0", rng.pick(&[1_000_000u64, 2_000_000, 125_000]), o32(-6.0), o32(0.5))
			} else {
				format!("reverb:f{}:f{}:f{}:f{}", o64(0.5), o64(0.5), o64(1.0), o32(0.5))
			};
			g.fxs += 1;
			if rng.chance(1, 2) {
				g.tracks += 1;
				out.push(format!("track -1 f{} 0 - {}", o32(0.0), fx));
				out.push(format!("play {} idx 1000 48000 f{} f{} f{} n=0~end 0 n=0 - imm", g.tracks - 1, o32(-20.0), o64(1.0), o32(0.0)));
				g.sounds += 1;
			} else {
				g.sends += 1;
				g.tracks += 1;
				out.push(format!("send f{} {}", o32(0.0), fx));
				out.push(format!("track -1 f{} 0 {}=f{} -", o32(0.0), g.sends - 1, o32(0.0)));
				out.push(format!("play {} idx 1000 48000 f{} f{} f{} n=0~end 0 n=0 - imm", g.tracks - 1, o32(-20.0), o64(1.0), o32(0.0)));
				g.sounds += 1;
			}
			if rng.chance(3, 4) {
				out.push(format!("rate {}", rng.pick(RATES)));
			}
			out.push(gen_cb(rng, &g));
			out.push(format!("rate {}", rng.pick(RATES)));
			out.push(gen_cb(rng, &g));
			stats.hit("burst_rate");
		}
		if rng.chance(1, 30) {
			// a paused track keeps stepping its volume / route-volume tweens: pause, retarget while paused, resume
			g.sends += 1;
			g.tracks += 1;
			let (t, sd) = (g.tracks - 1, g.sends - 1);
			out.push(format!("send f{} -", o32(0.0)));
			out.push(format!("track -1 f{} 0 {}=f{} -", o32(0.0), sd, o32(-6.0)));
			out.push(format!(
				"play {} {} 4000 48000 f{} f{} f{} n=0~end 0 n=0 - imm",
				t,
				rng.pick(&["idx", "lr", "dc=3e800000"]),
				o32(-12.0),
				o64(1.0),
				o32(0.0)
			));
			g.sounds += 1;
			out.push(gen_cb(rng, &g));
			out.push(format!("trk {} pause imm;{};lin", t, rng.pick(&[0u64, 1_000_000, 10_000_000])));
			out.push(gen_cb(rng, &g));
			out.push(format!("trk {} vol f{} imm;{};lin", t, o32(rng.pick(&[-20.0f32, 6.0, -60.0])), rng.pick(&[1_000_000u64, 20_000_000, 0])));
			out.push(format!("trk {} send {} f{} imm;{};lin", t, sd, o32(rng.pick(&[0.0f32, -30.0])), rng.pick(&[1_000_000u64, 20_000_000])));
			for _ in 0..rng.range(1, 3) {
				out.push(gen_cb(rng, &g));
			}
			out.push(format!("trk {} resume imm;{};lin", t, rng.pick(&[0u64, 1_000_000, 10_000_000])));
			for _ in 0..rng.range(2, 4) {
				out.push(gen_cb(rng, &g));
			}
			stats.hit("burst_pause");
		}
		if g.mods && clocks_on && rng.chance(1, 30) {
			// modulator → clock → sound chains: a tweener (moved by a clock-timed tween) drives a clock's speed and a
			// sound's volume; a second sound waits for that clock
			out.push(format!("tweener {}", o64(rng.pick(&[0.0, 1.0, 0.5]))));
			g.tweeners += 1;
			let tw = g.tweeners - 1;
			out.push(format!("clock tps={}", o64(rng.pick(&[100.0, 1000.0, 50.0]))));
			out.push(format!(
				"clock mt{}_{}_{}_tps={}_tps={}",
				tw,
				o64(0.0),
				o64(1.0),
				o64(rng.pick(&[10.0, 100.0])),
				o64(rng.pick(&[1000.0, 400.0]))
			));
			g.clocks += 2;
			out.push(format!("clock.cmd {} start", g.clocks - 2));
			out.push(format!("clock.cmd {} start", g.clocks - 1));
			out.push(format!(
				"play -1 dc={} 4000 48000 mt{}_{}_{}_{}_{} f{} f{} n=0~end 0 n=0 - imm",
				o32(0.5),
				tw,
				o64(0.0),
				o64(1.0),
				o32(-30.0),
				o32(0.0),
				o64(1.0),
				o32(0.0)
			));
			out.push(format!(
				"play -1 idx 4000 48000 f{} f{} f{} n=0~end 0 n=0 - clk:{}:{}:{}",
				o32(-20.0),
				o64(1.0),
				o32(0.0),
				g.clocks - 1,
				rng.pick(&[1u64, 2, 5]),
				o64(rng.pick(&[0.0, 0.5]))
			));
			g.sounds += 2;
			out.push(gen_cb(rng, &g));
			out.push(format!(
				"tweener.set {} {} clk:{}:{}:{};{};lin",
				tw,
				o64(rng.pick(&[1.0, 0.0, 0.25])),
				g.clocks - 2,
				rng.pick(&[0u64, 1, 3]),
				o64(0.0),
				rng.pick(&[0u64, 1_000_000, 20_000_000])
			));
			for _ in 0..rng.range(2, 5) {
				out.push(gen_cb(rng, &g));
			}
			stats.hit("burst_chain");
		}
		let line = match rng.below(if spatial_on { 58 } else { 48 }) {
			0 | 1 => {
				g.sends += 1;
				format!("send {} {}", gen_db(rng, &g), gen_fx_list(rng, &mut g))
			}
			2..=4 => {
				g.tracks += 1;
				let sends = match rng.below(4) {
					0 if g.sends > 0 => format!("{}={}", rng.below(3), gen_db(rng, &g)),
					1 if g.sends > 1 => format!("{}={},{}={}", rng.below(3), gen_db(rng, &g), rng.below(3), gen_db(rng, &g)),
					_ => "-".to_string(),
				};
				format!(
					"track {} {} {} {} {}",
					rng.range(-1, 3),
					gen_db(rng, &g),
					rng.below(2),
					sends,
					gen_fx_list(rng, &mut g)
				)
			}
			5 if clocks_on => {
				g.clocks += 1;
				format!("clock {}", gen_cs(rng, &g))
			}
			6 | 7 if clocks_on && g.clocks > 0 => format!("clock.cmd {} {}", rng.below(3), rng.pick(&["start", "start", "pause", "stop"])),
			8 if clocks_on && g.clocks > 0 => format!(
				"clock.speed {} {} {}",
				rng.below(3),
				gen_cs(rng, &g),
				gen_tween(rng, &g)
			),
			9 if g.mods => {
				g.lfos += 1;
				format!(
					"lfo {} {} {} {} {}",
					rng.pick(&["sin", "tri", "saw", "pul:3fe0000000000000", "pul:3fb999999999999a"]),
					v64(rng, &g, &[0.0, 0.5, 2.0, 20.0, 1000.0, -3.0]),
					v64(rng, &g, &[1.0, 0.0, -1.0, 10.0]),
					v64(rng, &g, &[0.0, 1.0, -0.5]),
					o64(rng.pick(&[0.0, 90.0, 0.25, 720.0, -200.0, -3.5]))
				)
			}
			10 if g.mods => {
				g.tweeners += 1;
				format!("tweener {}", o64(rng.pick(&[0.0, 1.0, -1.0, 0.5])))
			}
			11 | 12 if g.mods && g.tweeners > 0 => format!("tweener.set {} {} {}", rng.below(3), o64(rng.pick(&[0.0, 1.0, -1.0, 0.5, 2.0, -0.25])), gen_tween(rng, &g)),
			13 if g.mods && g.lfos > 0 => match rng.below(4) {
				0 => format!("lfo.wave {} {}", rng.below(3), rng.pick(&["sin", "tri", "saw", "pul:3fd0000000000000"])),
				1 => format!("lfo.phase {} {}", rng.below(3), o64(rng.pick(&[0.0, 3.0, -3.0, 100.0]))),
				_ => format!(
					"lfo.set {} {} {} {}",
					rng.below(3),
					rng.pick(&["freq", "amp", "off"]),
					v64(rng, &g, &[0.0, 1.0, 5.0, -2.0, 0.25]),
					gen_tween(rng, &g)
				),
			},
			14..=19 => gen_play(rng, &mut g),
			20 | 21 if g.sounds > 0 => match rng.below(5) {
				0 => format!("snd {} resume_at {} {}", rng.below(5), gen_start(rng, &g), gen_tween(rng, &g)),
				_ => format!("snd {} {} {}", rng.below(5), rng.pick(&["pause", "resume", "stop", "pause"]), gen_tween(rng, &g)),
			},
			22 if g.sounds > 0 => format!(
				"snd.seek {} {} {}",
				rng.below(5),
				rng.pick(&["to", "by"]),
				o64(rng.pick(&[0.0, 0.01, -0.01, 1.0, 0.5, 100.0, -100.0, 0.001]))
			),
			23 | 24 if g.sounds > 0 => match rng.below(3) {
				0 => format!("snd.set {} vol {} {}", rng.below(5), gen_db(rng, &g), gen_tween(rng, &g)),
				1 => format!(
					"snd.set {} rate {} {}",
					rng.below(5),
					v64(rng, &g, &[1.0, 0.5, 2.0, -1.0, 0.0, 3.0, -0.5]),
					gen_tween(rng, &g)
				),
				_ => format!("snd.set {} pan {} {}", rng.below(5), v32(rng, &g, PANS), gen_tween(rng, &g)),
			},
			25 if g.sounds > 0 => format!(
				"snd.loop {} {}",
				rng.below(5),
				match rng.below(3) {
					0 => "none".to_string(),
					1 => format!("n={}~end", rng.below(4)),
					_ => format!("n={}~n={}", rng.below(8), rng.below(12)),
				}
			),
			26 | 27 if g.tracks > 0 => match rng.below(6) {
				0 | 1 => format!("trk {} vol {} {}", rng.below(4), gen_db(rng, &g), gen_tween(rng, &g)),
				2 => format!("trk {} pause {}", rng.below(4), gen_tween(rng, &g)),
				3 => format!("trk {} resume {}", rng.below(4), gen_tween(rng, &g)),
				4 => format!("trk {} resume_at {} {}", rng.below(4), gen_start(rng, &g), gen_tween(rng, &g)),
				_ => format!("trk {} send {} {} {}", rng.below(4), rng.below(3), gen_db(rng, &g), gen_tween(rng, &g)),
			},
			28 => format!("main.vol {} {}", gen_db(rng, &g), gen_tween(rng, &g)),
			29 if g.sends > 0 => format!("send.vol {} {} {}", rng.below(3), gen_db(rng, &g), gen_tween(rng, &g)),
			30 | 31 if g.fxs > 0 => {
				let (param, v) = match rng.below(12) {
					0 => ("cutoff", v64(rng, &g, &[100.0, 4000.0, 20000.0, 20.0])),
					1 => ("resonance", v64(rng, &g, &[0.0, 1.0, 0.7])),
					2 => ("mix", v32(rng, &g, MIXES)),
					3 => {
						if rng.chance(1, 2) {
							("feedback", v32(rng, &g, &[-6.0, -60.0, -1.0]))
						} else {
							("rfeedback", v64(rng, &g, &[0.5, 0.9, 0.0]))
						}
					}
					4 => ("volume", gen_db(rng, &g)),
					5 => ("panning", v32(rng, &g, PANS)),
					6 => ("drive", v32(rng, &g, &[0.0, 12.0, -59.0, -60.0])),
					7 => ("gain", v32(rng, &g, &[0.0, 6.0, -12.0])),
					8 => ("threshold", v64(rng, &g, &[0.0, -20.0, -40.0])),
					9 => ("ratio", v64(rng, &g, &[1.0, 8.0, 0.5])),
					10 => ("attack", format!("f{}", rng.pick(&[0u64, 5_000_000, 50_000_000]))),
					_ => ("frequency", v64(rng, &g, &[50.0, 500.0, 15000.0])),
				};
				format!("fx.set {} {} {} {}", rng.below(g.fxs.max(1)), param, v, gen_tween(rng, &g))
			}
			32 if g.subs > 0 && rng.chance(1, 2) => {
				let kind = rng.pick(&["vol", "pan", "filter", "eq", "dist", "comp", "reverb", "delay"]);
				let k = rng.below(g.subs);
				gen_fx_sub(rng, &g, k, kind)
			}
			32 if g.fxs > 0 => format!("fx.mode {} {}", rng.below(g.fxs.max(1)), rng.below(4)),
			33 => {
				let kind = rng.pick(&["track", "track", "send", "clock", "lfo", "tweener", "sound", "fx"]);
				let cnt = match kind {
					"track" => &mut g.tracks,
					"send" => &mut g.sends,
					"clock" => &mut g.clocks,
					"lfo" => &mut g.lfos,
					"tweener" => &mut g.tweeners,
					"sound" => &mut g.sounds,
					_ => &mut g.fxs,
				};
				*cnt = cnt.saturating_sub(1);
				format!("drop {} {}", kind, rng.below(4))
			}
			34 | 35 if rate_on => format!("rate {}", rng.pick(RATES)),
			48 => {
				g.listeners += 1;
				format!("listener {} {}", gen_p(rng, &g), gen_q(rng, &g))
			}
			49 | 50 if g.listeners + g.ghosts > 0 => {
				let lref = gen_listener_ref(rng, &g);
				let parent = rng.range(-1, 3);
				gen_strack(rng, &mut g, parent, lref)
			}
			51 | 52 if g.listeners > 0 => {
				if rng.chance(1, 2) {
					format!("lis.pos {} {} {}", rng.below(3), gen_p(rng, &g), gen_tween(rng, &g))
				} else {
					format!("lis.ori {} {} {}", rng.below(3), gen_q(rng, &g), gen_tween(rng, &g))
				}
			}
			53 | 54 if g.spatial > 0 => {
				if rng.chance(2, 3) {
					format!("trk {} pos {} {}", rng.below(4), gen_p(rng, &g), gen_tween(rng, &g))
				} else {
					format!("trk {} str {} {}", rng.below(4), v32(rng, &g, STRENGTHS), gen_tween(rng, &g))
				}
			}
			55 if g.listeners > 0 => {
				g.listeners -= 1;
				g.ghosts += 1;
				format!("drop listener {}", rng.below(3))
			}
			_ => gen_cb(rng, &g),
		};
		stats.hit(line.split(' ').next().unwrap());
		out.push(line);
	}
	out.push(format!("cb {} 2", rng.pick(&[64u64, 17, 200])));
}

/// a scene with settled parameters built before the first callback, then callbacks only (see `partition_oracle`)
fn gen_part_case(rng: &mut Rng, stats: &mut Stats, out: &mut Vec<String>) {
	let mut g = G { mods: false, ..G::default() };
	g.ibs = rng.pick(&[1u64, 2, 3, 7, 16, 64, 128, 256]);
	let sr = rng.pick(RATES);
	let main_fx = gen_fx_list(rng, &mut g);
	out.push(format!("mgr {} {} f{} {}", g.ibs, sr, o32(rng.pick(&[0.0f32, 0.0, -6.0, 6.0, -3.0])), main_fx));
	for _ in 0..rng.range(0, 2) {
		g.sends += 1;
		out.push(format!("send {} {}", gen_db(rng, &g), gen_fx_list(rng, &mut g)));
	}
	for _ in 0..rng.range(0, 4) {
		g.tracks += 1;
		let sends = match rng.below(3) {
			0 if g.sends > 0 => format!("{}={}", rng.below(3), gen_db(rng, &g)),
			_ => "-".to_string(),
		};
		out.push(format!("track {} {} {} {} {}", rng.range(-1, 3), gen_db(rng, &g), rng.below(2), sends, gen_fx_list(rng, &mut g)));
	}
	for _ in 0..rng.range(1, 5) {
		let len = rng.pick(&[1u64, 2, 10, 64, 100, 1000, 4000]);
		let sr2 = rng.pick(&[100u64, 8000, 22050, 44100, 48000]);
		let coding = match rng.below(4) {
			0 => "idx".to_string(),
			1 => "lr".to_string(),
			2 => format!("dc={}", o32(rng.pick(&[0.25f32, -0.5]))),
			_ => format!("rnd={}", rng.below(1 << 30)),
		};
		let lp = if rng.chance(1, 2) { gen_valid_loop(rng, len, sr2) } else { "none".to_string() };
		let reverse = rng.chance(1, 5);
		g.sounds += 1;
		out.push(format!(
			"play {} {} {} {} f{} f{} f{} {} {} n={} - imm",
			rng.range(-1, 4),
			coding,
			len,
			sr2,
			o32(rng.pick(&[0.0f32, -6.0, -20.0, -60.0, 3.0])),
			o64(rng.pick(&[1.0, 1.0, 0.5, 2.0, -1.0, 1.0 / 3.0, 1.4142135623730951, 0.0])),
			o32(rng.pick(PANS)),
			lp,
			reverse as u8,
			rng.pick(&[0, 0, (len - 1) / 2])
		));
	}
	for _ in 0..rng.range(2, 6) {
		let frames = match rng.below(5) {
			0 => 1,
			1 => g.ibs,
			2 => g.ibs * 2 + 1,
			_ => rng.below(250) + 1,
		};
		out.push(format!("cb {} 2", frames.min(500)));
	}
	stats.hit("part_case");
}

pub fn gen(rng: &mut Rng, n: usize, thorough: bool, stats: &mut Stats) -> Vec<String> {
	let mut out = vec![];
	for case in 0..n {
		if rng.chance(1, 5) {
			out.push(format!("case {} part {} {}", case, rng.pick(&[1u64, 2, 5, 7, 32, 64, 100, 256]), rng.below(1 << 30)));
			gen_part_case(rng, stats, &mut out);
		} else {
			out.push(format!("case {}", case));
			gen_case(rng, thorough, stats, &mut out);
		}
	}
	out
}
