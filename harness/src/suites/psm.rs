//! Suite `psm` (C03): `kira::playback_state_manager::PlaybackStateManager` through
//! `verif_hooks::HPlaybackStateManager`, with `MockInfoBuilder` clocks.
//!
//! ops:  info.clocks …  (as in suite `param`)
//!       new none|<tween>    pause <tween>    resume <start> <tween>    stop <tween>    mark    update <dt>
//!       fade <amount>
//! every state op prints `<state 0..6> <fade dB at 1.0> <fade dB at 0.0>` (+ ` <changed>` for update)
use crate::runner::{run_cases, Out};
use crate::suites::param::{gen_dt, gen_tween, ids, parse_start, parse_tween, InfoState, MAX_IDS};
use crate::util::*;
use kira::sound::PlaybackState;
use kira::verif_hooks::{playback_state_is_advancing, HPlaybackStateManager};
use kira::Decibels;

pub fn state_num(s: PlaybackState) -> u8 {
	match s {
		PlaybackState::Playing => 0,
		PlaybackState::Pausing => 1,
		PlaybackState::Paused => 2,
		PlaybackState::WaitingToResume => 3,
		PlaybackState::Resuming => 4,
		PlaybackState::Stopping => 5,
		PlaybackState::Stopped => 6,
	}
}

/// the documented life cycle: may a *command* move the state `a` to `b`?
pub fn command_edge(cmd: &str, immediate: bool, a: u8, b: u8) -> bool {
	if a == 6 {
		return b == 6;
	}
	match cmd {
		"pause" => b == 1,
		"resume" => b == if immediate { 4 } else { 3 },
		"stop" => b == 5,
		_ => false,
	}
}
/// the documented life cycle: may an *update* move the state `a` to `b`?
pub fn update_edge(a: u8, b: u8) -> bool {
	a == b || matches!((a, b), (1, 2) | (4, 0) | (5, 6) | (3, 4) | (3, 6))
}

fn show(m: &HPlaybackStateManager) -> String {
	format!(
		"{} {} {}",
		state_num(m.playback_state()),
		h32(m.interpolated_fade_volume(1.0).0),
		h32(m.interpolated_fade_volume(0.0).0)
	)
}

fn exec(case: &[String], out: &mut Out) {
	let ids = ids();
	let mut info_state = InfoState::default();
	out.put(case[0].clone());
	let mut m: Option<HPlaybackStateManager> = None;
	// oracle bookkeeping: direction of the running fade (-1 out, +1 in, 0 unknown), positive easing only
	let mut fade_dir: i32 = 0;
	// the start time a WaitingToResume state is waiting for, and the time spent waiting
	let mut waiting: Option<(kira::StartTime, f64, u32)> = None;
	for l in &case[1..] {
		let tok: Vec<&str> = l.split_whitespace().collect();
		match tok[0] {
			"info.clocks" => {
				info_state.parse_clocks(&tok);
				out.put("ok");
			}
			"info.mods" => {
				info_state.parse_mods(&tok);
				out.put("ok");
			}
			"new" => {
				let tw = if tok[1] == "none" { None } else { Some(parse_tween(tok[1], &ids)) };
				let p = HPlaybackStateManager::new(tw);
				out.put(show(&p));
				if p.playback_state() != PlaybackState::Playing {
					out.oracle_fail("psm_new_not_playing", l);
				}
				fade_dir = if tw.is_some() { 1 } else { 0 };
				m = Some(p);
			}
			"pause" | "resume" | "stop" | "mark" => {
				let p = m.as_mut().unwrap();
				let a = state_num(p.playback_state());
				let mut immediate = false;
				match tok[0] {
					"pause" => p.pause(parse_tween(tok[1], &ids)),
					"resume" => {
						let st = parse_start(tok[1], &ids);
						immediate = st == kira::StartTime::Immediate;
						if a != 6 && !immediate {
							waiting = Some((st, 0.0, 0));
						}
						p.resume(st, parse_tween(tok[2], &ids))
					}
					"stop" => p.stop(parse_tween(tok[1], &ids)),
					_ => p.mark_as_stopped(),
				}
				out.put(show(p));
				let b = state_num(p.playback_state());
				if tok[0] == "mark" {
					if b != 6 {
						out.oracle_fail("psm_mark_not_stopped", l);
					}
				} else if !command_edge(tok[0], immediate, a, b) {
					out.oracle_fail("psm_command_edge", l);
				}
				if a != 6 {
					fade_dir = match tok[0] {
						"pause" | "stop" => -1,
						"resume" if immediate => 1,
						_ => fade_dir,
					};
				}
			}
			"update" => {
				let p = m.as_mut().unwrap();
				let a = state_num(p.playback_state());
				let before = p.interpolated_fade_volume(1.0).0;
				let info = info_state.build();
				let changed = p.update(p64(tok[1]), &info);
				out.put(format!("{} {}", show(p), changed as u8));
				let b = state_num(p.playback_state());
				let after = p.interpolated_fade_volume(1.0).0;
				// --- oracles (C03) ---
				if !update_edge(a, b) {
					out.oracle_fail("psm_update_edge", l);
				}
				if changed != (a != b) {
					out.oracle_fail("psm_changed_flag", l);
				}
				// the fade never leaves [-60, 0] dB and moves towards its target
				if !(after >= -60.001 && after <= 0.001) {
					out.oracle_fail("psm_fade_range", l);
				}
				if (fade_dir < 0 && after > before + 1e-3) || (fade_dir > 0 && after < before - 1e-3) {
					out.oracle_fail("psm_fade_monotone", l);
				}
				// a fade-driven step lands exactly on silence / unity
				if (a, b) == (1, 2) || (a, b) == (5, 6) {
					if after != Decibels::SILENCE.0 || Decibels(after).as_amplitude() != 0.0 {
						out.oracle_fail("psm_fade_out_not_silent", l);
					}
				}
				if (a, b) == (4, 0) && (after != 0.0 || Decibels(after).as_amplitude() != 1.0) {
					out.oracle_fail("psm_fade_in_not_unity", l);
				}
				if playback_state_is_advancing(p.playback_state()) != matches!(b, 0 | 1 | 4 | 5) {
					out.oracle_fail("psm_is_advancing", l);
				}
				if a == 3 && b == 4 {
					fade_dir = 1;
				}
				// --- resume_at: WaitingToResume ends when the start time comes (C03) ---
				if a == 3 {
					if let Some((st, elapsed, n)) = waiting.as_mut() {
						*elapsed += p64(tok[1]);
						*n += 1;
						match st {
							kira::StartTime::Delayed(d) => {
								let d = d.as_nanos() as f64;
								// 1 µs of slack per update for the rounding of each step to nanoseconds
								if *elapsed * 1e9 > d + 1000.0 * *n as f64 && b == 3 {
									out.oracle_fail("psm_waiting_past_start_time", l);
								}
								if *elapsed * 1e9 < d - 1000.0 * *n as f64 && b != 3 {
									out.oracle_fail("psm_resumed_before_start_time", l);
								}
							}
							kira::StartTime::ClockTime(ct) => {
								let idx = ids.clocks.iter().position(|c| *c == ct.clock).unwrap();
								match info_state.clocks.get(idx) {
									None => {
										if b != 6 {
											out.oracle_fail("psm_missing_clock_not_stopped", l);
										}
									}
									Some((ticking, ticks, frac)) => {
										let reached = *ticking && (*ticks > ct.ticks || (*ticks == ct.ticks && *frac >= ct.fraction));
										if reached != (b == 4) {
											out.oracle_fail("psm_clock_start_time", l);
										}
									}
								}
							}
							_ => {}
						}
					}
				}
				if b != 3 {
					waiting = None;
				}
			}
			"fade" => {
				let p = m.as_ref().unwrap();
				out.put(h32(p.interpolated_fade_volume(p64(tok[1])).0));
			}
			_ => panic!("psm: unknown op {}", tok[0]),
		}
	}
}

pub fn run(ops: &[String]) -> Vec<String> {
	run_cases(ops, None, exec)
}

pub fn gen_info_clocks(rng: &mut Rng) -> String {
	let k = rng.below(MAX_IDS as u64 + 1);
	let mut s = format!("info.clocks {}", k);
	for _ in 0..k {
		s += &format!(" {} {} {}", rng.below(2), rng.below(6), o64(rng.pick(&[0.0, 0.5, 0.25, 0.75, 0.999])));
	}
	s
}

pub fn gen(rng: &mut Rng, n: usize, thorough: bool, stats: &mut Stats) -> Vec<String> {
	let mut out = vec![];
	let mut case = 0;
	if thorough {
		// exhaustive: every sequence of 4 steps over a small alphabet, each followed by an update
		let alphabet = [
			"pause imm;0;lin",
			"pause imm;1500000000;lin",
			"resume imm imm;0;lin",
			"resume imm imm;1500000000;lin",
			"resume del:1000000000 imm;500000000;lin",
			"resume clk:0:2:0000000000000000 imm;0;lin",
			"resume clk:2:0:0000000000000000 imm;0;lin",
			"stop imm;0;lin",
			"stop imm;1500000000;lin",
			"mark",
			"update 3ff0000000000000",
		];
		let k = alphabet.len();
		for code in 0..k * k * k * k {
			out.push(format!("case {}", case));
			case += 1;
			out.push("info.clocks 2 1 1 0000000000000000 0 5 0000000000000000".to_string());
			out.push(if code % 2 == 0 { "new none" } else { "new imm;1000000000;lin" }.to_string());
			let mut c = code;
			for _ in 0..4 {
				out.push(alphabet[c % k].to_string());
				out.push("update 3ff0000000000000".to_string());
				c /= k;
			}
			out.push("info.clocks 2 1 2 0000000000000000 1 5 0000000000000000".to_string());
			out.push("update 3ff0000000000000".to_string());
			out.push("update 3ff0000000000000".to_string());
			stats.add("exhaustive_ops", 13);
		}
	}
	for _ in 0..n {
		out.push(format!("case {}", case));
		case += 1;
		if rng.chance(1, 2) {
			out.push(gen_info_clocks(rng));
		}
		out.push(format!("new {}", if rng.chance(1, 2) { "none".to_string() } else { gen_tween(rng) }));
		let steps = rng.range(4, 28);
		for _ in 0..steps {
			let line = match rng.below(16) {
				0 => gen_info_clocks(rng),
				1 | 2 => format!("pause {}", gen_tween(rng)),
				3 | 4 => format!("resume {} {}", crate::suites::param::gen_start(rng), gen_tween(rng)),
				5 => format!("stop {}", gen_tween(rng)),
				6 => {
					if rng.chance(1, 4) {
						"mark".to_string()
					} else {
						format!("fade {}", o64(rng.pick(&[0.0, 1.0, 0.5, 0.25])))
					}
				}
				_ => format!("update {}", o64(gen_dt(rng))),
			};
			stats.hit(line.split(' ').next().unwrap());
			out.push(line);
		}
	}
	out
}
