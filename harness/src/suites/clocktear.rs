//! Suite `clocktear` (C05): controlled schedules of the caller's `ClockHandle::time()` / `stop()`
//! against the audio thread's `Clock::on_start_processing()` (→ `update_shared`) on the REAL code,
//! two real threads stepped through kira's named yield points
//! ("clock.update_shared.between", "clock.shared.fraction.load", "clock.handle.stop.between").
//!
//! ops:  new <value>        — clock, `handle.start()`, `on_start_processing()`
//!       adv <dt>           — `Clock::update(dt)` (audio side, nobody else running)
//!       pub                — `Clock::on_start_processing()` (nobody else running)
//!       race <prog> <sched> — audio thread runs one `on_start_processing()`; the caller runs `prog`
//!                            (a string of `t` = time(), `s` = stop()); `sched` is the order in which
//!                            the threads are let run to their next yield point (`A` audio, `C` caller);
//!                            whatever is left then runs audio first, caller last
//! `race` trace: `r <reads> | w <words afterwards> | <clock>`
use crate::runner::{run_cases, Out};
use crate::suites::clock::show;
use crate::suites::clocksys::{decode_replay, replay_of};
use crate::suites::param::{ids, parse_value};
use crate::util::*;
use kira::clock::{ClockHandle, ClockSpeed, ClockTime};
use kira::info::MockInfoBuilder;
use kira::verif_hooks::HClock;
use kira::Value;
use std::cell::Cell;
use std::sync::{Arc, Condvar, Mutex, OnceLock};

struct St {
	turn: Option<usize>,
	parked: [bool; 2],
	done: [bool; 2],
}
struct Ctl {
	m: Mutex<St>,
	cv: Condvar,
}
static CTL: OnceLock<Arc<Ctl>> = OnceLock::new();
thread_local! {
	static ROLE: Cell<Option<usize>> = const { Cell::new(None) };
}
const AUDIO: usize = 0;
const CALLER: usize = 1;

fn ctl() -> Arc<Ctl> {
	CTL.get_or_init(|| {
		let c = Arc::new(Ctl {
			m: Mutex::new(St {
				turn: None,
				parked: [false; 2],
				done: [false; 2],
			}),
			cv: Condvar::new(),
		});
		kira::verif_hooks::set_yield_hook(Some(Arc::new(hook)));
		c
	})
	.clone()
}

/// stop here until the controller lets this thread run again
fn park(role: usize) {
	let c = ctl();
	let mut g = c.m.lock().unwrap();
	g.parked[role] = true;
	g.turn = None;
	c.cv.notify_all();
	while g.turn != Some(role) {
		g = c.cv.wait(g).unwrap();
	}
	g.parked[role] = false;
}
fn finish(role: usize) {
	let c = ctl();
	let mut g = c.m.lock().unwrap();
	g.done[role] = true;
	g.turn = None;
	c.cv.notify_all();
}
fn hook(site: &'static str) {
	if let Some(role) = ROLE.with(|r| r.get()) {
		match (role, site) {
			(AUDIO, "clock.update_shared.between")
			| (CALLER, "clock.shared.fraction.load")
			| (CALLER, "clock.handle.stop.between") => park(role),
			_ => {}
		}
	}
}
/// let `role` run to its next yield point (or to its end)
fn grant(role: usize) {
	let c = ctl();
	let mut g = c.m.lock().unwrap();
	if g.done[role] {
		return;
	}
	g.turn = Some(role);
	c.cv.notify_all();
	while g.turn.is_some() {
		g = c.cv.wait(g).unwrap();
	}
}

fn race(clock: &mut HClock, handle: &mut ClockHandle, prog: &str, sched: &str) -> Vec<ClockTime> {
	let c = ctl();
	{
		let mut g = c.m.lock().unwrap();
		g.turn = None;
		g.parked = [false; 2];
		g.done = [false; 2];
	}
	let mut reads = vec![];
	std::thread::scope(|sc| {
		let a = sc.spawn(|| {
			ROLE.with(|r| r.set(Some(AUDIO)));
			park(AUDIO);
			clock.on_start_processing();
			finish(AUDIO);
		});
		let b = sc.spawn(|| {
			ROLE.with(|r| r.set(Some(CALLER)));
			park(CALLER);
			let mut reads = vec![];
			for (i, op) in prog.chars().enumerate() {
				if i > 0 {
					park(CALLER);
				}
				match op {
					't' => reads.push(handle.time()),
					's' => handle.stop(),
					_ => {}
				}
			}
			finish(CALLER);
			reads
		});
		// wait until both are parked at their starting line
		{
			let mut g = c.m.lock().unwrap();
			while !(g.parked[AUDIO] && g.parked[CALLER]) {
				g = c.cv.wait(g).unwrap();
			}
		}
		for ch in sched.chars() {
			grant(if ch == 'A' { AUDIO } else { CALLER });
		}
		loop {
			let done = c.m.lock().unwrap().done;
			if !done[AUDIO] {
				grant(AUDIO);
			} else if !done[CALLER] {
				grant(CALLER);
			} else {
				break;
			}
		}
		a.join().unwrap();
		reads = b.join().unwrap();
	});
	reads
}

fn key(t: u64, f: f64) -> (u64, u64) {
	(t, f.to_bits())
}

fn exec(case: &[String], out: &mut Out) {
	out.put(case[0].clone());
	let ids = ids();
	let info = MockInfoBuilder::new().build();
	let mut cur: Option<(HClock, ClockHandle)> = None;
	// every value the clock has had
	let mut truth: Vec<(u64, u64)> = vec![key(0, 0.0)];
	let mut last_read: Option<ClockTime> = None;
	for l in &case[1..] {
		let tok: Vec<&str> = l.split_whitespace().collect();
		match tok[0] {
			"replay" => {
				let sub = decode_replay(l);
				let mut o2 = Out::new();
				exec(&sub, &mut o2);
				out.put(o2.lines.last().cloned().unwrap_or_default());
				out.oracle.extend(o2.oracle);
			}
			"new" => {
				let v: Value<ClockSpeed> = parse_value(tok[1], &ids);
				let (mut c, mut h) = HClock::new(v);
				h.start();
				c.on_start_processing();
				out.put(show(&c, &h));
				cur = Some((c, h));
			}
			"adv" => {
				let (c, h) = cur.as_mut().unwrap();
				c.update(p64(tok[1]), &info);
				let (t, f) = c.state().unwrap_or((0, 0.0));
				truth.push(key(t, f));
				out.put(show(c, h));
			}
			"pub" => {
				let (c, h) = cur.as_mut().unwrap();
				c.on_start_processing();
				let (t, f) = c.state().unwrap_or((0, 0.0));
				truth.push(key(t, f));
				out.put(show(c, h));
			}
			"start" => {
				let (c, h) = cur.as_mut().unwrap();
				h.start();
				out.put(show(c, h));
			}
			"race" => {
				let (c, h) = cur.as_mut().unwrap();
				let prog = tok[1];
				let sched = tok.get(2).copied().unwrap_or("");
				let reads = race(c, h, prog, sched);
				let (t, f) = c.state().unwrap_or((0, 0.0));
				truth.push(key(t, f));
				let w = h.time();
				let rs: Vec<String> = reads.iter().map(|r| format!("{}:{}", r.ticks, h64(r.fraction))).collect();
				out.put(format!("r {} | w {}:{} | {}", rs.join(" "), w.ticks, h64(w.fraction), show(c, h)));
				// --- oracles: the property's claims about reads, on the real code ---
				let rp = replay_of(&case[..case.iter().position(|x| std::ptr::eq(x, l)).unwrap() + 1]);
				let mut ri = 0;
				for op in prog.chars() {
					if op == 's' {
						last_read = None;
						continue;
					}
					let r = reads[ri];
					ri += 1;
					if !truth.contains(&key(r.ticks, r.fraction)) {
						out.oracle_fail(
							"time_read_torn",
							format!("{} prog={} sched={} read={}:{} (a value the clock never had)", rp, prog, sched, r.ticks, r.fraction),
						);
					}
					if let Some(p) = last_read {
						if r < p {
							out.oracle_fail(
								"time_read_backwards",
								format!(
									"{} prog={} sched={} read={}:{} after={}:{}",
									rp, prog, sched, r.ticks, r.fraction, p.ticks, p.fraction
								),
							);
						}
					}
					last_read = Some(r);
				}
				if !truth.contains(&key(w.ticks, w.fraction)) {
					out.oracle_fail(
						"time_words_torn_at_rest",
						format!("{} prog={} sched={} words={}:{} (both threads idle)", rp, prog, sched, w.ticks, w.fraction),
					);
				}
				if prog.contains('s') {
					last_read = None;
				}
			}
			_ => panic!("clocktear: unknown op {}", tok[0]),
		}
	}
}

pub fn run(ops: &[String]) -> Vec<String> {
	run_cases(ops, None, |case: &[String], out: &mut Out| exec(case, out))
}

/// every interleaving of `a` audio grants with `c` caller grants
fn interleavings(a: usize, c: usize) -> Vec<String> {
	fn go(a: usize, c: usize, cur: &mut String, out: &mut Vec<String>) {
		if a == 0 && c == 0 {
			out.push(cur.clone());
			return;
		}
		if a > 0 {
			cur.push('A');
			go(a - 1, c, cur, out);
			cur.pop();
		}
		if c > 0 {
			cur.push('C');
			go(a, c - 1, cur, out);
			cur.pop();
		}
	}
	let mut out = vec![];
	go(a, c, &mut String::new(), &mut out);
	out
}

pub fn gen(rng: &mut Rng, n: usize, thorough: bool, stats: &mut Stats) -> Vec<String> {
	let mut out = vec![];
	let progs = ["t", "tt", "s", "st", "ts", "tst"];
	for case in 0..n {
		out.push(format!("case {}", case));
		let tps = rng.pick(&[1.0, 2.0, 10.0, 0.5, 3.0]);
		out.push(format!("new fix:tps={}", o64(tps)));
		let races = if thorough { 8 } else { 5 };
		for _ in 0..races {
			let k = rng.range(0, 2);
			for _ in 0..k {
				let dt = rng.pick(&[0.9, 0.2, 0.5, 0.3, 1.0, 0.05, 0.75]);
				out.push(format!("adv {}", o64(dt)));
				stats.hit("adv");
			}
			if rng.chance(1, 6) {
				out.push("pub".into());
				stats.hit("pub");
			}
			if rng.chance(1, 8) {
				out.push("start".into());
				stats.hit("start");
			}
			let prog = rng.pick(&progs);
			let all = interleavings(2, 2 * prog.len());
			let sched = all[rng.below(all.len() as u64) as usize].clone();
			stats.hit(&format!("race_{}", prog));
			out.push(format!("race {} {}", prog, sched));
		}
	}
	out
}
