//! Suite `wav` (C18): decoding is faithful; streaming a file equals loading it; bad files give errors.
//!
//! This is a `twin_first` suite: `check` runs the Lean twin first and passes its trace through
//! `KV_TWIN_TRACE`; for `wav` ops the bytes kira loads are the bytes the *Lean encoder* produced
//! (`bytes=<hex>` in the twin's line), so the Lean encoder/decoder spec is tied to the real decoder.
//!
//! ops (state per case: original file, current file, optional open stream):
//!   wav <fmt> <channels> <rate> <n> <codes-hex>    file := orig := twin's bytes; StaticSoundData::from_cursor
//!   raw <bytes-hex>                                file := orig := bytes; static load
//!   mut.xor <pos> <mask> | mut.trunc <len>         file := single-point mutation of orig; static load
//!   mut.lie <dRiff> <dData>                        file := orig with the RIFF / data-chunk length fields increased
//!                                                  (the header promises more frames than the file holds); static load
//!   st.new <start> <a> <b> | st.new <start> - -    StreamingSoundData::from_cursor(file) (+slice), split
//!   st.run <k> | st.seek <idx> <k>                 (seek_to(idx) then) k hook-stepped scheduler iterations;
//!                                                  the frames pushed are rendered out of the real sound
//!   st.thread                                      the stream is handed to a REAL decoder thread (`DecodeScheduler::start`)
//!                                                  and played out frame by frame: `thread finished` | `thread stopped <err>`
//!   asset <file> <start> <steps>                   shipped asset: static load vs streaming (both real code)
//!   asset.mut <file> xor <pos> <mask> | trunc <len>  mutation of a shipped asset (third-party robustness test)
//!
//! Streams read their bytes through `CountingSource` (a `MediaSource` over a cursor that counts the reads
//! answered with "end of file"): a scheduler iteration that keeps reading past the end of the file is cut
//! off after `EOF_READ_LIMIT` such reads and reported as a hang (`stream_terminates`) without leaving a
//! spinning thread behind; the 20 s watchdog of `run_cases` remains the net for any other hang.
//!
//! The mutation ops are *testing of third-party Symphonia* (its demuxers/decoders are not modelled beyond
//! the PCM-WAV path); their oracles are labelled `sym_*`.
use crate::runner::{run_cases, Out};
use crate::util::*;
use kira::info::MockInfoBuilder;
use kira::sound::static_sound::StaticSoundData;
use kira::sound::streaming::{StreamingSoundData, StreamingSoundHandle};
use kira::sound::{FromFileError, PlaybackPosition, Sound};
use kira::verif_hooks::streaming::{split, HNextStep, HScheduler};
use kira::Frame;
use std::collections::HashMap;
use std::io::{Cursor, Read, Seek, SeekFrom};
use std::panic::{catch_unwind, AssertUnwindSafe};
use std::sync::atomic::{AtomicBool, AtomicUsize, Ordering};
use std::sync::{Arc, Mutex, OnceLock};
use std::time::{Duration, Instant};
use symphonia::core::io::MediaSource;

const ASSET_DIR: &str = "/repo/crates/examples/assets";
/// shipped assets small enough to decode many times per run (the large `dynamic/*` stems are
/// used in the thorough tier only)
const ASSETS_QUICK: &[&str] = &["blip.ogg", "score.ogg", "sine.wav", "drums.ogg"];
const ASSETS_THOROUGH: &[&str] = &[
	"dynamic/arp.ogg",
	"dynamic/bass.ogg",
	"dynamic/drums.ogg",
	"dynamic/lead.ogg",
	"dynamic/pad.ogg",
];

// ------------------------------------------------------------------------------------------
// helpers
// ------------------------------------------------------------------------------------------

/// last panic message with the source path reduced to its file name
fn panic_msg() -> String {
	let m = crate::runner::last_panic();
	match m.rsplit_once(" @ ") {
		Some((msg, path)) => format!("{} @ {}", msg, path.rsplit('/').next().unwrap_or(path)),
		None => m,
	}
}

fn hex_of(bytes: &[u8]) -> String {
	let mut s = String::with_capacity(bytes.len() * 2);
	for b in bytes {
		s.push_str(&format!("{:02x}", b));
	}
	s
}
fn bytes_of(hex: &str) -> Vec<u8> {
	if hex == "-" {
		return vec![];
	}
	(0..hex.len() / 2)
		.map(|i| u8::from_str_radix(&hex[2 * i..2 * i + 2], 16).expect("bad hex"))
		.collect()
}
fn h32n(x: f32) -> String {
	if x.is_nan() {
		"nnnnnnnn".into()
	} else {
		format!("{:08x}", x.to_bits())
	}
}
fn show_frames(fs: &[Frame]) -> String {
	if fs.is_empty() {
		return "-".into();
	}
	let mut s = String::with_capacity(fs.len() * 16);
	for f in fs {
		s.push_str(&h32n(f.left));
		s.push_str(&h32n(f.right));
	}
	s
}
fn canon_z(x: f32) -> f32 {
	if x == 0.0 {
		0.0
	} else {
		x
	}
}
fn show_frames_z(fs: &[Frame]) -> String {
	if fs.is_empty() {
		return "-".into();
	}
	let mut s = String::with_capacity(fs.len() * 16);
	for f in fs {
		s.push_str(&h32n(canon_z(f.left)));
		s.push_str(&h32n(canon_z(f.right)));
	}
	s
}
fn same(a: f32, b: f32) -> bool {
	a.to_bits() == b.to_bits() || (a.is_nan() && b.is_nan())
}
fn same_frame(a: &Frame, b: &Frame) -> bool {
	same(a.left, b.left) && same(a.right, b.right)
}
fn same_z(a: f32, b: f32) -> bool {
	same(canon_z(a), canon_z(b))
}
fn same_frame_z(a: &Frame, b: &Frame) -> bool {
	same_z(a.left, b.left) && same_z(a.right, b.right)
}
fn err_name(e: &FromFileError) -> &'static str {
	match e {
		FromFileError::NoDefaultTrack => "err notrack",
		FromFileError::UnknownSampleRate => "err rate",
		FromFileError::UnknownDuration => "err dur",
		FromFileError::UnsupportedChannelConfiguration => "err chan",
		FromFileError::IoError(_) => "err io",
		FromFileError::SymphoniaError(_) => "err sym",
	}
}

/// a playback rate `p` and a `dt` with `fl(fl(rate · p) · dt) == 1.0` exactly, so that the streaming
/// sound advances by exactly one source frame per output frame with a zero interpolation fraction
/// (`fractional_position += sample_rate as f64 * playback_rate * dt`)
fn find_step(rate: u32) -> Option<(f64, f64)> {
	let r = rate as f64;
	let nudge = |x: f64, k: i64| f64::from_bits((x.to_bits() as i64 + k) as u64);
	if rate == 0 {
		return None;
	}
	for k in [0i64, 1, -1, 2, -2, 3, -3] {
		let d = nudge(1.0 / r, k);
		if r * 1.0 * d == 1.0 {
			return Some((1.0, d));
		}
	}
	for kp in [0i64, 1, -1] {
		let p = nudge(1.0 / r, kp);
		let m = r * p;
		for k in [0i64, 1, -1, 2, -2, 3, -3] {
			let d = nudge(1.0 / m, k);
			if m * d == 1.0 {
				return Some((p, d));
			}
		}
	}
	None
}

/// reads answered with "end of file" that one scheduler iteration may make before it is cut off
/// (the real code makes one per `decode` call at the end of the data, and a failing `decode` ends
/// the iteration)
const EOF_READ_LIMIT: usize = 256;
/// "end of file" reads after which a decoder thread must have reported its error (each failing
/// `decode` makes one such read and returns before the next one can happen)
const EOF_READ_GRACE: usize = 64;
const TRIP_MSG: &str = "kv-wav: the decoder keeps reading past the end of the file";

struct SrcShared {
	/// reads that returned 0 bytes for a non-empty buffer since the last `arm`
	eof_reads: AtomicUsize,
	/// panic out of `read` when `eof_reads` exceeds this (hand-stepped mode)
	limit: AtomicUsize,
	tripped: AtomicBool,
	/// the harness has given this stream up: the next read panics (ends an abandoned decoder thread)
	kill: AtomicBool,
}
impl SrcShared {
	fn arm(&self, limit: usize) {
		self.eof_reads.store(0, Ordering::SeqCst);
		self.limit.store(limit, Ordering::SeqCst);
	}
}

/// the bytes of a file as a `MediaSource` (what `from_cursor` does), counting end-of-file reads
struct CountingSource {
	cur: Cursor<Vec<u8>>,
	sh: Arc<SrcShared>,
}
impl Read for CountingSource {
	fn read(&mut self, buf: &mut [u8]) -> std::io::Result<usize> {
		if self.sh.kill.load(Ordering::SeqCst) {
			panic!("kv-wav: stream abandoned by the harness");
		}
		let n = self.cur.read(buf)?;
		if n == 0 && !buf.is_empty() {
			let c = self.sh.eof_reads.fetch_add(1, Ordering::SeqCst) + 1;
			if c > self.sh.limit.load(Ordering::SeqCst) {
				self.sh.tripped.store(true, Ordering::SeqCst);
				panic!("{}", TRIP_MSG);
			}
		}
		Ok(n)
	}
}
impl Seek for CountingSource {
	fn seek(&mut self, pos: SeekFrom) -> std::io::Result<u64> {
		self.cur.seek(pos)
	}
}
impl MediaSource for CountingSource {
	fn is_seekable(&self) -> bool {
		true
	}
	fn byte_len(&self) -> Option<u64> {
		Some(self.cur.get_ref().len() as u64)
	}
}

enum Loaded {
	Ok(u32, Arc<[Frame]>),
	Err(&'static str),
	Panic,
}

fn load_static(bytes: &[u8]) -> Loaded {
	let v = bytes.to_vec();
	match catch_unwind(AssertUnwindSafe(|| StaticSoundData::from_cursor(Cursor::new(v)))) {
		Ok(Ok(d)) => Loaded::Ok(d.sample_rate, d.frames.clone()),
		Ok(Err(e)) => Loaded::Err(err_name(&e)),
		Err(_) => Loaded::Panic,
	}
}
fn show_loaded(l: &Loaded) -> String {
	match l {
		Loaded::Ok(rate, fs) => format!("ok rate={} n={} frames={}", rate, fs.len(), show_frames(fs)),
		Loaded::Err(k) => k.to_string(),
		Loaded::Panic => "panic".into(),
	}
}

struct Stream {
	sound: Box<dyn Sound>,
	handle: StreamingSoundHandle<FromFileError>,
	/// `None` once the scheduler has been handed to a real decoder thread (`st.thread`)
	sched: Option<HScheduler<FromFileError>>,
	src: Arc<SrcShared>,
	/// the stream is on a RIFF/WAVE file whose static load is `reference`: a frame at a position the
	/// static load does not have is an invented sample
	strict: bool,
	rate: u32,
	dt: f64,
	ended: bool,
	/// frames of the static load of the same file (for the static-vs-stream oracle)
	reference: Option<Arc<[Frame]>>,
	slice_start: usize,
	num_frames: usize,
	/// the transport position the next pushed frame must come from
	pos: usize,
	/// a non-zero start position or a seek has happened (the decoder has been asked to seek)
	seeked: bool,
}

enum RunEnd {
	More,
	End,
	Err(&'static str),
	Panic,
	/// an iteration kept reading past the end of the file (`EOF_READ_LIMIT`)
	Hang,
}

/// k scheduler iterations; the frames pushed are rendered out of the sound; returns them
fn stream_run(s: &mut Stream, k: usize) -> (Vec<Frame>, RunEnd) {
	let mut pushed = 0usize;
	let mut end = RunEnd::More;
	let Some(sched) = s.sched.as_mut() else {
		return (vec![], RunEnd::End);
	};
	// (a case abandoned by the watchdog inside the loop below never decrements this)
	IN_SCHEDULER.fetch_add(1, Ordering::SeqCst);
	for _ in 0..k {
		s.src.arm(EOF_READ_LIMIT);
		let r = catch_unwind(AssertUnwindSafe(|| sched.run()));
		match r {
			Ok(Ok(HNextStep::Continue)) => pushed += 1,
			Ok(Ok(HNextStep::End)) => {
				pushed += 1;
				end = RunEnd::End;
				break;
			}
			Ok(Ok(HNextStep::Wait)) => break,
			Ok(Err(e)) => {
				end = RunEnd::Err(err_name(&e));
				break;
			}
			Err(_) => {
				end = if s.src.tripped.load(Ordering::SeqCst) { RunEnd::Hang } else { RunEnd::Panic };
				break;
			}
		}
	}
	IN_SCHEDULER.fetch_sub(1, Ordering::SeqCst);
	s.src.arm(usize::MAX);
	let mut out = vec![Frame::ZERO; pushed];
	if pushed > 0 {
		let info = MockInfoBuilder::new().build();
		s.sound.on_start_processing();
		s.sound.process(&mut out, s.dt, &info);
	}
	// The frames are recovered by playing the sound at rate 1 (Hermite interpolation at fraction 0 = the
	// current frame) — which only works while the four frames of the interpolation window are moderate:
	// a float WAV (e.g. an integer file whose format tag was mutated) can hold NaN / inf / 1e38 samples,
	// and `0.0 * inf` inside the interpolation turns the neighbouring frames into NaN.  Where a rendered
	// frame is non-finite AND the static load of the same bytes has such a sample in its window, the
	// static frame is reported instead (nothing can be observed about the stream there).
	if let Some(reference) = &s.reference {
		let wild = |f: &Frame| !(f.left.abs() < 1e30 && f.right.abs() < 1e30);
		for (i, f) in out.iter_mut().enumerate() {
			if f.left.is_finite() && f.right.is_finite() {
				continue;
			}
			let p = s.slice_start + s.pos + i;
			let lo = p.saturating_sub(1);
			let hi = (p + 2).min(reference.len().saturating_sub(1));
			if reference.is_empty() || lo > hi {
				continue;
			}
			if reference[lo..=hi].iter().any(wild) {
				if let Some(r) = reference.get(p) {
					if s.pos + i < s.num_frames {
						*f = *r;
					}
				}
			}
		}
	}
	if !matches!(end, RunEnd::More) {
		s.ended = true;
	}
	(out, end)
}

fn show_run(frames: &[Frame], end: &RunEnd) -> String {
	let tail = match end {
		RunEnd::More => "".to_string(),
		RunEnd::End => " end".to_string(),
		RunEnd::Err(k) => format!(" {}", k),
		RunEnd::Panic => " panic".to_string(),
		RunEnd::Hang => " hang".to_string(),
	};
	format!("n={} frames={}{}", frames.len(), show_frames_z(frames), tail)
}

/// static-vs-stream oracle: every frame the stream delivered is the static frame at the
/// transport position it was produced for (zero outside the slice / the audio)
fn check_stream_frames(s: &mut Stream, frames: &[Frame], out: &mut Out, ctx: &str, op: &str) {
	if let Some(reference) = &s.reference {
		for f in frames {
			let want = if s.pos < s.num_frames {
				reference.get(s.slice_start + s.pos).copied()
			} else {
				Some(Frame::ZERO)
			};
			if want.is_none() && s.strict {
				// the stream delivered a frame for a position that the static load of the very same
				// bytes does not have (a truncated / lying file): an invented sample.
				// (detail = the op line, so that the replay is the case up to this op)
				out.oracle_fail("stream_prefix_of_static", op);
				s.reference = None;
				return;
			}
			if let Some(w) = want {
				if !same_frame_z(f, &w) {
					out.oracle_fail(
						"stream_eq_static",
						format!(
							"{} :: seeked={} position {} streamed {}{} static {}{}",
							ctx,
							s.seeked as u8,
							s.pos,
							h32n(f.left),
							h32n(f.right),
							h32n(w.left),
							h32n(w.right)
						),
					);
					s.reference = None;
					return;
				}
			}
			s.pos += 1;
		}
	}
}

/// wall-clock allowance for a decoder thread to play a (≤ 3000-frame) file out; shortened once
/// two streams have missed it, so that a tree in which every such stream hangs is still checked
/// in bounded time
fn thread_deadline() -> Duration {
	if DEADLINE_MISSES.load(Ordering::SeqCst) >= 2 {
		Duration::from_secs(2)
	} else {
		Duration::from_secs(12)
	}
}
static DEADLINE_MISSES: AtomicUsize = AtomicUsize::new(0);
/// hand-stepped scheduler calls in flight; at the start of an op every one of them belongs to an
/// earlier case that the watchdog gave up on (`fault hang`) and whose thread is still spinning
static IN_SCHEDULER: AtomicUsize = AtomicUsize::new(0);
/// streams of earlier cases that hang for good (a thread each that cannot be stopped).  After three
/// of them — each already reported as `fault hang` / `stream_terminates` — further streaming ops of
/// this process are not executed, so that a tree in which every such stream hangs is still
/// checked in bounded time instead of piling up spinning threads.
fn hung_streams() -> usize {
	IN_SCHEDULER.load(Ordering::SeqCst) + DEADLINE_MISSES.load(Ordering::SeqCst)
}

/// `st.thread`: hand the scheduler to a real decoder thread (`DecodeScheduler::start`) and play the
/// sound out one frame per `process` call, as an audio thread would.  Oracles:
///  * `stream_terminates` — the sound must come to an end (finished: `Stopped`, with or without an
///    error on the handle).  Detected without waiting where possible: once the source has answered
///    more than `EOF_READ_GRACE` reads with "end of file", a failing `decode` has returned (each makes
///    one such read), so the thread has stored `encountered_error` *before* our next `process`, which
///    must therefore stop the sound; otherwise a wall-clock deadline.
///  * `stream_prefix_of_static` — what was audible is a prefix of the static load of the same bytes
///    from the stream's position (silence while waiting for the decoder is skipped), never more.
///  * `stream_thread_complete` — finished without an error ⇒ every frame up to the end was audible.
fn stream_thread(s: &mut Stream, op: &str, out: &mut Out) -> String {
	let sched = s.sched.take().expect("st.thread without a scheduler");
	s.ended = true;
	s.src.arm(usize::MAX);
	sched.start();
	let info = MockInfoBuilder::new().build();
	let deadline = Instant::now() + thread_deadline();
	let mut audible: Vec<Frame> = vec![];
	let mut hang = false;
	while !s.sound.finished() {
		// (read the counter BEFORE `process`: see above)
		let eofs = s.src.eof_reads.load(Ordering::SeqCst);
		s.sound.on_start_processing();
		let mut buf = [Frame::ZERO; 1];
		s.sound.process(&mut buf, s.dt, &info);
		audible.push(buf[0]);
		if s.sound.finished() {
			break;
		}
		if eofs > EOF_READ_GRACE {
			hang = true;
			break;
		}
		if Instant::now() > deadline {
			DEADLINE_MISSES.fetch_add(1, Ordering::SeqCst);
			hang = true;
			break;
		}
		if buf[0] == Frame::ZERO {
			std::thread::yield_now();
		}
	}
	if hang {
		// end the abandoned decoder thread at its next read (it is spinning in `frame_at_index`)
		s.src.kill.store(true, Ordering::SeqCst);
		out.oracle_fail("stream_terminates", op);
		return "thread hang".into();
	}
	s.sound.on_start_processing();
	let err = s.handle.pop_error();
	// audible frames: a prefix of the static frames from the current position, interleaved with silence
	if let Some(reference) = s.reference.clone() {
		let mut p = s.pos;
		let mut bad = false;
		for f in &audible {
			let want = if p < s.num_frames { reference.get(s.slice_start + p).copied() } else { None };
			match want {
				Some(w) if same_frame_z(f, &w) => p += 1,
				_ if same_frame_z(f, &Frame::ZERO) => {}
				_ => {
					bad = true;
					break;
				}
			}
		}
		if bad {
			if s.strict {
				out.oracle_fail("stream_prefix_of_static", op);
			}
		} else if err.is_none() {
			let all = s.num_frames.min(reference.len().saturating_sub(s.slice_start));
			if p < all && s.pos < all {
				out.oracle_fail("stream_thread_complete", op);
			}
		}
		s.pos = p;
	}
	match err {
		None => "thread finished".into(),
		Some(e) => format!("thread stopped {}", err_name(&e)),
	}
}

fn open_stream(
	bytes: &[u8],
	start: usize,
	slice: Option<(usize, usize)>,
	rate_hint: Option<u32>,
	reference: Option<Arc<[Frame]>>,
	strict: bool,
) -> Result<Stream, String> {
	let v = bytes.to_vec();
	let r = catch_unwind(AssertUnwindSafe(|| -> Result<Stream, String> {
		// `from_media_source(source)` is `from_cursor(cursor)` with our counting cursor
		let src = Arc::new(SrcShared {
			eof_reads: AtomicUsize::new(0),
			limit: AtomicUsize::new(usize::MAX),
			tripped: AtomicBool::new(false),
			kill: AtomicBool::new(false),
		});
		let source = CountingSource { cur: Cursor::new(v), sh: src.clone() };
		let mut data = StreamingSoundData::from_media_source(source).map_err(|e| err_name(&e).to_string())?;
		data = data.start_position(PlaybackPosition::Samples(start));
		let rate = rate_hint.unwrap_or(1);
		let (p, dt) = find_step(rate).unwrap_or((1.0, 1.0 / rate as f64));
		data = data.playback_rate(p);
		data.slice = slice;
		let num_frames = data.num_frames();
		let (sound, handle, sched) = split(data).map_err(|e| err_name(&e).to_string())?;
		Ok(Stream {
			sound,
			handle,
			sched: Some(sched),
			src,
			strict,
			rate,
			dt,
			ended: false,
			reference,
			slice_start: slice.map(|s| s.0).unwrap_or(0),
			num_frames,
			pos: start,
			seeked: start != 0,
		})
	}));
	match r {
		Ok(x) => x,
		Err(_) => Err("panic".into()),
	}
}

/// sample rate as written in a canonical RIFF/WAVE header (only used to pick `dt` and seek times)
fn header_rate(bytes: &[u8]) -> Option<u32> {
	if bytes.len() >= 28 && &bytes[0..4] == b"RIFF" {
		Some(u32::from_le_bytes([bytes[24], bytes[25], bytes[26], bytes[27]]))
	} else {
		None
	}
}

// ------------------------------------------------------------------------------------------
// assets
// ------------------------------------------------------------------------------------------

struct Asset {
	bytes: Arc<Vec<u8>>,
	rate: u32,
	frames: Arc<[Frame]>,
}
fn asset(name: &str) -> Option<Arc<Asset>> {
	static CACHE: OnceLock<Mutex<HashMap<String, Option<Arc<Asset>>>>> = OnceLock::new();
	let cache = CACHE.get_or_init(|| Mutex::new(HashMap::new()));
	let mut c = cache.lock().unwrap();
	if let Some(a) = c.get(name) {
		return a.clone();
	}
	let a = (|| {
		let bytes = std::fs::read(format!("{}/{}", ASSET_DIR, name)).ok()?;
		match load_static(&bytes) {
			Loaded::Ok(rate, frames) => Some(Arc::new(Asset { bytes: Arc::new(bytes), rate, frames })),
			_ => None,
		}
	})();
	c.insert(name.to_string(), a.clone());
	a
}

/// steps: comma separated `r<k>` (k iterations) and `s<idx>:<k>` (seek_to(idx) then k iterations)
fn run_steps(s: &mut Stream, steps: &str, out: &mut Out, ctx: &str) -> String {
	let mut res = vec![];
	for st in steps.split(',') {
		if s.ended {
			res.push("ended".to_string());
			continue;
		}
		let k = if let Some(rest) = st.strip_prefix('r') {
			rest.parse::<usize>().unwrap()
		} else if let Some(rest) = st.strip_prefix('s') {
			let (i, k) = rest.split_once(':').unwrap();
			let idx: usize = i.parse().unwrap();
			s.handle.seek_to(idx as f64 / s.rate as f64);
			s.pos = idx;
			s.seeked = true;
			k.parse::<usize>().unwrap()
		} else {
			panic!("bad step {}", st)
		};
		let (frames, end) = stream_run(s, k);
		if matches!(end, RunEnd::Panic) {
			out.oracle_fail("no_panic", format!("{} :: streaming step {}", ctx, st));
		}
		check_stream_frames(s, &frames, out, ctx, ctx);
		res.push(show_run(&frames, &end));
	}
	res.join(" | ")
}

// ------------------------------------------------------------------------------------------
// interpreter
// ------------------------------------------------------------------------------------------

#[derive(Default)]
struct State {
	orig: Vec<u8>,
	orig_loaded: Option<(u32, Arc<[Frame]>)>,
	/// the original is a canonical PCM WAV produced by the Lean encoder: (block align, data length)
	canonical: Option<(usize, usize)>,
	file: Vec<u8>,
	file_loaded: Option<(u32, Arc<[Frame]>)>,
	stream: Option<Stream>,
}

fn set_file(st: &mut State, bytes: Vec<u8>, is_orig: bool, pre: &str, twin: &str, op: &str, out: &mut Out) {
	let l = load_static(&bytes);
	let replay = format!("raw {}", hex_of(&bytes));
	if let Loaded::Panic = l {
		out.oracle_fail("no_panic", format!("{} :: static load panicked: {} (from: {})", replay, panic_msg(), op));
	}
	let loaded = match &l {
		Loaded::Ok(r, f) => Some((*r, f.clone())),
		_ => None,
	};
	// mono duplicated: a one-channel canonical file must give left == right
	if let (Some((_, fs)), true) = (&loaded, bytes.len() >= 24 && &bytes[0..4] == b"RIFF" && bytes[22] == 1 && bytes[23] == 0) {
		if fs.iter().any(|f| !same(f.left, f.right)) {
			out.oracle_fail("mono_duplicated", replay.clone());
		}
	}
	if !is_orig {
		// third-party robustness (Symphonia): a single-point mutation of a valid file gives an error
		// or a result consistent with the original
		if let (Some((r0, f0)), Some((r1, f1))) = (&st.orig_loaded, &loaded) {
			let tok: Vec<&str> = op.split_whitespace().collect();
			if tok[0] == "mut.trunc" {
				let is_prefix = f1.len() <= f0.len() && f1.iter().zip(f0.iter()).all(|(a, b)| same_frame(a, b));
				if !is_prefix || r0 != r1 {
					out.oracle_fail("sym_trunc_prefix", format!("{} :: truncation of a valid file is not a prefix of it (n={} of {})", replay, f1.len(), f0.len()));
				}
			} else if tok[0] == "mut.xor" {
				if let Some((block, dlen)) = st.canonical {
					let pos: usize = tok[1].parse().unwrap();
					if pos >= 44 && pos < 44 + dlen && block > 0 {
						let hit = (pos - 44) / block;
						let okay = r0 == r1
							&& f1.len() == f0.len()
							&& f1.iter().zip(f0.iter()).enumerate().all(|(i, (a, b))| i == hit || same_frame(a, b));
						if !okay {
							out.oracle_fail("sym_data_flip_local", format!("{} :: a flipped data byte changed more than its own frame", replay));
						}
					}
				}
			}
		}
	}
	let real = show_loaded(&l);
	// where the model makes no prediction (probe falls through to other format readers) the
	// line is `nopred`; the robustness oracles above still apply
	let line = if twin == "nopred" { "nopred".to_string() } else { format!("{}{}", pre, real) };
	out.put(line);
	if is_orig {
		st.orig = bytes.clone();
		st.orig_loaded = loaded.clone();
	}
	st.file = bytes;
	st.file_loaded = loaded;
	st.stream = None;
}

fn exec(st: &mut State, op: &str, twin: &str, out: &mut Out) {
	let tok: Vec<&str> = op.split_whitespace().collect();
	match tok[0] {
		"wav" => {
			// bytes come from the Lean encoder (twin trace)
			let bytes = twin
				.split_whitespace()
				.find_map(|t| t.strip_prefix("bytes="))
				.map(bytes_of);
			match bytes {
				Some(b) => {
					let bytes_per = match tok[1] {
						"u8" => 1,
						"s16" => 2,
						"s24" => 3,
						"s32" | "f32" => 4,
						_ => 8,
					};
					let ch: usize = tok[2].parse().unwrap();
					let n: usize = tok[4].parse().unwrap();
					st.canonical = Some((ch * bytes_per, n * bytes_per));
					let pre = format!("bytes={} ", hex_of(&b));
					set_file(st, b, true, &pre, twin, op, out);
					oracle_multichannel_rejected(st, ch, n, out);
				}
				None => out.put("no-twin-bytes (run through ./check or tools/cmp.sh: twin_first suite)"),
			}
		}
		"raw" => {
			st.canonical = None;
			set_file(st, bytes_of(tok[1]), true, "", twin, op, out);
		}
		"mut.xor" => {
			let pos: usize = tok[1].parse().unwrap();
			let mask: u8 = tok[2].parse().unwrap();
			let mut b = st.orig.clone();
			if pos < b.len() {
				b[pos] ^= mask;
			}
			set_file(st, b, false, "", twin, op, out);
		}
		"mut.trunc" => {
			let len: usize = tok[1].parse().unwrap();
			let b = st.orig[..len.min(st.orig.len())].to_vec();
			set_file(st, b, false, "", twin, op, out);
		}
		"mut.lie" => {
			let dr: u32 = tok[1].parse().unwrap();
			let dd: u32 = tok[2].parse().unwrap();
			let mut b = st.orig.clone();
			for (off, d) in [(4usize, dr), (40usize, dd)] {
				if b.len() >= off + 4 {
					let v = u32::from_le_bytes([b[off], b[off + 1], b[off + 2], b[off + 3]]).wrapping_add(d);
					b[off..off + 4].copy_from_slice(&v.to_le_bytes());
				}
			}
			set_file(st, b, false, "", twin, op, out);
		}
		"st.run" | "st.seek" | "st.thread" if hung_streams() >= 3 => {
			out.put("not-run: three earlier streams hang");
		}
		"st.thread" => match &mut st.stream {
			None => out.put("nostream"),
			Some(s) if s.ended || s.sched.is_none() => {
				let _ = s;
				out.put("ended")
			}
			Some(s) => {
				let line = stream_thread(s, op, out);
				out.put(line);
			}
		},
		"st.new" => {
			let start: usize = tok[1].parse().unwrap();
			let slice = if tok[2] == "-" { None } else { Some((tok[2].parse().unwrap(), tok[3].parse().unwrap())) };
			let rate = st.file_loaded.as_ref().map(|x| x.0).or_else(|| header_rate(&st.file));
			let reference = st.file_loaded.as_ref().map(|x| x.1.clone());
			// RIFF/WAVE: static load and stream go through the same demuxer packets
			let strict = st.file.len() >= 4 && &st.file[0..4] == b"RIFF";
			match open_stream(&st.file, start, slice, rate, reference, strict) {
				Ok(s) => {
					let line = format!("ok n={}", s.num_frames);
					st.stream = Some(s);
					out.put(if twin == "nopred" { "nopred".into() } else { line });
				}
				Err(k) => {
					if k == "panic" {
						out.oracle_fail("no_panic", format!("raw {} :: opening the stream panicked: {}", hex_of(&st.file), panic_msg()));
					}
					st.stream = None;
					out.put(if twin == "nopred" { "nopred".into() } else { k });
				}
			}
		}
		"st.run" | "st.seek" => {
			let ctx = format!("raw {} :: {}", if st.file.len() <= 4096 { hex_of(&st.file) } else { "<large>".into() }, op);
			match &mut st.stream {
				None => out.put("nostream"),
				Some(s) if s.ended => {
					let _ = s;
					out.put("ended")
				}
				Some(s) => {
					let k: usize = if tok[0] == "st.run" {
						tok[1].parse().unwrap()
					} else {
						let idx: usize = tok[1].parse().unwrap();
						s.handle.seek_to(idx as f64 / s.rate as f64);
						s.pos = idx;
						s.seeked = true;
						tok[2].parse().unwrap()
					};
					let (frames, end) = stream_run(s, k);
					if matches!(end, RunEnd::Panic) {
						out.oracle_fail("no_panic", format!("{} :: {}", ctx, panic_msg()));
					}
					if matches!(end, RunEnd::Hang) {
						// one scheduler iteration read past the end of the file more than EOF_READ_LIMIT
						// times: `frame_at_index` does not return (detail = the op: replay = the case so far)
						out.oracle_fail("stream_terminates", op);
					}
					check_stream_frames(s, &frames, out, &ctx, op);
					out.put(show_run(&frames, &end));
				}
			}
		}
		"asset" => {
			// asset <file> <start> <steps>: implementation-side oracle, both sides real code
			match asset(tok[1]) {
				None => out.put("asset missing-or-unloadable"),
				Some(a) => {
					let start: usize = tok[2].parse().unwrap();
					match open_stream(&a.bytes, start, None, Some(a.rate), Some(a.frames.clone()), false) {
						Ok(mut s) => {
							if s.num_frames != a.frames.len() {
								out.oracle_fail("asset_num_frames", format!("{} :: streaming num_frames {} static {}", op, s.num_frames, a.frames.len()));
							}
							let _ = run_steps(&mut s, tok[3], out, op);
							out.put("asset ok");
						}
						Err(k) => {
							out.oracle_fail("asset_stream_open", format!("{} :: {}", op, k));
							out.put("asset ok");
						}
					}
				}
			}
		}
		"asset.mut" => {
			// third-party robustness (Symphonia): mutation of a shipped asset
			match asset(tok[1]) {
				None => out.put("asset missing-or-unloadable"),
				Some(a) => {
					let mut b = (*a.bytes).clone();
					if tok[2] == "xor" {
						let pos: usize = tok[3].parse().unwrap();
						let mask: u8 = tok[4].parse().unwrap();
						if pos < b.len() {
							b[pos] ^= mask;
						}
					} else {
						let len: usize = tok[3].parse().unwrap();
						b.truncate(len);
					}
					let l = load_static(&b);
					match &l {
						Loaded::Panic => out.oracle_fail("no_panic", format!("{} :: static load panicked: {}", op, panic_msg())),
						Loaded::Ok(r, f) => {
							if tok[2] == "trunc" {
								let is_prefix = f.len() <= a.frames.len() && f.iter().zip(a.frames.iter()).all(|(x, y)| same_frame(x, y));
								if !is_prefix || *r != a.rate {
									out.oracle_fail("sym_trunc_prefix", format!("{} :: truncated asset decodes to something that is not a prefix (n={} of {})", op, f.len(), a.frames.len()));
								}
							}
						}
						Loaded::Err(_) => {}
					}
					// streaming the mutated asset: no panic, and frames delivered equal its static load
					let reference = match &l {
						Loaded::Ok(_, f) => Some(f.clone()),
						_ => None,
					};
					match open_stream(&b, 0, None, Some(a.rate), reference, false) {
						Ok(mut s) => {
							let _ = run_steps(&mut s, "r700,r700", out, op);
						}
						Err(k) => {
							if k == "panic" {
								out.oracle_fail("no_panic", format!("{} :: opening the stream panicked: {}", op, panic_msg()));
							}
						}
					}
					out.put("asset ok");
				}
			}
		}
		_ => out.put("bad-op"),
	}
}

/// join each op line with the twin's line for it (tab separated)
fn with_twin(ops: &[String]) -> Vec<String> {
	let twin: Vec<String> = match std::env::var("KV_TWIN_TRACE") {
		Ok(p) => std::fs::read_to_string(p)
			.map(|s| s.lines().map(|l| l.to_string()).collect())
			.unwrap_or_default(),
		Err(_) => vec![],
	};
	let mut res = vec![];
	let mut i = 0;
	for l in ops {
		let t = l.trim();
		if t.is_empty() || t.starts_with('#') {
			continue;
		}
		let tw = twin.get(i).cloned().unwrap_or_default();
		i += 1;
		res.push(format!("{}\t{}", t, tw));
	}
	res
}

pub fn run(ops: &[String]) -> Vec<String> {
	let joined = with_twin(ops);
	run_cases(&joined, Some(Duration::from_secs(20)), |case: &[String], out: &mut Out| {
		let mut st = State::default();
		for l in case {
			let (op, twin) = l.split_once('\t').unwrap_or((l.as_str(), ""));
			if op.starts_with("case") {
				out.put(op.to_string());
				continue;
			}
			exec(&mut st, op, twin, out);
		}
	})
}

// ------------------------------------------------------------------------------------------
// generator
// ------------------------------------------------------------------------------------------

const FMTS: &[(&str, usize)] = &[("u8", 1), ("s16", 2), ("s24", 3), ("s32", 4), ("f32", 4), ("f64", 8)];
const RATES: &[u32] = &[
	1, 2, 3, 7, 100, 255, 256, 8000, 11025, 16000, 22050, 32000, 44100, 48000, 65536, 88200, 96000, 176400, 192000,
	384000, 16777216, 2147483647, 4294967295,
];
const LENS: &[usize] = &[0, 1, 2, 3, 5, 16, 100, 1151, 1152, 1153, 2303, 2304, 2305, 3000];

fn gen_code(rng: &mut Rng, fmt: &str, modest: bool) -> u64 {
	match fmt {
		"u8" => match rng.below(6) {
			0 => rng.pick(&[0u64, 1, 127, 128, 129, 255]),
			_ => rng.below(256),
		},
		"s16" => match rng.below(6) {
			0 => rng.pick(&[0u64, 1, 0x7fff, 0x8000, 0x8001, 0xffff]),
			_ => rng.below(1 << 16),
		},
		"s24" => match rng.below(6) {
			0 => rng.pick(&[0u64, 1, 0x7fffff, 0x800000, 0x800001, 0xffffff]),
			_ => rng.below(1 << 24),
		},
		"s32" => match rng.below(6) {
			0 => rng.pick(&[0u64, 1, 0x7fffffff, 0x80000000, 0x80000001, 0xffffffff, 0x7fffff80, 0x7fffffbf, 0x7fffffc0, 0x00ffffff, 0x01000001]),
			_ => rng.next() & 0xffff_ffff,
		},
		"f32" => {
			let x: f32 = match rng.below(10) {
				0 => rng.pick(&[0.0f32, -0.0, 1.0, -1.0, 0.5, f32::MIN_POSITIVE, 1e-40]),
				1 if !modest => rng.pick(&[f32::MAX, f32::MIN, 1e38, -3e38]),
				_ => rng.uniform(-1.5, 1.5) as f32,
			};
			x.to_bits() as u64
		}
		_ => {
			let x: f64 = match rng.below(10) {
				0 => rng.pick(&[0.0f64, -0.0, 1.0, -1.0, 0.5, 1e-50, 1.0 + 1e-9, 0.1]),
				1 if !modest => rng.pick(&[1e39, -1e39, f64::MAX, 3.4028235677973366e38, 1e-320]),
				_ => rng.uniform(-1.5, 1.5),
			};
			x.to_bits()
		}
	}
}

struct Wav {
	fmt: &'static str,
	bytes_per: usize,
	ch: usize,
	rate: u32,
	frames: usize,
	line: String,
}
impl Wav {
	fn data_len(&self) -> usize {
		self.frames * self.ch * self.bytes_per
	}
	fn file_len(&self) -> usize {
		44 + self.data_len() + self.data_len() % 2
	}
}

fn gen_wav(rng: &mut Rng, stats: &mut Stats, ch_pool: &[usize], modest: bool, max_frames: usize) -> Wav {
	let (fmt, bytes_per) = rng.pick(FMTS);
	let ch = rng.pick(ch_pool);
	let rate = match rng.below(8) {
		0 => 1 + rng.below(400000) as u32,
		_ => rng.pick(RATES),
	};
	let mut frames = match rng.below(4) {
		0 => rng.pick(LENS),
		1 => rng.below(40) as usize,
		2 => rng.below(300) as usize,
		_ => rng.below(12) as usize,
	};
	frames = frames.min(max_frames);
	let n = frames * ch;
	let mut hex = String::with_capacity(n * bytes_per * 2);
	for _ in 0..n {
		let c = gen_code(rng, fmt, modest);
		hex.push_str(&format!("{:0width$x}", c, width = bytes_per * 2));
	}
	if n == 0 {
		hex.push('-');
	}
	stats.hit(&format!("wav.{}", fmt));
	stats.hit(&format!("wav.ch{}", ch.min(3)));
	stats.hit(if frames == 0 {
		"wav.len0"
	} else if frames < 1152 {
		"wav.len<1152"
	} else {
		"wav.len>=1152"
	});
	Wav { fmt, bytes_per, ch, rate, frames, line: format!("wav {} {} {} {} {}", fmt, ch, rate, n, hex) }
}

fn gen_stream_ops(rng: &mut Rng, stats: &mut Stats, frames: usize, lines: &mut Vec<String>) {
	// start position and optional slice
	let (slice, span) = if rng.chance(1, 4) && frames > 0 {
		let a = rng.below(frames as u64 + 1) as usize;
		let b = a + rng.below((frames - a) as u64 + 1) as usize;
		(Some((a, b)), b - a)
	} else {
		(None, frames)
	};
	let start = match rng.below(5) {
		0 => 0,
		1 => span,
		2 => span.saturating_sub(1),
		_ => rng.below(span as u64 + 1) as usize,
	};
	match slice {
		Some((a, b)) => lines.push(format!("st.new {} {} {}", start, a, b)),
		None => lines.push(format!("st.new {} - -", start)),
	}
	stats.hit("st.new");
	let steps = 1 + rng.below(6);
	// one case in four ends by playing the rest out through a real decoder thread
	let thread_after = if rng.chance(1, 4) { Some(rng.below(3)) } else { None };
	for i in 0..steps {
		if thread_after == Some(i) {
			lines.push("st.thread".into());
			stats.hit("st.thread");
			return;
		}
		let k = match rng.below(5) {
			0 => 1,
			1 => 1 + rng.below(5) as usize,
			2 => 1 + rng.below(1300) as usize,
			_ => 1 + rng.below(60) as usize,
		};
		if rng.chance(1, 2) {
			// seeks stay inside the audio the decoder has: seeking past the end of a sliced or
			// unsliced stream is an error of the WAV reader (covered by a dedicated rare branch)
			let idx = match rng.below(8) {
				0 => 0,
				1 => span.saturating_sub(1),
				2 => span,
				3 if rng.chance(1, 4) => frames + 1 + rng.below(3) as usize,
				_ => rng.below(span as u64 + 1) as usize,
			};
			lines.push(format!("st.seek {} {}", idx, k));
			stats.hit("st.seek");
		} else {
			lines.push(format!("st.run {}", k));
			stats.hit("st.run");
		}
	}
}

/// a file that holds fewer frames than its header promises (cut inside the data chunk, or the
/// length fields increased), STREAMED up to and past the point where the data ends: hand-stepped
/// and through a real decoder thread
fn gen_short_file_stream(rng: &mut Rng, stats: &mut Stats, w: &Wav, lines: &mut Vec<String>) {
	let block = w.ch * w.bytes_per;
	let data_len = w.data_len();
	// (frames wholly present, frames the header promises)
	let (present, promised) = if rng.chance(1, 2) || w.frames == 0 {
		// the header lies: data-chunk length (and normally the RIFF length) increased
		let extra_frames = match rng.below(5) {
			0 => 1,
			1 => rng.pick(&[1151usize, 1152, 1153, 2304]),
			2 => 1 + rng.below(5) as usize,
			_ => 1 + rng.below(3000) as usize,
		};
		let mut dd = (extra_frames * block) as u64;
		if rng.chance(1, 6) {
			dd += rng.below(block as u64); // not a whole number of frames
		}
		if rng.chance(1, 12) {
			dd = rng.pick(&[0x7fff_0000u64, 0x4000_0000, 0x0100_0000]); // a huge promise
		}
		let dr = match rng.below(8) {
			0 => 0, // RIFF length not adjusted: the reader refuses the data chunk
			1 => dd + 1,
			_ => dd,
		};
		lines.push(format!("mut.lie {} {}", dr, dd));
		stats.hit("mut.lie");
		// (the RIFF pad byte of an odd-sized data chunk becomes data)
		(w.frames, (data_len as u64 + dd) as usize / block.max(1))
	} else {
		let keep = match rng.below(4) {
			0 => 0,
			1 => w.frames - 1,
			_ => rng.below(w.frames as u64) as usize,
		};
		let partial = if rng.chance(1, 2) { rng.below(block as u64) as usize } else { 0 };
		lines.push(format!("mut.trunc {}", 44 + keep * block + partial));
		stats.hit("mut.trunc.data");
		(keep, w.frames)
	};
	let span = promised.min(present + 4000);
	// mostly from the beginning, sometimes from inside / just before / after the missing part
	let start = match rng.below(8) {
		0 => present.saturating_sub(1),
		1 => present,
		2 => (present + 1).min(span),
		3 => rng.below(span as u64 + 1) as usize,
		_ => 0,
	};
	if rng.chance(1, 8) && present > 0 {
		let a = rng.below(present as u64) as usize;
		let b = (a + 1 + rng.below(span as u64 + 1) as usize).min(promised);
		lines.push(format!("st.new {} {} {}", start.min(b.saturating_sub(a)), a, b.max(a)));
	} else {
		lines.push(format!("st.new {} - -", start));
	}
	stats.hit("short.st.new");
	// the finale: a real decoder thread (then the hand-stepped part mostly stays before the edge) or
	// a hand-stepped run over the edge
	let thread_finale = rng.chance(3, 5);
	let room = present.saturating_sub(start);
	for _ in 0..rng.below(3) {
		let k = match rng.below(4) {
			0 => 1,
			1 => room + rng.below(3) as usize,             // up to the edge
			2 => present + 1 + rng.below(8) as usize,      // over the edge
			_ => 1 + rng.below(1400) as usize,
		}
		.max(1);
		let k = if thread_finale && room > 1 && rng.chance(3, 4) { 1 + rng.below(room as u64 / 2) as usize } else { k };
		if rng.chance(1, 3) {
			let idx = match rng.below(5) {
				0 => present,
				1 => present.saturating_sub(1),
				2 => (present + 1 + rng.below(1200) as usize).min(span),
				_ => rng.below(span as u64 + 1) as usize,
			};
			lines.push(format!("st.seek {} {}", idx, k));
			stats.hit("short.st.seek");
		} else {
			lines.push(format!("st.run {}", k));
			stats.hit("short.st.run");
		}
	}
	if thread_finale {
		lines.push("st.thread".into());
		stats.hit("short.st.thread");
	} else {
		lines.push(format!("st.run {}", present + 2 + rng.below(1300) as usize));
		stats.hit("short.st.run-out");
	}
}

fn gen_mutation(rng: &mut Rng, stats: &mut Stats, w: &Wav, lines: &mut Vec<String>) -> bool {
	// returns whether the mutation may have put non-finite floats into the data
	let len = w.file_len();
	if rng.chance(2, 5) {
		let t = match rng.below(6) {
			0 => rng.below(45) as usize,
			1 => 44,
			2 => len.saturating_sub(1),
			3 => 44 + (w.data_len() / 2),
			_ => rng.below(len as u64 + 1) as usize,
		};
		lines.push(format!("mut.trunc {}", t));
		stats.hit("mut.trunc");
		false
	} else {
		let mut pos = match rng.below(3) {
			0 => rng.below(44) as usize,
			1 => 4 + rng.below(40) as usize,
			_ => rng.below(len.max(1) as u64) as usize,
		};
		let mut mask = match rng.below(4) {
			0 => 1u8 << rng.below(8),
			1 => 0xff,
			_ => 1 + rng.below(255) as u8,
		};
		if rng.chance(1, 10) {
			// clear one non-zero byte of a header field (channels, rate, block align, bits, data length)
			let fields: [(usize, u32); 5] = [
				(22, w.ch as u32),
				(24, w.rate),
				(32, (w.ch * w.bytes_per) as u32),
				(34, (w.bytes_per * 8) as u32),
				(40, w.data_len() as u32),
			];
			let (off, v) = rng.pick(&fields);
			let nz: Vec<usize> = (0..4).filter(|j| (v >> (8 * j)) & 0xff != 0).collect();
			if !nz.is_empty() {
				let j = rng.pick(&nz);
				pos = off + j;
				mask = ((v >> (8 * j)) & 0xff) as u8;
				stats.hit("mut.xor.clear-field-byte");
			}
		}
		lines.push(format!("mut.xor {} {}", pos, mask));
		stats.hit(if pos < 44 { "mut.xor.header" } else { "mut.xor.data" });
		pos >= 44 && (w.fmt == "f32" || w.fmt == "f64")
	}
}

pub fn gen(rng: &mut Rng, n: usize, thorough: bool, stats: &mut Stats) -> Vec<String> {
	let mut lines = vec![];
	for case in 0..n {
		lines.push(format!("case {}", case));
		match rng.below(22) {
			// round trip only: every format, channel counts 1..6 and a few large ones, extreme values
			0..=6 => {
				let w = gen_wav(rng, stats, &[1, 1, 2, 2, 1, 2, 1, 2, 3, 4, 6, 26, 1, 2, 27, 32, 0, 1, 2, 2], false, 3000);
				lines.push(w.line);
			}
			// streaming with seeks
			7..=12 => {
				let w = gen_wav(rng, stats, &[1, 2], true, 3000);
				let streamable = find_step(w.rate).is_some();
				let frames = w.frames;
				lines.push(w.line);
				if streamable {
					gen_stream_ops(rng, stats, frames, &mut lines);
				} else {
					stats.hit("st.skipped-rate");
				}
			}
			// single-point mutations (third-party robustness), some followed by streaming
			13..=17 => {
				let w = gen_wav(rng, stats, &[1, 2, 2, 1, 3], true, 2400);
				let streamable = find_step(w.rate).is_some();
				lines.push(w.line.clone());
				for _ in 0..(1 + rng.below(6)) {
					let nonfinite = gen_mutation(rng, stats, &w, &mut lines);
					if streamable && !nonfinite && rng.chance(1, 3) {
						lines.push("st.new 0 - -".into());
						if rng.chance(1, 3) {
							// a few hand-stepped frames, the rest through a real decoder thread
							lines.push(format!("st.run {}", 1 + rng.below(12)));
							lines.push("st.thread".into());
							stats.hit("mut.st.thread");
						} else {
							lines.push(format!("st.run {}", 1 + rng.below(1400)));
						}
						stats.hit("mut.stream");
					}
				}
			}
			// files shorter than their header says, streamed over the edge
			18..=19 => {
				let w = gen_wav(rng, stats, &[1, 2], true, 2400);
				let streamable = find_step(w.rate).is_some();
				lines.push(w.line.clone());
				if streamable {
					gen_short_file_stream(rng, stats, &w, &mut lines);
				} else {
					stats.hit("st.skipped-rate");
				}
			}
			// shipped assets
			_ => {
				let pool: Vec<&str> = if thorough {
					ASSETS_QUICK.iter().chain(ASSETS_THOROUGH.iter()).copied().collect()
				} else {
					ASSETS_QUICK.to_vec()
				};
				let name = rng.pick(&pool);
				if let Some(a) = asset(name) {
					let nf = a.frames.len();
					if rng.chance(1, 2) {
						let start = if rng.chance(1, 3) { 0 } else { rng.below(nf as u64) as usize };
						let mut steps = vec![];
						for _ in 0..(1 + rng.below(5)) {
							let k = 1 + rng.below(400) as usize;
							if rng.chance(2, 3) {
								steps.push(format!("s{}:{}", rng.below(nf as u64) as usize, k));
							} else {
								steps.push(format!("r{}", k));
							}
						}
						lines.push(format!("asset {} {} {}", name, start, steps.join(",")));
						stats.hit("asset.stream");
					} else if rng.chance(1, 2) {
						lines.push(format!("asset.mut {} trunc {}", name, rng.below(a.bytes.len() as u64 + 1)));
						stats.hit("asset.trunc");
					} else {
						lines.push(format!(
							"asset.mut {} xor {} {}",
							name,
							rng.below(a.bytes.len() as u64),
							1 + rng.below(255)
						));
						stats.hit("asset.xor");
					}
				}
			}
		}
	}
	// long files, streamed: the sound is longer than two of the streaming sound's frame rings (16384 slots each), so
	// the ring's 4-frame read window straddles the physical end of the ring buffer at least twice; every frame is
	// compared with the static load of the same bytes (the bytes the Lean encoder produced)
	for k in 0..(if thorough { 6 } else { 2 }) {
		lines.push(format!("case {}", n + k));
		gen_long_stream(rng, stats, &mut lines);
	}
	lines
}

/// a canonical WAV of more than 2 × 16384 frames, streamed from (near) its start to its end in runs of up to a
/// few thousand decoder iterations, with an occasional seek
fn gen_long_stream(rng: &mut Rng, stats: &mut Stats, lines: &mut Vec<String>) {
	let (fmt, bytes_per) = rng.pick(&[("u8", 1usize), ("u8", 1), ("s16", 2)]);
	let ch = rng.pick(&[1usize, 1, 2]);
	let rate = loop {
		let r = rng.pick(&[8000u32, 11025, 22050, 44100, 48000, 1, 256, 96000]);
		if find_step(r).is_some() {
			break r;
		}
	};
	let frames = 2 * 16_384 + 300 + rng.below(2500) as usize;
	let n = frames * ch;
	let mut hex = String::with_capacity(n * bytes_per * 2);
	for _ in 0..n {
		let c = gen_code(rng, fmt, true);
		hex.push_str(&format!("{:0width$x}", c, width = bytes_per * 2));
	}
	lines.push(format!("wav {} {} {} {} {}", fmt, ch, rate, n, hex));
	stats.hit("wav.long");
	let start = if rng.chance(1, 3) { rng.below(200) as usize } else { 0 };
	lines.push(format!("st.new {} - -", start));
	stats.hit("st.new");
	let mut pos = start;
	let mut streamed = 0usize;
	let mut seeks = 0;
	while pos < frames {
		let k = match rng.below(6) {
			0 => 1 + rng.below(40) as usize,
			1 => 4096,
			2 => 16_383,
			_ => 500 + rng.below(6000) as usize,
		};
		// a seek back now and then, but only once enough has been streamed for the file to be played past two rings
		if seeks < 2 && streamed > 6000 && rng.chance(1, 6) && frames - pos + streamed > 2 * 16_384 + 4000 {
			let idx = pos.saturating_sub(rng.below(3000) as usize);
			lines.push(format!("st.seek {} {}", idx, k));
			stats.hit("st.seek");
			seeks += 1;
			pos = idx;
		} else {
			lines.push(format!("st.run {}", k));
			stats.hit("st.run");
		}
		pos += k;
		streamed += k;
	}
}

#[cfg(test)]
mod tests {
	#[test]
	fn step_exists_for_every_rate_sampled() {
		let mut miss = 0;
		let mut rng = crate::util::Rng::new(7);
		for r in 1u32..=400_000 {
			if super::find_step(r).is_none() {
				miss += 1;
			}
		}
		for _ in 0..2_000_000 {
			let r = (rng.next() & 0xffff_ffff) as u32;
			if r != 0 && super::find_step(r).is_none() {
				miss += 1;
			}
		}
		assert_eq!(miss, 0);
	}
}

/// C18 "malformed, truncated or unsupported files produce an error value …, never … invented samples", for the
/// unsupported channel layouts: kira documents mono and stereo only (`FromFileError::UnsupportedChannelConfiguration`:
/// "Only mono and stereo audio is supported"), so a valid PCM WAV with more than two channels and at least one
/// frame has to be REFUSED with an error value (that one, or the reader's own) - loading it with channels dropped would not be "exactly the samples
/// encoded in the file". Evaluated on the encoder's own (valid) files only; `n` = samples in the file.
fn oracle_multichannel_rejected(st: &State, ch: usize, n: usize, out: &mut Out) {
	if ch <= 2 || n == 0 || st.file.len() < 44 {
		return;
	}
	let replay = format!("raw {}", hex_of(&st.file));
	match load_static(&st.file) {
		Loaded::Ok(_, frames) => out.oracle_fail(
			"multichannel_rejected",
			format!("{} :: a {}-channel file was loaded as {} stereo frames instead of being refused", replay, ch, frames.len()),
		),
		// any error value will do: Symphonia itself refuses some layouts (27, 32 channels) before kira looks at them
		_ => {}
	}
	// streaming: the decoder must not deliver frames either (the error surfaces when the stream is opened or decoded)
	let v = st.file.clone();
	if let Ok(Ok(data)) = catch_unwind(AssertUnwindSafe(|| StreamingSoundData::from_cursor(Cursor::new(v)))) {
		// (first decoder step: it has to decode the first packet to deliver frame 0)
		let r = catch_unwind(AssertUnwindSafe(|| {
			let (_sound, _handle, mut sched) = split(data).ok()?;
			match sched.run() {
				Ok(_) => Some(1usize),
				Err(_) => None,
			}
		}));
		if let Ok(Some(pushed)) = r {
			if pushed > 0 {
				out.oracle_fail(
					"multichannel_rejected",
					format!("{} :: the first decoder step of a {}-channel stream succeeded ({}) instead of reporting an error", replay, ch, pushed),
				);
			}
		}
	}
}
