//! Suite `life` (C08): resource life cycles through kira's PUBLIC API — `AudioManager<ProbeBackend>`,
//! device callbacks on a dedicated thread — for sounds (ProbeSound with a length), sub-tracks (each
//! with its own sound storage and a ProbeEffect), send tracks, clocks, modulators (LifeProbeModulator),
//! listeners, with small capacities (0…4).
//!
//! ops:  mgr <sub> <send> <clock> <mod> <lis> <snd>     capacities (snd = main-track sound capacity)
//!       add sub <sndcap> | add send | add clock | add mod | add lis      → ok n=<count> | limit n=<count>
//!       play <len>            a sound of <len> frames on the main track      → ok n= | limit n=
//!       tplay <t> <len>       a sound on the t-th sub-track                  → ok n= | limit n= | skip
//!       add spat <l> <sndcap> a SPATIAL sub-track (listener = the l-th listener created; same storage and capacity
//!                             as the plain sub-tracks; indexed together with them by tplay / tplayerr / drop sub)
//!       add sub <sndcap> <subcap> | add spat <l> <sndcap> <subcap>   … with its own sub-track capacity (default 128)
//!       tadd <p> sub <sndcap> <subcap> | tadd <p> spat <l> <sndcap> <subcap>
//!                             a plain / spatial sub-track OF the p-th (plain or spatial) sub-track — at any depth;
//!                             indexed together with all other sub-tracks    → ok n=<children of p> cap=<snd>/<sub> | limit n= | skip
//!                             (a successful `add sub` / `add spat` prints ` cap=<sound_capacity()>/<sub_track_capacity()>` too)
//!       playerr | tplayerr <t>  play a SoundData whose into_sound() fails, on the main track / on the t-th
//!                             (plain or spatial) sub-track                   → err n= | limit n= | skip
//!       drop <kind> <i>       drop the i-th handle of that kind (a modulator: raise its finished flag)
//!       cb <frames>           one device callback → the counts, and which clock / modulator ids resolve in `Info`
//! Oracles: count = created − removed ≤ capacity; the limit error exactly when full; removal at the
//! next callback (the one after if not yet picked up); resources never destroyed on the callback
//! thread; ids of removed resources never resolve again; creation never panics; a failed play
//! (`IntoSoundError`) leaves `num_sounds` unchanged and does not consume capacity (`failed_play_*`).
use crate::probe::{self, CallbackThread, FailingSoundData, InfoProbeBuilder, InfoSeen, InfoShared, Log, ProbeEffectBuilder, LifeProbeModulatorBuilder, LifeProbeModulatorHandle, ProbeSoundData, Signal};
use crate::runner::{run_cases, Out};
use crate::util::*;
use kira::clock::{ClockHandle, ClockSpeed};
use kira::listener::{ListenerHandle, ListenerId};
use kira::track::{MainTrackBuilder, SendTrackBuilder, SendTrackHandle, SpatialTrackBuilder, SpatialTrackHandle, TrackBuilder, TrackHandle};
use kira::{AudioManager, Capacities, PlaySoundError};
use std::panic::{catch_unwind, resume_unwind, AssertUnwindSafe};
use std::sync::{Arc, Mutex};
use std::time::Duration;

pub fn gen(rng: &mut Rng, n: usize, thorough: bool, stats: &mut Stats) -> Vec<String> {
	let mut out = vec![];
	for case in 0..n {
		out.push(format!("case {}", case));
		let mut capv = |rng: &mut Rng| match rng.below(16) {
			0 => 0,
			1..=5 => 1,
			6..=10 => 2,
			11..=13 => 3,
			_ => 4,
		};
		let caps: Vec<u64> = (0..6).map(|_| capv(rng)).collect();
		out.push(format!("mgr {} {} {} {} {} {}", caps[0], caps[1], caps[2], caps[3], caps[4], caps[5]));
		if caps.iter().any(|c| *c == 0) {
			stats.hit("has_cap0");
		}
		let kinds = ["sub", "send", "clock", "mod", "lis"];
		let mut attempts = [0u64; 5];
		// the generator's rough picture of the sub-tracks (removal taken as immediate): which attempts probably gave a
		// live handle, and how full their own sub-track storages are — so that parents are mostly real tracks
		struct GT {
			live: bool,
			top: bool,
			tc: u64,
			kids: u64,
			parent: Option<usize>,
		}
		let mut gts: Vec<GT> = vec![];
		if rng.chance(1, 2) {
			// a listener early on, so that spatial sub-tracks can be built
			out.push("add lis".into());
			attempts[4] += 1;
		}
		let nops = 8 + rng.below(if thorough { 70 } else { 36 });
		// focus most cases on one or two kinds so that capacities are actually reached
		let focus = rng.below(7);
		for _ in 0..nops {
			let k = if focus < 5 && rng.chance(2, 3) { focus as usize } else { rng.below(5) as usize };
			match rng.below(16) {
				0..=4 => {
					if kinds[k] == "sub" {
						// sound capacity and sub-track capacity are drawn apart (mostly DIFFERENT values, 0 and 1 included):
						// each storage of a track is sized by its own builder field
						let sc = rng.pick(&[0u64, 1, 1, 2, 2, 3]);
						let tc = if rng.chance(1, 6) { sc } else { rng.pick(&[0u64, 1, 1, 2, 3, 4]) };
						let spatial = attempts[4] > 0 && caps[4] > 0 && rng.chance(2, 5);
						let what = if spatial { format!("spat {}", rng.below(attempts[4].min(caps[4]))) } else { "sub".to_string() };
						let live: Vec<usize> = (0..gts.len()).filter(|i| gts[*i].live).collect();
						if !live.is_empty() && rng.chance(1, 2) {
							// a sub-track of a sub-track (plain or spatial parent, any depth); now and then of a
							// track that is gone, refused or was never there
							let parent = if rng.chance(1, 10) { rng.below(gts.len() as u64 + 1) as usize } else { rng.pick(&live) };
							out.push(format!("tadd {} {} {} {}", parent, what, sc, tc));
							stats.hit(if spatial { "tadd_spat" } else { "tadd_sub" });
							// (a parent that is not there: the op is skipped and takes no index)
							if parent < gts.len() && gts[parent].live {
								let ok = gts[parent].kids < gts[parent].tc;
								if ok {
									gts[parent].kids += 1;
								}
								gts.push(GT { live: ok, top: false, tc, kids: 0, parent: Some(parent) });
							}
						} else {
							let ok = (gts.iter().filter(|g| g.top && g.live).count() as u64) < caps[0];
							if rng.chance(1, 8) {
								// the builder's default sub-track capacity
								out.push(format!("add {} {}", what, sc));
								gts.push(GT { live: ok, top: true, tc: 128, kids: 0, parent: None });
							} else {
								out.push(format!("add {} {} {}", what, sc, tc));
								gts.push(GT { live: ok, top: true, tc, kids: 0, parent: None });
							}
						}
						if spatial {
							stats.hit("add_spat");
						}
					} else {
						out.push(format!("add {}", kinds[k]));
					}
					attempts[k] += 1;
					attempts[0] = gts.len() as u64;
					stats.hit(&format!("add_{}", kinds[k]));
				}
				5..=6 => {
					if rng.chance(1, 4) {
						for _ in 0..(1 + rng.below(3)) {
							out.push("playerr".into());
						}
						stats.hit("playerr");
					} else {
						out.push(format!("play {}", rng.pick(&[0u64, 1, 5, 8, 20, 100])));
						stats.hit("play");
					}
				}
				7..=8 => {
					if attempts[0] > 0 {
						if rng.chance(1, 3) {
							// a play that fails in into_sound(): must not touch the track's sound storage
							let t = rng.below(attempts[0]);
							for _ in 0..(1 + rng.below(3)) {
								out.push(format!("tplayerr {}", t));
							}
							stats.hit("tplayerr");
						} else {
							out.push(format!("tplay {} {}", rng.below(attempts[0]), rng.pick(&[0u64, 1, 5, 8, 20])));
							stats.hit("tplay");
						}
					} else if rng.chance(1, 2) {
						for _ in 0..(1 + rng.below(3)) {
							out.push("playerr".into());
						}
						stats.hit("playerr");
					}
				}
				9..=11 => {
					if attempts[k] > 0 {
						// mostly recent handles
						let i = if rng.chance(1, 2) { attempts[k] - 1 } else { rng.below(attempts[k]) };
						out.push(format!("drop {} {}", kinds[k], i));
						stats.hit("drop");
						if kinds[k] == "sub" {
							if let Some(g) = gts.get_mut(i as usize) {
								if g.live {
									g.live = false;
									if let Some(p) = g.parent {
										gts[p].kids = gts[p].kids.saturating_sub(1);
									}
								}
							}
						}
					}
				}
				_ => {
					out.push(format!("cb {}", rng.pick(&[1u64, 4, 5, 8, 16])));
					stats.hit("cb");
				}
			}
		}
		out.push("cb 8".into());
		out.push("cb 8".into());
	}
	out
}

#[derive(Clone, Copy, PartialEq)]
enum Where {
	Ring,
	Arena,
	Gone,
}

/// oracle shadow of one kind: an independent statement of the property (not the model)
#[derive(Default)]
struct Shadow {
	cap: usize,
	/// per created resource: where it is, whether its flag is raised
	res: Vec<(Where, bool)>,
}
impl Shadow {
	fn count(&self) -> usize {
		self.res.iter().filter(|r| r.0 != Where::Gone).count()
	}
	fn callback(&mut self) {
		for r in self.res.iter_mut() {
			match r.0 {
				Where::Arena if r.1 => r.0 = Where::Gone,
				Where::Ring => r.0 = Where::Arena,
				_ => {}
			}
		}
	}
}

/// a plain or a spatial sub-track handle (same `play` / `num_sounds` API)
enum TH {
	Plain(TrackHandle),
	Spatial(SpatialTrackHandle),
}
impl TH {
	fn play<D: kira::sound::SoundData>(&mut self, d: D) -> Result<D::Handle, PlaySoundError<D::Error>> {
		match self {
			TH::Plain(h) => h.play(d),
			TH::Spatial(h) => h.play(d),
		}
	}
	fn num_sounds(&self) -> usize {
		match self {
			TH::Plain(h) => h.num_sounds(),
			TH::Spatial(h) => h.num_sounds(),
		}
	}
	fn num_sub_tracks(&self) -> usize {
		match self {
			TH::Plain(h) => h.num_sub_tracks(),
			TH::Spatial(h) => h.num_sub_tracks(),
		}
	}
	fn sound_capacity(&self) -> usize {
		match self {
			TH::Plain(h) => h.sound_capacity(),
			TH::Spatial(h) => h.sound_capacity(),
		}
	}
	fn sub_track_capacity(&self) -> usize {
		match self {
			TH::Plain(h) => h.sub_track_capacity(),
			TH::Spatial(h) => h.sub_track_capacity(),
		}
	}
	fn add_sub_track(&mut self, b: TrackBuilder) -> Result<TrackHandle, kira::ResourceLimitReached> {
		match self {
			TH::Plain(h) => h.add_sub_track(b),
			TH::Spatial(h) => h.add_sub_track(b),
		}
	}
	fn add_spatial_sub_track(&mut self, l: ListenerId, b: SpatialTrackBuilder) -> Result<SpatialTrackHandle, kira::ResourceLimitReached> {
		match self {
			TH::Plain(h) => h.add_spatial_sub_track(l, glam::Vec3::ZERO, b),
			TH::Spatial(h) => h.add_spatial_sub_track(l, glam::Vec3::ZERO, b),
		}
	}
}

struct SubTrack {
	handle: Option<TH>,
	effect_log: Log,
	sounds: Vec<(Log, u64)>, // (probe log, length)
	/// `None`: a sub-track of the mixer (its life is `sh[0].res[shadow_idx]`); `Some(p)`: a sub-track of the
	/// sub-track `subs[p]` (its life is `subs[p].kids.res[shadow_idx]`)
	parent: Option<usize>,
	shadow_idx: usize,
	snd: Shadow,
	/// this track's own sub-track storage (capacity = the builder's `sub_track_capacity`) and the indices (in
	/// `St::subs`) of the tracks in it, aligned with `kids.res`
	kids: Shadow,
	kid_tracks: Vec<usize>,
}

/// the builder default of `sound_capacity` / `sub_track_capacity`
const DEFAULT_TRACK_CAPACITY: usize = 128;

fn sub_where(st: &St, i: usize) -> (Where, bool) {
	let s = st.subs[i].as_ref().unwrap();
	match s.parent {
		None => st.sh[0].res[s.shadow_idx],
		Some(p) => st.subs[p].as_ref().unwrap().kids.res[s.shadow_idx],
	}
}
fn sub_where_mut(st: &mut St, i: usize) -> &mut (Where, bool) {
	let (parent, idx) = {
		let s = st.subs[i].as_ref().unwrap();
		(s.parent, s.shadow_idx)
	};
	match parent {
		None => &mut st.sh[0].res[idx],
		Some(p) => &mut st.subs[p].as_mut().unwrap().kids.res[idx],
	}
}
/// C08 / C12: a track leaves its parent's storage at the first callback at whose start it is in the arena, its
/// handle is dropped, and every track of its own sub-track storage is gone or is itself in that situation (a
/// sub-track still waiting to be picked up keeps it)
fn sub_removable(st: &St, i: usize) -> bool {
	let (w, flag) = sub_where(st, i);
	w == Where::Arena
		&& flag
		&& st.subs[i].as_ref().unwrap().kid_tracks.iter().all(|k| match sub_where(st, *k).0 {
			Where::Gone => true,
			Where::Ring => false,
			Where::Arena => sub_removable(st, *k),
		})
}
fn sub_gone(st: &mut St, i: usize) {
	sub_where_mut(st, i).0 = Where::Gone;
	for k in st.subs[i].as_ref().unwrap().kid_tracks.clone() {
		sub_gone(st, k);
	}
}
/// one callback for the sub-track storage that holds `kids`: `remove_and_add`, then every track in the arena
/// serves its own sound storage and its own sub-track storage
fn sub_level(st: &mut St, kids: &[usize]) {
	let gone: Vec<usize> = kids.iter().copied().filter(|k| sub_removable(st, *k)).collect();
	for k in gone {
		sub_gone(st, k);
	}
	for k in kids {
		if sub_where(st, *k).0 == Where::Ring {
			sub_where_mut(st, *k).0 = Where::Arena;
		}
	}
	for k in kids {
		if sub_where(st, *k).0 == Where::Arena {
			st.subs[*k].as_mut().unwrap().snd.callback();
			let next = st.subs[*k].as_ref().unwrap().kid_tracks.clone();
			sub_level(st, &next);
		}
	}
}

struct St {
	mgr: Option<AudioManager<probe::ProbeBackend>>,
	cb: Option<CallbackThread>,
	info: InfoShared,
	subs: Vec<Option<SubTrack>>,
	sends: Vec<Option<(Option<SendTrackHandle>, Log, usize)>>,
	clocks: Vec<Option<(Option<ClockHandle>, usize)>>,
	mods: Vec<Option<(LifeProbeModulatorHandle, bool, usize)>>,
	liss: Vec<Option<(Option<ListenerHandle>, usize)>>,
	/// the id of every listener created (a `ListenerId` stays usable after its handle is dropped)
	lis_ids: Vec<Option<ListenerId>>,
	main_sounds: Vec<(Log, u64)>,
	sh: [Shadow; 6], // sub send clock mod lis snd
	/// which registered clock / modulator ids belong to removed resources (must never resolve again)
	clock_shadow: Vec<usize>,
	mod_shadow: Vec<usize>,
	all_logs: Vec<Log>,
	prefix_has_cap0_use: bool,
}

impl St {
	fn new() -> Self {
		St {
			mgr: None,
			cb: None,
			info: Arc::new(Mutex::new(InfoSeen::default())),
			subs: vec![],
			sends: vec![],
			clocks: vec![],
			mods: vec![],
			liss: vec![],
			lis_ids: vec![],
			main_sounds: vec![],
			sh: Default::default(),
			clock_shadow: vec![],
			mod_shadow: vec![],
			all_logs: vec![],
			prefix_has_cap0_use: false,
		}
	}
}

impl Drop for St {
	fn drop(&mut self) {
		// hand the renderer back to this thread before anything is dropped
		if let Some(cb) = self.cb.as_mut() {
			let r = cb.stop();
			drop(r);
		}
	}
}

pub fn run(ops: &[String]) -> Vec<String> {
	run_cases(ops, Some(Duration::from_secs(60)), |case, out| {
		let mut st = St::new();
		crate::seqop::drive(case, out, &mut st, |st, line, detail, out| op(st, line, detail, out));
		// end of case: everything is dropped here, on the caller's thread
		let cb_tid = st.cb.as_ref().map(|c| c.thread_id);
		let logs = st.all_logs.clone();
		drop(st);
		if let Some(tid) = cb_tid {
			for l in logs {
				if l.lock().unwrap().dropped_on == Some(tid) {
					out.oracle_fail("destroyed_on_audio_thread", case.join(" ; "));
				}
			}
		}
	})
}

enum TB {
	Plain(TrackBuilder),
	Spatial(ListenerId, SpatialTrackBuilder),
}
/// the builder of a plain (`lid` = None) or spatial sub-track with the given sound capacity and (optionally)
/// sub-track capacity
fn track_builder(lid: Option<ListenerId>, sc: usize, tc: Option<usize>, elog: &Log) -> TB {
	let fx = ProbeEffectBuilder {
		gain: 1.0,
		offset: 0.0,
		feedback: 0.0,
		log: elog.clone(),
	};
	match lid {
		None => {
			let mut b = TrackBuilder::new().sound_capacity(sc);
			if let Some(tc) = tc {
				b = b.sub_track_capacity(tc);
			}
			TB::Plain(b.with_effect(fx))
		}
		Some(l) => {
			let mut b = SpatialTrackBuilder::new().sound_capacity(sc);
			if let Some(tc) = tc {
				b = b.sub_track_capacity(tc);
			}
			TB::Spatial(l, b.with_effect(fx))
		}
	}
}

/// C08: `sound_capacity()` / `sub_track_capacity()` of a new track report what its builder was given
fn capacity_report(h: &TH, sc: usize, tc: Option<usize>, detail: &str, out: &mut Out) -> String {
	let (a, b) = (h.sound_capacity(), h.sub_track_capacity());
	if a != sc || b != tc.unwrap_or(DEFAULT_TRACK_CAPACITY) {
		out.oracle_fail("capacity_reported", detail);
	}
	format!(" cap={}/{}", a, b)
}

/// runs a creation call; C08: creation never panics (capacity 0 must give the limit error)
fn create<T>(cap: usize, detail: &str, out: &mut Out, f: impl FnOnce() -> T) -> T {
	match catch_unwind(AssertUnwindSafe(f)) {
		Ok(r) => r,
		Err(p) => {
			if cap == 0 {
				out.oracle_fail("capacity_zero_panics", detail);
			} else {
				out.oracle_fail("create_panics", detail);
			}
			resume_unwind(p)
		}
	}
}

fn check_create(sh: &mut Shadow, ok: bool, n: Option<usize>, detail: &str, out: &mut Out) {
	let before = sh.count();
	if ok != (before < sh.cap) {
		out.oracle_fail("limit_iff_full", detail);
	}
	if ok {
		sh.res.push((Where::Ring, false));
	}
	if let Some(n) = n {
		if n != sh.count() {
			out.oracle_fail("count_exact", detail);
		}
		if n > sh.cap {
			out.oracle_fail("count_le_capacity", detail);
		}
	}
}

/// C08 for a play that fails in `into_sound()`: nothing was created, so the count is what it was
/// (= the shadow's count) and no capacity is consumed (the later `limit_iff_full` / `count_exact*`
/// oracles keep checking that against the unchanged shadow).
fn failed_play<H>(
	sh: &Shadow,
	r: &Result<H, PlaySoundError<probe::ProbeIntoSoundError>>,
	before: usize,
	n: usize,
	detail: &str,
	out: &mut Out,
) -> String {
	if n != before || n != sh.count() {
		out.oracle_fail("failed_play_changes_count", detail);
	}
	match r {
		Err(PlaySoundError::IntoSoundError(_)) => format!("err n={}", n),
		Err(PlaySoundError::SoundLimitReached) => {
			// acceptable only if the track really is full (a build that checks the limit first)
			if sh.count() < sh.cap {
				out.oracle_fail("failed_play_consumes_capacity", detail);
			}
			format!("limit n={}", n)
		}
		Err(_) => format!("other n={}", n),
		Ok(_) => {
			out.oracle_fail("failed_play_returns_ok", detail);
			format!("ok n={}", n)
		}
	}
}

fn op(st: &mut St, line: &str, detail: &str, out: &mut Out) -> String {
	let tok: Vec<&str> = line.split_whitespace().collect();
	match tok[0] {
		"mgr" => {
			let c: Vec<usize> = tok[1..7].iter().map(|x| pu(x) as usize).collect();
			*st = St::new();
			for i in 0..6 {
				st.sh[i].cap = c[i];
			}
			let mut mgr = probe::manager(
				Capacities {
					sub_track_capacity: c[0],
					send_track_capacity: c[1],
					clock_capacity: c[2],
					modulator_capacity: c[3],
					listener_capacity: c[4],
				},
				8,
				1000,
				MainTrackBuilder::new().sound_capacity(c[5]).with_effect(InfoProbeBuilder(st.info.clone())),
			);
			let renderer = mgr.backend_mut().renderer.take().unwrap();
			st.cb = Some(CallbackThread::start(renderer));
			st.mgr = Some(mgr);
			"ok".into()
		}
		"add" => {
			let Some(mgr) = st.mgr.as_mut() else { return "bad-op".into() };
			match tok[1] {
				"sub" | "spat" => {
					let spatial = tok[1] == "spat";
					let a = if spatial { 3 } else { 2 };
					let sc = pu(tok[a]) as usize;
					let tc = tok.get(a + 1).map(|x| pu(x) as usize);
					let lid = if spatial {
						let Some(Some(lid)) = st.lis_ids.get(pu(tok[2]) as usize).copied() else { return "skip".into() };
						Some(lid)
					} else {
						None
					};
					let elog = probe::new_log();
					st.all_logs.push(elog.clone());
					let tb = track_builder(lid, sc, tc, &elog);
					let r = create(st.sh[0].cap, detail, out, || match tb {
						TB::Plain(b) => mgr.add_sub_track(b).ok().map(TH::Plain),
						TB::Spatial(l, b) => mgr.add_spatial_sub_track(l, glam::Vec3::ZERO, b).ok().map(TH::Spatial),
					});
					let n = mgr.num_sub_tracks();
					let ok = r.is_some();
					check_create(&mut st.sh[0], ok, Some(n), detail, out);
					let idx = st.sh[0].res.len().wrapping_sub(1);
					let caps = r.as_ref().map(|h| capacity_report(h, sc, tc, detail, out)).unwrap_or_default();
					st.subs.push(r.map(|h| SubTrack {
						handle: Some(h),
						effect_log: elog,
						sounds: vec![],
						parent: None,
						shadow_idx: idx,
						snd: Shadow { cap: sc, res: vec![] },
						kids: Shadow { cap: tc.unwrap_or(DEFAULT_TRACK_CAPACITY), res: vec![] },
						kid_tracks: vec![],
					}));
					format!("{} n={}{}", if ok { "ok" } else { "limit" }, n, caps)
				}
				"send" => {
					let elog = probe::new_log();
					st.all_logs.push(elog.clone());
					let b = SendTrackBuilder::new().with_effect(ProbeEffectBuilder {
						gain: 1.0,
						offset: 0.0,
						feedback: 0.0,
						log: elog.clone(),
					});
					let r = create(st.sh[1].cap, detail, out, || mgr.add_send_track(b));
					let n = mgr.num_send_tracks();
					let ok = r.is_ok();
					check_create(&mut st.sh[1], ok, Some(n), detail, out);
					let idx = st.sh[1].res.len().wrapping_sub(1);
					st.sends.push(r.ok().map(|h| (Some(h), elog, idx)));
					format!("{} n={}", if ok { "ok" } else { "limit" }, n)
				}
				"clock" => {
					let r = create(st.sh[2].cap, detail, out, || mgr.add_clock(ClockSpeed::TicksPerSecond(1.0)));
					let n = mgr.num_clocks();
					let ok = r.is_ok();
					check_create(&mut st.sh[2], ok, Some(n), detail, out);
					let idx = st.sh[2].res.len().wrapping_sub(1);
					if let Ok(h) = &r {
						st.info.lock().unwrap().clocks.push(h.id());
						st.clock_shadow.push(idx);
					}
					st.clocks.push(r.ok().map(|h| (Some(h), idx)));
					format!("{} n={}", if ok { "ok" } else { "limit" }, n)
				}
				"mod" => {
					let r = create(st.sh[3].cap, detail, out, || mgr.add_modulator(LifeProbeModulatorBuilder { value: 0.5 }));
					let n = mgr.num_modulators();
					let ok = r.is_ok();
					check_create(&mut st.sh[3], ok, Some(n), detail, out);
					let idx = st.sh[3].res.len().wrapping_sub(1);
					if let Ok(h) = &r {
						st.info.lock().unwrap().mods.push(h.id);
						st.mod_shadow.push(idx);
						st.all_logs.push(h.log.clone());
					}
					st.mods.push(r.ok().map(|h| (h, false, idx)));
					format!("{} n={}", if ok { "ok" } else { "limit" }, n)
				}
				"lis" => {
					let r = create(st.sh[4].cap, detail, out, || {
						mgr.add_listener(glam::Vec3::ZERO, glam::Quat::IDENTITY)
					});
					let ok = r.is_ok();
					check_create(&mut st.sh[4], ok, None, detail, out);
					let idx = st.sh[4].res.len().wrapping_sub(1);
					st.lis_ids.push(r.as_ref().ok().map(|h| h.id()));
					st.liss.push(r.ok().map(|h| (Some(h), idx)));
					(if ok { "ok" } else { "limit" }).to_string()
				}
				_ => "bad-op".into(),
			}
		}
		"tadd" => {
			// tadd <p> sub <sndcap> <subcap> | tadd <p> spat <l> <sndcap> <subcap>
			let p = pu(tok[1]) as usize;
			let spatial = tok[2] == "spat";
			let a = if spatial { 4 } else { 3 };
			let sc = pu(tok[a]) as usize;
			let tc = pu(tok[a + 1]) as usize;
			let lid = if spatial {
				let Some(Some(lid)) = st.lis_ids.get(pu(tok[3]) as usize).copied() else { return "skip".into() };
				Some(lid)
			} else {
				None
			};
			let Some(Some(parent)) = st.subs.get_mut(p) else { return "skip".into() };
			let Some(h) = parent.handle.as_mut() else { return "skip".into() };
			let elog = probe::new_log();
			let cap = parent.kids.cap;
			let tb = track_builder(lid, sc, Some(tc), &elog);
			let r = create(cap, detail, out, || match tb {
				TB::Plain(b) => h.add_sub_track(b).ok().map(TH::Plain),
				TB::Spatial(l, b) => h.add_spatial_sub_track(l, b).ok().map(TH::Spatial),
			});
			let n = h.num_sub_tracks();
			let ok = r.is_some();
			check_create(&mut parent.kids, ok, Some(n), detail, out);
			let idx = parent.kids.res.len().wrapping_sub(1);
			let caps = r.as_ref().map(|h| capacity_report(h, sc, Some(tc), detail, out)).unwrap_or_default();
			if ok {
				let me = st.subs.len();
				st.subs[p].as_mut().unwrap().kid_tracks.push(me);
			}
			st.all_logs.push(elog.clone());
			st.subs.push(r.map(|h| SubTrack {
				handle: Some(h),
				effect_log: elog,
				sounds: vec![],
				parent: Some(p),
				shadow_idx: idx,
				snd: Shadow { cap: sc, res: vec![] },
				kids: Shadow { cap: tc, res: vec![] },
				kid_tracks: vec![],
			}));
			format!("{} n={}{}", if ok { "ok" } else { "limit" }, n, caps)
		}
		"play" => {
			let Some(mgr) = st.mgr.as_mut() else { return "bad-op".into() };
			let len = pu(tok[1]);
			let log = probe::new_log();
			st.all_logs.push(log.clone());
			let data = ProbeSoundData {
				signal: Signal::Constant { left: 0.0, right: 0.0 },
				length: Some(len as usize),
				log: log.clone(),
			};
			let r = create(st.sh[5].cap, detail, out, || mgr.play(data));
			let n = mgr.main_track().num_sounds();
			let ok = r.is_ok();
			check_create(&mut st.sh[5], ok, Some(n), detail, out);
			if ok {
				st.main_sounds.push((log, len));
			}
			format!("{} n={}", if ok { "ok" } else { "limit" }, n)
		}
		"tplay" => {
			let t = pu(tok[1]) as usize;
			let len = pu(tok[2]);
			let Some(Some(sub)) = st.subs.get_mut(t) else { return "skip".into() };
			let Some(h) = sub.handle.as_mut() else { return "skip".into() };
			let log = probe::new_log();
			st.all_logs.push(log.clone());
			let data = ProbeSoundData {
				signal: Signal::Constant { left: 0.0, right: 0.0 },
				length: Some(len as usize),
				log: log.clone(),
			};
			let r = create(sub.snd.cap, detail, out, || h.play(data));
			let n = h.num_sounds();
			let ok = r.is_ok();
			check_create(&mut sub.snd, ok, Some(n), detail, out);
			if ok {
				sub.sounds.push((log, len));
			}
			format!("{} n={}", if ok { "ok" } else { "limit" }, n)
		}
		"playerr" => {
			let Some(mgr) = st.mgr.as_mut() else { return "bad-op".into() };
			let before = mgr.main_track().num_sounds();
			// into_sound() fails before anything is reserved: no panic even with capacity 0
			let r = create(1, detail, out, || mgr.play(FailingSoundData));
			let n = mgr.main_track().num_sounds();
			failed_play(&st.sh[5], &r, before, n, detail, out)
		}
		"tplayerr" => {
			let t = pu(tok[1]) as usize;
			let Some(Some(sub)) = st.subs.get_mut(t) else { return "skip".into() };
			let Some(h) = sub.handle.as_mut() else { return "skip".into() };
			let before = h.num_sounds();
			let r = create(1, detail, out, || h.play(FailingSoundData));
			let n = h.num_sounds();
			failed_play(&sub.snd, &r, before, n, detail, out)
		}
		"drop" => {
			let i = pu(tok[2]) as usize;
			match tok[1] {
				"sub" => match st.subs.get_mut(i) {
					Some(Some(s)) if s.handle.is_some() => {
						s.handle = None;
						sub_where_mut(st, i).1 = true;
						"ok".into()
					}
					_ => "skip".into(),
				},
				"send" => match st.sends.get_mut(i) {
					Some(Some(s)) if s.0.is_some() => {
						s.0 = None;
						st.sh[1].res[s.2].1 = true;
						"ok".into()
					}
					_ => "skip".into(),
				},
				"clock" => match st.clocks.get_mut(i) {
					Some(Some(s)) if s.0.is_some() => {
						s.0 = None;
						st.sh[2].res[s.1].1 = true;
						"ok".into()
					}
					_ => "skip".into(),
				},
				"mod" => match st.mods.get_mut(i) {
					Some(Some(s)) if !s.1 => {
						s.1 = true;
						s.0.finished.store(true, std::sync::atomic::Ordering::SeqCst);
						st.sh[3].res[s.2].1 = true;
						"ok".into()
					}
					_ => "skip".into(),
				},
				"lis" => match st.liss.get_mut(i) {
					Some(Some(s)) if s.0.is_some() => {
						s.0 = None;
						st.sh[4].res[s.1].1 = true;
						"ok".into()
					}
					_ => "skip".into(),
				},
				_ => "bad-op".into(),
			}
		}
		"cb" => {
			let frames = pu(tok[1]) as usize;
			let (Some(mgr), Some(cb)) = (st.mgr.as_mut(), st.cb.as_mut()) else { return "bad-op".into() };
			// a sound's `finished()` flag as the audio thread will see it at the start of this callback
			for (k, (log, len)) in st.main_sounds.iter().enumerate() {
				let produced: usize = log.lock().unwrap().slices.iter().sum();
				if produced as u64 >= *len {
					st.sh[5].res[k].1 = true;
				}
			}
			for s in st.subs.iter_mut().flatten() {
				for (k, (log, len)) in s.sounds.iter().enumerate() {
					let produced: usize = log.lock().unwrap().slices.iter().sum();
					if produced as u64 >= *len {
						s.snd.res[k].1 = true;
					}
				}
			}
			cb.callback(frames, 2);
			let tid = cb.thread_id;
			// ---- shadow: what the property says this callback must have done ----
			for k in 1..6 {
				st.sh[k].callback();
			}
			// sub-tracks, at every depth: a track's own sound storage and sub-track storage are served only while the
			// track is in its parent's arena (and the parent in its parent's …)
			let top: Vec<usize> = (0..st.subs.len()).filter(|i| st.subs[*i].as_ref().map(|s| s.parent.is_none()).unwrap_or(false)).collect();
			sub_level(st, &top);
			let Some(mgr) = st.mgr.as_mut() else { return "bad-op".into() };
			let n = [
				mgr.num_sub_tracks(),
				mgr.num_send_tracks(),
				mgr.num_clocks(),
				mgr.num_modulators(),
				0,
				mgr.main_track().num_sounds(),
			];
			for k in [0usize, 1, 2, 3, 5] {
				if n[k] != st.sh[k].count() {
					out.oracle_fail("count_exact_after_callback", detail);
				}
				if n[k] > st.sh[k].cap {
					out.oracle_fail("count_le_capacity", detail);
				}
			}
			let mut tcounts = vec![];
			let mut scounts = vec![];
			for s in st.subs.iter().flatten() {
				if let Some(h) = &s.handle {
					let c = h.num_sounds();
					if c != s.snd.count() {
						out.oracle_fail("count_exact_after_callback", detail);
					}
					tcounts.push(c.to_string());
					let k = h.num_sub_tracks();
					if k != s.kids.count() {
						out.oracle_fail("count_exact_after_callback", detail);
					}
					if c > s.snd.cap || k > s.kids.cap {
						out.oracle_fail("count_le_capacity", detail);
					}
					scounts.push(k.to_string());
				}
			}
			// never destroyed on the callback thread
			for l in &st.all_logs {
				if l.lock().unwrap().dropped_on == Some(tid) {
					out.oracle_fail("destroyed_on_audio_thread", detail);
				}
			}
			// which ids resolve; ids of removed resources must not
			let seen = st.info.lock().unwrap();
			let bits = |v: Vec<bool>| {
				if v.is_empty() {
					"-".to_string()
				} else {
					v.iter().map(|b| if *b { '1' } else { '0' }).collect()
				}
			};
			let clk: Vec<bool> = seen.clock_info.iter().map(|c| c.is_some()).collect();
			let md: Vec<bool> = seen.mod_value.iter().map(|c| c.is_some()).collect();
			for (j, r) in clk.iter().enumerate() {
				let w = st.sh[2].res[st.clock_shadow[j]].0;
				if *r != (w == Where::Arena) {
					out.oracle_fail(if w == Where::Gone { "stale_id_resolves" } else { "id_resolution" }, detail);
				}
			}
			for (j, r) in md.iter().enumerate() {
				let w = st.sh[3].res[st.mod_shadow[j]].0;
				if *r != (w == Where::Arena) {
					out.oracle_fail(if w == Where::Gone { "stale_id_resolves" } else { "id_resolution" }, detail);
				}
			}
			format!(
				"n sub={} send={} clock={} mod={} snd={} t={} s={} clk={} md={}",
				n[0],
				n[1],
				n[2],
				n[3],
				n[5],
				if tcounts.is_empty() { "-".to_string() } else { tcounts.join(".") },
				if scounts.is_empty() { "-".to_string() } else { scounts.join(".") },
				bits(clk),
				bits(md)
			)
		}
		_ => "bad-op".into(),
	}
}
