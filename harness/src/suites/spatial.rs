//! Suite `spatial` (C15): spatial tracks driven through the PUBLIC manager API on a `ProbeBackend`.
//!
//! stateful ops (a scene with history):
//!   init <ibs> <sr>
//!   listener <lid> <pos> <quat>            droplistener <lid>
//!   strack <tid> <parent|main> <lid> <pos> <min> <max> <atten|none> <strength> <volume> <probe>
//!   track <tid> <parent|main> <volume> <probe>          sound <tid> <l> <r>
//!   setpos <tid> <pos> <tween>   setstr <tid> <f32> <tween>   setvol <tid> <value> <tween>   lpos <lid> <pos> <tween>   lori <lid> <quat> <tween>
//!   cb <frames>                            → `L R` per frame, then `p<tid> <distance|none>` per probed track per chunk, then `def|undef`
//! self-contained op (one fresh manager; carries the implementation-side oracles, replayable alone):
//!   scene <lpos> <lquat> <epos> <min> <max> <atten|none> <strength> <l> <r>   → `L R def|undef`
//! `def|undef`: was every frame on the main bus finite *before* the renderer's device stage (which replaces NaN by
//! silence and clamps)? Observed by a pass-through effect on the main track, so a NaN level is not masked.
//! kernel ops (public `Tweenable` impls and `ListenerInfo` methods, stateless):
//!   qtween <qa> <qb> <amount f64> | vtween <va> <vb> <amount f64> | linterp <pos> <ori> <prev pos> <prev ori> <amount f32>
//! vectors `x,y,z` / `x,y,z,w` (f32 bits); value `fix,<f32>` | `dist,<i0>,<i1>,<o0>,<o1>,<easing>`;
//! tween `<imm|del:ns>;<duration ns>;<easing>`.
use crate::probe::{self, new_log, ProbeBackend, ProbeSoundData, Signal};
use crate::runner::{run_cases, Out};
use crate::suites::units::{fmt_easing, gen_easing, parse_easing};
use crate::util::*;
use kira::effect::{Effect, EffectBuilder};
use kira::info::Info;
use kira::listener::ListenerHandle;
use kira::track::{MainTrackBuilder, SpatialTrackBuilder, SpatialTrackHandle, TrackBuilder, TrackHandle};
use kira::{AudioManager, Capacities, Decibels, Easing, Frame, Mapping, StartTime, Tween, Value};
use std::collections::HashMap;
use std::panic::{catch_unwind, resume_unwind, AssertUnwindSafe};
use std::sync::atomic::{AtomicBool, Ordering};
use std::sync::{Arc, Mutex};
use std::time::Duration;

type V3 = [f32; 3];
type Q4 = [f32; 4];

fn mv(v: V3) -> mint::Vector3<f32> {
	mint::Vector3 { x: v[0], y: v[1], z: v[2] }
}
fn mq(q: Q4) -> mint::Quaternion<f32> {
	mint::Quaternion { v: mint::Vector3 { x: q[0], y: q[1], z: q[2] }, s: q[3] }
}
fn fmt_v(v: V3) -> String {
	format!("{},{},{}", o32(v[0]), o32(v[1]), o32(v[2]))
}
fn fmt_q(q: Q4) -> String {
	format!("{},{},{},{}", o32(q[0]), o32(q[1]), o32(q[2]), o32(q[3]))
}
fn parse_v(s: &str) -> V3 {
	let p: Vec<f32> = s.split(',').map(p32).collect();
	[p[0], p[1], p[2]]
}
fn parse_q(s: &str) -> Q4 {
	let p: Vec<f32> = s.split(',').map(p32).collect();
	[p[0], p[1], p[2], p[3]]
}
fn parse_atten(s: &str) -> Option<Easing> {
	if s == "none" {
		None
	} else {
		Some(parse_easing(s))
	}
}
fn fmt_atten(a: &Option<Easing>) -> String {
	match a {
		None => "none".into(),
		Some(e) => fmt_easing(e),
	}
}
fn parse_tween(s: &str) -> Tween {
	let p: Vec<&str> = s.split(';').collect();
	let start_time = if p[0] == "imm" {
		StartTime::Immediate
	} else {
		StartTime::Delayed(Duration::from_nanos(pu(p[0].strip_prefix("del:").expect("bad start"))))
	};
	Tween { start_time, duration: Duration::from_nanos(pu(p[1])), easing: parse_easing(p[2]) }
}
enum Val {
	Fix(f32),
	Dist(f64, f64, f32, f32, Easing),
}
fn parse_val(s: &str) -> Val {
	let p: Vec<&str> = s.split(',').collect();
	match p[0] {
		"fix" => Val::Fix(p32(p[1])),
		"dist" => Val::Dist(p64(p[1]), p64(p[2]), p32(p[3]), p32(p[4]), parse_easing(p[5])),
		_ => panic!("bad value {}", s),
	}
}
fn val_f32(v: &Val) -> Value<f32> {
	match v {
		Val::Fix(x) => Value::Fixed(*x),
		Val::Dist(i0, i1, o0, o1, e) => {
			Value::FromListenerDistance(Mapping { input_range: (*i0, *i1), output_range: (*o0, *o1), easing: *e })
		}
	}
}
fn val_db(v: &Val) -> Value<Decibels> {
	match v {
		Val::Fix(x) => Value::Fixed(Decibels(*x)),
		Val::Dist(i0, i1, o0, o1, e) => Value::FromListenerDistance(Mapping {
			input_range: (*i0, *i1),
			output_range: (Decibels(*o0), Decibels(*o1)),
			easing: *e,
		}),
	}
}

// ---------------------------------------------------------------------------------------------
// an effect that logs `Info::listener_distance()` once per `process` call (public API only)
// ---------------------------------------------------------------------------------------------
type DistLog = Arc<Mutex<Vec<(u64, Option<f32>)>>>;
struct DistProbe {
	tid: u64,
	log: DistLog,
}
impl Effect for DistProbe {
	fn process(&mut self, _input: &mut [Frame], _dt: f64, info: &Info) {
		self.log.lock().unwrap().push((self.tid, info.listener_distance()));
	}
}
struct DistProbeBuilder {
	tid: u64,
	log: DistLog,
}
impl EffectBuilder for DistProbeBuilder {
	type Handle = ();
	fn build(self) -> (Box<dyn Effect>, ()) {
		(Box::new(DistProbe { tid: self.tid, log: self.log }), ())
	}
}

// ---------------------------------------------------------------------------------------------
// a pass-through effect on the MAIN track: is every frame of the mix finite before the device stage?
// ---------------------------------------------------------------------------------------------
struct BusProbe {
	finite: Arc<AtomicBool>,
}
impl Effect for BusProbe {
	fn process(&mut self, input: &mut [Frame], _dt: f64, _info: &Info) {
		if input.iter().any(|f| !(f.left.is_finite() && f.right.is_finite())) {
			self.finite.store(false, Ordering::SeqCst);
		}
	}
}
struct BusProbeBuilder {
	finite: Arc<AtomicBool>,
}
impl EffectBuilder for BusProbeBuilder {
	type Handle = ();
	fn build(self) -> (Box<dyn Effect>, ()) {
		(Box::new(BusProbe { finite: self.finite }), ())
	}
}

enum Trk {
	Plain(TrackHandle),
	Spatial(SpatialTrackHandle),
}

struct St {
	mgr: AudioManager<ProbeBackend>,
	listeners: HashMap<u64, ListenerHandle>,
	tracks: HashMap<u64, Trk>,
	dist_log: DistLog,
	/// cleared by the main-track probe when a non-finite frame passes; set again before each callback
	bus_finite: Arc<AtomicBool>,
}

impl St {
	/// one device callback; returns the device samples and "every main-bus frame was finite"
	fn callback(&mut self, frames: usize) -> (Vec<f32>, bool) {
		self.bus_finite.store(true, Ordering::SeqCst);
		let o = self.mgr.backend_mut().callback(frames, 2);
		(o, self.bus_finite.load(Ordering::SeqCst))
	}
}

fn new_state(ibs: usize, sr: u32) -> St {
	let caps = Capacities {
		sub_track_capacity: 16,
		send_track_capacity: 1,
		clock_capacity: 1,
		modulator_capacity: 1,
		listener_capacity: 16,
	};
	let bus_finite = Arc::new(AtomicBool::new(true));
	St {
		mgr: probe::manager(caps, ibs, sr, MainTrackBuilder::new().with_effect(BusProbeBuilder { finite: bus_finite.clone() })),
		listeners: HashMap::new(),
		tracks: HashMap::new(),
		dist_log: Arc::new(Mutex::new(vec![])),
		bus_finite,
	}
}

#[allow(clippy::too_many_arguments)]
fn spatial_builder(
	st: &St,
	tid: u64,
	mn: f32,
	mx: f32,
	att: Option<Easing>,
	strength: &Val,
	volume: &Val,
	probe: bool,
) -> SpatialTrackBuilder {
	let mut b = SpatialTrackBuilder::new()
		.sub_track_capacity(8)
		.sound_capacity(8)
		.distances((mn, mx))
		.attenuation_function(att)
		.spatialization_strength(val_f32(strength))
		.volume(val_db(volume));
	if probe {
		b.add_effect(DistProbeBuilder { tid, log: st.dist_log.clone() });
	}
	b
}

fn show_out(samples: &[f32]) -> String {
	samples.iter().map(|x| h32(*x)).collect::<Vec<_>>().join(" ")
}

fn exec(case: &[String], out: &mut Out) {
	out.put(case[0].clone());
	let mut st: Option<St> = None;
	for line in &case[1..] {
		let tok: Vec<&str> = line.split_whitespace().collect();
		match tok[0] {
			"init" => {
				st = Some(new_state(pu(tok[1]) as usize, pu(tok[2]) as u32));
				out.put("ok");
			}
			"qtween" => {
				let (a, b) = (parse_q(tok[1]), parse_q(tok[2]));
				let r = <glam::Quat as kira::Tweenable>::interpolate(
					glam::Quat::from_xyzw(a[0], a[1], a[2], a[3]),
					glam::Quat::from_xyzw(b[0], b[1], b[2], b[3]),
					p64(tok[3]),
				);
				out.put(format!("{} {} {} {}", h32(r.x), h32(r.y), h32(r.z), h32(r.w)));
			}
			"vtween" => {
				let (a, b) = (parse_v(tok[1]), parse_v(tok[2]));
				let r = <glam::Vec3 as kira::Tweenable>::interpolate(glam::Vec3::from(a), glam::Vec3::from(b), p64(tok[3]));
				out.put(format!("{} {} {}", h32(r.x), h32(r.y), h32(r.z)));
			}
			"linterp" => {
				let li = kira::info::ListenerInfo {
					position: mv(parse_v(tok[1])),
					orientation: mq(parse_q(tok[2])),
					previous_position: mv(parse_v(tok[3])),
					previous_orientation: mq(parse_q(tok[4])),
				};
				let t = p32(tok[5]);
				let (p, q) = (li.interpolated_position(t), li.interpolated_orientation(t));
				out.put(format!("{} {} {} {} {} {} {}", h32(p.x), h32(p.y), h32(p.z), h32(q.v.x), h32(q.v.y), h32(q.v.z), h32(q.s)));
			}
			"scene" => {
				let sc = parse_scene(&tok);
				let r = catch_unwind(AssertUnwindSafe(|| render_scene(&sc)));
				match r {
					Ok((o, finite)) => {
						out.put(format!("{} {} {}", h32(o[0]), h32(o[1]), if finite { "def" } else { "undef" }));
						scene_oracles(&sc, o, finite, line, out);
					}
					Err(p) => {
						out.oracle_fail("no_panic", line);
						resume_unwind(p);
					}
				}
			}
			_ => {
				let s = st.as_mut().expect("spatial: op before init");
				match tok[0] {
					"listener" => {
						let lid = pu(tok[1]);
						let h = s.mgr.add_listener(mv(parse_v(tok[2])), mq(parse_q(tok[3]))).unwrap();
						s.listeners.insert(lid, h);
						out.put("ok");
					}
					"droplistener" => {
						s.listeners.remove(&pu(tok[1]));
						out.put("ok");
					}
					"strack" => {
						let tid = pu(tok[1]);
						let lid = pu(tok[3]);
						let b = spatial_builder(
							s,
							tid,
							p32(tok[5]),
							p32(tok[6]),
							parse_atten(tok[7]),
							&parse_val(tok[8]),
							&parse_val(tok[9]),
							tok[10] == "1",
						);
						let listener = s.listeners.get(&lid).expect("listener handle").id();
						let pos = mv(parse_v(tok[4]));
						let h = if tok[2] == "main" {
							s.mgr.add_spatial_sub_track(listener, pos, b).unwrap()
						} else {
							match s.tracks.get_mut(&pu(tok[2])).expect("parent") {
								Trk::Plain(p) => p.add_spatial_sub_track(listener, pos, b).unwrap(),
								Trk::Spatial(p) => p.add_spatial_sub_track(listener, pos, b).unwrap(),
							}
						};
						s.tracks.insert(tid, Trk::Spatial(h));
						out.put("ok");
					}
					"track" => {
						let tid = pu(tok[1]);
						let mut b = TrackBuilder::new()
							.sub_track_capacity(8)
							.sound_capacity(8)
							.volume(val_db(&parse_val(tok[3])));
						if tok[4] == "1" {
							b.add_effect(DistProbeBuilder { tid, log: s.dist_log.clone() });
						}
						let h = if tok[2] == "main" {
							s.mgr.add_sub_track(b).unwrap()
						} else {
							match s.tracks.get_mut(&pu(tok[2])).expect("parent") {
								Trk::Plain(p) => p.add_sub_track(b).unwrap(),
								Trk::Spatial(p) => p.add_sub_track(b).unwrap(),
							}
						};
						s.tracks.insert(tid, Trk::Plain(h));
						out.put("ok");
					}
					"sound" => {
						let data = ProbeSoundData {
							signal: Signal::Constant { left: p32(tok[2]), right: p32(tok[3]) },
							length: None,
							log: new_log(),
						};
						match s.tracks.get_mut(&pu(tok[1])).expect("track") {
							Trk::Plain(p) => {
								p.play(data).unwrap();
							}
							Trk::Spatial(p) => {
								p.play(data).unwrap();
							}
						}
						out.put("ok");
					}
					"setpos" => {
						if let Trk::Spatial(h) = s.tracks.get_mut(&pu(tok[1])).expect("track") {
							h.set_position(mv(parse_v(tok[2])), parse_tween(tok[3]));
						}
						out.put("ok");
					}
					"setstr" => {
						if let Trk::Spatial(h) = s.tracks.get_mut(&pu(tok[1])).expect("track") {
							h.set_spatialization_strength(p32(tok[2]), parse_tween(tok[3]));
						}
						out.put("ok");
					}
					"setvol" => {
						// track volume through the handle: fixed or mapped from the listener distance, with a tween
						match s.tracks.get_mut(&pu(tok[1])).expect("track") {
							Trk::Spatial(h) => h.set_volume(val_db(&parse_val(tok[2])), parse_tween(tok[3])),
							Trk::Plain(h) => h.set_volume(val_db(&parse_val(tok[2])), parse_tween(tok[3])),
						}
						out.put("ok");
					}
					"lpos" => {
						if let Some(h) = s.listeners.get_mut(&pu(tok[1])) {
							h.set_position(mv(parse_v(tok[2])), parse_tween(tok[3]));
						}
						out.put("ok");
					}
					"lori" => {
						if let Some(h) = s.listeners.get_mut(&pu(tok[1])) {
							h.set_orientation(mq(parse_q(tok[2])), parse_tween(tok[3]));
						}
						out.put("ok");
					}
					"cb" => {
						let frames = pu(tok[1]) as usize;
						s.dist_log.lock().unwrap().clear();
						let (o, finite) = s.callback(frames);
						let mut l = show_out(&o);
						for (tid, d) in s.dist_log.lock().unwrap().iter() {
							l += &format!(" p{} {}", tid, d.map(h32).unwrap_or_else(|| "none".into()));
						}
						l += if finite { " def" } else { " undef" };
						if tok.len() > 2 && tok[2] == "finite" && !(finite && o.iter().all(|x| x.is_finite())) {
							out.oracle_fail("finite_output_seq", format!("{} # case {}", line, case[0]));
						}
						out.put(l);
					}
					_ => panic!("spatial: unknown op {}", tok[0]),
				}
			}
		}
	}
}

/// how often each family of oracle was actually evaluated (printed to stderr when KV_ORACLE_STATS is set)
static N_SCENE: std::sync::atomic::AtomicUsize = std::sync::atomic::AtomicUsize::new(0);
static N_IN_DOMAIN: std::sync::atomic::AtomicUsize = std::sync::atomic::AtomicUsize::new(0);
static N_METAMORPHIC: std::sync::atomic::AtomicUsize = std::sync::atomic::AtomicUsize::new(0);

pub fn run(ops: &[String]) -> Vec<String> {
	let r = run_cases(ops, None, exec);
	if std::env::var("KV_ORACLE_STATS").is_ok() {
		use std::sync::atomic::Ordering::SeqCst;
		eprintln!(
			"spatial oracles: scenes={} in_domain={} metamorphic={}",
			N_SCENE.load(SeqCst),
			N_IN_DOMAIN.load(SeqCst),
			N_METAMORPHIC.load(SeqCst)
		);
	}
	r
}

// ---------------------------------------------------------------------------------------------
// self-contained scenes and the implementation-side oracles
// ---------------------------------------------------------------------------------------------
#[derive(Clone)]
struct SceneP {
	lp: V3,
	lq: Q4,
	ep: V3,
	mn: f32,
	mx: f32,
	att: Option<Easing>,
	strength: f32,
	l: f32,
	r: f32,
}
fn parse_scene(tok: &[&str]) -> SceneP {
	SceneP {
		lp: parse_v(tok[1]),
		lq: parse_q(tok[2]),
		ep: parse_v(tok[3]),
		mn: p32(tok[4]),
		mx: p32(tok[5]),
		att: parse_atten(tok[6]),
		strength: p32(tok[7]),
		l: p32(tok[8]),
		r: p32(tok[9]),
	}
}
fn fmt_scene(s: &SceneP) -> String {
	format!(
		"scene {} {} {} {} {} {} {} {} {}",
		fmt_v(s.lp),
		fmt_q(s.lq),
		fmt_v(s.ep),
		o32(s.mn),
		o32(s.mx),
		fmt_atten(&s.att),
		o32(s.strength),
		o32(s.l),
		o32(s.r)
	)
}

/// how the listener of a scene is treated before the rendered callback
#[derive(Clone, Copy, PartialEq)]
enum ListenerMode {
	Present,
	/// handle dropped, one callback run (the listener leaves the arena), then the rendered callback
	Dropped,
	/// handle dropped *before* the track is added and after a callback removed the listener
	NeverSeen,
}

fn render_scene_mode(sc: &SceneP, mode: ListenerMode) -> ([f32; 2], bool) {
	let mut st = new_state(4, 48000);
	let lh = st.mgr.add_listener(mv(sc.lp), mq(sc.lq)).unwrap();
	let id = lh.id();
	let mut keep = Some(lh);
	if mode == ListenerMode::NeverSeen {
		keep = None;
		st.callback(1); // listener enters (already marked)
		st.callback(1); // and leaves
	}
	let b = spatial_builder(&st, 1, sc.mn, sc.mx, sc.att, &Val::Fix(sc.strength), &Val::Fix(0.0), false);
	let mut th = st.mgr.add_spatial_sub_track(id, mv(sc.ep), b).unwrap();
	th.play(ProbeSoundData {
		signal: Signal::Constant { left: sc.l, right: sc.r },
		length: None,
		log: new_log(),
	})
	.unwrap();
	if mode == ListenerMode::Dropped {
		keep = None;
		st.callback(1); // listener enters marked, still audible here
		st.callback(1); // removed at the start of this callback
	}
	let (o, finite) = st.callback(1);
	drop(keep);
	([o[0], o[1]], finite)
}
/// oracle (i): the scene's track with a volume mapped from the listener distance (0 dB at 0 to -20 dB at `big_d`,
/// linear), set through the handle with a tween of `dur_ns`; after the tween the emitter jumps to `ep2`.
/// Returns the last frame of the fifth buffer after the jump.
fn render_volume_follows_distance(sc: &SceneP, big_d: f64, ep2: V3, dur_ns: u64) -> [f32; 2] {
	let mut st = new_state(4, 48000);
	let lh = st.mgr.add_listener(mv(sc.lp), mq(sc.lq)).unwrap();
	let b = spatial_builder(&st, 1, 1.0, 2.0, None, &Val::Fix(0.0), &Val::Fix(0.0), false);
	let mut th = st.mgr.add_spatial_sub_track(lh.id(), mv(sc.ep), b).unwrap();
	th.play(ProbeSoundData { signal: Signal::Constant { left: sc.l, right: sc.r }, length: None, log: new_log() }).unwrap();
	st.callback(4);
	th.set_volume(
		Value::FromListenerDistance(Mapping { input_range: (0.0, big_d), output_range: (Decibels(0.0), Decibels(-20.0)), easing: Easing::Linear }),
		Tween { start_time: StartTime::Immediate, duration: Duration::from_nanos(dur_ns), easing: Easing::Linear },
	);
	// 4 frames at 48 kHz are 83 us: the tween (at most 300 us) is over after 3 + 2 buffers
	for _ in 0..(dur_ns / 83_000 + 3) {
		st.callback(4);
	}
	th.set_position(mv(ep2), Tween { start_time: StartTime::Immediate, duration: Duration::ZERO, easing: Easing::Linear });
	for _ in 0..4 {
		st.callback(4);
	}
	let (o, _) = st.callback(4);
	drop(lh);
	[o[6], o[7]]
}

/// oracle (j): the scene's track nested in a pass-through spatial track that is bound to another listener.
/// Returns the first rendered frame, and the frame rendered after the inner track's listener was dropped and removed.
fn render_nested(sc: &SceneP) -> ([f32; 2], [f32; 2]) {
	let mut st = new_state(4, 48000);
	let other = st.mgr.add_listener(mv([sc.lp[0] + 7.0, sc.lp[1] - 3.0, sc.lp[2] + 2.0]), mq([0.0, 0.0, 0.0, 1.0])).unwrap();
	let own = st.mgr.add_listener(mv(sc.lp), mq(sc.lq)).unwrap();
	let ob = spatial_builder(&st, 1, 1.0, 2.0, None, &Val::Fix(0.0), &Val::Fix(0.0), false);
	let mut outer = st.mgr.add_spatial_sub_track(other.id(), mv([sc.ep[0] + 1.0, sc.ep[1] + 2.0, sc.ep[2] - 4.0]), ob).unwrap();
	let ib = spatial_builder(&st, 2, sc.mn, sc.mx, sc.att, &Val::Fix(sc.strength), &Val::Fix(0.0), false);
	let mut inner = outer.add_spatial_sub_track(own.id(), mv(sc.ep), ib).unwrap();
	inner.play(ProbeSoundData { signal: Signal::Constant { left: sc.l, right: sc.r }, length: None, log: new_log() }).unwrap();
	let (o, _) = st.callback(1);
	drop(own);
	st.callback(1);
	st.callback(1);
	let (z, _) = st.callback(1);
	drop(other);
	([o[0], o[1]], [z[0], z[1]])
}

fn render_scene(sc: &SceneP) -> ([f32; 2], bool) {
	render_scene_mode(sc, ListenerMode::Present)
}
/// the device samples of a scene (for the metamorphic partners)
fn render_samples(sc: &SceneP) -> [f32; 2] {
	render_scene(sc).0
}

// f64 reference geometry (the vocabulary of the property; NOT the model's formulas for the gains)
type D3 = [f64; 3];
type D4 = [f64; 4];
fn d3(v: V3) -> D3 {
	[v[0] as f64, v[1] as f64, v[2] as f64]
}
fn d4(q: Q4) -> D4 {
	[q[0] as f64, q[1] as f64, q[2] as f64, q[3] as f64]
}
fn sub3(a: D3, b: D3) -> D3 {
	[a[0] - b[0], a[1] - b[1], a[2] - b[2]]
}
fn add3(a: D3, b: D3) -> D3 {
	[a[0] + b[0], a[1] + b[1], a[2] + b[2]]
}
fn dot3(a: D3, b: D3) -> f64 {
	a[0] * b[0] + a[1] * b[1] + a[2] * b[2]
}
fn scale3(a: D3, k: f64) -> D3 {
	[a[0] * k, a[1] * k, a[2] * k]
}
fn len3(a: D3) -> f64 {
	dot3(a, a).sqrt()
}
fn cross3(a: D3, b: D3) -> D3 {
	[a[1] * b[2] - a[2] * b[1], a[2] * b[0] - a[0] * b[2], a[0] * b[1] - a[1] * b[0]]
}
fn qnorm(q: D4) -> D4 {
	let n = (q[0] * q[0] + q[1] * q[1] + q[2] * q[2] + q[3] * q[3]).sqrt();
	[q[0] / n, q[1] / n, q[2] / n, q[3] / n]
}
/// rotate `v` by the unit quaternion `q`
fn qrot(q: D4, v: D3) -> D3 {
	let b = [q[0], q[1], q[2]];
	let w = q[3];
	let t = scale3(cross3(b, v), 2.0);
	add3(add3(v, scale3(t, w)), cross3(b, t))
}
/// Hamilton product a∘b (apply b first)
fn qmul(a: D4, b: D4) -> D4 {
	[
		a[3] * b[0] + a[0] * b[3] + a[1] * b[2] - a[2] * b[1],
		a[3] * b[1] - a[0] * b[2] + a[1] * b[3] + a[2] * b[0],
		a[3] * b[2] + a[0] * b[1] - a[1] * b[0] + a[2] * b[3],
		a[3] * b[3] - a[0] * b[0] - a[1] * b[1] - a[2] * b[2],
	]
}
fn f3(v: D3) -> V3 {
	[v[0] as f32, v[1] as f32, v[2] as f32]
}
fn f4(q: D4) -> Q4 {
	[q[0] as f32, q[1] as f32, q[2] as f32, q[3] as f32]
}

const EAR: f64 = 0.1;

/// deterministic pseudo-random stream derived from the op line (so oracles need no extra operands)
fn line_rng(line: &str) -> Rng {
	Rng::new(line.bytes().fold(0xcbf29ce484222325u64, |h, b| (h ^ b as u64).wrapping_mul(0x100000001b3)))
}
fn random_unit_quat(rng: &mut Rng) -> D4 {
	loop {
		let q = [rng.uniform(-1.0, 1.0), rng.uniform(-1.0, 1.0), rng.uniform(-1.0, 1.0), rng.uniform(-1.0, 1.0)];
		let n2 = q[0] * q[0] + q[1] * q[1] + q[2] * q[2] + q[3] * q[3];
		if n2 > 0.05 && n2 <= 1.0 {
			return qnorm(q);
		}
	}
}

/// The inputs the oracles speak about: finite coordinates and distances of moderate size (f32 overflow of squared
/// lengths is outside the property), distances not negative. EVERY pair of distances (min < max, min == max,
/// min > max) and EVERY orientation quaternion (the zero quaternion included) is inside.
fn in_domain(sc: &SceneP) -> bool {
	let big = |v: V3| v.iter().any(|x| x.abs() > 1.0e4);
	sc.mn >= 0.0 && sc.mx >= 0.0 && sc.mn <= 1.0e6 && sc.mx <= 1.0e6 && !big(sc.lp) && !big(sc.ep)
}

/// The orientation the property's geometry speaks about: a quaternion is used normalised; one without a usable
/// length (the zero quaternion) counts as the identity orientation. `None`: the length is so extreme (squared
/// length outside [1e-6, 1e6], but not zero) that the f32 normalisation is at or beyond its range — such a scene
/// is only checked by the oracles that do not depend on the orientation (finite, attenuation, no listener).
fn effective_orientation(lq: Q4) -> Option<D4> {
	let q = d4(lq);
	let n2 = q[0] * q[0] + q[1] * q[1] + q[2] * q[2] + q[3] * q[3];
	if n2 == 0.0 {
		Some([0.0, 0.0, 0.0, 1.0])
	} else if (1.0e-6..=1.0e6).contains(&n2) {
		Some(qnorm(q))
	} else {
		None
	}
}

fn scene_oracles(sc: &SceneP, o: [f32; 2], bus_finite: bool, line: &str, out: &mut Out) {
	N_SCENE.fetch_add(1, std::sync::atomic::Ordering::SeqCst);
	if !in_domain(sc) {
		return;
	}
	// the level is finite for every position, orientation and pair of distances — on the main bus, i.e. before
	// the renderer replaces NaN by silence (so an undefined level is not masked), and at the device
	if !(bus_finite && o[0].is_finite() && o[1].is_finite()) {
		out.oracle_fail("finite_output", line);
		return;
	}
	N_IN_DOMAIN.fetch_add(1, std::sync::atomic::Ordering::SeqCst);
	let s = sc.strength.clamp(0.0, 1.0) as f64;
	let lp = d3(sc.lp);
	let ep = d3(sc.ep);
	let rel = sub3(ep, lp);
	let d = len3(rel);
	let (mn, mx) = (sc.mn as f64, sc.mx as f64);
	let mono = (sc.l as f64 + sc.r as f64) / 2.0;
	let scale = d.max(len3(lp)).max(len3(ep)).max(1.0);
	// well-conditioned for the metamorphic relations: not within rounding reach of an ear, of the
	// min/max kinks, and a distance range that is not razor thin
	// (positions carry an absolute rounding error of a few ulp(scale) ~ 2.4e-7*scale; the amplitude's relative
	//  sensitivity to the relative distance is <= 6.9 * easing slope, bounded by the power for powers >= 1)
	let gentle = match sc.att {
		None | Some(Easing::Linear) => true,
		Some(Easing::InPowi(_)) | Some(Easing::OutPowi(_)) | Some(Easing::InOutPowi(_)) => true,
		Some(Easing::InPowf(p)) | Some(Easing::OutPowf(p)) | Some(Easing::InOutPowf(p)) => p >= 1.0,
	};
	let well_att = sc.att.is_none()
		|| (gentle
			&& if mn < mx {
				(mx - mn) > 5.0e-2 * mx.max(scale)
					&& (d - mx).abs() > 1.0e-3 * mx.max(scale)
					&& (d - mn).abs() > 1.0e-3 * mx.max(scale)
			} else {
				// no range: a step at min — well-conditioned away from the step
				(d - mn).abs() > 1.0e-3 * mn.max(scale)
			});
	let tol = |x: f64| 2.0e-3 * x.abs().max(1.0e-3);
	// scale of the signal (strength 0 keeps the stereo input, so the mono mix is the wrong yardstick)
	let amp = (sc.l.abs().max(sc.r.abs())) as f64;

	// (a) listener missing (dropped, or never seen by the track) => exact silence
	for (mode, name) in [(ListenerMode::Dropped, "no_listener_dropped"), (ListenerMode::NeverSeen, "no_listener_never")] {
		let (z, zf) = render_scene_mode(sc, mode);
		if z[0] != 0.0 || z[1] != 0.0 || !zf {
			out.oracle_fail(name, line);
		}
	}
	// (b) unity within min (observable exactly at strength 0), exact silence at/after max — for every pair of
	//     distances: with max <= min (no range to interpolate over) the curve is a step at min, which is then at
	//     or beyond the maximum as well: unity closer than min, silence from min on
	if sc.att.is_some() {
		//     (the f32 distance carries a rounding error of a few ulp of the coordinates: keep clear of the kinks)
		let slack = |x: f64| 1.0e-5 * x + 1.0e-6 * scale;
		let silent_from = if mn < mx { mx } else { mn };
		if (d >= silent_from + slack(silent_from) || (silent_from == 0.0 && mn >= mx)) && (o[0] != 0.0 || o[1] != 0.0) {
			out.oracle_fail("silent_beyond_max", line);
		}
		let within = if mn < mx { d <= mn - slack(mn) || d == 0.0 } else { d <= mn - slack(mn) };
		if within && s == 0.0 && (o[0] != sc.l || o[1] != sc.r) {
			out.oracle_fail("unity_within_min", line);
		}
	}
	// (c) strength 0 passes the stereo signal unpanned: same factor on both channels (exactly the input
	//     when there is no attenuation)
	if s == 0.0 {
		if sc.att.is_none() && (o[0] != sc.l || o[1] != sc.r) {
			out.oracle_fail("strength0_passthrough", line);
		}
		let cross = o[0] as f64 * sc.r as f64 - o[1] as f64 * sc.l as f64;
		if cross.abs() > 1.0e-5 * (sc.l.abs().max(sc.r.abs()) as f64).powi(2).max(1e-12) {
			out.oracle_fail("strength0_same_factor", line);
		}
	}
	// (i) "a parameter mapped from listener distance follows that distance" - also after the tween that brought the
	//     mapping in has ended: the track (no attenuation, strength 0, so the level is the volume alone) gets a volume
	//     mapped linearly from the distance, 0 dB at distance 0 to -20 dB at distance D, through its handle with a
	//     tween; when the tween is over the emitter jumps to another distance d2 < D; a few buffers later the level
	//     has to be 10^(-20·(d2/D)/20) (documented decibel law and mapping, evaluated here over f64; the f32 distance
	//     and volume arithmetic stay within 1e-4 of that, the two distances are at least 6 dB apart)
	if amp > 1.0e-3 && d < 1.0e3 {
		let mut rng = line_rng(line);
		let d2 = if d > 1.0 { d / 3.0 } else { d + 3.0 };
		let big_d = 2.0 * d.max(d2);
		let dir = qrot(random_unit_quat(&mut rng), [1.0, 0.0, 0.0]);
		let ep2 = f3(add3(lp, scale3(dir, d2)));
		let dur = rng.pick(&[0u64, 50_000, 100_000, 300_000]);
		let got = render_volume_follows_distance(sc, big_d, ep2, dur);
		let d2_real = len3(sub3(d3(ep2), lp));
		let want = 10f64.powf(-20.0 * (d2_real / big_d).clamp(0.0, 1.0) / 20.0);
		if (got[0] as f64 - sc.l as f64 * want).abs() > 2.0e-4 * amp || (got[1] as f64 - sc.r as f64 * want).abs() > 2.0e-4 * amp {
			out.oracle_fail(
				"distance_mapped_volume_follows",
				format!("{} # volume 0..-20 dB over 0..{} set with a {} ns tween, emitter then moved to {} (distance {}): level {:e} {:e}, documented {:e} {:e}",
					line, big_d, dur, fmt_v(ep2), d2_real, got[0], got[1], sc.l as f64 * want, sc.r as f64 * want),
			);
		}
	}
	// (j) nested spatial tracks: a spatial track inside another spatial track is spatialised against ITS OWN listener
	//     and position. The enclosing track here (another listener, another position) has no attenuation and
	//     strength 0, i.e. it passes its input on unchanged (exactly: oracle (c)), so the nested rendering of this
	//     scene has to give the very samples of the scene itself; and when the inner track's listener is dropped the
	//     inner track is silent although the enclosing track's listener lives on
	{
		let (nested, after_drop) = render_nested(sc);
		if nested[0].to_bits() != o[0].to_bits() || nested[1].to_bits() != o[1].to_bits() {
			out.oracle_fail(
				"nested_spatial_own_listener",
				format!("{} # nested in a pass-through spatial track bound to another listener: {:e} {:e}, alone: {:e} {:e}", line, nested[0], nested[1], o[0], o[1]),
			);
		}
		if after_drop[0] != 0.0 || after_drop[1] != 0.0 {
			out.oracle_fail("nested_spatial_no_listener", line);
		}
	}
	// everything below speaks about directions, i.e. needs the listener's orientation
	let Some(qn) = effective_orientation(sc.lq) else {
		return;
	};
	let qc = [-qn[0], -qn[1], -qn[2], qn[3]];
	let local = qrot(qc, rel); // emitter in the listener's frame
	let ear_l = len3(sub3(local, [-EAR, 0.0, 0.0]));
	let ear_r = len3(sub3(local, [EAR, 0.0, 0.0]));
	let well = ear_l > 1.0e-3 * scale && ear_r > 1.0e-3 * scale && well_att;
	// (d) ear gains in [1 - s, 1] (observable without attenuation); never louder than the mono input
	if s > 0.0 && mono.abs() > 1.0e-3 {
		let (gl, gr) = (o[0] as f64 / mono, o[1] as f64 / mono);
		if sc.att.is_none() {
			for g in [gl, gr] {
				if g < 1.0 - s - 1.0e-4 || g > 1.0 + 1.0e-4 {
					out.oracle_fail("ear_gain_range", line);
					break;
				}
			}
		} else if gl > 1.0 + 1.0e-4 || gr > 1.0 + 1.0e-4 || gl < -1.0e-6 || gr < -1.0e-6 {
			out.oracle_fail("level_range", line);
		}
		// (e) favours the ear on the emitter's side. Outside the head (distance >= EAR_DISTANCE) this is
		//     the property; inside the head it is known to fail (recorded finding, separate oracle name).
		let wrong_side = (local[0] > 1.0e-3 * scale && gr < gl - 1.0e-4) || (local[0] < -1.0e-3 * scale && gl < gr - 1.0e-4);
		if wrong_side {
			if d >= 1.001 * EAR {
				out.oracle_fail("favours_near_ear", line);
			} else if d < EAR {
				out.oracle_fail("favours_near_ear_inside_head", line);
			}
		}
	}
	if !well {
		return;
	}
	N_METAMORPHIC.fetch_add(1, std::sync::atomic::Ordering::SeqCst);
	let mut rng = line_rng(line);
	// (f) attenuation depends only on the distance: same distance, another direction, strength 0
	if sc.att.is_some() {
		let r = random_unit_quat(&mut rng);
		let mut a = sc.clone();
		a.strength = 0.0;
		let mut b = a.clone();
		b.ep = f3(add3(lp, qrot(r, rel)));
		let (oa, ob) = (render_samples(&a), render_samples(&b));
		for k in 0..2 {
			if (oa[k] as f64 - ob[k] as f64).abs() > tol(oa[k] as f64) {
				out.oracle_fail("attenuation_distance_only", format!("{} # other: {}", line, fmt_scene(&b)));
				break;
			}
		}
	}
	// (g) mirroring the emitter through the listener's median plane swaps the two ear gains
	//     (observable when the signal is panned at all: strength > 0 makes the output mono × gain)
	if s > 0.0 {
		let n = qrot(qn, [1.0, 0.0, 0.0]);
		let mut m = sc.clone();
		m.ep = f3(sub3(ep, scale3(n, 2.0 * dot3(rel, n))));
		let om = render_samples(&m);
		if (om[0] as f64 - o[1] as f64).abs() > tol(amp) || (om[1] as f64 - o[0] as f64).abs() > tol(amp) {
			out.oracle_fail("mirror_swaps", format!("{} # mirrored: {}", line, fmt_scene(&m)));
		}
	}
	// (h) a rigid motion applied to listener and emitter together changes nothing
	{
		let r = random_unit_quat(&mut rng);
		let t = [rng.uniform(-5.0, 5.0), rng.uniform(-5.0, 5.0), rng.uniform(-5.0, 5.0)];
		let mut m = sc.clone();
		m.lp = f3(add3(qrot(r, lp), t));
		m.ep = f3(add3(qrot(r, ep), t));
		m.lq = f4(qmul(r, qn));
		let om = render_samples(&m);
		if (om[0] as f64 - o[0] as f64).abs() > tol(amp) || (om[1] as f64 - o[1] as f64).abs() > tol(amp) {
			out.oracle_fail("rigid_motion_invariant", format!("{} # moved: {}", line, fmt_scene(&m)));
		}
	}
}

// ---------------------------------------------------------------------------------------------
// generator
// ---------------------------------------------------------------------------------------------
fn gen_coord(rng: &mut Rng) -> f32 {
	match rng.below(6) {
		0 => rng.pick(&[0.0f32, 1.0, -1.0, 0.1, -0.1, 0.5, 2.0, -2.0, 10.0, 100.0, -50.0]),
		1 => rng.uniform(-2.0, 2.0) as f32,
		2 => rng.uniform(-120.0, 120.0) as f32,
		_ => rng.uniform(-20.0, 20.0) as f32,
	}
}
fn gen_pos(rng: &mut Rng) -> V3 {
	match rng.below(8) {
		0 => [0.0, 0.0, 0.0],
		1 => {
			// on one axis
			let mut v = [0.0f32; 3];
			v[rng.below(3) as usize] = gen_coord(rng);
			v
		}
		_ => [gen_coord(rng), gen_coord(rng), gen_coord(rng)],
	}
}
fn gen_quat(rng: &mut Rng) -> Q4 {
	let h = std::f32::consts::FRAC_1_SQRT_2;
	match rng.below(12) {
		0 | 1 => [0.0, 0.0, 0.0, 1.0],
		// the zero quaternion: finite, accepted by add_listener / set_orientation; counts as the identity
		10 => [0.0, 0.0, 0.0, 0.0],
		11 if rng.chance(1, 2) => {
			// a length at or beyond the ends of the f32 range of the squared length (underflows to zero / to a
			// subnormal, barely normal, huge, overflows): normalised when it can be, the identity otherwise
			let q = random_unit_quat(rng);
			let k = rng.pick(&[1.0e-30, 1.0e-25, 5.0e-23, 3.0e-20, 1.0e-19, 1.2e-19, 1.0e-12, 1.0e12, 1.0e19, 1.0e25]);
			f4([q[0] * k, q[1] * k, q[2] * k, q[3] * k])
		}
		2 => rng.pick(&[[0.0, h, 0.0, h], [h, 0.0, 0.0, h], [0.0, 0.0, h, h], [0.0, 1.0, 0.0, 0.0], [0.0, 0.0, 0.0, -1.0], [0.0, -h, 0.0, h]]),
		3 => {
			// not normalised (kira normalises when interpolating)
			let q = random_unit_quat(rng);
			let k = rng.pick(&[2.0, 0.5, 10.0, 0.01]);
			f4([q[0] * k, q[1] * k, q[2] * k, q[3] * k])
		}
		_ => f4(random_unit_quat(rng)),
	}
}
fn gen_distances(rng: &mut Rng) -> (f32, f32) {
	match rng.below(10) {
		// no range to interpolate over: min == max (was 0/0) ...
		8 => {
			let a = match rng.below(4) {
				0 => rng.pick(&[0.0f32, 1.0, 5.0, 0.5, 100.0]),
				_ => rng.uniform(0.0, 30.0) as f32,
			};
			(a, a)
		}
		// ... and min > max (was a panic in f32::clamp)
		9 => {
			let (a, b) = match rng.below(4) {
				0 => rng.pick(&[(2.0f32, 1.0f32), (100.0, 1.0), (1.0, 0.0), (5.5, 5.0)]),
				_ => {
					let b = rng.uniform(0.0, 20.0) as f32;
					(b + rng.uniform(0.01, 40.0) as f32, b)
				}
			};
			(a, b)
		}
		0 | 1 => (1.0, 100.0),
		2 => (0.0, 10.0),
		3 => (0.5, 2.0),
		4 => (5.0, 5.5),
		5 => (0.0, rng.uniform(0.5, 50.0) as f32),
		_ => {
			let a = rng.uniform(0.0, 20.0) as f32;
			(a, a + rng.uniform(0.1, 60.0) as f32)
		}
	}
}
fn gen_atten(rng: &mut Rng) -> Option<Easing> {
	match rng.below(6) {
		0 => None,
		1 | 2 => Some(Easing::Linear),
		_ => Some(gen_easing(rng)),
	}
}
fn gen_strength(rng: &mut Rng) -> f32 {
	match rng.below(8) {
		0 | 1 => 0.0,
		2 => 1.0,
		3 => 0.75,
		4 => rng.pick(&[-0.5f32, 1.5, 0.5, 0.25]),
		_ => rng.unit() as f32,
	}
}
fn gen_sample(rng: &mut Rng) -> f32 {
	match rng.below(5) {
		0 => rng.pick(&[0.5f32, -0.5, 0.25, 1.0, 0.0, -1.0]),
		_ => rng.uniform(-1.0, 1.0) as f32,
	}
}
/// an emitter position related to the listener: anywhere / coincident / on an ear / at a chosen distance
fn gen_emitter(rng: &mut Rng, lp: V3, lq: Q4, mn: f32, mx: f32) -> V3 {
	let q = d4(lq);
	let n2 = q[0] * q[0] + q[1] * q[1] + q[2] * q[2] + q[3] * q[3];
	let qn = if n2 > 0.0 { qnorm(q) } else { [0.0, 0.0, 0.0, 1.0] };
	match rng.below(10) {
		0 => lp,
		1 => {
			// exactly where the model puts an ear (up to rounding)
			let side = if rng.chance(1, 2) { EAR } else { -EAR };
			f3(add3(d3(lp), qrot(qn, [side, 0.0, 0.0])))
		}
		2 | 3 | 4 => {
			// at a chosen distance: inside min, at min, between, at max, beyond both
			let dist = match rng.below(7) {
				0 => mn as f64 * rng.unit(),
				1 => mx as f64,
				2 => mx as f64 * rng.uniform(1.0, 3.0),
				3 => mn as f64,
				4 => mn.max(mx) as f64 * rng.uniform(1.0, 3.0),
				_ => mn as f64 + (mx as f64 - mn as f64) * rng.unit(),
			};
			let dir = qrot(random_unit_quat(rng), [1.0, 0.0, 0.0]);
			f3(add3(d3(lp), scale3(dir, dist)))
		}
		6 if rng.chance(1, 3) => {
			// inside the head (closer than EAR_DISTANCE): the far ear can win here (known finding)
			let r = [rng.uniform(-0.09, 0.09), rng.uniform(-0.05, 0.05), rng.uniform(-0.09, 0.09)];
			f3(add3(d3(lp), qrot(qn, r)))
		}
		5 => {
			// on one of the listener's axes
			let mut a = [0.0f64; 3];
			a[rng.below(3) as usize] = rng.uniform(-30.0, 30.0);
			f3(add3(d3(lp), qrot(qn, a)))
		}
		_ => gen_pos(rng),
	}
}
fn gen_scene(rng: &mut Rng, stats: &mut Stats) -> SceneP {
	let lp = gen_pos(rng);
	let lq = gen_quat(rng);
	let (mn, mx) = gen_distances(rng);
	// the formerly excluded inputs are generated regularly (gen_distances / gen_quat) and checked by the same oracles
	if mn > mx {
		stats.hit("scene_min_gt_max");
	} else if mn == mx {
		stats.hit("scene_min_eq_max");
	}
	if lq == [0.0, 0.0, 0.0, 0.0] {
		stats.hit("scene_zero_quat");
	}
	let ep = gen_emitter(rng, lp, lq, mn, mx);
	SceneP { lp, lq, ep, mn, mx, att: gen_atten(rng), strength: gen_strength(rng), l: gen_sample(rng), r: gen_sample(rng) }
}

fn gen_tween(rng: &mut Rng) -> String {
	let start = match rng.below(5) {
		0 => format!("del:{}", rng.pick(&[0u64, 1, 50_000, 200_000])),
		_ => "imm".into(),
	};
	let dur = match rng.below(6) {
		0 => 0,
		1 => 100_000,
		2 => 1_000_000,
		3 => rng.below(400_000),
		_ => rng.below(3_000_000),
	};
	let e = match rng.below(3) {
		0 => gen_easing(rng),
		_ => Easing::Linear,
	};
	format!("{};{};{}", start, dur, fmt_easing(&e))
}
fn gen_val(rng: &mut Rng, db: bool) -> String {
	if rng.chance(1, 4) {
		let (i0, i1) = match rng.below(3) {
			0 => (0.0, 10.0),
			1 => (1.0, 100.0),
			_ => (rng.uniform(0.0, 5.0), rng.uniform(6.0, 60.0)),
		};
		let (o0, o1): (f32, f32) = if db { (0.0, rng.pick(&[-60.0f32, -12.0, -6.0])) } else { (rng.pick(&[1.0f32, 0.75]), rng.pick(&[0.0f32, 0.25])) };
		let e = if rng.chance(1, 2) { Easing::Linear } else { gen_easing(rng) };
		format!("dist,{},{},{},{},{}", o64(i0), o64(i1), o32(o0), o32(o1), fmt_easing(&e))
	} else if db {
		format!("fix,{}", o32(rng.pick(&[0.0f32, 0.0, 0.0, -6.0, -3.5, -60.0, -20.0])))
	} else {
		format!("fix,{}", o32(gen_strength(rng)))
	}
}

fn gen_sequence(rng: &mut Rng, out: &mut Vec<String>, stats: &mut Stats) {
	let ibs = rng.pick(&[1u64, 2, 3, 4, 4, 8, 16]);
	let sr = rng.pick(&[48000u64, 44100, 8000, 96000]);
	out.push(format!("init {} {}", ibs, sr));
	let mut next_l = 1u64;
	let mut next_t = 1u64;
	let mut live_l: Vec<u64> = vec![];
	// (tid, spatial)
	let mut tracks: Vec<(u64, bool)> = vec![];
	let push = |out: &mut Vec<String>, stats: &mut Stats, l: String| {
		stats.hit(l.split(' ').next().unwrap());
		out.push(l);
	};
	let add_listener = |rng: &mut Rng, next_l: &mut u64, live_l: &mut Vec<u64>| -> String {
		let id = *next_l;
		*next_l += 1;
		live_l.push(id);
		format!("listener {} {} {}", id, fmt_v(gen_pos(rng)), fmt_q(gen_quat(rng)))
	};
	let l = add_listener(rng, &mut next_l, &mut live_l);
	push(out, stats, l);
	if rng.chance(1, 3) {
		let l = add_listener(rng, &mut next_l, &mut live_l);
		push(out, stats, l);
	}
	let steps = rng.range(6, 16);
	for step in 0..steps {
		let k = if step < 2 { 0 } else { rng.below(16) };
		match k {
			0 | 1 => {
				// add a track (+ a sound on it)
				if tracks.len() >= 5 {
					continue;
				}
				let tid = next_t;
				next_t += 1;
				let parent = if tracks.is_empty() || rng.chance(1, 2) { "main".to_string() } else { rng.pick(&tracks).0.to_string() };
				let spatial = !live_l.is_empty() && (tracks.is_empty() || rng.chance(3, 4));
				if spatial {
					let (mn, mx) = gen_distances(rng);
					let line = format!(
						"strack {} {} {} {} {} {} {} {} {} {}",
						tid,
						parent,
						rng.pick(&live_l),
						fmt_v(gen_pos(rng)),
						o32(mn),
						o32(mx),
						fmt_atten(&gen_atten(rng)),
						gen_val(rng, false),
						gen_val(rng, true),
						rng.below(2)
					);
					push(out, stats, line);
				} else {
					let line = format!("track {} {} {} {}", tid, parent, gen_val(rng, true), rng.below(2));
					push(out, stats, line);
				}
				tracks.push((tid, spatial));
				if rng.chance(4, 5) {
					let line = format!("sound {} {} {}", tid, o32(gen_sample(rng) * 0.5), o32(gen_sample(rng) * 0.5));
					push(out, stats, line);
				}
			}
			2 => {
				if let Some(&(tid, _)) = tracks.iter().find(|t| t.1) {
					let line = format!("setpos {} {} {}", tid, fmt_v(gen_pos(rng)), gen_tween(rng));
					push(out, stats, line);
				}
			}
			3 => {
				let sp: Vec<u64> = tracks.iter().filter(|t| t.1).map(|t| t.0).collect();
				if !sp.is_empty() {
					let line = if rng.chance(1, 2) {
						format!("setstr {} {} {}", rng.pick(&sp), o32(gen_strength(rng)), gen_tween(rng))
					} else {
						// volume through the handle, half of the time mapped from the listener distance: after the
						// tween the volume must keep following the distance (moving listener / emitter)
						format!("setvol {} {} {}", rng.pick(&sp), gen_val(rng, true), gen_tween(rng))
					};
					push(out, stats, line);
				}
			}
			4 | 5 => {
				if !live_l.is_empty() {
					let line = format!("lpos {} {} {}", rng.pick(&live_l), fmt_v(gen_pos(rng)), gen_tween(rng));
					push(out, stats, line);
				}
			}
			6 | 7 => {
				if !live_l.is_empty() {
					let line = format!("lori {} {} {}", rng.pick(&live_l), fmt_q(gen_quat(rng)), gen_tween(rng));
					push(out, stats, line);
				}
			}
			8 => {
				if !live_l.is_empty() && rng.chance(1, 2) {
					let i = rng.below(live_l.len() as u64) as usize;
					let id = live_l.remove(i);
					push(out, stats, format!("droplistener {}", id));
				} else {
					let l = add_listener(rng, &mut next_l, &mut live_l);
					push(out, stats, l);
				}
			}
			_ => {
				let frames = match rng.below(4) {
					0 => ibs,
					1 => rng.range(1, 3) as u64,
					_ => rng.range(1, 12) as u64,
				};
				push(out, stats, format!("cb {} finite", frames));
			}
		}
	}
	push(out, stats, format!("cb {} finite", rng.range(1, 9)));
}

/// a quaternion related to `q`: equal, opposite, a tiny / small / large rotation away, orthogonal, unrelated
fn gen_quat_near(rng: &mut Rng, q: Q4) -> Q4 {
	let d = d4(q);
	let rot = |angle: f64, rng: &mut Rng| -> Q4 {
		let axis = qrot(random_unit_quat(rng), [1.0, 0.0, 0.0]);
		let (s, c) = (angle / 2.0).sin_cos();
		f4(qmul([axis[0] * s, axis[1] * s, axis[2] * s, c], d))
	};
	match rng.below(10) {
		0 => q,
		1 => [-q[0], -q[1], -q[2], -q[3]],
		2 => rot(rng.pick(&[1.0e-4, 3.0e-4, 1.0e-3, 5.0e-4]), rng),
		3 => rot(rng.uniform(0.0, 0.05), rng),
		4 => rot(std::f64::consts::PI * rng.pick(&[0.5, 1.0, 0.999, 1.5]), rng),
		5 => {
			let r = rot(rng.uniform(0.0, 6.0), rng);
			[-r[0], -r[1], -r[2], -r[3]]
		}
		6 => [q[3], -q[2], q[1], -q[0]], // orthogonal in R^4
		_ => rot(rng.uniform(0.0, 6.3), rng),
	}
}
fn gen_amount(rng: &mut Rng) -> f64 {
	match rng.below(6) {
		0 => rng.pick(&[0.0, 1.0, 0.5, 0.25, 1.0 / 3.0]),
		_ => rng.unit(),
	}
}
fn gen_kernel_op(rng: &mut Rng, stats: &mut Stats) -> String {
	match rng.below(4) {
		0 => {
			stats.hit("vtween");
			format!("vtween {} {} {}", fmt_v(gen_pos(rng)), fmt_v(gen_pos(rng)), o64(gen_amount(rng)))
		}
		1 => {
			stats.hit("linterp");
			let q = gen_quat(rng);
			let p = gen_pos(rng);
			let p2 = if rng.chance(1, 3) { p } else { gen_pos(rng) };
			format!("linterp {} {} {} {} {}", fmt_v(p), fmt_q(q), fmt_v(p2), fmt_q(gen_quat_near(rng, q)), o32(gen_amount(rng) as f32))
		}
		_ => {
			stats.hit("qtween");
			let q = gen_quat(rng);
			format!("qtween {} {} {}", fmt_q(q), fmt_q(gen_quat_near(rng, q)), o64(gen_amount(rng)))
		}
	}
}

pub fn gen(rng: &mut Rng, n: usize, _thorough: bool, stats: &mut Stats) -> Vec<String> {
	let mut out = vec![];
	for case in 0..n {
		out.push(format!("case {}", case));
		if case % 3 == 0 {
			stats.hit("case_sequence");
			gen_sequence(rng, &mut out, stats);
		} else if case % 3 == 1 {
			stats.hit("case_kernels");
			for _ in 0..rng.range(2, 6) {
				out.push(gen_kernel_op(rng, stats));
			}
		} else {
			stats.hit("case_scenes");
			for _ in 0..rng.range(1, 4) {
				let sc = gen_scene(rng, stats);
				stats.hit("scene");
				out.push(fmt_scene(&sc));
			}
		}
	}
	out
}
