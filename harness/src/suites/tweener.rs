//! Suite `tweener` (C17): the tweener modulator built by `TweenerBuilder` through the public
//! `ModulatorBuilder::build` → `Box<dyn Modulator>`, its `TweenerHandle` issuing `set` between
//! updates, `MockInfoBuilder` for `Info`.
//!
//! ops:  info.clocks … / info.mods …            (as in suite `param`)
//!       new <initial>                          → value()
//!       set <target> <tween>                   → ok / nohandle      (handle.set: a command)
//!       start                                  → ok                 (on_start_processing)
//!       update <dt>                            → value() finished()
//!       drop                                   → ok                 (drop the handle)
use crate::runner::{run_cases, Out};
use crate::suites::param::{gen_dt, gen_tween, ids, parse_tween, Ids, InfoState, MAX_IDS};
use crate::util::*;
use kira::modulator::tweener::{TweenerBuilder, TweenerHandle};
use kira::modulator::{Modulator, ModulatorBuilder};
use kira::{Parameter, StartTime, Tween, Value};

struct Run {
	m: Box<dyn Modulator>,
	h: Option<TweenerHandle>,
	pending: Option<(f64, Tween)>,
	// --- oracle bookkeeping ---
	/// a `Parameter<f64>` given the same history with `Value::Fixed` targets
	shadow: Parameter<f64>,
	/// the tween in flight, if it started immediately: (start value, target, duration s, elapsed s)
	flight: Option<(f64, f64, f64, f64)>,
	/// the value must stay exactly here (landed, nothing new set)
	landed_on: Option<f64>,
}

fn gen_val(rng: &mut Rng) -> f64 {
	match rng.below(4) {
		0 => rng.pick(&[0.0, 1.0, -1.0, 0.5, 100.0]),
		_ => rng.uniform(-10.0, 10.0),
	}
}

pub fn run(ops: &[String]) -> Vec<String> {
	run_cases(ops, None, |case: &[String], out: &mut Out| {
		let ids: Ids = ids();
		let mut info_state = InfoState::default();
		out.put(case[0].clone());
		let mut run: Option<Run> = None;
		for l in &case[1..] {
			let tok: Vec<&str> = l.split_whitespace().collect();
			match tok[0] {
				"info.clocks" => {
					info_state.parse_clocks(&tok);
					out.put("ok");
				}
				"info.mods" => {
					info_state.parse_mods(&tok);
					out.put("ok");
				}
				"new" => {
					let v0 = p64(tok[1]);
					let (m, h) = TweenerBuilder { initial_value: v0 }.build(ids.mods[0]);
					out.put(h64(m.value()));
					run = Some(Run {
						m,
						h: Some(h),
						pending: None,
						shadow: Parameter::new(Value::Fixed(v0), v0),
						flight: None,
						landed_on: Some(v0),
					});
				}
				"set" => {
					let r = run.as_mut().unwrap();
					match r.h.as_mut() {
						None => out.put("nohandle"),
						Some(h) => {
							let target = p64(tok[1]);
							let tw = parse_tween(tok[2], &ids);
							h.set(target, tw);
							r.pending = Some((target, tw));
							out.put("ok");
						}
					}
				}
				"start" => {
					let r = run.as_mut().unwrap();
					r.m.on_start_processing();
					if let Some((target, tw)) = r.pending.take() {
						r.shadow.set(Value::Fixed(target), tw);
						r.landed_on = None;
						r.flight = match tw.start_time {
							StartTime::Immediate => Some((r.m.value(), target, tw.duration.as_secs_f64(), 0.0)),
							_ => None,
						};
					}
					out.put("ok");
				}
				"update" => {
					let r = run.as_mut().unwrap();
					let dt = p64(tok[1]);
					let info = info_state.build();
					r.m.update(dt, &info);
					let v = r.m.value();
					out.put(format!("{} {}", h64(v), r.m.finished() as u8));
					// --- oracles (C17) ---
					// "moves to each target exactly as a tween prescribes": same as a Parameter<f64>
					r.shadow.update(dt, &info);
					if v != r.shadow.value() {
						out.oracle_fail("tweener_is_parameter", l);
					}
					// "... and then holds it"
					if let Some(x) = r.landed_on {
						if v != x {
							out.oracle_fail("tweener_holds", l);
						}
					}
					if let Some((s, t, d, el)) = r.flight {
						let el = el + dt;
						r.flight = Some((s, t, d, el));
						let (lo, hi) = (s.min(t), s.max(t));
						let slack = 1e-9 * (hi - lo).abs().max(lo.abs()).max(hi.abs()).max(1e-30);
						if !(v >= lo - slack && v <= hi + slack) {
							out.oracle_fail("tweener_within_interval", l);
						}
						// clearly past the end (margin for the different summation order): exactly on target
						if el > d * (1.0 + 1e-9) + 1e-12 {
							if v != t {
								out.oracle_fail("tweener_ends_exactly_on_target", l);
							}
							r.landed_on = Some(t);
							r.flight = None;
						}
					}
				}
				"drop" => {
					let r = run.as_mut().unwrap();
					r.h = None;
					out.put("ok");
				}
				_ => panic!("tweener: unknown op {}", tok[0]),
			}
		}
	})
}

pub fn gen(rng: &mut Rng, n: usize, _thorough: bool, stats: &mut Stats) -> Vec<String> {
	let mut out = vec![];
	for case in 0..n {
		out.push(format!("case {}", case));
		out.push(format!("new {}", o64(gen_val(rng))));
		let steps = rng.range(6, 30);
		for _ in 0..steps {
			let line = match rng.below(16) {
				0 => {
					let k = rng.below(MAX_IDS as u64 + 1);
					let mut s = format!("info.clocks {}", k);
					for _ in 0..k {
						s += &format!(" {} {} {}", rng.below(2), rng.below(6), o64(rng.pick(&[0.0, 0.5, 0.25, 0.75, 0.999])));
					}
					s
				}
				1 | 2 | 3 => format!("set {} {}", o64(gen_val(rng)), gen_tween(rng)),
				4 | 5 | 6 => "start".into(),
				7 => {
					if rng.chance(1, 5) {
						"drop".into()
					} else {
						"start".into()
					}
				}
				_ => format!("update {}", o64(gen_dt(rng))),
			};
			stats.hit(line.split(' ').next().unwrap());
			out.push(line);
		}
	}
	out
}
