//! Suite `fxrate` (C16, effect level): "every effect processes with the sample rate actually in force".
//! The rate-dependent built-in effects — Delay (with probe effects, a real kira Filter and a real kira
//! Delay nested in its feedback loop), Reverb, Filter, EqFilter — are built through their PUBLIC builders
//! and driven with histories of `init(sr)` / `on_change_sample_rate(sr')` / `process(.., dt, ..)` where
//! `dt` is ALWAYS `1 / (rate in force)`, as the renderer does.
//!
//! ops:  delay.new <ns> <feedback dB f32> <mix f32> <nest>      nest: `-` | item[;item]*
//!           item: p:<gain>,<offset>,<feedback>                 ProbeEffect (f32 bits): logs the rate it is told
//!               | f:<lp|bp|hp|notch>,<cutoff f64>,<resonance f64>,<mix f32>        kira Filter
//!               | d:<ns>,<feedback dB f32>,<mix f32>[,<gain>,<offset>,<feedback>]  kira Delay (one probe inside)
//!       reverb.new <feedback f64> <damping f64> <stereo width f64> <mix f32>
//!       filter.new <mode> <cutoff f64> <resonance f64> <mix f32>
//!       eq.new <bell|ls|hs> <frequency f64> <gain dB f32> <q f64>
//!       init <sr> <ibs>    rate <sr>    start                 → `ok k=<rate each probe was last told>`
//!       proc <n> {<l> <r>}*n                                   → `o <output frames> k=<…>`
//!       run <slice> <count> <zero|dc|imp|noise|sine> <a f32> <b f32> <freq f64>
//!                        → `h <fnv hash> <non-finite> <last frame> z=<first non-zero output frame> k=<…>`
//!
//! Oracles (real code only):
//!   nested_rate_stale      every probe nested (at any depth) in the delay knows the rate in force after `init` / `rate`
//!   nested_dt              … and is processed with dt = 1 / rate in force
//!   echo_time              after a rate change: an impulse into a delay comes back after exactly
//!                          max(⌊delay·sr⌋,1) frames of the NEW rate, plus the line of every fully wet delay nested in the
//!                          feedback loop (each at the new rate) — delay times are in seconds at every rate
//!   reverb_reflection_time after a rate change: the first reflection of the reverb arrives after ⌊1116·sr/44100⌋ frames
//!                          (Freeverb's shortest comb, 25.3 ms) at the new rate
//!   corner_gain            after a rate change: a settled sine at the filter's cutoff / the bell's centre (in hertz) has
//!                          gain 1/k resp. 10^(gain/20): the corner stays at the requested frequency
//!   process_panics         no panic in `process` after `init` with slices ≤ internal buffer size (rates 8 k … 192 k)
use crate::probe::{new_log, Log, ProbeEffectBuilder};
use crate::runner::{classify, last_panic, run_cases, Out};
use crate::suites::fxa::{pole_radius, settled};
use crate::util::*;
use kira::effect::delay::DelayBuilder;
use kira::effect::eq_filter::{EqFilterBuilder, EqFilterKind};
use kira::effect::filter::{FilterBuilder, FilterMode};
use kira::effect::reverb::ReverbBuilder;
use kira::effect::{Effect, EffectBuilder};
use kira::info::MockInfoBuilder;
use kira::{Decibels, Frame, Mix};
use std::any::Any;
use std::panic::{catch_unwind, resume_unwind, AssertUnwindSafe};
use std::time::Duration;

/// how often each oracle's premise held (printed to stderr when FXRATE_STATS is set; not part of the trace)
static PREMISES: std::sync::Mutex<std::collections::BTreeMap<&'static str, u64>> =
	std::sync::Mutex::new(std::collections::BTreeMap::new());
fn premise(name: &'static str) {
	*PREMISES.lock().unwrap().entry(name).or_insert(0) += 1;
}

fn filter_mode(s: &str) -> FilterMode {
	match s {
		"lp" => FilterMode::LowPass,
		"bp" => FilterMode::BandPass,
		"hp" => FilterMode::HighPass,
		"notch" => FilterMode::Notch,
		_ => panic!("fxrate: bad filter mode {}", s),
	}
}
fn eq_kind(s: &str) -> EqFilterKind {
	match s {
		"bell" => EqFilterKind::Bell,
		"ls" => EqFilterKind::LowShelf,
		"hs" => EqFilterKind::HighShelf,
		_ => panic!("fxrate: bad eq kind {}", s),
	}
}

// ---------------------------------------------------------------------------------------------
// what the harness knows about the effect (premises of the oracles)
// ---------------------------------------------------------------------------------------------

#[derive(Clone)]
enum Nest {
	Probe { gain: f32, offset: f32, feedback: f32 },
	Filter { mode: String, cutoff: f64, resonance: f64, mix: f32 },
	Delay { ns: u64, fb_db: f32, mix: f32, probe: Option<(f32, f32, f32)> },
}

fn parse_nest(s: &str) -> Vec<Nest> {
	if s == "-" {
		return vec![];
	}
	s.split(';')
		.map(|item| {
			let (k, rest) = item.split_once(':').unwrap();
			let p: Vec<&str> = rest.split(',').collect();
			match k {
				"p" => Nest::Probe { gain: p32(p[0]), offset: p32(p[1]), feedback: p32(p[2]) },
				"f" => Nest::Filter { mode: p[0].to_string(), cutoff: p64(p[1]), resonance: p64(p[2]), mix: p32(p[3]) },
				"d" => Nest::Delay {
					ns: pu(p[0]),
					fb_db: p32(p[1]),
					mix: p32(p[2]),
					probe: if p.len() == 6 { Some((p32(p[3]), p32(p[4]), p32(p[5]))) } else { None },
				},
				_ => panic!("fxrate: bad nest item {}", item),
			}
		})
		.collect()
}

enum Kind {
	Delay { ns: u64, fb_db: f32, mix: f32, nest: Vec<Nest> },
	Reverb { mix: f32, width: f64 },
	Filter { mode: String, cutoff: f64, resonance: f64, mix: f32 },
	Eq { kind: String, frequency: f64, gain: f32, q: f64 },
}

struct Inst {
	fx: Box<dyn Effect>,
	/// logs of the probe effects, in nesting order
	logs: Vec<Log>,
	/// handles are kept alive for the whole case
	_handles: Vec<Box<dyn Any>>,
	kind: Kind,
}

fn build(tok: &[&str]) -> Inst {
	let mut logs = vec![];
	let mut handles: Vec<Box<dyn Any>> = vec![];
	match tok[0] {
		"delay.new" => {
			let (ns, fb_db, mix) = (pu(tok[1]), p32(tok[2]), p32(tok[3]));
			let nest = parse_nest(tok[4]);
			let mut b = DelayBuilder::new().delay_time(Duration::from_nanos(ns)).feedback(Decibels(fb_db)).mix(Mix(mix));
			for item in &nest {
				match item {
					Nest::Probe { gain, offset, feedback } => {
						let l = b.add_feedback_effect(ProbeEffectBuilder { gain: *gain, offset: *offset, feedback: *feedback, log: new_log() });
						logs.push(l);
					}
					Nest::Filter { mode, cutoff, resonance, mix } => {
						let h = b.add_feedback_effect(FilterBuilder::new().mode(filter_mode(mode)).cutoff(*cutoff).resonance(*resonance).mix(Mix(*mix)));
						handles.push(Box::new(h));
					}
					Nest::Delay { ns, fb_db, mix, probe } => {
						let mut inner = DelayBuilder::new().delay_time(Duration::from_nanos(*ns)).feedback(Decibels(*fb_db)).mix(Mix(*mix));
						if let Some((gain, offset, feedback)) = probe {
							let l = inner.add_feedback_effect(ProbeEffectBuilder { gain: *gain, offset: *offset, feedback: *feedback, log: new_log() });
							logs.push(l);
						}
						let h = b.add_feedback_effect(inner);
						handles.push(Box::new(h));
					}
				}
			}
			let (fx, h) = b.build();
			handles.push(Box::new(h));
			Inst { fx, logs, _handles: handles, kind: Kind::Delay { ns, fb_db, mix, nest } }
		}
		"reverb.new" => {
			let (fx, h) = ReverbBuilder::new()
				.feedback(p64(tok[1]))
				.damping(p64(tok[2]))
				.stereo_width(p64(tok[3]))
				.mix(Mix(p32(tok[4])))
				.build();
			handles.push(Box::new(h));
			Inst { fx, logs, _handles: handles, kind: Kind::Reverb { mix: p32(tok[4]), width: p64(tok[3]) } }
		}
		"filter.new" => {
			let (fx, h) = FilterBuilder::new()
				.mode(filter_mode(tok[1]))
				.cutoff(p64(tok[2]))
				.resonance(p64(tok[3]))
				.mix(Mix(p32(tok[4])))
				.build();
			handles.push(Box::new(h));
			Inst {
				fx,
				logs,
				_handles: handles,
				kind: Kind::Filter { mode: tok[1].to_string(), cutoff: p64(tok[2]), resonance: p64(tok[3]), mix: p32(tok[4]) },
			}
		}
		"eq.new" => {
			let (fx, h) = EqFilterBuilder::new(eq_kind(tok[1]), p64(tok[2]), Decibels(p32(tok[3])), p64(tok[4])).build();
			handles.push(Box::new(h));
			Inst {
				fx,
				logs,
				_handles: handles,
				kind: Kind::Eq { kind: tok[1].to_string(), frequency: p64(tok[2]), gain: p32(tok[3]), q: p64(tok[4]) },
			}
		}
		_ => panic!("fxrate: bad constructor {}", tok[0]),
	}
}

fn known(log: &Log) -> u32 {
	let l = log.lock().unwrap();
	l.rate_changes.last().copied().or(l.init.last().map(|x| x.0)).unwrap_or(0)
}

/// line length kira uses: max(⌊ns·sr / 10⁹⌋, 1), in integers — also at the whole-frame boundary, where the
/// f64 product used to round below it (repaired defect delay-length-float-floor)
fn line_frames(ns: u64, sr: u32) -> Option<u64> {
	let exact = ((ns as u128 * sr as u128) / 1_000_000_000u128) as u64;
	Some(exact.max(1))
}

/// Freeverb's shortest comb line (left channel): the first reflection, 1116 samples at 44.1 kHz
const FIRST_COMB: u64 = 1116;
fn reverb_first_frames(sr: u32) -> Option<u64> {
	let exact = FIRST_COMB * sr as u64 / 44100;
	let float = ((FIRST_COMB as f64) * ((sr as f64) / 44100.0)) as usize as u64;
	if exact == float && exact >= 1 {
		Some(exact)
	} else {
		None
	}
}

struct Case {
	inst: Option<Inst>,
	sr: u32,
	ibs: usize,
	initialized: bool,
	/// a `rate` op has been applied since `init`
	rate_changed: bool,
	/// output frames since the last `init` / `rate`
	t: u64,
	/// the input since the last `init` / `rate` is an impulse at frame 0 followed by silence
	impulse_only: bool,
	/// first output frame (index ≥ 1 since the last `init` / `rate`) with a non-zero sample
	first_nonzero: Option<u64>,
	arrival_done: bool,
	/// a non-zero input frame has been fed since construction / had been fed when the last `init` / `rate` came
	dirty: bool,
	dirty_at_rate: bool,
	lcg: u32,
}

impl Case {
	fn knowns(&self) -> String {
		let v: Vec<String> = self.inst.as_ref().map(|i| i.logs.iter().map(|l| known(l).to_string()).collect()).unwrap_or_default();
		format!("k={}", v.join(","))
	}

	fn check_known(&self, line: &str, out: &mut Out) {
		if let Some(i) = &self.inst {
			if self.initialized && !i.logs.is_empty() {
				premise("nested_rate_stale");
			}
			if self.initialized && i.logs.iter().any(|l| known(l) != self.sr) {
				out.oracle_fail("nested_rate_stale", line);
			}
		}
	}

	/// frame (since the last rate change) at which the impulse fed at frame 0 must come back, if the premises hold
	fn expected_arrival(&self) -> Option<(&'static str, u64)> {
		let inst = self.inst.as_ref()?;
		match &inst.kind {
			Kind::Delay { ns, fb_db, mix, nest } => {
				if !(*mix > 0.0 && *fb_db > -59.0) {
					return None;
				}
				let mut t = line_frames(*ns, self.sr)?;
				// a rate change clears delay lines, but not the integrators of a nested filter / one-pole probe:
				// those must still be at rest, or they keep sounding into the cleared line
				let has_memory = nest.iter().any(|i| match i {
					Nest::Probe { feedback, .. } => *feedback != 0.0,
					Nest::Filter { .. } => true,
					Nest::Delay { probe, .. } => probe.map_or(false, |p| p.2 != 0.0),
				});
				if has_memory && self.dirty_at_rate {
					return None;
				}
				for item in nest {
					match item {
						Nest::Probe { gain, offset, .. } => {
							if *gain == 0.0 || *offset != 0.0 {
								return None;
							}
						}
						Nest::Filter { cutoff, .. } => {
							// the trapezoidal SVF answers an impulse in the same frame in every mode (away from the Nyquist clamp)
							let rf = cutoff / self.sr as f64;
							if !(0.0001..=0.25).contains(&rf) {
								return None;
							}
						}
						Nest::Delay { ns, fb_db, mix, probe } => {
							if let Some((gain, offset, _)) = probe {
								if *gain == 0.0 || *offset != 0.0 {
									return None;
								}
							}
							if *mix >= 1.0 {
								// fully wet: the nested line adds its own delay time
								if !(*fb_db > -59.0) {
									return None;
								}
								t += line_frames(*ns, self.sr)?;
							} else if *mix < 0.0 {
								return None;
							}
						}
					}
				}
				Some(("echo_time", t))
			}
			Kind::Reverb { mix, width } => {
				if !(*mix > 0.0 && (0.0..=1.0).contains(width) && (8000..=192000).contains(&self.sr)) {
					return None;
				}
				Some(("reverb_reflection_time", reverb_first_frames(self.sr)?))
			}
			_ => None,
		}
	}

	/// one process call on the real code (+ the per-frame oracles)
	fn feed(&mut self, input: &[Frame], line: &str, out: &mut Out) -> Vec<Frame> {
		let dt = 1.0 / self.sr as f64;
		let info = MockInfoBuilder::new().build();
		let mut o = input.to_vec();
		let expected = self.expected_arrival();
		let inst = self.inst.as_mut().unwrap();
		let r = catch_unwind(AssertUnwindSafe(|| inst.fx.process(&mut o, dt, &info)));
		if let Err(payload) = r {
			if self.initialized && input.len() <= self.ibs && (8000..=192000).contains(&self.sr) {
				out.oracle_fail("process_panics", format!("{} sr={} | {}", classify(&last_panic()), self.sr, short(line)));
			}
			resume_unwind(payload);
		}
		// nested probes: told the rate in force, processed with dt = 1 / rate in force
		for l in &inst.logs {
			let mut lg = l.lock().unwrap();
			if lg.dts.iter().any(|d| *d != dt) {
				out.oracle_fail("nested_dt", short(line));
			}
			lg.dts.clear();
			lg.slices.clear();
		}
		self.check_known(line, out);
		// arrival time of an impulse fed right after a rate change
		for (i, (x, y)) in input.iter().zip(&o).enumerate() {
			let t = self.t + i as u64;
			let x_nz = x.left != 0.0 || x.right != 0.0;
			self.dirty |= x_nz;
			if (t == 0) != x_nz || (t == 0 && x.left + x.right == 0.0) {
				self.impulse_only = false;
			}
			if !y.left.is_finite() || !y.right.is_finite() {
				self.impulse_only = false;
			}
			let y_nz = y.left != 0.0 || y.right != 0.0;
			if t >= 1 && y_nz && self.first_nonzero.is_none() {
				self.first_nonzero = Some(t);
			}
			if let (Some((name, te)), true, true, false) = (expected, self.rate_changed, self.impulse_only, self.arrival_done) {
				if t >= 1 && (self.first_nonzero == Some(t) && t != te || t == te && !y_nz) {
					out.oracle_fail(
						name,
						format!(
							"after the change to {} Hz the impulse came back at frame {:?} instead of {} ({:.6} s) | {}",
							self.sr,
							self.first_nonzero,
							te,
							te as f64 / self.sr as f64,
							short(line)
						),
					);
					self.arrival_done = true;
				}
				if t >= te && !self.arrival_done {
					premise(name);
					self.arrival_done = true;
				}
			}
		}
		self.t += input.len() as u64;
		o
	}
}

fn short(line: &str) -> String {
	if line.len() > 160 {
		format!("{}…", &line[..160])
	} else {
		line.to_string()
	}
}

// ---------------------------------------------------------------------------------------------
// generated inputs of `run` (mirrored in Exec/SuiteFxRate.lean; zero / dc / imp / noise as in suite fxb)
// ---------------------------------------------------------------------------------------------

fn lcg_next(s: u32) -> u32 {
	s.wrapping_mul(1664525).wrapping_add(1013904223)
}
fn lcg_sample(s: u32) -> f32 {
	((s >> 8) as f32) / 16777216.0 * 2.0 - 1.0
}
fn gen_slice(kind: &str, a: f32, b: f32, freq: f64, dt: f64, k: usize, n: usize, lcg: &mut u32) -> Vec<Frame> {
	match kind {
		"sine" => (0..n)
			.map(|i| {
				let v = (2.0 * std::f64::consts::PI * freq * ((k * n + i) as f64) * dt).sin() as f32;
				Frame::new(v * a, v * b)
			})
			.collect(),
		"noise" => (0..n)
			.map(|_| {
				let s1 = lcg_next(*lcg);
				let s2 = lcg_next(s1);
				*lcg = s2;
				Frame::new(lcg_sample(s1) * a, lcg_sample(s2) * b)
			})
			.collect(),
		"dc" => vec![Frame::new(a, b); n],
		"imp" => {
			let mut v = vec![Frame::ZERO; n];
			if k == 0 && n > 0 {
				v[0] = Frame::new(a, b);
			}
			v
		}
		_ => vec![Frame::ZERO; n],
	}
}
fn fnv_step(h: u64, x: f32) -> u64 {
	let bits = if x.is_nan() { 0x7fc00000u64 } else { x.to_bits() as u64 };
	(h ^ bits).wrapping_mul(0x100000001b3)
}
fn fmt_frames(fs: &[Frame]) -> String {
	let v: Vec<String> = fs.iter().map(|f| format!("{} {}", h32(f.left), h32(f.right))).collect();
	v.join(" ")
}

pub fn run(ops: &[String]) -> Vec<String> {
	let r = run_inner(ops);
	if std::env::var("FXRATE_STATS").is_ok() {
		eprintln!("fxrate oracle premises held: {:?}", PREMISES.lock().unwrap());
	}
	r
}

fn run_inner(ops: &[String]) -> Vec<String> {
	run_cases(ops, None, |case: &[String], out: &mut Out| {
		out.put(case[0].clone());
		let mut c = Case {
			inst: None,
			sr: 0,
			ibs: 0,
			initialized: false,
			rate_changed: false,
			t: 0,
			impulse_only: true,
			first_nonzero: None,
			arrival_done: false,
			dirty: false,
			dirty_at_rate: false,
			lcg: 0,
		};
		for l in &case[1..] {
			let tok: Vec<&str> = l.split_whitespace().collect();
			match tok[0] {
				"delay.new" | "reverb.new" | "filter.new" | "eq.new" => {
					c.inst = Some(build(&tok));
					out.put(format!("ok {}", c.knowns()));
				}
				"init" | "rate" => {
					let sr = pu(tok[1]) as u32;
					let inst = c.inst.as_mut().unwrap();
					if tok[0] == "init" {
						c.ibs = pu(tok[2]) as usize;
						inst.fx.init(sr, c.ibs);
						c.initialized = true;
						c.rate_changed = false;
					} else {
						inst.fx.on_change_sample_rate(sr);
						c.rate_changed = true;
					}
					c.sr = sr;
					c.t = 0;
					c.impulse_only = true;
					c.first_nonzero = None;
					c.arrival_done = false;
					c.dirty_at_rate = c.dirty;
					out.put(format!("ok {}", c.knowns()));
					c.check_known(l, out);
				}
				"start" => {
					c.inst.as_mut().unwrap().fx.on_start_processing();
					out.put(format!("ok {}", c.knowns()));
				}
				"proc" => {
					let n = pu(tok[1]) as usize;
					let input: Vec<Frame> = (0..n).map(|i| Frame::new(p32(tok[2 + 2 * i]), p32(tok[3 + 2 * i]))).collect();
					let o = c.feed(&input, l, out);
					out.put(format!("o {} {}", fmt_frames(&o), c.knowns()));
				}
				"run" => {
					let (slice, count) = (pu(tok[1]) as usize, pu(tok[2]) as usize);
					let (a, b, freq) = (p32(tok[4]), p32(tok[5]), p64(tok[6]));
					let dt = 1.0 / c.sr as f64;
					let mut h = 0xcbf29ce484222325u64;
					let mut bad = 0u64;
					let mut last = Frame::ZERO;
					let mut all: Vec<Frame> = vec![];
					let mut first_nz: Option<usize> = None;
					let mut pos = 0usize;
					let keep = tok[3] == "sine";
					for k in 0..count {
						let input = gen_slice(tok[3], a, b, freq, dt, k, slice, &mut c.lcg);
						let o = c.feed(&input, l, out);
						for (i, f) in o.iter().enumerate() {
							h = fnv_step(fnv_step(h, f.left), f.right);
							bad += (!f.left.is_finite()) as u64 + (!f.right.is_finite()) as u64;
							if first_nz.is_none() && (f.left != 0.0 || f.right != 0.0) {
								first_nz = Some(pos + i);
							}
						}
						pos += o.len();
						if let Some(f) = o.last() {
							last = *f;
						}
						if keep {
							all.extend_from_slice(&o);
						}
					}
					let z = first_nz.map(|i| i.to_string()).unwrap_or("-".into());
					out.put(format!("h {:016x} {} {} {} z={} {}", h, bad, h32(last.left), h32(last.right), z, c.knowns()));
					// ---- corner stays at the requested frequency in hertz (after a rate change)
					if keep && c.rate_changed && bad == 0 && a != 0.0 {
						corner_oracle(&c, &all, a, freq, dt, l, out);
					}
				}
				_ => panic!("fxrate: unknown op {}", tok[0]),
			}
		}
	})
}

/// settled RMS gain of a sine at the cutoff / bell centre against 1/k, 0, 10^(gain/20) (as `corner_gain` of suite fxa)
fn corner_oracle(c: &Case, m: &[Frame], amp: f32, freq: f64, dt: f64, line: &str, out: &mut Out) {
	let pi = std::f64::consts::PI;
	let (param_f, g, k, expect) = match &c.inst.as_ref().unwrap().kind {
		Kind::Filter { mode, cutoff, resonance, mix } => {
			if *mix < 1.0 {
				return;
			}
			let k = 2.0 - 1.9 * resonance.clamp(0.0, 1.0);
			let e = if mode == "notch" { 0.0 } else { 1.0 / k };
			(*cutoff, (pi * cutoff * dt).tan(), k, e)
		}
		Kind::Eq { kind, frequency, gain, q } => {
			if kind != "bell" {
				return;
			}
			let ga = 10f64.powf(*gain as f64 / 40.0);
			(*frequency, (pi * frequency * dt).tan(), 1.0 / (q.max(0.01) * ga), ga * ga)
		}
		_ => return,
	};
	let rf = freq * dt;
	let n = m.len();
	let period = 1.0 / rf;
	let win = (20.0 * period).round() as usize;
	if freq != param_f || !(0.0001..=0.2).contains(&rf) || period < 4.0 || n <= win || !settled(g, k, n - win) {
		return;
	}
	premise("corner_gain");
	let a = (amp as f64).abs();
	let ms: f64 = m[n - win..].iter().map(|f| (f.left as f64) * (f.left as f64)).sum::<f64>() / win as f64;
	let measured = (2.0 * ms).sqrt();
	let e = a * expect;
	if (measured - e).abs() > 0.03 * a.max(e) + 1e-9 {
		out.oracle_fail(
			"corner_gain",
			format!("at {} Hz: gain at {} Hz is {:.4}, expected {:.4} | {}", c.sr, freq, measured / a, expect, short(line)),
		);
	}
}

// ---------------------------------------------------------------------------------------------
// gen
// ---------------------------------------------------------------------------------------------

const RATES: &[u32] = &[8000, 11025, 16000, 22050, 32000, 44100, 44100, 48000, 48000, 88200, 96000, 192000];
const IBS: &[usize] = &[1, 3, 16, 64, 128, 128, 256];

fn log_uniform(rng: &mut Rng, lo: f64, hi: f64) -> f64 {
	(rng.uniform(lo.ln(), hi.ln())).exp()
}
fn other_rate(rng: &mut Rng, pool: &[u32], not: u32) -> u32 {
	loop {
		let r = rng.pick(pool);
		if r != not {
			return r;
		}
	}
}
/// a delay time of about `frames` frames at rate `sr`: mostly away from the whole-frame boundary, sometimes
/// exactly a whole number of frames (where the f64 product of the old formula could round below it)
fn ns_for(rng: &mut Rng, frames: u64, sr: u32) -> u64 {
	let per = 1_000_000_000u64 / sr as u64;
	if (frames * 1_000_000_000u64) % sr as u64 == 0 && rng.chance(1, 4) {
		return frames * 1_000_000_000u64 / sr as u64;
	}
	frames * 1_000_000_000u64 / sr as u64 + per / 4 + rng.below(per / 2)
}
fn gen_probe_item(rng: &mut Rng) -> String {
	let (g, f) = match rng.below(4) {
		0 => (0.5f32, 0.0f32),
		1 => (-0.5, 0.0),
		2 => (0.5, rng.pick(&[0.5f32, -0.5, 0.25])),
		_ => (rng.pick(&[1.0f32, 0.25, 0.7]), 0.0),
	};
	format!("{},{},{}", o32(g), o32(0.0), o32(f))
}
fn gen_filter_item(rng: &mut Rng, sr: u32) -> String {
	let cutoff = if rng.chance(1, 6) { sr as f64 * rng.pick(&[0.5, 0.3, 0.49]) } else { log_uniform(rng, 100.0, 0.2 * sr as f64) };
	format!(
		"f:{},{},{},{}",
		rng.pick(&["lp", "bp", "hp", "notch"]),
		o64(cutoff),
		o64(rng.pick(&[0.0, 0.5, 0.9])),
		o32(rng.pick(&[1.0f32, 1.0, 0.5]))
	)
}
fn gen_delay_item(rng: &mut Rng, sr: u32, max_frames: u64) -> String {
	let frames = match rng.below(4) {
		0 => 1,
		1 => rng.range(2, 16) as u64,
		_ => rng.range(16, max_frames as i64) as u64,
	};
	let mut s = format!(
		"d:{},{},{}",
		ns_for(rng, frames, sr),
		o32(rng.pick(&[-6.0f32, -3.0, -12.0, 0.0])),
		o32(rng.pick(&[1.0f32, 1.0, 1.0, 0.5]))
	);
	if rng.chance(1, 2) {
		s += &format!(",{}", gen_probe_item(rng));
	}
	s
}
fn gen_nest(rng: &mut Rng, sr: u32, max_frames: u64, stats: &mut Stats) -> String {
	let mut items = vec![];
	match rng.below(12) {
		0 | 1 => {
			stats.hit("nest_none");
		}
		2 | 3 => items.push(format!("p:{}", gen_probe_item(rng))),
		4 => items.push(gen_filter_item(rng, sr)),
		5..=7 => items.push(gen_delay_item(rng, sr, max_frames)),
		8 => {
			items.push(format!("p:{}", gen_probe_item(rng)));
			items.push(gen_delay_item(rng, sr, max_frames));
		}
		9 => {
			items.push(gen_delay_item(rng, sr, max_frames));
			items.push(gen_filter_item(rng, sr));
			items.push(format!("p:{}", gen_probe_item(rng)));
		}
		10 => {
			items.push(gen_filter_item(rng, sr));
			items.push(format!("p:{}", gen_probe_item(rng)));
		}
		_ => {
			items.push(gen_delay_item(rng, sr, max_frames));
			items.push(gen_delay_item(rng, sr, max_frames));
		}
	}
	for i in &items {
		stats.hit(&format!("nest_{}", &i[..1]));
	}
	if items.is_empty() {
		"-".into()
	} else {
		items.join(";")
	}
}

fn proc_line(frames: &[(f32, f32)]) -> String {
	let mut s = format!("proc {}", frames.len());
	for (l, r) in frames {
		s += &format!(" {} {}", o32(*l), o32(*r));
	}
	s
}
fn noise_frames(rng: &mut Rng, n: usize) -> Vec<(f32, f32)> {
	(0..n).map(|_| ((rng.range(-1024, 1024) as f32) / 1024.0, (rng.range(-1024, 1024) as f32) / 1024.0)).collect()
}

/// an impulse right after the rate change, then silence until well after the expected arrival
fn push_echo_probe(rng: &mut Rng, out: &mut Vec<String>, ibs: usize, cover: u64, stats: &mut Stats) {
	let n = rng.range(1, ibs.min(32) as i64) as usize;
	let mut v = vec![(0.0f32, 0.0f32); n];
	v[0] = (rng.pick(&[1.0f32, 0.5, -1.0, 0.25]), rng.pick(&[1.0f32, 0.5, 0.0]));
	out.push(proc_line(&v));
	let total = cover + 8;
	let slice = if rng.chance(1, 4) { rng.range(1, ibs as i64) as usize } else { ibs };
	out.push(format!("run {} {} zero {} {} {}", slice, total / slice as u64 + 1, o32(0.0), o32(0.0), o64(0.0)));
	stats.add("frames", total + n as u64);
}

fn gen_delay_case(rng: &mut Rng, thorough: bool, out: &mut Vec<String>, stats: &mut Stats) {
	let sr0 = rng.pick(RATES);
	let ibs = rng.pick(IBS);
	let max_frames: u64 = if thorough { 1500 } else { 400 };
	let frames = match rng.below(5) {
		0 => 1,
		1 => rng.range(2, ibs.max(3) as i64) as u64,
		2 => ibs as u64 + 1,
		_ => rng.range(8, max_frames as i64) as u64,
	};
	let ns = ns_for(rng, frames, sr0);
	let nest = gen_nest(rng, sr0, max_frames / 2, stats);
	out.push(format!(
		"delay.new {} {} {} {}",
		ns,
		o32(rng.pick(&[-6.0f32, -3.0, -12.0, 0.0, -20.0])),
		o32(rng.pick(&[1.0f32, 1.0, 0.5, 0.5, 0.25])),
		nest
	));
	out.push(format!("init {} {}", sr0, ibs));
	let mut sr = sr0;
	// worst case arrival: every line at the highest rate the case can reach (×24 from 8 kHz to 192 kHz is too long:
	// rates of one case stay within a factor 4 of the first)
	let pool: Vec<u32> = RATES.iter().copied().filter(|r| *r <= sr0 * 4 && *r * 4 >= sr0).collect();
	let cover = |sr: u32| -> u64 { (frames + 1 + 2 * (max_frames / 2 + 1)) * sr as u64 / sr0 as u64 + 4 };
	for _ in 0..rng.range(2, 6) {
		match rng.below(10) {
			0..=3 => {
				sr = other_rate(rng, &pool, sr);
				out.push(format!("rate {}", sr));
				stats.hit("rate");
				if rng.chance(3, 4) {
					stats.hit("echo_probe");
					push_echo_probe(rng, out, ibs, cover(sr), stats);
				}
			}
			4 => out.push("start".into()),
			5 | 6 => {
				let slice = rng.range(1, ibs as i64) as usize;
				let count = rng.range(1, 30) as u64;
				out.push(format!(
					"run {} {} {} {} {} {}",
					slice,
					count,
					rng.pick(&["noise", "noise", "dc", "imp", "sine"]),
					o32(rng.pick(&[1.0f32, 0.5, 0.25])),
					o32(rng.pick(&[1.0f32, -1.0, 0.5])),
					o64(rng.pick(&[100.0, 440.0, 1000.0]))
				));
				stats.add("frames", slice as u64 * count);
			}
			_ => {
				let n = rng.range(0, ibs.min(24) as i64) as usize;
				out.push(proc_line(&noise_frames(rng, n)));
			}
		}
	}
}

fn gen_reverb_case(rng: &mut Rng, thorough: bool, out: &mut Vec<String>, stats: &mut Stats) {
	let pool: &[u32] = if thorough { &[8000, 11025, 22050, 44100, 48000, 88200, 96000, 192000] } else { &[8000, 11025, 22050, 44100, 48000, 48000, 96000] };
	let sr0 = rng.pick(pool);
	let ibs = rng.pick(&[16usize, 64, 128]);
	out.push(format!(
		"reverb.new {} {} {} {}",
		o64(rng.pick(&[0.9, 0.5, 0.84, 0.0])),
		o64(rng.pick(&[0.1, 0.5, 0.0, 1.0])),
		o64(rng.pick(&[1.0, 0.5, 0.0])),
		o32(rng.pick(&[1.0f32, 1.0, 0.5, 0.25]))
	));
	out.push(format!("init {} {}", sr0, ibs));
	if rng.chance(1, 2) {
		out.push(format!("run {} {} noise {} {} {}", ibs, rng.range(1, 4), o32(0.5), o32(0.5), o64(0.0)));
	}
	let mut sr = sr0;
	for _ in 0..rng.range(1, 2) {
		sr = other_rate(rng, pool, sr);
		out.push(format!("rate {}", sr));
		stats.hit("rate");
		stats.hit("reflection_probe");
		let cover = FIRST_COMB * sr as u64 / 44100 + 40;
		out.push(format!(
			"run {} {} imp {} {} {}",
			ibs,
			cover / ibs as u64 + 1,
			o32(rng.pick(&[1.0f32, 0.5])),
			o32(rng.pick(&[1.0f32, 0.5, 0.0])),
			o64(0.0)
		));
		stats.add("frames", cover);
	}
}

fn gen_corner_case(rng: &mut Rng, thorough: bool, out: &mut Vec<String>, stats: &mut Stats) {
	let pi = std::f64::consts::PI;
	let budget = if thorough { 40000 } else { 6000 };
	for _attempt in 0..50 {
		let sr1 = rng.pick(RATES);
		let sr0 = other_rate(rng, RATES, sr1);
		let dt = 1.0 / sr1 as f64;
		let rf = log_uniform(rng, 0.01, 0.2);
		let f = rf * sr1 as f64;
		let (newline, g, k) = if rng.chance(2, 3) {
			let res = rng.pick(&[0.0, 0.5, 0.9, 0.25]);
			(
				format!("filter.new {} {} {} {}", rng.pick(&["lp", "bp", "hp", "notch"]), o64(f), o64(res), o32(1.0)),
				(pi * f * dt).tan(),
				2.0 - 1.9 * res,
			)
		} else {
			let gain = rng.pick(&[6.0f32, -6.0, 12.0, -12.0, 3.0]);
			let q = rng.pick(&[0.5, 0.7071067811865476, 1.0, 2.0]);
			let a = 10f64.powf(gain as f64 / 40.0);
			(format!("eq.new bell {} {} {}", o64(f), o32(gain), o64(q)), (pi * f * dt).tan(), 1.0 / (q * a))
		};
		let r = pole_radius(g, k);
		if !(r < 1.0) {
			continue;
		}
		let n = (30.5 / (1.0 / r).ln()).ceil() as usize + (20.0 / rf).round() as usize + 1;
		if n > budget {
			continue;
		}
		out.push(newline);
		out.push(format!("init {} 64", sr0));
		out.push(format!("run 64 {} noise {} {} {}", rng.range(1, 8), o32(0.5), o32(0.5), o64(0.0)));
		if rng.chance(1, 3) {
			out.push("start".into());
		}
		out.push(format!("rate {}", sr1));
		stats.hit("rate");
		stats.hit("corner_probe");
		out.push(format!("run 64 {} sine {} {} {}", n / 64 + 1, o32(rng.pick(&[1.0f32, 0.5, 0.25])), o32(0.5), o64(f)));
		stats.add("frames", n as u64 + 64);
		return;
	}
	out.push(format!("filter.new lp {} {} {}", o64(1000.0), o64(0.0), o32(1.0)));
}

pub fn gen(rng: &mut Rng, n: usize, thorough: bool, stats: &mut Stats) -> Vec<String> {
	let mut out = vec![];
	for case in 0..n {
		out.push(format!("case {}", case));
		match rng.below(20) {
			0..=10 => {
				stats.hit("case_delay");
				gen_delay_case(rng, thorough, &mut out, stats);
			}
			11..=13 => {
				stats.hit("case_reverb");
				gen_reverb_case(rng, thorough, &mut out, stats);
			}
			_ => {
				stats.hit("case_corner");
				gen_corner_case(rng, thorough, &mut out, stats);
			}
		}
	}
	out
}
