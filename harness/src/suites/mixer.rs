//! Suite `mixer` (C02, C11, C12): a whole mixer (main track, sub-track tree, send tracks) driven through the
//! PUBLIC API with the probe backend / sounds / effects of `probe.rs`.
//!
//! ops (ids are assigned by creation order: tracks t0.., sends s0.., clocks c0.., sounds x0.., effects f0..):
//!   init <ibs> <sample rate> <main volume dB> <fxlist>
//!   send.add <dB> <fxlist>                                   → sK
//!   track.add <m|tP> <dB> <persist 0|1> <fxlist> <sendlist>   → tK
//!   play <m|tK> <idx:<base>|const:<l>:<r>> <inf|len>          → xK
//!   track.vol tK <dB> <tween>   track.send tK sJ <dB> <tween>   main.vol <dB> <tween>   send.vol sJ <dB> <tween>
//!   track.pause tK <tween>      track.resume tK <start> <tween>
//!   track.drop tK   send.drop sJ
//!   clock.add <ticks per second f64> → cK   clock.start cK   clock.stop cK   clock.drop cK
//!   cb <frames> <channels>      → every output sample (f32 bits) ; activity of every probe since the last callback
//!                                  (`xK=<on_start_processing calls>:<slice lengths>`, `fK=…`)
//!   q                           → subs=<n> sends=<n> main=<num_sounds> tK=<state>/<num_sounds>/<num_sub_tracks>…
//!   seq <op> | <op> | …         → the outputs joined by ` || ` (used for replays of oracle failures)
//! fxlist: `-` or `<gain>,<offset>,<feedback>;…` (f32 bits)   sendlist: `-` or `sJ:<dB>;…`
//! tween: <start>;<duration ns>;<easing>     start: imm | del:<ns> | clk:<clock id>:<ticks>:<frac>
//! case tags (`case <k> static [linear]`): the harness additionally renders the case in other configurations
//! on the real code (C11 partition / buffer-size invariance, C02 superposition).
use crate::probe::{self, new_log, Log, ProbeBackend, ProbeEffectBuilder, ProbeSoundData, Signal};
use crate::runner::{run_cases, Out};
use crate::suites::param::gen_duration_ns;
use crate::suites::units::{fmt_easing, gen_easing, parse_easing};
use crate::util::*;
use kira::clock::{ClockHandle, ClockId, ClockSpeed, ClockTime};
use kira::track::{
	MainTrackBuilder, SendTrackBuilder, SendTrackHandle, SendTrackId, TrackBuilder, TrackHandle,
	TrackPlaybackState,
};
use kira::{AudioManager, Capacities, Decibels, StartTime, Tween};
use std::collections::BTreeMap;
use std::panic::{catch_unwind, AssertUnwindSafe};
use std::time::Duration;

// ---------------------------------------------------------------------------------------------
// configuration of one rendering of a case
// ---------------------------------------------------------------------------------------------

#[derive(Clone, Default)]
pub struct Variant {
	/// replace the internal buffer size of `init`
	pub ibs: Option<usize>,
	/// split every `cb F ch` into several callbacks (seeded)
	pub partition: Option<u64>,
	/// replace the channel count of every callback
	pub channels: Option<u16>,
	/// sounds (by id) replaced by silence of the same length
	pub mute: Option<fn(usize) -> bool>,
	/// the main rendering: print trace lines and run the per-callback oracles
	pub main: bool,
}

struct FxMeta {
	log: Log,
	seen_slices: usize,
	seen_osp: usize,
	offset: f32,
	feedback: f32,
	/// owner: Some(track id) or None (main / send track)
	track: Option<usize>,
}
struct SndMeta {
	log: Log,
	seen_slices: usize,
	seen_osp: usize,
	length: Option<usize>,
	track: Option<usize>,
	/// index of the callback before which it was played
	played_before_cb: usize,
}
struct TrkMeta {
	parent: Option<usize>,
	persist: bool,
	alive: bool,
	added_before_cb: usize,
	dropped_before_cb: Option<usize>,
	/// `state()` was `Paused` after the last callback and no pause/resume was issued since
	frozen: bool,
	/// a pause / resume command was ever issued to it
	ever_paused: bool,
}

struct Scene {
	manager: AudioManager<ProbeBackend>,
	ibs: usize,
	tracks: BTreeMap<usize, TrackHandle>,
	sends: BTreeMap<usize, SendTrackHandle>,
	send_ids: Vec<SendTrackId>,
	clocks: BTreeMap<usize, ClockHandle>,
	clock_ids: Vec<ClockId>,
	snd: Vec<SndMeta>,
	fx: Vec<FxMeta>,
	trk: Vec<TrkMeta>,
	cb_index: usize,
	/// one entry per device frame rendered so far: (left, right, was a mono device frame)
	stream: Vec<(f32, f32, bool)>,
	clamped: bool,
}

fn parse_fxlist(s: &str) -> Vec<(f32, f32, f32)> {
	if s == "-" {
		return vec![];
	}
	s.split(';')
		.map(|it| {
			let p: Vec<&str> = it.split(',').collect();
			(p32(p[0]), p32(p[1]), p32(p[2]))
		})
		.collect()
}
fn parse_ref(pre: char, s: &str) -> usize {
	assert!(s.starts_with(pre), "bad ref {}", s);
	s[1..].parse().expect("bad ref")
}

impl Scene {
	fn parse_start(&self, s: &str) -> StartTime {
		if s == "imm" {
			return StartTime::Immediate;
		}
		let p: Vec<&str> = s.split(':').collect();
		match p[0] {
			"del" => StartTime::Delayed(Duration::from_nanos(pu(p[1]))),
			"clk" => StartTime::ClockTime(ClockTime {
				clock: self.clock_ids[pu(p[1]) as usize],
				ticks: pu(p[2]),
				fraction: p64(p[3]),
			}),
			_ => panic!("bad start time {}", s),
		}
	}
	fn parse_tween(&self, s: &str) -> Tween {
		let p: Vec<&str> = s.split(';').collect();
		Tween {
			start_time: self.parse_start(p[0]),
			duration: Duration::from_nanos(pu(p[1])),
			easing: parse_easing(p[2]),
		}
	}
	fn add_fx(&mut self, spec: &[(f32, f32, f32)], track: Option<usize>) -> Vec<ProbeEffectBuilder> {
		spec.iter()
			.map(|&(gain, offset, feedback)| {
				let log = new_log();
				self.fx.push(FxMeta { log: log.clone(), seen_slices: 0, seen_osp: 0, offset, feedback, track });
				ProbeEffectBuilder { gain, offset, feedback, log }
			})
			.collect()
	}
	/// is `t` or one of its ancestors frozen (observed Paused, no command since)?
	fn frozen_above(&self, t: Option<usize>) -> bool {
		let mut cur = t;
		while let Some(i) = cur {
			if self.trk[i].frozen {
				return true;
			}
			cur = self.trk[i].parent;
		}
		false
	}
	fn all_alive_above(&self, t: Option<usize>) -> bool {
		let mut cur = t;
		while let Some(i) = cur {
			if !self.trk[i].alive {
				return false;
			}
			cur = self.trk[i].parent;
		}
		true
	}
	fn never_paused_above(&self, t: Option<usize>) -> bool {
		let mut cur = t;
		while let Some(i) = cur {
			if self.trk[i].ever_paused {
				return false;
			}
			cur = self.trk[i].parent;
		}
		true
	}
	fn subtree_has_live_handle(&self, t: usize) -> bool {
		if self.trk[t].alive {
			return true;
		}
		(0..self.trk.len()).any(|c| self.trk[c].parent == Some(t) && self.subtree_has_live_handle(c))
	}
	fn has_children(&self, t: usize) -> bool {
		(0..self.trk.len()).any(|c| self.trk[c].parent == Some(t))
	}
	/// certainly removed from the audio side before callback `cb`: childless, not persisting, and its handle
	/// was dropped at least two callbacks ago
	fn certainly_removed(&self, t: usize, cb: usize) -> bool {
		let m = &self.trk[t];
		!m.persist && !self.has_children(t) && matches!(m.dropped_before_cb, Some(d) if d + 2 <= cb)
	}
	fn removed_above(&self, t: Option<usize>, cb: usize) -> bool {
		let mut cur = t;
		while let Some(i) = cur {
			if self.certainly_removed(i, cb) {
				return true;
			}
			cur = self.trk[i].parent;
		}
		false
	}
}

/// the slice lengths a component that is processed for the whole callback must see
fn chunk_pattern(frames: usize, ibs: usize) -> Vec<usize> {
	let mut v = vec![];
	let mut left = frames;
	while left > 0 {
		let n = left.min(ibs);
		v.push(n);
		left -= n;
	}
	v
}
fn is_contiguous_sub(sub: &[usize], pat: &[usize]) -> bool {
	if sub.is_empty() {
		return true;
	}
	if sub.len() > pat.len() {
		return false;
	}
	(0..=pat.len() - sub.len()).any(|s| &pat[s..s + sub.len()] == sub)
}

struct Exec<'a> {
	scene: Option<Scene>,
	var: &'a Variant,
	is_static: bool,
	rng: Rng,
	history: Vec<String>,
}

impl<'a> Exec<'a> {
	fn replay(&self) -> String {
		format!("seq {}", self.history.join(" | "))
	}

	/// run one op; returns its trace text
	fn op(&mut self, l: &str, out: &mut Out) -> String {
		let tok: Vec<&str> = l.split_whitespace().collect();
		if tok[0] == "seq" {
			let body = l.trim_start().strip_prefix("seq").unwrap();
			let parts: Vec<String> = body.split(" | ").map(|s| s.trim().to_string()).filter(|s| !s.is_empty()).collect();
			let res: Vec<String> = parts.iter().map(|p| self.op(p, out)).collect();
			return res.join(" || ");
		}
		self.history.push(l.to_string());
		if tok[0] == "init" {
			let ibs = self.var.ibs.unwrap_or(pu(tok[1]) as usize);
			let sr = pu(tok[2]) as u32;
			let mut fxmeta = vec![];
			let mut b = MainTrackBuilder::new().volume(p32(tok[3]));
			for (gain, offset, feedback) in parse_fxlist(tok[4]) {
				let log = new_log();
				fxmeta.push(FxMeta { log: log.clone(), seen_slices: 0, seen_osp: 0, offset, feedback, track: None });
				b = b.with_effect(ProbeEffectBuilder { gain, offset, feedback, log });
			}
			let manager = probe::manager(Capacities::default(), ibs, sr, b);
			self.scene = Some(Scene {
				manager,
				ibs,
				tracks: BTreeMap::new(),
				sends: BTreeMap::new(),
				send_ids: vec![],
				clocks: BTreeMap::new(),
				clock_ids: vec![],
				snd: vec![],
				fx: fxmeta,
				trk: vec![],
				cb_index: 0,
				stream: vec![],
				clamped: false,
			});
			return "ok".into();
		}
		let var = self.var;
		let is_static = self.is_static;
		let sc = self.scene.as_mut().expect("no init");
		match tok[0] {
			"send.add" => {
				let mut b = SendTrackBuilder::new().volume(p32(tok[1]));
				for e in sc.add_fx(&parse_fxlist(tok[2]), None) {
					b = b.with_effect(e);
				}
				let h = sc.manager.add_send_track(b).expect("send track limit");
				let k = sc.send_ids.len();
				sc.send_ids.push(h.id());
				sc.sends.insert(k, h);
				format!("s{}", k)
			}
			"track.add" => {
				let id = sc.trk.len();
				let mut b = TrackBuilder::new().volume(p32(tok[2])).persist_until_sounds_finish(tok[3] == "1");
				for e in sc.add_fx(&parse_fxlist(tok[4]), Some(id)) {
					b = b.with_effect(e);
				}
				if tok[5] != "-" {
					for it in tok[5].split(';') {
						let (s, db) = it.split_once(':').unwrap();
						b = b.with_send(sc.send_ids[parse_ref('s', s)], p32(db));
					}
				}
				let (h, parent) = if tok[1] == "m" {
					(sc.manager.add_sub_track(b).expect("sub track limit"), None)
				} else {
					let p = parse_ref('t', tok[1]);
					(sc.tracks.get_mut(&p).expect("no such track handle").add_sub_track(b).expect("sub track limit"), Some(p))
				};
				sc.tracks.insert(id, h);
				sc.trk.push(TrkMeta {
					parent,
					persist: tok[3] == "1",
					alive: true,
					added_before_cb: sc.cb_index,
					dropped_before_cb: None,
					frozen: false,
					ever_paused: false,
				});
				format!("t{}", id)
			}
			"play" => {
				let id = sc.snd.len();
				let muted = var.mute.map(|f| f(id)).unwrap_or(false);
				let p: Vec<&str> = tok[2].split(':').collect();
				let signal = if muted {
					Signal::Constant { left: 0.0, right: 0.0 }
				} else if p[0] == "idx" {
					Signal::Index { base: p32(p[1]) }
				} else {
					Signal::Constant { left: p32(p[1]), right: p32(p[2]) }
				};
				let length = if tok[3] == "inf" { None } else { Some(pu(tok[3]) as usize) };
				let log = new_log();
				let data = ProbeSoundData { signal, length, log: log.clone() };
				let track = if tok[1] == "m" {
					sc.manager.play(data).expect("play failed");
					None
				} else {
					let t = parse_ref('t', tok[1]);
					sc.tracks.get_mut(&t).expect("no such track handle").play(data).expect("play failed");
					Some(t)
				};
				sc.snd.push(SndMeta { log, seen_slices: 0, seen_osp: 0, length, track, played_before_cb: sc.cb_index });
				format!("x{}", id)
			}
			"track.vol" => {
				let tw = sc.parse_tween(tok[3]);
				sc.tracks.get_mut(&parse_ref('t', tok[1])).unwrap().set_volume(p32(tok[2]), tw);
				"ok".into()
			}
			"track.send" => {
				let tw = sc.parse_tween(tok[4]);
				let sid = sc.send_ids[parse_ref('s', tok[2])];
				match sc.tracks.get_mut(&parse_ref('t', tok[1])).unwrap().set_send(sid, p32(tok[3]), tw) {
					Ok(()) => "ok".into(),
					Err(_) => "ok".into(),
				}
			}
			"main.vol" => {
				let tw = sc.parse_tween(tok[2]);
				sc.manager.main_track().set_volume(p32(tok[1]), tw);
				"ok".into()
			}
			"send.vol" => {
				let tw = sc.parse_tween(tok[3]);
				sc.sends.get_mut(&parse_ref('s', tok[1])).unwrap().set_volume(p32(tok[2]), tw);
				"ok".into()
			}
			"track.pause" => {
				let t = parse_ref('t', tok[1]);
				let tw = sc.parse_tween(tok[2]);
				sc.tracks.get_mut(&t).unwrap().pause(tw);
				sc.trk[t].frozen = false;
				sc.trk[t].ever_paused = true;
				"ok".into()
			}
			"track.resume" => {
				let t = parse_ref('t', tok[1]);
				let st = sc.parse_start(tok[2]);
				let tw = sc.parse_tween(tok[3]);
				sc.tracks.get_mut(&t).unwrap().resume_at(st, tw);
				sc.trk[t].frozen = false;
				sc.trk[t].ever_paused = true;
				"ok".into()
			}
			"track.drop" => {
				let t = parse_ref('t', tok[1]);
				sc.tracks.remove(&t).expect("no such handle");
				sc.trk[t].alive = false;
				sc.trk[t].dropped_before_cb = Some(sc.cb_index);
				"ok".into()
			}
			"send.drop" => {
				sc.sends.remove(&parse_ref('s', tok[1])).expect("no such send handle");
				"ok".into()
			}
			"clock.add" => {
				let h = sc.manager.add_clock(ClockSpeed::TicksPerSecond(p64(tok[1]))).expect("clock limit");
				let k = sc.clock_ids.len();
				sc.clock_ids.push(h.id());
				sc.clocks.insert(k, h);
				format!("c{}", k)
			}
			"clock.start" => {
				sc.clocks.get_mut(&parse_ref('c', tok[1])).unwrap().start();
				"ok".into()
			}
			"clock.stop" => {
				sc.clocks.get_mut(&parse_ref('c', tok[1])).unwrap().pause();
				"ok".into()
			}
			"clock.drop" => {
				sc.clocks.remove(&parse_ref('c', tok[1])).expect("no such clock handle");
				"ok".into()
			}
			"cb" => {
				let frames = pu(tok[1]) as usize;
				let ch = var.channels.unwrap_or(pu(tok[2]) as u16);
				// the callbacks this op stands for
				let parts: Vec<usize> = match var.partition {
					Some(_) if frames > 0 => {
						let mut v = vec![];
						let mut left = frames;
						while left > 0 {
							let n = 1 + self.rng.below(left.min(1 + 2 * sc.ibs) as u64) as usize;
							v.push(n);
							left -= n;
						}
						v
					}
					_ => vec![frames],
				};
				let mut all = vec![];
				for &n in &parts {
					let samples = sc.manager.backend_mut().callback(n, ch);
					sc.cb_index += 1;
					for f in samples.chunks(ch as usize) {
						if ch == 1 {
							sc.stream.push((f[0], f[0], true));
						} else {
							sc.stream.push((f[0], f[1], false));
						}
						if f.iter().any(|x| x.abs() >= 1.0) {
							sc.clamped = true;
						}
					}
					all.extend(samples);
				}
				if !var.main {
					return String::new();
				}
				let line = cb_oracles_and_report(sc, frames, ch, &all, is_static, out, &self.history);
				line
			}
			"q" => {
				let mut parts = vec![
					format!("subs={}", sc.manager.num_sub_tracks()),
					format!("sends={}", sc.manager.num_send_tracks()),
					format!("main={}", sc.manager.main_track().num_sounds()),
				];
				for (id, h) in sc.tracks.iter() {
					let st = match catch_unwind(AssertUnwindSafe(|| h.state())) {
						Ok(s) => s,
						Err(e) => {
							out.oracle_fail("state_panics", format!("seq {}", self.history.join(" | ")));
							std::panic::resume_unwind(e);
						}
					};
					let nm = match st {
						TrackPlaybackState::Playing => "playing",
						TrackPlaybackState::Pausing => "pausing",
						TrackPlaybackState::Paused => "paused",
						TrackPlaybackState::WaitingToResume => "waiting",
						TrackPlaybackState::Resuming => "resuming",
					};
					parts.push(format!("t{}={}/{}/{}", id, nm, h.num_sounds(), h.num_sub_tracks()));
				}
				parts.join(" ")
			}
			_ => panic!("mixer: unknown op {}", tok[0]),
		}
	}
}

/// after the callback(s) of one `cb` op of the main rendering: the trace line and the direct oracles
fn cb_oracles_and_report(
	sc: &mut Scene,
	frames: usize,
	ch: u16,
	samples: &[f32],
	is_static: bool,
	out: &mut Out,
	history: &[String],
) -> String {
	let replay = || format!("seq {}", history.join(" | "));
	let cb = sc.cb_index - 1; // index of the callback just run
	let pattern = chunk_pattern(frames, sc.ibs);
	let dt_expected = 1.0 / sc.manager.backend_mut().sample_rate as f64;
	let mut rep: Vec<String> = vec![];
	let mut any_unblocked_source = false;

	// ---- sounds
	for i in 0..sc.snd.len() {
		let (slices, osp, dts_ok, produced_before): (Vec<usize>, usize, bool, usize) = {
			let m = &sc.snd[i];
			let l = m.log.lock().unwrap();
			(
				l.slices[m.seen_slices..].to_vec(),
				l.on_start_processing - m.seen_osp,
				l.dts[m.seen_slices..].iter().all(|d| *d == dt_expected),
				l.slices[..m.seen_slices].iter().sum(),
			)
		};
		{
			let m = &mut sc.snd[i];
			m.seen_slices += slices.len();
			m.seen_osp += osp;
		}
		if osp > 0 || !slices.is_empty() {
			rep.push(format!("x{}={}:{}", i, osp, slices.iter().map(|s| s.to_string()).collect::<Vec<_>>().join(",")));
		}
		let m = &sc.snd[i];
		// C02: slices never exceed the internal buffer size, form a contiguous run of the chunk pattern, dt = 1/fs
		if slices.iter().any(|&s| s > sc.ibs || s == 0) || !is_contiguous_sub(&slices, &pattern) || osp > 1 || !dts_ok {
			out.oracle_fail("probe_slices", replay());
		}
		let finished_before = m.length.map(|n| produced_before >= n).unwrap_or(false);
		let frozen = sc.frozen_above(m.track);
		// C12: pause freezes positions
		if frozen && !slices.is_empty() {
			out.oracle_fail("pause_freezes", replay());
		}
		// C02: every live sound of an advancing branch is asked for every frame exactly once, in order
		let must = m.played_before_cb <= cb
			&& !finished_before
			&& sc.all_alive_above(m.track)
			&& sc.never_paused_above(m.track);
		if must && slices != pattern {
			out.oracle_fail("each_frame_once", replay());
		}
		// C12: removal timing — a childless, non-persisting track dropped two callbacks ago is gone
		if sc.removed_above(m.track, cb) && !slices.is_empty() {
			out.oracle_fail("removed_track_still_processed", replay());
		}
		// C12 (b): a sound played on a persisting track whose handle was then dropped must still be heard
		if let Some(t) = m.track {
			let tm = &sc.trk[t];
			if tm.persist
				&& !tm.alive && m.played_before_cb <= cb
				&& !finished_before
				&& m.length.map(|n| n > 0).unwrap_or(true)
				&& tm.added_before_cb < m.played_before_cb
				&& sc.all_alive_above(tm.parent)
				&& sc.never_paused_above(Some(t))
				&& slices != pattern
			{
				out.oracle_fail("persist_track_lost_sound", replay());
			}
		}
		let blocked = finished_before || frozen || sc.removed_above(m.track, cb) || m.played_before_cb > cb;
		if !blocked {
			any_unblocked_source = true;
		}
	}
	// ---- effects
	for i in 0..sc.fx.len() {
		let (slices, osp, dts_ok): (Vec<usize>, usize, bool) = {
			let m = &sc.fx[i];
			let l = m.log.lock().unwrap();
			(
				l.slices[m.seen_slices..].to_vec(),
				l.on_start_processing - m.seen_osp,
				l.dts[m.seen_slices..].iter().all(|d| *d == dt_expected),
			)
		};
		{
			let m = &mut sc.fx[i];
			m.seen_slices += slices.len();
			m.seen_osp += osp;
		}
		if osp > 0 || !slices.is_empty() {
			rep.push(format!("f{}={}:{}", i, osp, slices.iter().map(|s| s.to_string()).collect::<Vec<_>>().join(",")));
		}
		let m = &sc.fx[i];
		if slices.iter().any(|&s| s > sc.ibs || s == 0) || !is_contiguous_sub(&slices, &pattern) || osp > 1 || !dts_ok {
			out.oracle_fail("probe_slices", replay());
		}
		let frozen = sc.frozen_above(m.track);
		if frozen && !slices.is_empty() {
			out.oracle_fail("pause_freezes", replay());
		}
		let owner_added = m.track.map(|t| sc.trk[t].added_before_cb <= cb).unwrap_or(true);
		let must = owner_added && sc.all_alive_above(m.track) && sc.never_paused_above(m.track) && m.track.is_some();
		if must && slices != pattern {
			out.oracle_fail("each_frame_once", replay());
		}
		if sc.removed_above(m.track, cb) && !slices.is_empty() {
			out.oracle_fail("removed_track_still_processed", replay());
		}
		let blocked = frozen || sc.removed_above(m.track, cb);
		if !blocked && (m.offset != 0.0 || m.feedback != 0.0) {
			any_unblocked_source = true;
		}
	}
	// ---- C02: exact silence when every source is finished, frozen or removed
	if !any_unblocked_source && samples.iter().any(|x| *x != 0.0) {
		out.oracle_fail("silent_branches", replay());
	}
	// ---- C02: channel layout — channels beyond the second are silent, everything within [-1, 1]
	for f in samples.chunks(ch as usize) {
		if f.iter().skip(2).any(|x| x.to_bits() != 0) || f.iter().any(|x| !(*x >= -1.0 && *x <= 1.0)) {
			out.oracle_fail("channel_layout", replay());
			break;
		}
	}
	// ---- C12: state observation for the next callback; never panics; live handles keep their tracks
	let ids: Vec<usize> = sc.tracks.keys().copied().collect();
	for id in ids {
		let h = &sc.tracks[&id];
		match catch_unwind(AssertUnwindSafe(|| h.state())) {
			Ok(s) => sc.trk[id].frozen = s == TrackPlaybackState::Paused,
			Err(_) => {
				sc.trk[id].frozen = false;
				out.oracle_fail("state_panics", replay());
			}
		}
	}
	let top_live = (0..sc.trk.len()).filter(|&t| sc.trk[t].parent.is_none() && sc.subtree_has_live_handle(t)).count();
	if sc.manager.num_sub_tracks() < top_live {
		out.oracle_fail("live_handle_track_removed", replay());
	}
	for (&id, h) in sc.tracks.iter() {
		let live_children =
			(0..sc.trk.len()).filter(|&t| sc.trk[t].parent == Some(id) && sc.subtree_has_live_handle(t)).count();
		if h.num_sub_tracks() < live_children {
			out.oracle_fail("live_handle_track_removed", replay());
		}
	}
	let _ = is_static;
	format!("{} ; {}", samples.iter().map(|x| h32(*x)).collect::<Vec<_>>().join(" "), rep.join(" "))
}

fn exec_case(case: &[String], var: &Variant, out: &mut Out) -> Option<Scene> {
	let is_static = case[0].split_whitespace().any(|t| t == "static");
	let mut ex = Exec {
		scene: None,
		var,
		is_static,
		rng: Rng::new(var.partition.unwrap_or(0) ^ 0x5eed),
		history: vec![],
	};
	if var.main {
		out.put(case[0].clone());
	}
	for l in &case[1..] {
		let s = ex.op(l, out);
		if var.main {
			out.put(s);
		}
	}
	ex.scene
}

fn mute_even(i: usize) -> bool {
	i % 2 == 0
}
fn mute_odd(i: usize) -> bool {
	i % 2 == 1
}

/// compare two renderings frame by frame; `None` = equal
fn stream_diff(a: &Scene, b: &Scene) -> Option<usize> {
	if a.stream.len() != b.stream.len() {
		return Some(a.stream.len().min(b.stream.len()));
	}
	for i in 0..a.stream.len() {
		let (x, y) = (a.stream[i], b.stream[i]);
		let same = if x.2 || y.2 {
			// a mono device frame is the mean of the clamped channels
			let mx = if x.2 { x.0 } else { (x.0 + x.1) / 2.0 };
			let my = if y.2 { y.0 } else { (y.0 + y.1) / 2.0 };
			mx.to_bits() == my.to_bits()
		} else {
			x.0.to_bits() == y.0.to_bits() && x.1.to_bits() == y.1.to_bits()
		};
		if !same {
			return Some(i);
		}
	}
	None
}

/// which property's oracles are reported (the three suites share ops, interpreter and twin)
#[derive(Clone, Copy, PartialEq)]
pub enum Mode {
	/// suite `mixer` (C02)
	Flow,
	/// suite `mixtrk` (C12)
	Tracks,
	/// suite `mixpart` (C11)
	Partition,
}
fn oracle_wanted(mode: Mode, line: &str) -> bool {
	let name = line.split_whitespace().nth(1).unwrap_or("");
	match mode {
		Mode::Flow => matches!(name, "probe_slices" | "each_frame_once" | "silent_branches" | "channel_layout" | "superposition"),
		Mode::Tracks => matches!(
			name,
			"pause_freezes" | "removed_track_still_processed" | "persist_track_lost_sound" | "state_panics" | "live_handle_track_removed"
		),
		Mode::Partition => matches!(name, "buffer_size_invariance" | "probe_slices"),
	}
}

pub fn run(ops: &[String], mode: Mode) -> Vec<String> {
	let lines = run_cases(ops, None, move |case: &[String], out: &mut Out| {
		let tags: Vec<&str> = case[0].split_whitespace().collect();
		let is_static = tags.contains(&"static");
		let is_linear = tags.contains(&"linear");
		let main = Variant { main: true, ..Default::default() };
		let base = exec_case(case, &main, out);
		let replay = format!("seq {}", case[1..].join(" | "));
		let Some(base) = base else { return };
		// ---- C11: the same scene with other buffer sizes / callback partitions / channel counts
		if is_static && mode == Mode::Partition {
			let seed = base.stream.len() as u64 * 7919 + case.len() as u64;
			let mut vr = Rng::new(seed);
			for k in 0..3 {
				let v = Variant {
					ibs: Some(match k {
						0 => 1,
						1 => 1 + vr.below(7) as usize,
						_ => 64,
					}),
					partition: if k == 1 || vr.chance(1, 2) { Some(vr.next()) } else { None },
					channels: match vr.below(4) {
						0 => Some(1),
						1 => Some(2),
						2 => Some(2 + vr.below(7) as u16),
						_ => None,
					},
					mute: None,
					main: false,
				};
				let mut sink = Out::new();
				if let Some(other) = exec_case(case, &v, &mut sink) {
					if let Some(i) = stream_diff(&base, &other) {
						out.oracle_fail(
							"buffer_size_invariance",
							format!("frame={} ibs={:?} partition={:?} channels={:?} {}", i, v.ibs, v.partition, v.channels, replay),
						);
					}
				}
			}
		}
		// ---- C02: superposition on exactly representable signals (all effects linear, unit or zero gains)
		if is_linear && mode == Mode::Flow {
			let mut sink = Out::new();
			let a = exec_case(case, &Variant { mute: Some(mute_even), ..Default::default() }, &mut sink);
			let b = exec_case(case, &Variant { mute: Some(mute_odd), ..Default::default() }, &mut sink);
			if let (Some(a), Some(b)) = (a, b) {
				if !base.clamped && !a.clamped && !b.clamped && a.stream.len() == base.stream.len() && b.stream.len() == base.stream.len() {
					for i in 0..base.stream.len() {
						let (s, x, y) = (base.stream[i], a.stream[i], b.stream[i]);
						// (mono frames are (l + r) / 2 of exact values: still exact)
						if s.0 != x.0 + y.0 || s.1 != x.1 + y.1 {
							out.oracle_fail("superposition", format!("frame={} {}", i, replay));
							break;
						}
					}
				}
			}
		}
	});
	lines.into_iter().filter(|l| !l.starts_with("!oracle") || oracle_wanted(mode, l)).collect()
}

// ---------------------------------------------------------------------------------------------
// generator
// ---------------------------------------------------------------------------------------------

struct GTrack {
	parent: Option<usize>,
	alive: bool,
	persist: bool,
	sends: Vec<usize>,
	/// a callback has run since it was added
	picked: bool,
}
struct Gen<'a> {
	rng: &'a mut Rng,
	out: Vec<String>,
	tracks: Vec<GTrack>,
	n_sends: usize,
	sends_alive: Vec<bool>,
	sends_picked: Vec<bool>,
	n_clocks: usize,
	clocks_alive: Vec<bool>,
	n_sounds: usize,
	n_fx: usize,
	is_static: bool,
	is_linear: bool,
	frames_total: usize,
	acc_used: bool,
}

const DB_POOL: [f32; 10] = [0.0, 0.0, 0.0, -6.0, -60.0, -3.0, 6.0, -12.5, -100.0, -59.9];

impl<'a> Gen<'a> {
	fn db(&mut self) -> f32 {
		if self.is_linear {
			self.rng.pick(&[0.0f32, 0.0, 0.0, 0.0, -60.0, -100.0])
		} else if self.rng.chance(1, 5) {
			self.rng.uniform(-70.0, 8.0) as f32
		} else {
			self.rng.pick(&DB_POOL)
		}
	}
	fn fx(&mut self, max: u64) -> String {
		let mut budget = max;
		if self.is_linear {
			budget = budget.min(4u64.saturating_sub(self.n_fx as u64));
		}
		let n = if budget == 0 { 0 } else { self.rng.below(budget + 1) };
		if n == 0 {
			return "-".into();
		}
		let mut v = vec![];
		for _ in 0..n {
			let (g, o, f) = if self.is_linear {
				let fb = if !self.acc_used && self.rng.chance(1, 3) {
					self.acc_used = true;
					self.rng.pick(&[1.0f32, -1.0])
				} else {
					0.0
				};
				(self.rng.pick(&[1.0f32, -1.0, 2.0, 0.5, 1.0]), 0.0, fb)
			} else {
				(
					self.rng.pick(&[1.0f32, 0.5, -1.0, 2.0, 0.25, 0.75, 0.0, 1.5]),
					self.rng.pick(&[0.0f32, 0.0, 0.0, 0.125, -0.25, 0.01]),
					self.rng.pick(&[0.0f32, 0.0, 0.5, -0.5, 0.25, 0.9]),
				)
			};
			self.n_fx += 1;
			v.push(format!("{},{},{}", o32(g), o32(o), o32(f)));
		}
		v.join(";")
	}
	fn tween(&mut self) -> String {
		format!("{};{};{}", self.start(), gen_duration_ns(self.rng), fmt_easing(&gen_easing(self.rng)))
	}
	fn start(&mut self) -> String {
		match self.rng.below(10) {
			0..=5 => "imm".into(),
			6 => "del:0".into(),
			7 => format!("del:{}", self.rng.below(400_000_000)),
			_ => {
				if self.n_clocks == 0 {
					"imm".into()
				} else {
					format!(
						"clk:{}:{}:{}",
						self.rng.below(self.n_clocks as u64),
						self.rng.below(4),
						o64(self.rng.pick(&[0.0, 0.5, 0.25, 0.999]))
					)
				}
			}
		}
	}
	fn live_tracks(&self) -> Vec<usize> {
		(0..self.tracks.len()).filter(|&t| self.tracks[t].alive).collect()
	}
	fn depth(&self, t: usize) -> usize {
		let mut d = 1;
		let mut cur = self.tracks[t].parent;
		while let Some(p) = cur {
			d += 1;
			cur = self.tracks[p].parent;
		}
		d
	}
	fn add_send(&mut self) {
		if self.n_sends >= 4 {
			return;
		}
		let db = self.db();
		let fx = self.fx(2);
		self.out.push(format!("send.add {} {}", o32(db), fx));
		self.n_sends += 1;
		self.sends_alive.push(true);
		self.sends_picked.push(false);
	}
	fn add_track(&mut self) {
		if self.tracks.len() >= 10 {
			return;
		}
		let live = self.live_tracks();
		let parent = if live.is_empty() || self.rng.chance(2, 5) {
			None
		} else {
			let p = self.rng.pick(&live);
			if self.depth(p) >= 4 {
				None
			} else {
				Some(p)
			}
		};
		let db = self.db();
		let persist = if self.is_static { false } else { self.rng.chance(1, 4) };
		let fx = self.fx(2);
		let mut sends = vec![];
		let mut used = vec![];
		if self.n_sends > 0 {
			for _ in 0..self.rng.below(3) {
				let s = self.rng.below(self.n_sends as u64) as usize;
				if !used.contains(&s) {
					used.push(s);
					let sdb = self.db();
					sends.push(format!("s{}:{}", s, o32(sdb)));
				}
			}
		}
		let sl = if sends.is_empty() { "-".to_string() } else { sends.join(";") };
		self.out.push(format!(
			"track.add {} {} {} {} {}",
			parent.map(|p| format!("t{}", p)).unwrap_or("m".into()),
			o32(db),
			persist as u8,
			fx,
			sl
		));
		self.tracks.push(GTrack { parent, alive: true, persist, sends: used, picked: false });
	}
	fn play(&mut self) {
		if self.is_linear && self.n_sounds >= 4 {
			return;
		}
		if self.n_sounds >= 12 {
			return;
		}
		let live = self.live_tracks();
		let wher = if live.is_empty() || self.rng.chance(1, 5) { "m".to_string() } else { format!("t{}", self.rng.pick(&live)) };
		let sig = if self.is_linear {
			if self.rng.chance(2, 3) {
				format!("idx:{}", o32(self.rng.below(9) as f32))
			} else {
				let v = self.rng.below(9) as f32 - 4.0;
				format!("const:{}:{}", o32(v), o32(self.rng.below(5) as f32))
			}
		} else {
			match self.rng.below(4) {
				0 => format!("idx:{}", o32(self.rng.below(5) as f32)),
				1 => format!("idx:{}", o32(self.rng.pick(&[0.001f32, -0.5, 0.0078125, 0.1]))),
				2 => format!("const:{}:{}", o32(self.rng.pick(&[0.25f32, -0.125, 1.0, 0.3])), o32(self.rng.pick(&[0.25f32, 0.5, -1.0, 0.7]))),
				_ => format!("const:{}:{}", o32(self.rng.uniform(-1.0, 1.0) as f32), o32(self.rng.uniform(-1.0, 1.0) as f32)),
			}
		};
		let len = match self.rng.below(5) {
			0 => "inf".to_string(),
			1 => format!("{}", self.rng.below(3)),
			_ => format!("{}", self.rng.below(40)),
		};
		self.out.push(format!("play {} {} {}", wher, sig, len));
		self.n_sounds += 1;
	}
	fn cb(&mut self, ibs: usize) {
		let max_total = if self.is_linear { 32 } else { 400 };
		if self.frames_total >= max_total {
			return;
		}
		let frames = match self.rng.below(8) {
			0 => 0,
			1 => 1,
			2 => ibs,
			3 => ibs + 1,
			4 => 2 * ibs,
			5 => (3 * ibs).saturating_sub(1),
			_ => self.rng.below(24) as usize,
		}
		.min(max_total - self.frames_total)
		.min(48);
		let ch = match self.rng.below(6) {
			0 => 1,
			1 | 2 | 3 => 2,
			_ => 3 + self.rng.below(6),
		};
		self.frames_total += frames;
		for t in self.tracks.iter_mut() {
			t.picked = true;
		}
		for p in self.sends_picked.iter_mut() {
			*p = true;
		}
		self.out.push(format!("cb {} {}", frames, ch));
	}
}

fn gen_case(rng: &mut Rng, k: usize, mode: Mode, stats: &mut Stats) -> Vec<String> {
	let kind = rng.below(10);
	let (is_static, is_linear) = match mode {
		Mode::Flow => match kind {
			0 | 1 | 2 | 3 => (true, true),
			_ => (false, false),
		},
		Mode::Tracks => (false, false),
		Mode::Partition => (true, kind < 2),
	};
	stats.hit(if is_linear { "case_linear" } else if is_static { "case_static" } else { "case_general" });
	let mut g = Gen {
		rng,
		out: vec![],
		tracks: vec![],
		n_sends: 0,
		sends_alive: vec![],
		sends_picked: vec![],
		n_clocks: 0,
		clocks_alive: vec![],
		n_sounds: 0,
		n_fx: 0,
		is_static,
		is_linear,
		frames_total: 0,
		acc_used: false,
	};
	let mut tag = String::new();
	if is_static {
		tag += " static";
	}
	if is_linear {
		tag += " linear";
	}
	g.out.push(format!("case {}{}", k, tag));
	let ibs = match g.rng.below(8) {
		0 => 1,
		1 => 2,
		2 => 3,
		3 => 4,
		4 => 8,
		5 => 16,
		6 => 1 + g.rng.below(12) as usize,
		_ => 128,
	};
	let sr = g.rng.pick(&[100u32, 1000, 44100, 48000, 8000]);
	let main_db = g.db();
	let main_fx = if is_linear {
		// the last main effect scales everything far below the clamp
		g.n_fx += 1;
		format!("{},{},{}", o32(2.0f32.powi(-20)), o32(0.0), o32(0.0))
	} else {
		g.fx(2)
	};
	g.out.push(format!("init {} {} {} {}", ibs, sr, o32(if is_linear { 0.0 } else { main_db }), main_fx));
	// scene
	for _ in 0..g.rng.below(3) {
		g.add_send();
	}
	for _ in 0..g.rng.below(5) {
		g.add_track();
	}
	for _ in 0..g.rng.below(4) {
		g.play();
	}
	let steps = g.rng.range(4, 22);
	for _ in 0..steps {
		let mut r = g.rng.below(if is_static { 9 } else { 20 });
		if mode == Mode::Tracks && r < 9 && g.rng.chance(1, 3) {
			// more pause / resume / drop / clock histories
			r = g.rng.pick(&[5, 5, 9, 10, 11, 12, 17, 18, 19, 0]);
		}
		match r {
			0 | 1 | 2 => g.cb(ibs),
			3 => g.play(),
			4 => g.add_track(),
			5 => {
				// drop a track handle (static cases: only tracks the audio thread has already picked up — a
				// handle dropped while its track is still in the ring is a command in flight)
				let live: Vec<usize> =
					g.live_tracks().into_iter().filter(|&t| !g.is_static || g.tracks[t].picked).collect();
				if !live.is_empty() {
					let t = g.rng.pick(&live);
					g.tracks[t].alive = false;
					g.out.push(format!("track.drop t{}", t));
				}
			}
			6 => g.out.push("q".into()),
			7 => {
				if g.rng.chance(1, 3) {
					g.add_send()
				} else {
					g.cb(ibs)
				}
			}
			8 => {
				let live: Vec<usize> =
					(0..g.n_sends).filter(|&s| g.sends_alive[s] && (!g.is_static || g.sends_picked[s])).collect();
				if !live.is_empty() && g.rng.chance(1, 2) {
					let s = g.rng.pick(&live);
					g.sends_alive[s] = false;
					g.out.push(format!("send.drop s{}", s));
				} else {
					g.cb(ibs)
				}
			}
			9 | 10 => {
				let live = g.live_tracks();
				if !live.is_empty() {
					let t = g.rng.pick(&live);
					let tw = g.tween();
					g.out.push(format!("track.pause t{} {}", t, tw));
				}
			}
			11 | 12 => {
				let live = g.live_tracks();
				if !live.is_empty() {
					let t = g.rng.pick(&live);
					let st = g.start();
					let tw = g.tween();
					g.out.push(format!("track.resume t{} {} {}", t, st, tw));
				}
			}
			13 => {
				let live = g.live_tracks();
				if !live.is_empty() {
					let t = g.rng.pick(&live);
					let db = g.db();
					let tw = g.tween();
					g.out.push(format!("track.vol t{} {} {}", t, o32(db), tw));
				}
			}
			14 => {
				let live: Vec<usize> = g.live_tracks().into_iter().filter(|&t| !g.tracks[t].sends.is_empty()).collect();
				if !live.is_empty() {
					let t = g.rng.pick(&live);
					let s = g.rng.pick(&g.tracks[t].sends.clone());
					let db = g.db();
					let tw = g.tween();
					g.out.push(format!("track.send t{} s{} {} {}", t, s, o32(db), tw));
				}
			}
			15 => {
				let db = g.db();
				let tw = g.tween();
				g.out.push(format!("main.vol {} {}", o32(db), tw));
			}
			16 => {
				let live: Vec<usize> = (0..g.n_sends).filter(|&s| g.sends_alive[s]).collect();
				if !live.is_empty() {
					let s = g.rng.pick(&live);
					let db = g.db();
					let tw = g.tween();
					g.out.push(format!("send.vol s{} {} {}", s, o32(db), tw));
				}
			}
			17 => {
				if g.n_clocks < 3 {
					let tps = g.rng.pick(&[1.0, 10.0, 100.0, 1000.0, 33.3]);
					g.out.push(format!("clock.add {}", o64(tps)));
					g.n_clocks += 1;
					g.clocks_alive.push(true);
				}
			}
			18 => {
				let live: Vec<usize> = (0..g.n_clocks).filter(|&c| g.clocks_alive[c]).collect();
				if !live.is_empty() {
					let c = g.rng.pick(&live);
					let what = g.rng.pick(&["clock.start", "clock.start", "clock.stop"]);
					g.out.push(format!("{} c{}", what, c));
				}
			}
			_ => {
				let live: Vec<usize> = (0..g.n_clocks).filter(|&c| g.clocks_alive[c]).collect();
				if !live.is_empty() && g.rng.chance(1, 2) {
					let c = g.rng.pick(&live);
					g.clocks_alive[c] = false;
					g.out.push(format!("clock.drop c{}", c));
				}
			}
		}
	}
	g.cb(ibs);
	g.out.push("q".into());
	let _ = (&g.tracks.iter().map(|t| t.persist).count(),);
	for l in &g.out[1..] {
		stats.hit(l.split(' ').next().unwrap());
	}
	g.out
}

/// the histories behind the C12 findings (repaired in kira: regression cases), generated in every run
fn scripted(k: usize, which: usize) -> Vec<String> {
	let z = o32(0.0);
	let tw0 = "imm;0;lin";
	match which {
		// (a) resume_at(clock time) on a clock that is then dropped
		0 => vec![
			format!("case {}", k),
			format!("init 4 100 {} -", z),
			format!("clock.add {}", o64(10.0)),
			format!("track.add m {} 0 - -", z),
			format!("play t0 idx:{} inf", o32(0.0)),
			"cb 4 2".into(),
			format!("track.pause t0 {}", tw0),
			"cb 4 2".into(),
			format!("track.resume t0 clk:0:2:{} {}", o64(0.0), tw0),
			"cb 4 2".into(),
			"q".into(),
			"clock.drop c0".into(),
			"cb 4 2".into(),
			"q".into(),
			// repaired: the track is Paused, not dead — a plain resume is obeyed
			format!("track.resume t0 imm {}", tw0),
			"cb 4 2".into(),
			"q".into(),
		],
		// (b) persisting track, play then drop the handle before the next callback
		1 => vec![
			format!("case {}", k),
			format!("init 4 100 {} -", z),
			format!("track.add m {} 1 - -", z),
			"cb 4 2".into(),
			format!("play t0 const:{}:{} 6", o32(0.25), o32(0.5)),
			"track.drop t0".into(),
			"cb 4 2".into(),
			"q".into(),
			"cb 4 2".into(),
		],
		// (c) parent picked up, add a child through its handle, drop the parent's handle before the next callback
		_ => vec![
			format!("case {}", k),
			format!("init 4 100 {} -", z),
			format!("track.add m {} 0 - -", z),
			"cb 4 2".into(),
			format!("track.add t0 {} 0 - -", z),
			format!("play t1 const:{}:{} inf", o32(0.25), o32(0.5)),
			"track.drop t0".into(),
			"cb 4 2".into(),
			"q".into(),
			"cb 4 2".into(),
			"q".into(),
		],
	}
}

pub fn gen(rng: &mut Rng, n: usize, _thorough: bool, stats: &mut Stats, mode: Mode) -> Vec<String> {
	let mut out = vec![];
	for k in 0..n {
		if k < 3 && mode == Mode::Tracks {
			stats.hit("case_scripted");
			out.extend(scripted(k, k));
		} else {
			out.extend(gen_case(rng, k, mode, stats));
		}
	}
	out
}
