//! Suite `mixer` (C02, C11, C12): a whole mixer (main track, sub-track tree, send tracks) driven through the
//! PUBLIC API with the probe backend / sounds / effects of `probe.rs`.
//!
//! ops (ids are assigned by creation order: tracks t0.., sends s0.., clocks c0.., sounds x0.., effects f0..):
//!   init <ibs> <sample rate> <main volume dB> <fxlist>
//!   send.add <dB> <fxlist>                                   → sK
//!   track.add <m|tP> <dB> <persist 0|1> <fxlist> <sendlist>   → tK
//!   play <m|tK> <idx:<base>|const:<l>:<r>> <inf|len>          → xK
//!   track.vol tK <dB> <tween>   track.send tK sJ <dB> <tween>   main.vol <dB> <tween>   send.vol sJ <dB> <tween>
//!   track.pause tK <tween>      track.resume tK <start> <tween>
//!   track.drop tK   send.drop sJ
//!   clock.add <ticks per second f64> → cK   clock.start cK   clock.stop cK   clock.drop cK
//!   cb <frames> <channels>      → every output sample (f32 bits) ; activity of every probe since the last callback
//!                                  (`xK=<on_start_processing calls>:<slice lengths>`, `fK=…`)
//!   q                           → subs=<n> sends=<n> main=<num_sounds> tK=<state>/<num_sounds>/<num_sub_tracks>…
//!   seq <op> | <op> | …         → the outputs joined by ` || ` (used for replays of oracle failures)
//! fxlist: `-` or `<gain>,<offset>,<feedback>;…` (f32 bits)   sendlist: `-` or `sJ:<dB>;…`
//! tween: <start>;<duration ns>;<easing>     start: imm | del:<ns> | clk:<clock id>:<ticks>:<frac>
//! case tags (`case <k> static [linear]`): the harness additionally renders the case in other configurations
//! on the real code (C11 partition / buffer-size invariance, C02 superposition).
use crate::probe::{self, new_log, Log, ProbeBackend, ProbeEffectBuilder, ProbeSoundData, Signal};
use crate::runner::{run_cases, Out};
use crate::suites::param::gen_duration_ns;
use crate::suites::units::{fmt_easing, gen_easing, parse_easing};
use crate::util::*;
use kira::clock::{ClockHandle, ClockId, ClockSpeed, ClockTime};
use kira::track::{
	MainTrackBuilder, SendTrackBuilder, SendTrackHandle, SendTrackId, TrackBuilder, TrackHandle,
	TrackPlaybackState,
};
use kira::{AudioManager, Capacities, Decibels, StartTime, Tween};
use std::collections::BTreeMap;
use std::panic::{catch_unwind, AssertUnwindSafe};
use std::time::Duration;

// ---------------------------------------------------------------------------------------------
// configuration of one rendering of a case
// ---------------------------------------------------------------------------------------------

#[derive(Clone, Default)]
pub struct Variant {
	/// replace the internal buffer size of `init`
	pub ibs: Option<usize>,
	/// split every `cb F ch` into several callbacks (seeded)
	pub partition: Option<u64>,
	/// replace the channel count of every callback
	pub channels: Option<u16>,
	/// sounds (by id) replaced by silence of the same length
	pub mute: Option<fn(usize) -> bool>,
	/// the main rendering: print trace lines and run the per-callback oracles
	pub main: bool,
}

struct FxMeta {
	log: Log,
	seen_slices: usize,
	seen_osp: usize,
	offset: f32,
	feedback: f32,
	/// owner: Some(track id) or None (main / send track)
	track: Option<usize>,
}
struct SndMeta {
	log: Log,
	seen_slices: usize,
	seen_osp: usize,
	length: Option<usize>,
	track: Option<usize>,
	/// index of the callback before which it was played
	played_before_cb: usize,
}
struct TrkMeta {
	parent: Option<usize>,
	persist: bool,
	alive: bool,
	added_before_cb: usize,
	dropped_before_cb: Option<usize>,
	/// `state()` was `Paused` after the last callback and no pause/resume was issued since
	frozen: bool,
	/// a pause / resume command was ever issued to it
	ever_paused: bool,
	/// `state()` after the last callback (a new track reports Playing)
	last_state: TrackPlaybackState,
	/// pause / resume commands issued since the last callback
	pending_pause: bool,
	pending_resume: bool,
	/// `state()` was `WaitingToResume` after the last callback and no pause/resume was issued since
	waiting: bool,
	/// … and it still is after the callback just run: the track was waiting during the whole callback
	waiting_through: bool,
	/// the last callback that read a command of this track read a pause and no resume, and no resume was
	/// issued since: the track has to stay Pausing / Paused
	must_stay_paused: bool,
	/// Playing before and after the callback just run with no command in between
	steady_playing: bool,
	/// Paused before and after the callback just run with no command in between
	steady_paused: bool,
}

struct Scene {
	manager: AudioManager<ProbeBackend>,
	ibs: usize,
	tracks: BTreeMap<usize, TrackHandle>,
	sends: BTreeMap<usize, SendTrackHandle>,
	send_ids: Vec<SendTrackId>,
	clocks: BTreeMap<usize, ClockHandle>,
	clock_ids: Vec<ClockId>,
	snd: Vec<SndMeta>,
	fx: Vec<FxMeta>,
	trk: Vec<TrkMeta>,
	cb_index: usize,
	/// one entry per device frame rendered so far: (left, right, was a mono device frame)
	stream: Vec<(f32, f32, bool)>,
	clamped: bool,
	/// what the documented signal flow needs to know (C02 reference, see `flow_reference`)
	flow: Flow,
}

fn parse_fxlist(s: &str) -> Vec<(f32, f32, f32)> {
	if s == "-" {
		return vec![];
	}
	s.split(';')
		.map(|it| {
			let p: Vec<&str> = it.split(',').collect();
			(p32(p[0]), p32(p[1]), p32(p[2]))
		})
		.collect()
}
fn parse_ref(pre: char, s: &str) -> usize {
	assert!(s.starts_with(pre), "bad ref {}", s);
	s[1..].parse().expect("bad ref")
}

impl Scene {
	fn parse_start(&self, s: &str) -> StartTime {
		if s == "imm" {
			return StartTime::Immediate;
		}
		let p: Vec<&str> = s.split(':').collect();
		match p[0] {
			"del" => StartTime::Delayed(Duration::from_nanos(pu(p[1]))),
			"clk" => StartTime::ClockTime(ClockTime {
				clock: self.clock_ids[pu(p[1]) as usize],
				ticks: pu(p[2]),
				fraction: p64(p[3]),
			}),
			_ => panic!("bad start time {}", s),
		}
	}
	fn parse_tween(&self, s: &str) -> Tween {
		let p: Vec<&str> = s.split(';').collect();
		Tween {
			start_time: self.parse_start(p[0]),
			duration: Duration::from_nanos(pu(p[1])),
			easing: parse_easing(p[2]),
		}
	}
	fn add_fx(&mut self, spec: &[(f32, f32, f32)], track: Option<usize>) -> Vec<ProbeEffectBuilder> {
		spec.iter()
			.map(|&(gain, offset, feedback)| {
				let log = new_log();
				self.fx.push(FxMeta { log: log.clone(), seen_slices: 0, seen_osp: 0, offset, feedback, track });
				ProbeEffectBuilder { gain, offset, feedback, log }
			})
			.collect()
	}
	/// is `t` or one of its ancestors frozen (observed Paused, no command since)?
	fn frozen_above(&self, t: Option<usize>) -> bool {
		let mut cur = t;
		while let Some(i) = cur {
			if self.trk[i].frozen {
				return true;
			}
			cur = self.trk[i].parent;
		}
		false
	}
	/// is `t` or one of its ancestors known to have been WaitingToResume during the whole callback just run?
	fn waiting_above(&self, t: Option<usize>) -> bool {
		let mut cur = t;
		while let Some(i) = cur {
			if self.trk[i].waiting_through {
				return true;
			}
			cur = self.trk[i].parent;
		}
		false
	}
	fn all_alive_above(&self, t: Option<usize>) -> bool {
		let mut cur = t;
		while let Some(i) = cur {
			if !self.trk[i].alive {
				return false;
			}
			cur = self.trk[i].parent;
		}
		true
	}
	fn never_paused_above(&self, t: Option<usize>) -> bool {
		let mut cur = t;
		while let Some(i) = cur {
			if self.trk[i].ever_paused {
				return false;
			}
			cur = self.trk[i].parent;
		}
		true
	}
	fn subtree_has_live_handle(&self, t: usize) -> bool {
		if self.trk[t].alive {
			return true;
		}
		(0..self.trk.len()).any(|c| self.trk[c].parent == Some(t) && self.subtree_has_live_handle(c))
	}
	fn has_children(&self, t: usize) -> bool {
		(0..self.trk.len()).any(|c| self.trk[c].parent == Some(t))
	}
	/// certainly removed from the audio side before callback `cb`: childless, not persisting, and its handle
	/// was dropped at least two callbacks ago
	fn certainly_removed(&self, t: usize, cb: usize) -> bool {
		let m = &self.trk[t];
		!m.persist && !self.has_children(t) && matches!(m.dropped_before_cb, Some(d) if d + 2 <= cb)
	}
	fn removed_above(&self, t: Option<usize>, cb: usize) -> bool {
		let mut cur = t;
		while let Some(i) = cur {
			if self.certainly_removed(i, cb) {
				return true;
			}
			cur = self.trk[i].parent;
		}
		false
	}
}

// ---------------------------------------------------------------------------------------------
// C02 reference: the documented signal-flow sum, evaluated in the harness
// ---------------------------------------------------------------------------------------------

/// A volume change the bookkeeping can follow: fixed target, immediate or delayed start.
#[derive(Clone, Copy)]
struct VolCmd {
	db: f32,
	delay: f64,
	duration: f64,
}
impl VolCmd {
	/// `None` for a clock start time (not followed: the flow reference stops for the case)
	fn parse(db: f32, tween: &str) -> Option<Self> {
		let p: Vec<&str> = tween.split(';').collect();
		let delay = if p[0] == "imm" {
			0.0
		} else {
			pu(p[0].strip_prefix("del:")?) as f64 / 1e9
		};
		Some(Self { db, delay, duration: pu(p[1]) as f64 / 1e9 })
	}
}
/// A volume parameter followed in AUDIO TIME, the way the documentation states it (C06: the old value until the
/// start time, from the end of the tween onward exactly the target): `settled_db` is its value when no command
/// is `pending` (written, not yet read by a callback) or `inflight` (read, possibly not over).
struct VolTrack {
	settled_db: f32,
	pending: Option<Option<VolCmd>>,
	/// (command, audio time of the updates it has certainly seen, longest single update among them)
	inflight: Option<(VolCmd, f64, f64)>,
}
impl VolTrack {
	fn new(db: f32) -> Self {
		Self { settled_db: db, pending: None, inflight: None }
	}
	/// the callback about to run reads the last command written; `false`: a command that cannot be followed
	fn read(&mut self) -> bool {
		match self.pending.take() {
			Some(Some(c)) => self.inflight = Some((c, 0.0, 0.0)),
			Some(None) => return false,
			None => {}
		}
		true
	}
	/// `frames` more frames were rendered in updates of at most `ibs` frames. The delay is counted down in whole
	/// updates and the update during which it runs out does not count towards the tween, so the tween has
	/// certainly lasted `seen - delay - longest update`; one microsecond covers the nanosecond rounding of the
	/// countdown. Once that reaches the duration the parameter sits on the target for good.
	fn advance(&mut self, frames: usize, ibs: usize, sr: f64) {
		if let Some((c, seen, longest)) = self.inflight.as_mut() {
			*seen += frames as f64 / sr;
			*longest = longest.max(frames.min(ibs) as f64 / sr);
			if *seen - *longest >= c.delay + c.duration + 1e-6 {
				self.settled_db = c.db;
				self.inflight = None;
			}
		}
	}
	fn settled(&self) -> bool {
		self.inflight.is_none()
	}
}
struct FlowTrack {
	parent: Option<usize>,
	vol: VolTrack,
	fx: Vec<(f32, f32, f32)>,
	routes: Vec<(usize, VolTrack)>,
}
struct FlowSend {
	vol: VolTrack,
	fx: Vec<(f32, f32, f32)>,
}
struct Flow {
	/// false from the first op the reference does not follow (a dropped track / send-track handle, a volume
	/// tween that starts at a clock time)
	valid: bool,
	main_vol: VolTrack,
	main_fx: Vec<(f32, f32, f32)>,
	sends: Vec<FlowSend>,
	tracks: Vec<FlowTrack>,
	signals: Vec<Signal>,
}
impl Flow {
	fn commands_are_read(&mut self) {
		let mut ok = self.main_vol.read();
		for s in self.sends.iter_mut() {
			ok &= s.vol.read();
		}
		for t in self.tracks.iter_mut() {
			ok &= t.vol.read();
			for (_, r) in t.routes.iter_mut() {
				ok &= r.read();
			}
		}
		if !ok {
			self.valid = false;
		}
	}
}

/// callbacks on which the flow reference was evaluated (reported on stderr when KV_FLOWSTAT is set)
static FLOW_EVALUATED: std::sync::atomic::AtomicUsize = std::sync::atomic::AtomicUsize::new(0);
static FLOW_CALLBACKS: std::sync::atomic::AtomicUsize = std::sync::atomic::AtomicUsize::new(0);

/// documented decibel law (C19): -60 dB or less is silence, otherwise 10^(dB/20)
fn flow_amp(db: f32) -> f64 {
	if db <= -60.0 {
		0.0
	} else {
		10f64.powf(db as f64 / 20.0)
	}
}
/// a stereo value with a bound on the sum of the magnitudes of everything that went into it
#[derive(Clone, Copy, Default)]
struct Fv {
	l: f64,
	r: f64,
	m: f64,
}
impl Fv {
	fn add(&mut self, o: Fv) {
		self.l += o.l;
		self.r += o.r;
		self.m += o.m;
	}
	fn scale(self, a: f64) -> Fv {
		Fv { l: self.l * a, r: self.r * a, m: self.m * a.abs() }
	}
	/// memoryless probe effects: gain x + offset
	fn fx(mut self, fx: &[(f32, f32, f32)]) -> Fv {
		for &(g, o, _) in fx {
			self = Fv {
				l: self.l * g as f64 + o as f64,
				r: self.r * g as f64 + o as f64,
				m: self.m * (g as f64).abs() + (o as f64).abs(),
			};
		}
		self
	}
}

/// C02: "the rendered output is the sum described by the track documentation: each sound's signal multiplied by
/// the volume (and pause fade) of every track on its path to the main track, plus that signal through every send
/// route on the path (route volume x send-track volume), each track's effects applied at that track in order, all
/// scaled by the main-track volume. Nothing else contributes."  Evaluated here, over f64, from what the harness
/// itself knows: the probe sounds' signals (frame k of a sound is a function of k; k from the probe's own count),
/// the probe effects' gains / offsets, the volumes every handle was last told (followed in audio time by
/// `VolTrack`) and the state each track handle reports. Checked on the callbacks where that knowledge is complete:
///   * no handle dropped yet, no clock-scheduled volume tween, only memoryless probe effects;
///   * every volume parameter certainly at rest when the callback began;
///   * every track Playing (fade at unity) or Paused (silent, feeds no send) before and after, no command between.
/// The formula is `Mixer.spec` (Props/C02: C02_mixer_refines_spec, C02_mix_is_pointwise_sum, C02_final_stage).
/// Tolerance: kira works in f32; every operation on a path (at most 4 tracks + send + main, each two effects, a
/// volume and a sum of at most ~25 terms: < 200 operations) adds at most 2^-24 of the magnitudes involved, the
/// f32 decibel conversions 1e-7 each: 4e-5 of the magnitude bound `m` (exactly representable scenes give 0).
fn flow_reference(sc: &mut Scene, frames: usize, ch: u16, samples: &[f32], positions: &[(usize, usize)]) -> Option<String> {
	let sr = sc.manager.backend_mut().sample_rate as f64;
	let ibs = sc.ibs;
	let n_tracks = sc.flow.tracks.len();
	let advancing_above = |sc: &Scene, t: Option<usize>| -> bool {
		let mut cur = t;
		while let Some(i) = cur {
			if !sc.trk[i].steady_playing {
				return false;
			}
			cur = sc.trk[i].parent;
		}
		true
	};
	let mut verdict = None;
	FLOW_CALLBACKS.fetch_add(1, std::sync::atomic::Ordering::Relaxed);
	'eval: {
		let fl = &sc.flow;
		if !fl.valid || frames == 0 {
			break 'eval;
		}
		let memoryless = |fx: &[(f32, f32, f32)]| fx.iter().all(|e| e.2 == 0.0);
		if !memoryless(&fl.main_fx) || !fl.sends.iter().all(|s| memoryless(&s.fx)) || !fl.tracks.iter().all(|t| memoryless(&t.fx)) {
			break 'eval;
		}
		if !fl.main_vol.settled()
			|| !fl.sends.iter().all(|s| s.vol.settled())
			|| !fl.tracks.iter().all(|t| t.vol.settled() && t.routes.iter().all(|r| r.1.settled()))
		{
			break 'eval;
		}
		if !(0..n_tracks).all(|t| sc.trk[t].steady_playing || sc.trk[t].steady_paused) {
			break 'eval;
		}
		// every sound of an advancing branch that still has frames left was asked for exactly this callback
		for (i, m) in sc.snd.iter().enumerate() {
			let (before, asked) = positions[i];
			let finished = m.length.map(|n| before >= n).unwrap_or(false);
			let live = advancing_above(sc, m.track);
			if (live && !finished && asked != frames) || (!live && asked != 0) {
				break 'eval;
			}
		}
		let children: Vec<Vec<usize>> =
			(0..n_tracks).map(|p| (0..n_tracks).filter(|&c| fl.tracks[c].parent == Some(p)).collect()).collect();
		fn sound_at(sig: Signal, length: Option<usize>, k: usize) -> Fv {
			if length.map(|n| k >= n).unwrap_or(false) {
				return Fv::default();
			}
			let (l, r) = match sig {
				Signal::Index { base } => ((base + k as f32) as f64, (base + k as f32) as f64),
				Signal::Constant { left, right } => (left as f64, right as f64),
			};
			Fv { l, r, m: l.abs().max(r.abs()) }
		}
		struct Ctx<'a> {
			sc: &'a Scene,
			children: &'a [Vec<usize>],
			positions: &'a [(usize, usize)],
			send_in: Vec<Fv>,
		}
		fn track_out(c: &mut Ctx, t: usize, j: usize) -> Fv {
			if !c.sc.trk[t].steady_playing {
				return Fv::default();
			}
			let mut acc = Fv::default();
			for &ch in &c.children[t] {
				let y = track_out(c, ch, j);
				acc.add(y);
			}
			for (i, m) in c.sc.snd.iter().enumerate() {
				if m.track == Some(t) && c.positions[i].1 > 0 {
					acc.add(sound_at(c.sc.flow.signals[i], m.length, c.positions[i].0 + j));
				}
			}
			let ft = &c.sc.flow.tracks[t];
			let y = acc.fx(&ft.fx).scale(flow_amp(ft.vol.settled_db));
			for (s, route) in &ft.routes {
				let z = y.scale(flow_amp(route.settled_db));
				c.send_in[*s].add(z);
			}
			y
		}
		let mut ctx = Ctx { sc, children: &children, positions, send_in: vec![] };
		for j in 0..frames {
			ctx.send_in = vec![Fv::default(); fl.sends.len()];
			let mut bus = Fv::default();
			for t in 0..n_tracks {
				if fl.tracks[t].parent.is_none() {
					let y = track_out(&mut ctx, t, j);
					bus.add(y);
				}
			}
			for (k, s) in fl.sends.iter().enumerate() {
				bus.add(ctx.send_in[k].fx(&s.fx).scale(flow_amp(s.vol.settled_db)));
			}
			for (i, m) in sc.snd.iter().enumerate() {
				if m.track.is_none() && positions[i].1 > 0 {
					bus.add(sound_at(fl.signals[i], m.length, positions[i].0 + j));
				}
			}
			let y = bus.fx(&fl.main_fx).scale(flow_amp(fl.main_vol.settled_db));
			if j == 0 {
				FLOW_EVALUATED.fetch_add(1, std::sync::atomic::Ordering::Relaxed);
			}
			let tol = 4e-5 * y.m + 1e-12;
			let (l, r) = (y.l.clamp(-1.0, 1.0), y.r.clamp(-1.0, 1.0));
			let want: Vec<f64> = if ch == 1 { vec![(l + r) / 2.0] } else { vec![l, r] };
			for (c, w) in want.iter().enumerate() {
				let got = samples[j * ch as usize + c] as f64;
				if !((got - w).abs() <= tol) {
					verdict = Some(format!("frame={} channel={} got={:e} documented={:e}", j, c, got, w));
					break 'eval;
				}
			}
		}
	}
	// the audio time this callback added to the volume tweens in flight. A track's own pause does not stop its
	// volume tweens; below a track that is not steadily playing nothing is certain, so nothing is counted.
	sc.flow.main_vol.advance(frames, ibs, sr);
	for s in sc.flow.sends.iter_mut() {
		s.vol.advance(frames, ibs, sr);
	}
	for t in 0..n_tracks {
		if advancing_above(sc, sc.trk[t].parent) {
			let ft = &mut sc.flow.tracks[t];
			ft.vol.advance(frames, ibs, sr);
			for (_, r) in ft.routes.iter_mut() {
				r.advance(frames, ibs, sr);
			}
		}
	}
	verdict
}

/// the slice lengths a component that is processed for the whole callback must see
fn chunk_pattern(frames: usize, ibs: usize) -> Vec<usize> {
	let mut v = vec![];
	let mut left = frames;
	while left > 0 {
		let n = left.min(ibs);
		v.push(n);
		left -= n;
	}
	v
}
fn is_contiguous_sub(sub: &[usize], pat: &[usize]) -> bool {
	if sub.is_empty() {
		return true;
	}
	if sub.len() > pat.len() {
		return false;
	}
	(0..=pat.len() - sub.len()).any(|s| &pat[s..s + sub.len()] == sub)
}

struct Exec<'a> {
	scene: Option<Scene>,
	var: &'a Variant,
	is_static: bool,
	rng: Rng,
	history: Vec<String>,
}

impl<'a> Exec<'a> {
	fn replay(&self) -> String {
		format!("seq {}", self.history.join(" | "))
	}

	/// run one op; returns its trace text
	fn op(&mut self, l: &str, out: &mut Out) -> String {
		let tok: Vec<&str> = l.split_whitespace().collect();
		if tok[0] == "seq" {
			let body = l.trim_start().strip_prefix("seq").unwrap();
			let parts: Vec<String> = body.split(" | ").map(|s| s.trim().to_string()).filter(|s| !s.is_empty()).collect();
			let res: Vec<String> = parts.iter().map(|p| self.op(p, out)).collect();
			return res.join(" || ");
		}
		self.history.push(l.to_string());
		if tok[0] == "init" {
			let ibs = self.var.ibs.unwrap_or(pu(tok[1]) as usize);
			let sr = pu(tok[2]) as u32;
			let mut fxmeta = vec![];
			let mut b = MainTrackBuilder::new().volume(p32(tok[3]));
			for (gain, offset, feedback) in parse_fxlist(tok[4]) {
				let log = new_log();
				fxmeta.push(FxMeta { log: log.clone(), seen_slices: 0, seen_osp: 0, offset, feedback, track: None });
				b = b.with_effect(ProbeEffectBuilder { gain, offset, feedback, log });
			}
			let manager = probe::manager(Capacities::default(), ibs, sr, b);
			self.scene = Some(Scene {
				manager,
				ibs,
				tracks: BTreeMap::new(),
				sends: BTreeMap::new(),
				send_ids: vec![],
				clocks: BTreeMap::new(),
				clock_ids: vec![],
				snd: vec![],
				fx: fxmeta,
				trk: vec![],
				cb_index: 0,
				stream: vec![],
				clamped: false,
				flow: Flow {
					valid: true,
					main_vol: VolTrack::new(p32(tok[3])),
					main_fx: parse_fxlist(tok[4]),
					sends: vec![],
					tracks: vec![],
					signals: vec![],
				},
			});
			return "ok".into();
		}
		let var = self.var;
		let is_static = self.is_static;
		let sc = self.scene.as_mut().expect("no init");
		match tok[0] {
			"send.add" => {
				let mut b = SendTrackBuilder::new().volume(p32(tok[1]));
				for e in sc.add_fx(&parse_fxlist(tok[2]), None) {
					b = b.with_effect(e);
				}
				let h = sc.manager.add_send_track(b).expect("send track limit");
				sc.flow.sends.push(FlowSend { vol: VolTrack::new(p32(tok[1])), fx: parse_fxlist(tok[2]) });
				let k = sc.send_ids.len();
				sc.send_ids.push(h.id());
				sc.sends.insert(k, h);
				format!("s{}", k)
			}
			"track.add" => {
				let id = sc.trk.len();
				let mut b = TrackBuilder::new().volume(p32(tok[2])).persist_until_sounds_finish(tok[3] == "1");
				for e in sc.add_fx(&parse_fxlist(tok[4]), Some(id)) {
					b = b.with_effect(e);
				}
				if tok[5] != "-" {
					for it in tok[5].split(';') {
						let (s, db) = it.split_once(':').unwrap();
						b = b.with_send(sc.send_ids[parse_ref('s', s)], p32(db));
					}
				}
				let (h, parent) = if tok[1] == "m" {
					(sc.manager.add_sub_track(b).expect("sub track limit"), None)
				} else {
					let p = parse_ref('t', tok[1]);
					(sc.tracks.get_mut(&p).expect("no such track handle").add_sub_track(b).expect("sub track limit"), Some(p))
				};
				sc.tracks.insert(id, h);
				sc.trk.push(TrkMeta {
					parent,
					persist: tok[3] == "1",
					alive: true,
					added_before_cb: sc.cb_index,
					dropped_before_cb: None,
					frozen: false,
					ever_paused: false,
					last_state: TrackPlaybackState::Playing,
					pending_pause: false,
					pending_resume: false,
					waiting: false,
					waiting_through: false,
					must_stay_paused: false,
					steady_playing: false,
					steady_paused: false,
				});
				let routes = if tok[5] == "-" {
					vec![]
				} else {
					tok[5]
						.split(';')
						.map(|it| {
							let (s, db) = it.split_once(':').unwrap();
							(parse_ref('s', s), VolTrack::new(p32(db)))
						})
						.collect()
				};
				sc.flow.tracks.push(FlowTrack { parent, vol: VolTrack::new(p32(tok[2])), fx: parse_fxlist(tok[4]), routes });
				format!("t{}", id)
			}
			"play" => {
				let id = sc.snd.len();
				let muted = var.mute.map(|f| f(id)).unwrap_or(false);
				let p: Vec<&str> = tok[2].split(':').collect();
				let signal = if muted {
					Signal::Constant { left: 0.0, right: 0.0 }
				} else if p[0] == "idx" {
					Signal::Index { base: p32(p[1]) }
				} else {
					Signal::Constant { left: p32(p[1]), right: p32(p[2]) }
				};
				let length = if tok[3] == "inf" { None } else { Some(pu(tok[3]) as usize) };
				let log = new_log();
				sc.flow.signals.push(signal);
				let data = ProbeSoundData { signal, length, log: log.clone() };
				let track = if tok[1] == "m" {
					sc.manager.play(data).expect("play failed");
					None
				} else {
					let t = parse_ref('t', tok[1]);
					sc.tracks.get_mut(&t).expect("no such track handle").play(data).expect("play failed");
					Some(t)
				};
				sc.snd.push(SndMeta { log, seen_slices: 0, seen_osp: 0, length, track, played_before_cb: sc.cb_index });
				format!("x{}", id)
			}
			"track.vol" => {
				let tw = sc.parse_tween(tok[3]);
				sc.tracks.get_mut(&parse_ref('t', tok[1])).unwrap().set_volume(p32(tok[2]), tw);
				let cmd = VolCmd::parse(p32(tok[2]), tok[3]);
				sc.flow.tracks[parse_ref('t', tok[1])].vol.pending = Some(cmd);
				"ok".into()
			}
			"track.send" => {
				let tw = sc.parse_tween(tok[4]);
				let sid = sc.send_ids[parse_ref('s', tok[2])];
				let cmd = VolCmd::parse(p32(tok[3]), tok[4]);
				let s_idx = parse_ref('s', tok[2]);
				match sc.tracks.get_mut(&parse_ref('t', tok[1])).unwrap().set_send(sid, p32(tok[3]), tw) {
					Ok(()) => {
						for (s, v) in sc.flow.tracks[parse_ref('t', tok[1])].routes.iter_mut() {
							if *s == s_idx {
								v.pending = Some(cmd);
							}
						}
						"ok".into()
					}
					Err(_) => "ok".into(),
				}
			}
			"main.vol" => {
				let tw = sc.parse_tween(tok[2]);
				sc.manager.main_track().set_volume(p32(tok[1]), tw);
				sc.flow.main_vol.pending = Some(VolCmd::parse(p32(tok[1]), tok[2]));
				"ok".into()
			}
			"send.vol" => {
				let tw = sc.parse_tween(tok[3]);
				sc.sends.get_mut(&parse_ref('s', tok[1])).unwrap().set_volume(p32(tok[2]), tw);
				sc.flow.sends[parse_ref('s', tok[1])].vol.pending = Some(VolCmd::parse(p32(tok[2]), tok[3]));
				"ok".into()
			}
			"track.pause" => {
				let t = parse_ref('t', tok[1]);
				let tw = sc.parse_tween(tok[2]);
				sc.tracks.get_mut(&t).unwrap().pause(tw);
				sc.trk[t].frozen = false;
				sc.trk[t].waiting = false;
				sc.trk[t].pending_pause = true;
				sc.trk[t].ever_paused = true;
				"ok".into()
			}
			"track.resume" => {
				let t = parse_ref('t', tok[1]);
				let st = sc.parse_start(tok[2]);
				let tw = sc.parse_tween(tok[3]);
				sc.tracks.get_mut(&t).unwrap().resume_at(st, tw);
				sc.trk[t].frozen = false;
				sc.trk[t].waiting = false;
				sc.trk[t].pending_resume = true;
				sc.trk[t].must_stay_paused = false;
				sc.trk[t].ever_paused = true;
				"ok".into()
			}
			"track.drop" => {
				let t = parse_ref('t', tok[1]);
				sc.tracks.remove(&t).expect("no such handle");
				sc.trk[t].alive = false;
				sc.flow.valid = false;
				sc.trk[t].dropped_before_cb = Some(sc.cb_index);
				"ok".into()
			}
			"send.drop" => {
				sc.sends.remove(&parse_ref('s', tok[1])).expect("no such send handle");
				sc.flow.valid = false;
				"ok".into()
			}
			"clock.add" => {
				let h = sc.manager.add_clock(ClockSpeed::TicksPerSecond(p64(tok[1]))).expect("clock limit");
				let k = sc.clock_ids.len();
				sc.clock_ids.push(h.id());
				sc.clocks.insert(k, h);
				format!("c{}", k)
			}
			"clock.start" => {
				sc.clocks.get_mut(&parse_ref('c', tok[1])).unwrap().start();
				"ok".into()
			}
			"clock.stop" => {
				sc.clocks.get_mut(&parse_ref('c', tok[1])).unwrap().pause();
				"ok".into()
			}
			"clock.drop" => {
				sc.clocks.remove(&parse_ref('c', tok[1])).expect("no such clock handle");
				"ok".into()
			}
			"cb" => {
				let frames = pu(tok[1]) as usize;
				let ch = var.channels.unwrap_or(pu(tok[2]) as u16);
				// the callbacks this op stands for
				let parts: Vec<usize> = match var.partition {
					Some(_) if frames > 0 => {
						let mut v = vec![];
						let mut left = frames;
						while left > 0 {
							let n = 1 + self.rng.below(left.min(1 + 2 * sc.ibs) as u64) as usize;
							v.push(n);
							left -= n;
						}
						v
					}
					_ => vec![frames],
				};
				let mut all = vec![];
				sc.flow.commands_are_read();
				for &n in &parts {
					let samples = sc.manager.backend_mut().callback(n, ch);
					sc.cb_index += 1;
					for f in samples.chunks(ch as usize) {
						if ch == 1 {
							sc.stream.push((f[0], f[0], true));
						} else {
							sc.stream.push((f[0], f[1], false));
						}
						if f.iter().any(|x| x.abs() >= 1.0) {
							sc.clamped = true;
						}
					}
					all.extend(samples);
				}
				if !var.main {
					return String::new();
				}
				let line = cb_oracles_and_report(sc, frames, ch, &all, is_static, out, &self.history);
				line
			}
			"q" => {
				let mut parts = vec![
					format!("subs={}", sc.manager.num_sub_tracks()),
					format!("sends={}", sc.manager.num_send_tracks()),
					format!("main={}", sc.manager.main_track().num_sounds()),
				];
				for (id, h) in sc.tracks.iter() {
					let st = match catch_unwind(AssertUnwindSafe(|| h.state())) {
						Ok(s) => s,
						Err(e) => {
							out.oracle_fail("state_panics", format!("seq {}", self.history.join(" | ")));
							std::panic::resume_unwind(e);
						}
					};
					let nm = match st {
						TrackPlaybackState::Playing => "playing",
						TrackPlaybackState::Pausing => "pausing",
						TrackPlaybackState::Paused => "paused",
						TrackPlaybackState::WaitingToResume => "waiting",
						TrackPlaybackState::Resuming => "resuming",
					};
					parts.push(format!("t{}={}/{}/{}", id, nm, h.num_sounds(), h.num_sub_tracks()));
				}
				parts.join(" ")
			}
			_ => panic!("mixer: unknown op {}", tok[0]),
		}
	}
}

/// after the callback(s) of one `cb` op of the main rendering: the trace line and the direct oracles
fn cb_oracles_and_report(
	sc: &mut Scene,
	frames: usize,
	ch: u16,
	samples: &[f32],
	is_static: bool,
	out: &mut Out,
	history: &[String],
) -> String {
	let replay = || format!("seq {}", history.join(" | "));
	let cb = sc.cb_index - 1; // index of the callback just run
	let pattern = chunk_pattern(frames, sc.ibs);
	let dt_expected = 1.0 / sc.manager.backend_mut().sample_rate as f64;
	let mut rep: Vec<String> = vec![];
	let mut any_unblocked_source = false;

	// ---- C12: the state every live handle reports after this callback (querying it never panics)
	let mut now: Vec<(usize, Option<TrackPlaybackState>)> = vec![];
	for (&id, h) in sc.tracks.iter() {
		match catch_unwind(AssertUnwindSafe(|| h.state())) {
			Ok(s) => now.push((id, Some(s))),
			Err(_) => {
				now.push((id, None));
				out.oracle_fail("state_panics", replay());
			}
		}
	}
	for (id, st) in now.iter() {
		let m = &mut sc.trk[*id];
		let quiet = !m.pending_pause && !m.pending_resume;
		// waiting before, no command, still waiting: WaitingToResume can only be left for good (to Resuming,
		// or back to Paused when its clock is gone), so the track was waiting during the whole callback
		m.waiting_through = m.waiting && quiet && *st == Some(TrackPlaybackState::WaitingToResume);
		m.steady_playing = quiet && m.last_state == TrackPlaybackState::Playing && *st == Some(TrackPlaybackState::Playing);
		m.steady_paused = quiet && m.last_state == TrackPlaybackState::Paused && *st == Some(TrackPlaybackState::Paused);
		// C12 "pausing a track freezes its subtree" until it is resumed: this callback read a pause and no
		// resume for the track (commands of different kinds issued in the same interval are applied in a
		// fixed order, so only intervals with pauses alone count) - from now on, and until a resume is
		// issued, the handle has to report Pausing or Paused; in particular a resume_at that was pending
		// when the pause arrived is cancelled
		if m.pending_pause && !m.pending_resume {
			m.must_stay_paused = true;
		}
		m.pending_pause = false;
		m.pending_resume = false;
		if m.must_stay_paused && !matches!(st, Some(TrackPlaybackState::Pausing) | Some(TrackPlaybackState::Paused) | None) {
			out.oracle_fail("pause_is_final_until_resume", replay());
		}
	}
	for m in sc.trk.iter_mut() {
		if !m.alive {
			m.waiting_through = false;
			m.steady_playing = false;
			m.steady_paused = false;
		}
	}
	let mut positions: Vec<(usize, usize)> = vec![];

	// ---- sounds
	for i in 0..sc.snd.len() {
		let (slices, osp, dts_ok, produced_before): (Vec<usize>, usize, bool, usize) = {
			let m = &sc.snd[i];
			let l = m.log.lock().unwrap();
			(
				l.slices[m.seen_slices..].to_vec(),
				l.on_start_processing - m.seen_osp,
				l.dts[m.seen_slices..].iter().all(|d| *d == dt_expected),
				l.slices[..m.seen_slices].iter().sum(),
			)
		};
		{
			let m = &mut sc.snd[i];
			m.seen_slices += slices.len();
			m.seen_osp += osp;
		}
		if osp > 0 || !slices.is_empty() {
			rep.push(format!("x{}={}:{}", i, osp, slices.iter().map(|s| s.to_string()).collect::<Vec<_>>().join(",")));
		}
		let m = &sc.snd[i];
		// C02: slices never exceed the internal buffer size, form a contiguous run of the chunk pattern, dt = 1/fs
		if slices.iter().any(|&s| s > sc.ibs || s == 0) || !is_contiguous_sub(&slices, &pattern) || osp > 1 || !dts_ok {
			out.oracle_fail("probe_slices", replay());
		}
		let finished_before = m.length.map(|n| produced_before >= n).unwrap_or(false);
		positions.push((produced_before, slices.iter().sum()));
		let frozen = sc.frozen_above(m.track);
		// C12: pause freezes positions
		if frozen && !slices.is_empty() {
			out.oracle_fail("pause_freezes", replay());
		}
		// C12: … and so does waiting for the start time of a resume_at ("resuming, immediately or at a start
		// time, continues every sound from exactly the frame where it froze": nothing below a track that is
		// WaitingToResume may be asked for a frame)
		if sc.waiting_above(m.track) && !slices.is_empty() {
			out.oracle_fail("waiting_freezes", replay());
		}
		// C02: every live sound of an advancing branch is asked for every frame exactly once, in order
		let must = m.played_before_cb <= cb
			&& !finished_before
			&& sc.all_alive_above(m.track)
			&& sc.never_paused_above(m.track);
		if must && slices != pattern {
			out.oracle_fail("each_frame_once", replay());
		}
		// C12: removal timing — a childless, non-persisting track dropped two callbacks ago is gone
		if sc.removed_above(m.track, cb) && !slices.is_empty() {
			out.oracle_fail("removed_track_still_processed", replay());
		}
		// C12 (b): a sound played on a persisting track whose handle was then dropped must still be heard
		if let Some(t) = m.track {
			let tm = &sc.trk[t];
			if tm.persist
				&& !tm.alive && m.played_before_cb <= cb
				&& !finished_before
				&& m.length.map(|n| n > 0).unwrap_or(true)
				&& tm.added_before_cb < m.played_before_cb
				&& sc.all_alive_above(tm.parent)
				&& sc.never_paused_above(Some(t))
				&& slices != pattern
			{
				out.oracle_fail("persist_track_lost_sound", replay());
			}
		}
		let blocked = finished_before || frozen || sc.removed_above(m.track, cb) || m.played_before_cb > cb;
		if !blocked {
			any_unblocked_source = true;
		}
	}
	// ---- effects
	for i in 0..sc.fx.len() {
		let (slices, osp, dts_ok): (Vec<usize>, usize, bool) = {
			let m = &sc.fx[i];
			let l = m.log.lock().unwrap();
			(
				l.slices[m.seen_slices..].to_vec(),
				l.on_start_processing - m.seen_osp,
				l.dts[m.seen_slices..].iter().all(|d| *d == dt_expected),
			)
		};
		{
			let m = &mut sc.fx[i];
			m.seen_slices += slices.len();
			m.seen_osp += osp;
		}
		if osp > 0 || !slices.is_empty() {
			rep.push(format!("f{}={}:{}", i, osp, slices.iter().map(|s| s.to_string()).collect::<Vec<_>>().join(",")));
		}
		let m = &sc.fx[i];
		if slices.iter().any(|&s| s > sc.ibs || s == 0) || !is_contiguous_sub(&slices, &pattern) || osp > 1 || !dts_ok {
			out.oracle_fail("probe_slices", replay());
		}
		let frozen = sc.frozen_above(m.track);
		if frozen && !slices.is_empty() {
			out.oracle_fail("pause_freezes", replay());
		}
		if sc.waiting_above(m.track) && !slices.is_empty() {
			out.oracle_fail("waiting_freezes", replay());
		}
		let owner_added = m.track.map(|t| sc.trk[t].added_before_cb <= cb).unwrap_or(true);
		let must = owner_added && sc.all_alive_above(m.track) && sc.never_paused_above(m.track) && m.track.is_some();
		if must && slices != pattern {
			out.oracle_fail("each_frame_once", replay());
		}
		if sc.removed_above(m.track, cb) && !slices.is_empty() {
			out.oracle_fail("removed_track_still_processed", replay());
		}
		let blocked = frozen || sc.removed_above(m.track, cb);
		if !blocked && (m.offset != 0.0 || m.feedback != 0.0) {
			any_unblocked_source = true;
		}
	}
	// ---- C02: exact silence when every source is finished, frozen or removed
	if !any_unblocked_source && samples.iter().any(|x| *x != 0.0) {
		out.oracle_fail("silent_branches", replay());
	}
	// ---- C02: channel layout — channels beyond the second are silent, everything within [-1, 1]
	for f in samples.chunks(ch as usize) {
		if f.iter().skip(2).any(|x| x.to_bits() != 0) || f.iter().any(|x| !(*x >= -1.0 && *x <= 1.0)) {
			out.oracle_fail("channel_layout", replay());
			break;
		}
	}
	// ---- C02: the documented signal-flow sum
	if let Some(detail) = flow_reference(sc, frames, ch, samples, &positions) {
		out.oracle_fail("signal_flow_sum", format!("{} {}", detail, replay()));
	}
	// ---- C12: what was observed now becomes the "before" of the next callback; live handles keep their tracks
	for (id, st) in now.iter() {
		let m = &mut sc.trk[*id];
		m.frozen = *st == Some(TrackPlaybackState::Paused);
		m.waiting = *st == Some(TrackPlaybackState::WaitingToResume);
		if let Some(st) = st {
			m.last_state = *st;
		}
	}
	let top_live = (0..sc.trk.len()).filter(|&t| sc.trk[t].parent.is_none() && sc.subtree_has_live_handle(t)).count();
	if sc.manager.num_sub_tracks() < top_live {
		out.oracle_fail("live_handle_track_removed", replay());
	}
	for (&id, h) in sc.tracks.iter() {
		let live_children =
			(0..sc.trk.len()).filter(|&t| sc.trk[t].parent == Some(id) && sc.subtree_has_live_handle(t)).count();
		if h.num_sub_tracks() < live_children {
			out.oracle_fail("live_handle_track_removed", replay());
		}
	}
	let _ = is_static;
	format!("{} ; {}", samples.iter().map(|x| h32(*x)).collect::<Vec<_>>().join(" "), rep.join(" "))
}

fn exec_case(case: &[String], var: &Variant, out: &mut Out) -> Option<Scene> {
	let is_static = case[0].split_whitespace().any(|t| t == "static");
	let mut ex = Exec {
		scene: None,
		var,
		is_static,
		rng: Rng::new(var.partition.unwrap_or(0) ^ 0x5eed),
		history: vec![],
	};
	if var.main {
		out.put(case[0].clone());
	}
	for l in &case[1..] {
		let s = ex.op(l, out);
		if var.main {
			out.put(s);
		}
	}
	ex.scene
}

fn mute_even(i: usize) -> bool {
	i % 2 == 0
}
fn mute_odd(i: usize) -> bool {
	i % 2 == 1
}

/// compare two renderings frame by frame; `None` = equal
fn stream_diff(a: &Scene, b: &Scene) -> Option<usize> {
	if a.stream.len() != b.stream.len() {
		return Some(a.stream.len().min(b.stream.len()));
	}
	for i in 0..a.stream.len() {
		let (x, y) = (a.stream[i], b.stream[i]);
		let same = if x.2 || y.2 {
			// a mono device frame is the mean of the clamped channels
			let mx = if x.2 { x.0 } else { (x.0 + x.1) / 2.0 };
			let my = if y.2 { y.0 } else { (y.0 + y.1) / 2.0 };
			mx.to_bits() == my.to_bits()
		} else {
			x.0.to_bits() == y.0.to_bits() && x.1.to_bits() == y.1.to_bits()
		};
		if !same {
			return Some(i);
		}
	}
	None
}

/// which property's oracles are reported (the three suites share ops, interpreter and twin)
#[derive(Clone, Copy, PartialEq)]
pub enum Mode {
	/// suite `mixer` (C02)
	Flow,
	/// suite `mixtrk` (C12)
	Tracks,
	/// suite `mixpart` (C11)
	Partition,
}
fn oracle_wanted(mode: Mode, line: &str) -> bool {
	let name = line.split_whitespace().nth(1).unwrap_or("");
	match mode {
		Mode::Flow => matches!(
			name,
			"probe_slices" | "each_frame_once" | "silent_branches" | "channel_layout" | "superposition" | "signal_flow_sum"
		),
		Mode::Tracks => matches!(
			name,
			"pause_freezes"
				| "removed_track_still_processed"
				| "persist_track_lost_sound"
				| "state_panics" | "live_handle_track_removed"
				| "waiting_freezes" | "pause_is_final_until_resume"
		),
		Mode::Partition => matches!(name, "buffer_size_invariance" | "probe_slices"),
	}
}

pub fn run(ops: &[String], mode: Mode) -> Vec<String> {
	let lines = run_cases(ops, None, move |case: &[String], out: &mut Out| {
		let tags: Vec<&str> = case[0].split_whitespace().collect();
		let is_static = tags.contains(&"static");
		let is_linear = tags.contains(&"linear");
		let main = Variant { main: true, ..Default::default() };
		let base = exec_case(case, &main, out);
		let replay = format!("seq {}", case[1..].join(" | "));
		let Some(base) = base else { return };
		// ---- C11: the same scene with other buffer sizes / callback partitions / channel counts
		if is_static && mode == Mode::Partition {
			let seed = base.stream.len() as u64 * 7919 + case.len() as u64;
			let mut vr = Rng::new(seed);
			for k in 0..3 {
				let v = Variant {
					ibs: Some(match k {
						0 => 1,
						1 => 1 + vr.below(7) as usize,
						_ => 64,
					}),
					partition: if k == 1 || vr.chance(1, 2) { Some(vr.next()) } else { None },
					channels: match vr.below(4) {
						0 => Some(1),
						1 => Some(2),
						2 => Some(2 + vr.below(7) as u16),
						_ => None,
					},
					mute: None,
					main: false,
				};
				let mut sink = Out::new();
				if let Some(other) = exec_case(case, &v, &mut sink) {
					if let Some(i) = stream_diff(&base, &other) {
						out.oracle_fail(
							"buffer_size_invariance",
							format!("frame={} ibs={:?} partition={:?} channels={:?} {}", i, v.ibs, v.partition, v.channels, replay),
						);
					}
				}
			}
		}
		// ---- C02: superposition on exactly representable signals (all effects linear, unit or zero gains)
		if is_linear && mode == Mode::Flow {
			let mut sink = Out::new();
			let a = exec_case(case, &Variant { mute: Some(mute_even), ..Default::default() }, &mut sink);
			let b = exec_case(case, &Variant { mute: Some(mute_odd), ..Default::default() }, &mut sink);
			if let (Some(a), Some(b)) = (a, b) {
				if !base.clamped && !a.clamped && !b.clamped && a.stream.len() == base.stream.len() && b.stream.len() == base.stream.len() {
					for i in 0..base.stream.len() {
						let (s, x, y) = (base.stream[i], a.stream[i], b.stream[i]);
						// (mono frames are (l + r) / 2 of exact values: still exact)
						if s.0 != x.0 + y.0 || s.1 != x.1 + y.1 {
							out.oracle_fail("superposition", format!("frame={} {}", i, replay));
							break;
						}
					}
				}
			}
		}
	});
	if std::env::var_os("KV_FLOWSTAT").is_some() {
		eprintln!(
			"flow reference evaluated on {} of {} callbacks",
			FLOW_EVALUATED.load(std::sync::atomic::Ordering::Relaxed),
			FLOW_CALLBACKS.load(std::sync::atomic::Ordering::Relaxed)
		);
	}
	lines.into_iter().filter(|l| !l.starts_with("!oracle") || oracle_wanted(mode, l)).collect()
}

// ---------------------------------------------------------------------------------------------
// generator
// ---------------------------------------------------------------------------------------------

struct GTrack {
	parent: Option<usize>,
	alive: bool,
	persist: bool,
	sends: Vec<usize>,
	/// a callback has run since it was added
	picked: bool,
}
struct Gen<'a> {
	rng: &'a mut Rng,
	out: Vec<String>,
	tracks: Vec<GTrack>,
	n_sends: usize,
	sends_alive: Vec<bool>,
	sends_picked: Vec<bool>,
	n_clocks: usize,
	clocks_alive: Vec<bool>,
	n_sounds: usize,
	n_fx: usize,
	is_static: bool,
	is_linear: bool,
	frames_total: usize,
	acc_used: bool,
}

const DB_POOL: [f32; 10] = [0.0, 0.0, 0.0, -6.0, -60.0, -3.0, 6.0, -12.5, -100.0, -59.9];

impl<'a> Gen<'a> {
	fn db(&mut self) -> f32 {
		if self.is_linear {
			self.rng.pick(&[0.0f32, 0.0, 0.0, 0.0, -60.0, -100.0])
		} else if self.rng.chance(1, 5) {
			self.rng.uniform(-70.0, 8.0) as f32
		} else {
			self.rng.pick(&DB_POOL)
		}
	}
	fn fx(&mut self, max: u64) -> String {
		let mut budget = max;
		if self.is_linear {
			budget = budget.min(4u64.saturating_sub(self.n_fx as u64));
		}
		let n = if budget == 0 { 0 } else { self.rng.below(budget + 1) };
		if n == 0 {
			return "-".into();
		}
		let mut v = vec![];
		for _ in 0..n {
			let (g, o, f) = if self.is_linear {
				let fb = if !self.acc_used && self.rng.chance(1, 3) {
					self.acc_used = true;
					self.rng.pick(&[1.0f32, -1.0])
				} else {
					0.0
				};
				(self.rng.pick(&[1.0f32, -1.0, 2.0, 0.5, 1.0]), 0.0, fb)
			} else {
				(
					self.rng.pick(&[1.0f32, 0.5, -1.0, 2.0, 0.25, 0.75, 0.0, 1.5]),
					self.rng.pick(&[0.0f32, 0.0, 0.0, 0.125, -0.25, 0.01]),
					self.rng.pick(&[0.0f32, 0.0, 0.5, -0.5, 0.25, 0.9]),
				)
			};
			self.n_fx += 1;
			v.push(format!("{},{},{}", o32(g), o32(o), o32(f)));
		}
		v.join(";")
	}
	fn tween(&mut self) -> String {
		format!("{};{};{}", self.start(), gen_duration_ns(self.rng), fmt_easing(&gen_easing(self.rng)))
	}
	fn start(&mut self) -> String {
		match self.rng.below(10) {
			0..=5 => "imm".into(),
			6 => "del:0".into(),
			7 => format!("del:{}", self.rng.below(400_000_000)),
			_ => {
				if self.n_clocks == 0 {
					"imm".into()
				} else {
					format!(
						"clk:{}:{}:{}",
						self.rng.below(self.n_clocks as u64),
						self.rng.below(4),
						o64(self.rng.pick(&[0.0, 0.5, 0.25, 0.999]))
					)
				}
			}
		}
	}
	fn live_tracks(&self) -> Vec<usize> {
		(0..self.tracks.len()).filter(|&t| self.tracks[t].alive).collect()
	}
	fn depth(&self, t: usize) -> usize {
		let mut d = 1;
		let mut cur = self.tracks[t].parent;
		while let Some(p) = cur {
			d += 1;
			cur = self.tracks[p].parent;
		}
		d
	}
	fn add_send(&mut self) {
		if self.n_sends >= 4 {
			return;
		}
		let db = self.db();
		let fx = self.fx(2);
		self.out.push(format!("send.add {} {}", o32(db), fx));
		self.n_sends += 1;
		self.sends_alive.push(true);
		self.sends_picked.push(false);
	}
	fn add_track(&mut self) {
		if self.tracks.len() >= 10 {
			return;
		}
		let live = self.live_tracks();
		let parent = if live.is_empty() || self.rng.chance(2, 5) {
			None
		} else {
			let p = self.rng.pick(&live);
			if self.depth(p) >= 4 {
				None
			} else {
				Some(p)
			}
		};
		let db = self.db();
		let persist = if self.is_static { false } else { self.rng.chance(1, 4) };
		let fx = self.fx(2);
		let mut sends = vec![];
		let mut used = vec![];
		if self.n_sends > 0 {
			for _ in 0..self.rng.below(3) {
				let s = self.rng.below(self.n_sends as u64) as usize;
				if !used.contains(&s) {
					used.push(s);
					let sdb = self.db();
					sends.push(format!("s{}:{}", s, o32(sdb)));
				}
			}
		}
		let sl = if sends.is_empty() { "-".to_string() } else { sends.join(";") };
		self.out.push(format!(
			"track.add {} {} {} {} {}",
			parent.map(|p| format!("t{}", p)).unwrap_or("m".into()),
			o32(db),
			persist as u8,
			fx,
			sl
		));
		self.tracks.push(GTrack { parent, alive: true, persist, sends: used, picked: false });
	}
	fn play(&mut self) {
		if self.is_linear && self.n_sounds >= 4 {
			return;
		}
		if self.n_sounds >= 12 {
			return;
		}
		let live = self.live_tracks();
		let wher = if live.is_empty() || self.rng.chance(1, 5) { "m".to_string() } else { format!("t{}", self.rng.pick(&live)) };
		let sig = if self.is_linear {
			if self.rng.chance(2, 3) {
				format!("idx:{}", o32(self.rng.below(9) as f32))
			} else {
				let v = self.rng.below(9) as f32 - 4.0;
				format!("const:{}:{}", o32(v), o32(self.rng.below(5) as f32))
			}
		} else {
			match self.rng.below(4) {
				0 => format!("idx:{}", o32(self.rng.below(5) as f32)),
				1 => format!("idx:{}", o32(self.rng.pick(&[0.001f32, -0.5, 0.0078125, 0.1]))),
				2 => format!("const:{}:{}", o32(self.rng.pick(&[0.25f32, -0.125, 1.0, 0.3])), o32(self.rng.pick(&[0.25f32, 0.5, -1.0, 0.7]))),
				_ => format!("const:{}:{}", o32(self.rng.uniform(-1.0, 1.0) as f32), o32(self.rng.uniform(-1.0, 1.0) as f32)),
			}
		};
		let len = match self.rng.below(5) {
			0 => "inf".to_string(),
			1 => format!("{}", self.rng.below(3)),
			_ => format!("{}", self.rng.below(40)),
		};
		self.out.push(format!("play {} {} {}", wher, sig, len));
		self.n_sounds += 1;
	}
	fn cb(&mut self, ibs: usize) {
		let max_total = if self.is_linear { 32 } else { 400 };
		if self.frames_total >= max_total {
			return;
		}
		let frames = match self.rng.below(8) {
			0 => 0,
			1 => 1,
			2 => ibs,
			3 => ibs + 1,
			4 => 2 * ibs,
			5 => (3 * ibs).saturating_sub(1),
			_ => self.rng.below(24) as usize,
		}
		.min(max_total - self.frames_total)
		.min(48);
		let ch = match self.rng.below(6) {
			0 => 1,
			1 | 2 | 3 => 2,
			_ => 3 + self.rng.below(6),
		};
		self.frames_total += frames;
		for t in self.tracks.iter_mut() {
			t.picked = true;
		}
		for p in self.sends_picked.iter_mut() {
			*p = true;
		}
		self.out.push(format!("cb {} {}", frames, ch));
	}
}

/// A directed family for C02's "fixed or tweened volumes" on histories with a pause: a chain of tracks with
/// memoryless probe effects (optionally routed to a send track) at a low sample rate, one track of the chain is
/// paused, its volume / a route volume is changed while it is paused (or the pause arrives while such a tween
/// runs), enough audio time passes for the tween to be over, the track is resumed and, once it is playing
/// again, rendered some more. All sizes, levels, durations and the split into callbacks are random.
fn gen_volume_during_pause(rng: &mut Rng, k: usize, stats: &mut Stats) -> Vec<String> {
	stats.hit("case_volume_during_pause");
	let mut out = vec![format!("case {}", k)];
	let ibs = rng.pick(&[1usize, 2, 3, 4, 8, 16]);
	let sr = rng.pick(&[100u64, 1000]);
	let ns = |frames: u64| frames * (1_000_000_000 / sr);
	let db = |rng: &mut Rng| -> f32 {
		if rng.chance(1, 4) {
			rng.uniform(-30.0, 6.0) as f32
		} else {
			rng.pick(&[0.0f32, -6.0, -3.0, 6.0, -12.5, 0.0, -20.0])
		}
	};
	let fx = |rng: &mut Rng| -> String {
		let n = rng.below(3);
		if n == 0 {
			return "-".into();
		}
		(0..n)
			.map(|_| {
				format!(
					"{},{},{}",
					o32(rng.pick(&[1.0f32, 0.5, -1.0, 2.0, 0.25, 0.75, 1.5])),
					o32(rng.pick(&[0.0f32, 0.0, 0.0, 0.125, -0.25, 0.01])),
					o32(0.0)
				)
			})
			.collect::<Vec<_>>()
			.join(";")
	};
	let tween = |rng: &mut Rng, delay: u64, frames: u64| -> String {
		let start = if delay == 0 {
			rng.pick(&["imm", "imm", "del:0"]).to_string()
		} else {
			format!("del:{}", ns(delay))
		};
		format!("{};{};{}", start, ns(frames), fmt_easing(&gen_easing(rng)))
	};
	let cbs = |rng: &mut Rng, out: &mut Vec<String>, mut frames: u64| {
		while frames > 0 {
			let n = (1 + rng.below(40)).min(frames);
			let ch = match rng.below(4) {
				0 => 1,
				1 | 2 => 2,
				_ => 3 + rng.below(4),
			};
			out.push(format!("cb {} {}", n, ch));
			frames -= n;
		}
	};
	let main_db = db(rng);
	out.push(format!("init {} {} {} {}", ibs, sr, o32(main_db), fx(rng)));
	let has_send = rng.chance(2, 3);
	if has_send {
		let d = db(rng);
		out.push(format!("send.add {} {}", o32(d), fx(rng)));
	}
	let depth = 1 + rng.below(3) as usize;
	let mut routed = vec![];
	for t in 0..depth {
		let d = db(rng);
		let route = has_send && rng.chance(1, 2);
		let sends = if route { format!("s0:{}", o32(db(rng))) } else { "-".into() };
		routed.push(route);
		let f = fx(rng);
		out.push(format!(
			"track.add {} {} 0 {} {}",
			if t == 0 { "m".to_string() } else { format!("t{}", t - 1) },
			o32(d),
			f,
			sends
		));
	}
	for _ in 0..1 + rng.below(2) {
		let t = rng.below(depth as u64);
		let sig = if rng.chance(1, 2) {
			format!("const:{}:{}", o32(rng.uniform(-0.4, 0.4) as f32), o32(rng.uniform(-0.4, 0.4) as f32))
		} else {
			format!("idx:{}", o32(rng.pick(&[0.001f32, 0.0078125, -0.5, 0.1])))
		};
		out.push(format!("play t{} {} inf", t, sig));
	}
	let n = 1 + rng.below(2 * ibs as u64 + 2);
	cbs(rng, &mut out, n);
	let x = rng.below(depth as u64) as usize;
	// the volume change(s): a track volume or a route volume of the paused track
	let (v_delay, v_frames) = (if rng.chance(1, 3) { rng.below(6) } else { 0 }, 8 + rng.below(40));
	let change = |rng: &mut Rng, out: &mut Vec<String>| {
		let d = db(rng);
		if routed[x] && rng.chance(1, 2) {
			out.push(format!("track.send t{} s0 {} {}", x, o32(d), tween(rng, v_delay, v_frames)));
		} else {
			out.push(format!("track.vol t{} {} {}", x, o32(d), tween(rng, v_delay, v_frames)));
		}
	};
	let (p_delay, p_frames) = (if rng.chance(1, 4) { rng.below(4) } else { 0 }, rng.below(12));
	let slack = ibs as u64 + 2;
	if rng.chance(1, 3) {
		// the pause arrives while the tween runs
		change(rng, &mut out);
		let n = 1 + rng.below(v_frames / 2);
		cbs(rng, &mut out, n);
		out.push(format!("track.pause t{} {}", x, tween(rng, p_delay, p_frames)));
	} else {
		out.push(format!("track.pause t{} {}", x, tween(rng, p_delay, p_frames)));
		let n = p_delay + p_frames + slack + rng.below(4);
		cbs(rng, &mut out, n);
		change(rng, &mut out);
		if rng.chance(1, 4) {
			change(rng, &mut out);
		}
	}
	// audio time for the tween to be over while the track is paused (sometimes not quite)
	let wait = v_delay + v_frames + p_delay + p_frames + 2 * slack;
	let n = if rng.chance(1, 6) { rng.below(wait) + 1 } else { wait + rng.below(6) };
	cbs(rng, &mut out, n);
	out.push("q".into());
	let r_frames = rng.below(5);
	out.push(format!("track.resume t{} imm {}", x, tween(rng, 0, r_frames)));
	cbs(rng, &mut out, r_frames + slack);
	let n = 2 + rng.below(2 * ibs as u64 + 6);
	cbs(rng, &mut out, n);
	let n = 1 + rng.below(ibs as u64 + 3);
	cbs(rng, &mut out, n);
	out.push("q".into());
	for l in &out[1..] {
		stats.hit(l.split(' ').next().unwrap());
	}
	out
}

fn gen_case(rng: &mut Rng, k: usize, mode: Mode, stats: &mut Stats) -> Vec<String> {
	let kind = rng.below(10);
	if mode == Mode::Flow && kind >= 4 && rng.chance(1, 6) {
		return gen_volume_during_pause(rng, k, stats);
	}
	let (is_static, is_linear) = match mode {
		Mode::Flow => match kind {
			0 | 1 | 2 | 3 => (true, true),
			_ => (false, false),
		},
		Mode::Tracks => (false, false),
		Mode::Partition => (true, kind < 2),
	};
	stats.hit(if is_linear { "case_linear" } else if is_static { "case_static" } else { "case_general" });
	let mut g = Gen {
		rng,
		out: vec![],
		tracks: vec![],
		n_sends: 0,
		sends_alive: vec![],
		sends_picked: vec![],
		n_clocks: 0,
		clocks_alive: vec![],
		n_sounds: 0,
		n_fx: 0,
		is_static,
		is_linear,
		frames_total: 0,
		acc_used: false,
	};
	let mut tag = String::new();
	if is_static {
		tag += " static";
	}
	if is_linear {
		tag += " linear";
	}
	g.out.push(format!("case {}{}", k, tag));
	let ibs = match g.rng.below(8) {
		0 => 1,
		1 => 2,
		2 => 3,
		3 => 4,
		4 => 8,
		5 => 16,
		6 => 1 + g.rng.below(12) as usize,
		_ => 128,
	};
	let sr = g.rng.pick(&[100u32, 1000, 44100, 48000, 8000]);
	let main_db = g.db();
	let main_fx = if is_linear {
		// the last main effect scales everything far below the clamp
		g.n_fx += 1;
		format!("{},{},{}", o32(2.0f32.powi(-20)), o32(0.0), o32(0.0))
	} else {
		g.fx(2)
	};
	g.out.push(format!("init {} {} {} {}", ibs, sr, o32(if is_linear { 0.0 } else { main_db }), main_fx));
	// scene
	for _ in 0..g.rng.below(3) {
		g.add_send();
	}
	for _ in 0..g.rng.below(5) {
		g.add_track();
	}
	for _ in 0..g.rng.below(4) {
		g.play();
	}
	let steps = g.rng.range(4, 22);
	for _ in 0..steps {
		let mut r = g.rng.below(if is_static { 9 } else { 20 });
		if mode == Mode::Tracks && r < 9 && g.rng.chance(1, 3) {
			// more pause / resume / drop / clock histories
			r = g.rng.pick(&[5, 5, 9, 10, 11, 12, 17, 18, 19, 0]);
		}
		match r {
			0 | 1 | 2 => g.cb(ibs),
			3 => g.play(),
			4 => g.add_track(),
			5 => {
				// drop a track handle (static cases: only tracks the audio thread has already picked up — a
				// handle dropped while its track is still in the ring is a command in flight)
				let live: Vec<usize> =
					g.live_tracks().into_iter().filter(|&t| !g.is_static || g.tracks[t].picked).collect();
				if !live.is_empty() {
					let t = g.rng.pick(&live);
					g.tracks[t].alive = false;
					g.out.push(format!("track.drop t{}", t));
				}
			}
			6 => g.out.push("q".into()),
			7 => {
				if g.rng.chance(1, 3) {
					g.add_send()
				} else {
					g.cb(ibs)
				}
			}
			8 => {
				let live: Vec<usize> =
					(0..g.n_sends).filter(|&s| g.sends_alive[s] && (!g.is_static || g.sends_picked[s])).collect();
				if !live.is_empty() && g.rng.chance(1, 2) {
					let s = g.rng.pick(&live);
					g.sends_alive[s] = false;
					g.out.push(format!("send.drop s{}", s));
				} else {
					g.cb(ibs)
				}
			}
			9 | 10 => {
				let live = g.live_tracks();
				if !live.is_empty() {
					let t = g.rng.pick(&live);
					let tw = g.tween();
					g.out.push(format!("track.pause t{} {}", t, tw));
				}
			}
			11 | 12 => {
				let live = g.live_tracks();
				if !live.is_empty() {
					let t = g.rng.pick(&live);
					let st = g.start();
					let tw = g.tween();
					g.out.push(format!("track.resume t{} {} {}", t, st, tw));
				}
			}
			13 => {
				let live = g.live_tracks();
				if !live.is_empty() {
					let t = g.rng.pick(&live);
					let db = g.db();
					let tw = g.tween();
					g.out.push(format!("track.vol t{} {} {}", t, o32(db), tw));
				}
			}
			14 => {
				let live: Vec<usize> = g.live_tracks().into_iter().filter(|&t| !g.tracks[t].sends.is_empty()).collect();
				if !live.is_empty() {
					let t = g.rng.pick(&live);
					let s = g.rng.pick(&g.tracks[t].sends.clone());
					let db = g.db();
					let tw = g.tween();
					g.out.push(format!("track.send t{} s{} {} {}", t, s, o32(db), tw));
				}
			}
			15 => {
				let db = g.db();
				let tw = g.tween();
				g.out.push(format!("main.vol {} {}", o32(db), tw));
			}
			16 => {
				let live: Vec<usize> = (0..g.n_sends).filter(|&s| g.sends_alive[s]).collect();
				if !live.is_empty() {
					let s = g.rng.pick(&live);
					let db = g.db();
					let tw = g.tween();
					g.out.push(format!("send.vol s{} {} {}", s, o32(db), tw));
				}
			}
			17 => {
				if g.n_clocks < 3 {
					let tps = g.rng.pick(&[1.0, 10.0, 100.0, 1000.0, 33.3]);
					g.out.push(format!("clock.add {}", o64(tps)));
					g.n_clocks += 1;
					g.clocks_alive.push(true);
				}
			}
			18 => {
				let live: Vec<usize> = (0..g.n_clocks).filter(|&c| g.clocks_alive[c]).collect();
				if !live.is_empty() {
					let c = g.rng.pick(&live);
					let what = g.rng.pick(&["clock.start", "clock.start", "clock.stop"]);
					g.out.push(format!("{} c{}", what, c));
				}
			}
			_ => {
				let live: Vec<usize> = (0..g.n_clocks).filter(|&c| g.clocks_alive[c]).collect();
				if !live.is_empty() && g.rng.chance(1, 2) {
					let c = g.rng.pick(&live);
					g.clocks_alive[c] = false;
					g.out.push(format!("clock.drop c{}", c));
				}
			}
		}
	}
	g.cb(ibs);
	g.out.push("q".into());
	let _ = (&g.tracks.iter().map(|t| t.persist).count(),);
	for l in &g.out[1..] {
		stats.hit(l.split(' ').next().unwrap());
	}
	g.out
}

/// the histories behind the C12 findings (repaired in kira: regression cases), generated in every run
fn scripted(k: usize, which: usize) -> Vec<String> {
	let z = o32(0.0);
	let tw0 = "imm;0;lin";
	match which {
		// (a) resume_at(clock time) on a clock that is then dropped
		0 => vec![
			format!("case {}", k),
			format!("init 4 100 {} -", z),
			format!("clock.add {}", o64(10.0)),
			format!("track.add m {} 0 - -", z),
			format!("play t0 idx:{} inf", o32(0.0)),
			"cb 4 2".into(),
			format!("track.pause t0 {}", tw0),
			"cb 4 2".into(),
			format!("track.resume t0 clk:0:2:{} {}", o64(0.0), tw0),
			"cb 4 2".into(),
			"q".into(),
			"clock.drop c0".into(),
			"cb 4 2".into(),
			"q".into(),
			// repaired: the track is Paused, not dead — a plain resume is obeyed
			format!("track.resume t0 imm {}", tw0),
			"cb 4 2".into(),
			"q".into(),
		],
		// (b) persisting track, play then drop the handle before the next callback
		1 => vec![
			format!("case {}", k),
			format!("init 4 100 {} -", z),
			format!("track.add m {} 1 - -", z),
			"cb 4 2".into(),
			format!("play t0 const:{}:{} 6", o32(0.25), o32(0.5)),
			"track.drop t0".into(),
			"cb 4 2".into(),
			"q".into(),
			"cb 4 2".into(),
		],
		// (c) parent picked up, add a child through its handle, drop the parent's handle before the next callback
		_ => vec![
			format!("case {}", k),
			format!("init 4 100 {} -", z),
			format!("track.add m {} 0 - -", z),
			"cb 4 2".into(),
			format!("track.add t0 {} 0 - -", z),
			format!("play t1 const:{}:{} inf", o32(0.25), o32(0.5)),
			"track.drop t0".into(),
			"cb 4 2".into(),
			"q".into(),
			"cb 4 2".into(),
			"q".into(),
		],
	}
}

pub fn gen(rng: &mut Rng, n: usize, _thorough: bool, stats: &mut Stats, mode: Mode) -> Vec<String> {
	let mut out = vec![];
	for k in 0..n {
		if k < 3 && mode == Mode::Tracks {
			stats.hit("case_scripted");
			out.extend(scripted(k, k));
		} else {
			out.extend(gen_case(rng, k, mode, stats));
		}
	}
	out
}
