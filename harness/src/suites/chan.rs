//! Suite `chan` (C07): real `kira::command::command_writer_and_reader` pairs.
//!
//! ops:  new <K>                      K channels of `[u64; 4]` (all four words equal: a torn value would show)
//!       w <k> <v>   r <k>            whole-operation write / read on the calling thread
//!       par <script> <w:k:v,…|-> <r:k,…|->
//!                                    writes on a gameplay thread, reads on an audio thread, interleaved at the
//!                                    yield sites `command.write` / `command.read` as the script says
//!       stress <k> <base> <n>        unscheduled race of a writer (base+1 … base+n) and a reader on two threads
//! Values are sequence numbers (strictly increasing within a case).
//! Oracles: values read strictly increase; a read returns the last completed write (the earlier ones of a
//! burst are never seen); nothing is read twice; nothing written is lost; no torn value.
use crate::runner::{run_cases, Out};
use crate::sched;
use crate::util::*;
use kira::command::{command_writer_and_reader, CommandReader, CommandWriter};
use std::time::Duration;

type Val = [u64; 4];
const SITES: [&str; 2] = ["command.write", "command.read"];

pub fn gen(rng: &mut Rng, n: usize, thorough: bool, stats: &mut Stats) -> Vec<String> {
	let mut out = vec![];
	for case in 0..n {
		out.push(format!("case {}", case));
		let k = 1 + rng.below(3);
		out.push(format!("new {}", k));
		let mut seq = 0u64;
		let nops = 4 + rng.below(if thorough { 40 } else { 22 });
		for _ in 0..nops {
			match rng.below(12) {
				0..=3 => {
					seq += 1;
					out.push(format!("w {} {}", rng.below(k), seq));
					stats.hit("w");
				}
				4..=6 => {
					out.push(format!("r {}", rng.below(k)));
					stats.hit("r");
				}
				7 => {
					// a burst then two reads
					let ch = rng.below(k);
					for _ in 0..(2 + rng.below(4)) {
						seq += 1;
						out.push(format!("w {} {}", ch, seq));
					}
					out.push(format!("r {}", ch));
					out.push(format!("r {}", ch));
					stats.hit("burst");
				}
				8..=10 => {
					let ng = rng.below(5);
					let na = rng.below(5);
					let mut g = vec![];
					for _ in 0..ng {
						seq += 1;
						// bias towards one channel so that writes race the reads
						let ch = if rng.chance(2, 3) { 0 } else { rng.below(k) };
						g.push(format!("w:{}:{}", ch, seq));
					}
					let mut a = vec![];
					for _ in 0..na {
						let ch = if rng.chance(2, 3) { 0 } else { rng.below(k) };
						a.push(format!("r:{}", ch));
					}
					let len = rng.below(ng + na + 4);
					let script: String = (0..len).map(|_| if rng.chance(1, 2) { 'g' } else { 'a' }).collect();
					let j = |v: Vec<String>| if v.is_empty() { "-".to_string() } else { v.join(",") };
					out.push(format!(
						"par {} {} {}",
						if script.is_empty() { "-".to_string() } else { script },
						j(g),
						j(a)
					));
					stats.hit("par");
				}
				_ if !thorough && !rng.chance(1, 4) => {
					seq += 1;
					out.push(format!("w {} {}", rng.below(k), seq));
					stats.hit("w");
				}
				_ => {
					let cnt = if thorough { 1 + rng.below(400) } else { 1 + rng.below(150) };
					out.push(format!("stress {} {} {}", rng.below(k), seq, cnt));
					seq += cnt;
					stats.hit("stress");
				}
			}
		}
	}
	out
}

struct Chan {
	w: CommandWriter<Val>,
	r: CommandReader<Val>,
	last_written: u64,
	last_read: u64,
}

fn show(v: Option<Val>) -> String {
	match v {
		Some(v) => format!("some:{}", v[0]),
		None => "none".into(),
	}
}

fn check_untorn(v: &Option<Val>, line: &str, out: &mut Vec<String>) {
	if let Some(v) = v {
		if !(v[0] == v[1] && v[1] == v[2] && v[2] == v[3]) {
			out.push(format!("!oracle torn_read {}", line));
		}
	}
}

pub fn run(ops: &[String]) -> Vec<String> {
	run_cases(ops, Some(Duration::from_secs(60)), |case, out| {
		let mut chans: Vec<Chan> = vec![];
		crate::seqop::drive(case, out, &mut chans, |chans, line, detail, out| op(chans, line, detail, out));
	})
}

fn op(chans: &mut Vec<Chan>, line: &str, detail: &str, out: &mut Out) -> String {
	let tok: Vec<&str> = line.split_whitespace().collect();
	match tok[0] {
		"new" => {
			*chans = (0..pu(tok[1]))
				.map(|_| {
					let (w, r) = command_writer_and_reader::<Val>();
					Chan {
						w,
						r,
						last_written: 0,
						last_read: 0,
					}
				})
				.collect();
			"ok".into()
		}
		"w" => {
			let c = &mut chans[pu(tok[1]) as usize];
			let v = pu(tok[2]);
			c.w.write([v; 4]);
			c.last_written = v;
			"ok".into()
		}
		"r" => {
			let c = &mut chans[pu(tok[1]) as usize];
			let got = c.r.read();
			check_untorn(&got, detail, &mut out.oracle);
			match got {
				Some(v) => {
					if v[0] <= c.last_read {
						out.oracle_fail("read_not_increasing", detail);
					}
					if v[0] != c.last_written {
						out.oracle_fail("not_last_write", detail);
					}
					c.last_read = v[0];
				}
				None => {
					if c.last_written > c.last_read {
						out.oracle_fail("write_lost", detail);
					}
				}
			}
			show(got)
		}
		"par" => {
			let script = sched::parse_script(tok[1]);
			let parse = |s: &str| -> Vec<(usize, u64)> {
				if s == "-" {
					return vec![];
				}
				s.split(',')
					.map(|o| {
						let p: Vec<&str> = o.split(':').collect();
						(pu(p[1]) as usize, if p.len() > 2 { pu(p[2]) } else { 0 })
					})
					.collect()
			};
			let gops = parse(tok[2]);
			let aops = parse(tok[3]);
			// split the channel ends between the two threads
			let mut ws: Vec<&mut CommandWriter<Val>> = vec![];
			let mut rs: Vec<&mut CommandReader<Val>> = vec![];
			for c in chans.iter_mut() {
				ws.push(&mut c.w);
				rs.push(&mut c.r);
			}
			let (rg, ra) = sched::run2(
				&script,
				&SITES,
				move || {
					let mut last = vec![0u64; ws.len()];
					for (k, v) in &gops {
						ws[*k].write([*v; 4]);
						last[*k] = *v;
					}
					last
				},
				move || {
					let mut got = vec![];
					for (k, _) in &aops {
						got.push((*k, rs[*k].read()));
					}
					got
				},
			);
			let last = match rg {
				Ok(l) => l,
				Err(m) => panic!("{}", m),
			};
			let got = match ra {
				Ok(g) => g,
				Err(m) => panic!("{}", m),
			};
			for (k, c) in chans.iter_mut().enumerate() {
				if last[k] != 0 {
					c.last_written = last[k];
				}
			}
			for (k, v) in &got {
				check_untorn(v, detail, &mut out.oracle);
				if let Some(v) = v {
					let c = &mut chans[*k];
					if v[0] <= c.last_read {
						out.oracle_fail("read_not_increasing", detail);
					}
					if v[0] > c.last_written {
						out.oracle_fail("read_never_written", detail);
					}
					c.last_read = v[0];
				}
			}
			let strs: Vec<String> = got.iter().map(|(_, v)| show(*v)).collect();
			format!("par {}", if strs.is_empty() { "-".to_string() } else { strs.join(",") })
		}
		"stress" => {
			let k = pu(tok[1]) as usize;
			let base = pu(tok[2]);
			let n = pu(tok[3]);
			let c = &mut chans[k];
			let start_last_read = c.last_read;
			let w = &mut c.w;
			let r = &mut c.r;
			let done = std::sync::atomic::AtomicBool::new(false);
			let barrier = std::sync::Barrier::new(2);
			let reads: Vec<Val> = std::thread::scope(|sc| {
				let done = &done;
				let barrier = &barrier;
				let hw = sc.spawn(move || {
					barrier.wait();
					for i in 1..=n {
						w.write([base + i; 4]);
						if i % 64 == 0 {
							std::hint::spin_loop();
						}
					}
					done.store(true, std::sync::atomic::Ordering::SeqCst);
				});
				let hr = sc.spawn(move || {
					let mut got = vec![];
					barrier.wait();
					loop {
						let fin = done.load(std::sync::atomic::Ordering::SeqCst);
						if let Some(v) = r.read() {
							got.push(v);
						}
						if fin {
							// one more read after the writer has finished drains the channel
							if let Some(v) = r.read() {
								got.push(v);
							}
							break;
						}
					}
					got
				});
				hw.join().unwrap();
				hr.join().unwrap()
			});
			let mut prev = start_last_read;
			for v in &reads {
				if !(v[0] == v[1] && v[1] == v[2] && v[2] == v[3]) {
					out.oracle_fail("torn_read", detail);
				}
				if v[0] <= prev {
					out.oracle_fail("read_not_increasing", detail);
				}
				if v[0] > base + n {
					out.oracle_fail("read_never_written", detail);
				}
				prev = v[0];
			}
			if prev != base + n {
				out.oracle_fail("write_lost", detail);
			}
			c.last_written = base + n;
			c.last_read = prev;
			"ok".into()
		}
		_ => "bad-op".into(),
	}
}
