//! Suites `static` (C03, C04) and `static_ood` (C04): `StaticSoundData` → `SoundData::into_sound()` →
//! `Box<dyn Sound>` + `StaticSoundHandle`, driven through the public API with `MockInfoBuilder`.
//!
//! ops:  info.clocks … / info.mods …                         (as in suite `param`)
//!       new <sample rate> <len> <coding> <slice> <start time> <start position> <loop region> <reverse>
//!           <volume value> <rate value> <panning value> <fade-in tween|none>
//!       start                  — `on_start_processing()`
//!       proc <len> <dt>        — `process(&mut [Frame; len], dt, &info)`
//!       vol|rate|pan <value> <tween>   loop <region>   pause <tween>   resume <start> <tween>   stop <tween>
//!       seekto <f64>   seekby <f64>                         (handle methods)
//! coding: idx (frame k = (k+1, k+1)) | lr (frame k = (k+1, -(k+1))) | dc=<f32 bits> | rnd=<seed>
//! slice:  none | raw=<a>,<b> (the public field) | reg=<region> (`StaticSoundData::slice`)
//! every op prints `<handle.state()> <handle.position()> <sound.finished()>`, `proc` appends the output frames.
use crate::runner::{run_cases, Out};
use crate::suites::param::{gen_tween, ids, parse_start, parse_tween, parse_value, Ids, InfoState, MAX_IDS};
use crate::suites::psm::{command_edge, gen_info_clocks, state_num, update_edge};
use crate::suites::transport::{fmt_pos, fmt_region, parse_pos, parse_region};
use crate::util::*;
use kira::sound::static_sound::{StaticSoundData, StaticSoundHandle, StaticSoundSettings};
use kira::sound::{EndPosition, PlaybackPosition, Region, Sound, SoundData};
use kira::{Decibels, Frame, Panning, Parameter, PlaybackRate, StartTime, Value};
use std::sync::atomic::{AtomicU64, Ordering};
use std::sync::Arc;
use std::time::Duration;

/// how often each oracle's premise held (printed to stderr when `KV_ORACLE_STATS` is set)
static CHECKS: [AtomicU64; 9] = [const { AtomicU64::new(0) }; 9];
const CHECK_NAMES: [&str; 9] = [
	"walk_frames",
	"seek_lands",
	"silent_chunks",
	"frozen_position",
	"finite_stopped",
	"dc_envelope_frames",
	"stopped_final_ops",
	"command_edges",
	"param_real_time_frames",
];
fn tick(i: usize) {
	CHECKS[i].fetch_add(1, Ordering::Relaxed);
}

fn lcg_next(s: u64) -> u64 {
	s.wrapping_mul(6364136223846793005).wrapping_add(1442695040888963407)
}
fn lcg_sample(s: u64) -> f32 {
	((s >> 33) % 4096) as f32 / 4096.0 - 0.5
}
pub fn gen_frames(coding: &str, len: usize) -> Arc<[Frame]> {
	if coding == "idx" {
		return (0..len).map(|k| Frame::new((k + 1) as f32, (k + 1) as f32)).collect();
	}
	if coding == "lr" {
		return (0..len).map(|k| Frame::new((k + 1) as f32, -((k + 1) as f32))).collect();
	}
	let (k, v) = coding.split_once('=').expect("bad coding");
	match k {
		"dc" => (0..len).map(|_| Frame::new(p32(v), p32(v))).collect(),
		"rnd" => {
			let mut s = pu(v);
			(0..len)
				.map(|_| {
					let s1 = lcg_next(s);
					let s2 = lcg_next(s1);
					s = s2;
					Frame::new(lcg_sample(s1), lcg_sample(s2))
				})
				.collect()
		}
		_ => panic!("bad coding {}", coding),
	}
}

fn into_samples(p: PlaybackPosition, sr: u32) -> usize {
	match p {
		PlaybackPosition::Seconds(s) => (s * sr as f64).round() as usize,
		PlaybackPosition::Samples(n) => n,
	}
}
fn region_samples(r: Region, sr: u32, n: usize) -> (usize, usize) {
	(
		into_samples(r.start, sr),
		match r.end {
			EndPosition::EndOfAudio => n,
			EndPosition::Custom(p) => into_samples(p, sr),
		},
	)
}

/// what the harness knows about the case for the oracles (all of it read off the inputs)
struct Cfg {
	sr: u32,
	/// frames of the slice
	n: usize,
	slice_start: usize,
	coding: String,
	reverse: bool,
	/// loop region in frames (valid ones only; `None` = no loop)
	lp: Option<(usize, usize)>,
	rate: Option<f64>,
	/// fixed 0 dB volume and centre panning
	vol_pan_neutral: bool,
	start_imm: bool,
	delay_ns: Option<u64>,
}

struct Run {
	sound: Box<dyn Sound>,
	handle: StaticSoundHandle,
	cfg: Cfg,
	// --- oracle bookkeeping ---
	/// `num_frames()`, `duration()` and `frame_at_index()` of the data agreed with the clamped slice
	slice_consistent: bool,
	/// an empty sound, or one that starts at or past its end: every output frame is silence
	mute: bool,
	/// index-coded, neutral, rate ±1: the heard index sequence is predictable
	plain: bool,
	/// next expected heard index (`None` = the walk has ended: silence)
	expect: Option<usize>,
	/// frames for which the walk check is suspended (after a seek / loop change); usize::MAX = until re-synced
	suspend: usize,
	suspend_was_zero: bool,
	pending: Vec<String>,
	pending_seek: Option<f64>,
	after_seek: Option<(usize, f64)>,
	ever_stopped: bool,
	any_command: bool,
	non_lifecycle_command: bool,
	loop_ever: bool,
	gate_always_open: bool,
	source_advance: f64,
	elapsed: f64,
	last_start_pos: Option<(u8, u64)>,
	quiet_since_start: bool,
	last_out: Option<f32>,
	fade_dir: i32,
	/// index-coded ramp played forwards at a dyadic rate below 1: interpolation must be exact
	ramp: bool,
	last_ramp: Option<f32>,
	/// C06 at the level of the sound ("a tween on a sound's parameter progresses in real time whatever the sound's
	/// playback state; after a resume the value is where the closed form says"): reference parameters
	/// (`kira::Parameter`, whose agreement with the closed form is the subject of suite `param`) that are given
	/// every set_volume / set_panning when the sound reads it and are updated with the real time of EVERY callback -
	/// playing, fading, paused, waiting to resume, waiting for its start time.
	shadow_vol: Parameter<Decibels>,
	shadow_pan: Parameter<Panning>,
	/// the output shows volume and panning exactly: a unit DC sound looping over its whole length at the fixed rate 1,
	/// no fade-in at creation, an immediate or delayed start, no rate / loop / seek command so far
	shadow_visible: bool,
}

impl Run {
	fn any_command_except_lifecycle(&self) -> bool {
		self.non_lifecycle_command
	}
}

fn show(r: &Run) -> String {
	format!(
		"{} {} {}",
		state_num(r.handle.state()),
		h64(r.handle.position()),
		r.sound.finished() as u8
	)
}

fn walk_succ(cfg: &Cfg, backwards: bool, i: usize) -> Option<usize> {
	if !backwards {
		let mut p = i + 1;
		if let Some((ls, le)) = cfg.lp {
			if p >= le {
				p = ls + (p - ls) % (le - ls);
			}
		}
		if p >= cfg.n {
			None
		} else {
			Some(p)
		}
	} else {
		let mut p = i;
		if let Some((ls, le)) = cfg.lp {
			if p <= ls {
				let d = le - ls;
				p += (ls + 1 - p + d - 1) / d * d;
			}
		}
		if p == 0 {
			None
		} else {
			Some(p - 1)
		}
	}
}

fn decode(cfg: &Cfg, f: Frame) -> Option<Option<usize>> {
	// Some(None) = silence, Some(Some(i)) = slice-relative index i, None = not a coded frame
	if f.left == 0.0 && f.right == 0.0 {
		return Some(None);
	}
	let ok = match cfg.coding.as_str() {
		"idx" => f.right == f.left,
		"lr" => f.right == -f.left,
		_ => false,
	};
	if !ok || f.left < 1.0 || f.left.fract() != 0.0 {
		return None;
	}
	let abs = f.left as usize - 1;
	if abs < cfg.slice_start {
		return None;
	}
	Some(Some(abs - cfg.slice_start))
}

fn make(tok: &[&str], ids: &Ids) -> Run {
	let sr = pu(tok[1]) as u32;
	let len = pu(tok[2]) as usize;
	let frames = gen_frames(tok[3], len);
	let start_time = parse_start(tok[5], ids);
	let start_position = parse_pos(tok[6]);
	let loop_region = parse_region(tok[7]);
	let reverse = tok[8] == "1";
	let volume: Value<Decibels> = parse_value(tok[9], ids);
	let rate: Value<PlaybackRate> = parse_value(tok[10], ids);
	let panning: Value<Panning> = parse_value(tok[11], ids);
	let fade_in = if tok[12] == "none" { None } else { Some(parse_tween(tok[12], ids)) };
	let settings = StaticSoundSettings {
		start_time,
		start_position,
		loop_region,
		reverse,
		volume,
		playback_rate: rate,
		panning,
		fade_in_tween: fade_in,
	};
	let mut data = StaticSoundData {
		sample_rate: sr,
		frames,
		settings,
		slice: None,
	};
	if let Some(s) = tok[4].strip_prefix("raw=") {
		let (a, b) = s.split_once(',').unwrap();
		data.slice = Some((pu(a) as usize, pu(b) as usize));
	} else if let Some(s) = tok[4].strip_prefix("reg=") {
		data = data.slice(parse_region(s));
	}
	let data_slice_none = data.slice.is_none();
	// the sound is the slice clamped to the data: an inverted slice, or one that starts at or past the end
	// of the data, is empty (computed here from the inputs, not read back from kira)
	let (slice_start, n) = match data.slice {
		Some((a, b)) => (a, b.min(len).saturating_sub(a)),
		None => (0, len),
	};
	// --- C04: num_frames / duration / frame_at_index agree with the clamped slice, for any slice ---
	let slice_consistent = data.num_frames() == n
		&& data.duration() == Duration::from_secs_f64(n as f64 / sr as f64)
		&& (n == 0 || (data.frame_at_index(0) == Some(data.frames[slice_start]) && data.frame_at_index(n - 1) == Some(data.frames[slice_start + n - 1])))
		&& data.frame_at_index(n).is_none()
		&& data.frame_at_index(usize::MAX).is_none();
	let lp = loop_region
		.map(|r| region_samples(r, sr, n))
		.filter(|(a, b)| a < b && *b <= n);
	let rate_fixed = match rate {
		Value::Fixed(r) => Some(r.0),
		_ => None,
	};
	let neutral = volume == Value::Fixed(Decibels(0.0))
		&& panning == Value::Fixed(Panning(0.0))
		&& fade_in.is_none()
		&& start_time == StartTime::Immediate;
	let cfg = Cfg {
		sr,
		n,
		slice_start,
		coding: tok[3].to_string(),
		reverse,
		lp,
		rate: rate_fixed,
		vol_pan_neutral: volume == Value::Fixed(Decibels(0.0)) && panning == Value::Fixed(Panning(0.0)),
		start_imm: start_time == StartTime::Immediate,
		delay_ns: match start_time {
			StartTime::Delayed(d) => Some(d.as_nanos() as u64),
			_ => None,
		},
	};
	let start_idx = into_samples(start_position, sr);
	let plain = neutral
		&& (cfg.coding == "idx" || cfg.coding == "lr")
		&& matches!(rate_fixed, Some(r) if r == 1.0 || r == -1.0)
		&& (loop_region.is_none() || lp.is_some());
	let backwards = reverse != (rate_fixed.map(|r| r.is_sign_negative()).unwrap_or(false));
	let _ = backwards;
	let expect = if reverse {
		// a start position at or past the end of a reversed sound saturates at frame 0
		if n > 0 {
			Some((n - 1).saturating_sub(start_idx))
		} else {
			None
		}
	} else if start_idx < n {
		Some(start_idx)
	} else {
		None
	};
	let plain = plain && expect.is_some();
	// nothing to play: an empty sound, or a forward sound (no loop) that starts at or past its end
	let mute = n == 0
		|| (loop_region.is_none() && !reverse && start_idx >= n && matches!(rate_fixed, Some(r) if !r.is_sign_negative()));
	let (sound, handle) = data.into_sound().unwrap();
	Run {
		sound,
		handle,
		slice_consistent,
		mute,
		plain,
		expect,
		suspend: 0,
		suspend_was_zero: true,
		pending: vec![],
		pending_seek: None,
		after_seek: None,
		ever_stopped: false,
		any_command: false,
		non_lifecycle_command: false,
		loop_ever: loop_region.is_some(),
		gate_always_open: true,
		source_advance: 0.0,
		elapsed: 0.0,
		last_start_pos: None,
		quiet_since_start: true,
		last_out: None,
		fade_dir: if fade_in.is_some() { 1 } else { 0 },
		ramp: neutral
			&& tok[3] == "idx"
			&& data_slice_none
			&& loop_region.is_none()
			&& !reverse
			&& start_idx == 0
			&& matches!(rate_fixed, Some(r) if r == 0.5 || r == 0.25),
		last_ramp: None,
		shadow_vol: Parameter::new(volume, Decibels::IDENTITY),
		shadow_pan: Parameter::new(panning, Panning::CENTER),
		shadow_visible: tok[3] == "dc=3f800000"
			&& n > 0
			&& !mute
			&& rate_fixed == Some(1.0)
			&& lp == Some((0, n))
			// (a start position outside the data plays silence into the resampler first: the output then
			// interpolates up from zero and does not show the volume exactly)
			&& start_idx < n
			&& fade_in.is_none()
			&& !matches!(start_time, StartTime::ClockTime(_)),
		cfg,
	}
}

fn exec(case: &[String], out: &mut Out) {
	let ids = ids();
	let mut info_state = InfoState::default();
	out.put(case[0].clone());
	let mut run: Option<Run> = None;
	for l in &case[1..] {
		if l.starts_with("procn ") {
			procn(l, &mut run, &mut info_state, &ids, out);
		} else {
			step(l, &mut run, &mut info_state, &ids, out);
		}
	}
}

/// one op (everything but `procn`)
fn step(l: &String, run: &mut Option<Run>, info_state: &mut InfoState, ids: &Ids, out: &mut Out) {
		let tok: Vec<&str> = l.split_whitespace().collect();
		match tok[0] {
			"info.clocks" => {
				info_state.parse_clocks(&tok);
				out.put("ok");
				return;
			}
			"info.mods" => {
				info_state.parse_mods(&tok);
				out.put("ok");
				return;
			}
			"new" => {
				let r = make(&tok, &ids);
				out.put(show(&r));
				if state_num(r.handle.state()) != 0 {
					out.oracle_fail("static_new_not_playing", l);
				}
				if !r.slice_consistent {
					out.oracle_fail("static_slice_inconsistent", l);
				}
				*run = Some(r);
				return;
			}
			_ => {}
		}
		let r = run.as_mut().unwrap();
		let s_before = state_num(r.handle.state());
		match tok[0] {
			"start" => {
				r.sound.on_start_processing();
				out.put(show(r));
				let s_after = state_num(r.handle.state());
				// --- C03: the commands read in this callback move the state along documented edges ---
				let mut s = s_before;
				for name in ["pause", "resume", "stop"] {
					if let Some(c) = r.pending.iter().rev().find(|c| c.split_whitespace().next() == Some(name)) {
						let t: Vec<&str> = c.split_whitespace().collect();
						let immediate = name == "resume" && t[1] == "imm";
						let next = if s == 6 {
							6
						} else {
							match name {
								"pause" => 1,
								"resume" => {
									if immediate {
										4
									} else {
										3
									}
								}
								_ => 5,
							}
						};
						tick(7);
						if !command_edge(name, immediate, s, next) {
							out.oracle_fail("static_command_edge", l);
						}
						if s != 6 {
							// the envelope is only compared within one fade direction
							r.last_out = None;
							r.fade_dir = match name {
								"pause" | "stop" => -1,
								"resume" if immediate => 1,
								_ => r.fade_dir,
							};
						}
						s = next;
					}
				}
				if s_after != s {
					out.oracle_fail("static_state_after_commands", l);
				}
				// --- C03: frozen position while not advancing ---
				let pos = r.handle.position().to_bits();
				if let Some((s_prev, p_prev)) = r.last_start_pos {
					if matches!(s_prev, 2 | 3 | 6) && r.quiet_since_start {
						tick(3);
					}
					if matches!(s_prev, 2 | 3 | 6) && r.quiet_since_start && pos != p_prev {
						out.oracle_fail("static_position_moved_while_not_advancing", l);
					}
				}
				// --- C04: the reported position names the frame about to be heard (window slot 1) ---
				if r.plain && r.suspend == 0 && s_before == 0 {
					if let Some(i) = r.expect {
						tick(1);
						if r.handle.position() != i as f64 / r.cfg.sr as f64 {
							out.oracle_fail("static_reported_position", l);
						}
					}
				}
				r.last_start_pos = Some((s_after, pos));
				r.quiet_since_start = true;
				// --- C04: reported position names a frame of the slice (or the start index) ---
				let fpos = r.handle.position() * r.cfg.sr as f64;
				if r.plain && !r.non_lifecycle_command && !(fpos >= 0.0 && fpos <= r.cfg.n as f64 + 1e-6) {
					out.oracle_fail("static_position_outside_sound", l);
				}
				// seeks / loop changes: suspend the walk check until the window has been refilled
				let mut resync = false;
				let lp_before = r.cfg.lp;
				r.suspend_was_zero = r.suspend == 0;
				for c in r.pending.drain(..) {
					let t: Vec<&str> = c.split_whitespace().collect();
					match t[0] {
						// (C06) the sound has just read this command: so does the reference parameter
						"vol" => r.shadow_vol.set(parse_value::<Decibels>(t[1], &ids), parse_tween(t[2], &ids)),
						"pan" => r.shadow_pan.set(parse_value::<Panning>(t[1], &ids), parse_tween(t[2], &ids)),
						"rate" => r.shadow_visible = false,
						"seekto" => {
							resync = true;
							r.shadow_visible = false;
							r.pending_seek = Some(p64(t[1]));
						}
						"seekby" => {
							resync = true;
							r.shadow_visible = false;
							r.pending_seek = None;
						}
						"loop" => {
							resync = true;
							r.shadow_visible = false;
							let reg = parse_region(t[1]);
							r.loop_ever = r.loop_ever || reg.is_some();
							let lp = reg.map(|x| region_samples(x, r.cfg.sr, r.cfg.n));
							match lp {
								Some((a, b)) if !(a < b && b <= r.cfg.n) => r.plain = false,
								_ => r.cfg.lp = lp,
							}
						}
						_ => {}
					}
				}
				if resync {
					r.suspend = usize::MAX;
					// the seek oracle needs a transport that is still running: a loop is active before
					// and after this callback, or the walk has at least 4 more frames to go
					let alive = if lp_before.is_some() && r.cfg.lp.is_some() {
						true
					} else if lp_before.is_none() && r.cfg.lp.is_none() && r.plain && r.suspend_was_zero {
						let backwards = r.cfg.reverse != r.cfg.rate.map(|x| x.is_sign_negative()).unwrap_or(false);
						let mut e = r.expect;
						for _ in 0..4 {
							e = e.and_then(|i| walk_succ(&r.cfg, backwards, i));
						}
						e.is_some()
					} else {
						false
					};
					r.after_seek = r.pending_seek.take().filter(|_| alive).map(|p| (0usize, p));
				}
			}
			"proc" => {
				let len = pu(tok[1]) as usize;
				let dt = p64(tok[2]);
				let info = info_state.build();
				let mut buf = vec![Frame::ZERO; len];
				r.sound.process(&mut buf, dt, &info);
				let mut s = show(r);
				for f in &buf {
					s += &format!(" {} {}", h32(f.left), h32(f.right));
				}
				out.put(s);
				let s_after = state_num(r.handle.state());
				let all_zero = buf.iter().all(|f| f.left == 0.0 && f.right == 0.0);
				// --- C04: nothing to play (empty slice / start past the end): silence, whatever the commands ---
				if r.mute && !all_zero {
					out.oracle_fail("static_nothing_to_play_not_silent", l);
				}
				// --- C03 oracles ---
				if !(update_edge(s_before, s_after) || s_after == 6) {
					out.oracle_fail("static_update_edge", l);
				}
				if matches!(s_after, 2 | 3) || s_before == 6 {
					tick(2);
				}
				if (matches!(s_after, 2 | 3) || s_before == 6) && !all_zero {
					out.oracle_fail("static_not_silent_while_not_advancing", l);
				}
				if !(matches!(s_after, 2 | 3) || s_before == 6) {
					r.quiet_since_start = false;
				}
				if let Some(d) = r.cfg.delay_ns {
					// still waiting for the start time (with a margin of 1 µs for the rounding of each step)
					if (r.elapsed + dt * len as f64) * 1e9 < d as f64 - 1000.0 && !all_zero {
						out.oracle_fail("static_not_silent_before_start", l);
					}
				}
				r.elapsed += dt * len as f64;
				// --- C06: the sound's volume and panning follow their tweens in real time, whatever its playback state ---
				// the reference parameters get the time of this callback like every other one ...
				r.shadow_vol.update(dt * len as f64, &info);
				r.shadow_pan.update(dt * len as f64, &info);
				// ... and where the output shows volume and panning exactly (Playing before and after the call: the fade is
				// at unity; one source frame per output frame: the resampler hands out the DC level itself), each frame
				// is the DC level times the reference volume, panned by the reference panning, bit for bit
				let started = match r.cfg.delay_ns {
					None => r.cfg.start_imm,
					Some(d) => r.elapsed * 1e9 >= d as f64 + 1000.0,
				};
				if r.shadow_visible && started && s_before == 0 && s_after == 0 && r.cfg.sr as f64 * dt == 1.0 {
					for (i, f) in buf.iter().enumerate() {
						let t = (i + 1) as f64 / len as f64;
						let want = (Frame::from_mono(1.0) * 1.0 * r.shadow_vol.interpolated_value(t).as_amplitude())
							.panned(r.shadow_pan.interpolated_value(t));
						tick(8);
						if f.left.to_bits() != want.left.to_bits() || f.right.to_bits() != want.right.to_bits() {
							out.oracle_fail("static_param_tween_not_in_real_time", l);
							r.shadow_visible = false;
							break;
						}
					}
				}
				if r.sound.finished() != (s_after == 6) {
					out.oracle_fail("static_finished_vs_state", l);
				}
				let advancing_after = matches!(s_after, 0 | 1 | 4 | 5);
				let rendering = advancing_after || (s_after == 6 && matches!(s_before, 0 | 1 | 4 | 5));
				if !rendering {
					r.gate_always_open = false;
				}
				if let Some(rate) = r.cfg.rate {
					r.source_advance += len as f64 * r.cfg.sr as f64 * rate.abs() * dt;
				}
				// --- C03: envelope of a DC sound during a fade (rate 1, unit DC, neutral volume/panning) ---
				let dc_unit = r.cfg.coding == "dc=3f800000"
					&& r.cfg.rate == Some(1.0)
					&& r.cfg.sr as f64 * dt == 1.0
					&& r.cfg.lp == Some((0, r.cfg.n))
					&& r.cfg.vol_pan_neutral
					&& r.cfg.start_imm
					&& !r.any_command_except_lifecycle();
				if dc_unit && advancing_after {
					for f in &buf {
						let v = f.left;
						tick(5);
						if !(v >= 0.0 && v <= 1.0 + 1e-6) || f.right != f.left {
							out.oracle_fail("static_dc_envelope_range", l);
							break;
						}
						if let Some(prev) = r.last_out {
							if (r.fade_dir < 0 && v > prev + 1e-5) || (r.fade_dir > 0 && v < prev - 1e-5) {
								out.oracle_fail("static_dc_envelope_monotone", l);
								break;
							}
						}
						r.last_out = Some(v);
					}
					if s_before == 3 && s_after == 4 {
						r.fade_dir = 1;
					}
				} else {
					r.last_out = None;
					if s_before == 3 && s_after == 4 {
						r.fade_dir = 1;
					}
				}
				// --- C04: the rate-1 index walk ---
				let unit_step = r.cfg.sr as f64 * 1.0 * dt == 1.0;
				if r.plain && !unit_step && len > 0 {
					r.plain = false;
				}
				if r.plain && rendering {
					let backwards = r.cfg.reverse != r.cfg.rate.unwrap().is_sign_negative();
					for f in &buf {
						let d = decode(&r.cfg, *f);
						match d {
							None => {
								out.oracle_fail("static_foreign_or_uncoded_frame", l);
								r.plain = false;
								break;
							}
							Some(Some(i)) if i >= r.cfg.n => {
								out.oracle_fail("static_index_outside_slice", l);
								r.plain = false;
								break;
							}
							_ => {}
						}
						let d = d.unwrap();
						if let Some((k, target)) = r.after_seek {
							// frames 2 and 3 after a seek (in Playing) are the seek target (C04_seek_lands)
							if (k == 2 || k == 3) && s_before == 0 && s_after == 0 {
								let want = (target * r.cfg.sr as f64) as usize;
								let ok = match (r.cfg.lp, d) {
									(None, Some(i)) => i == want,
									(None, None) => want >= r.cfg.n,
									(Some((ls, le)), Some(i)) => {
										// (i128: an extreme seek saturates at usize::MAX)
										(i as i128 - want as i128).rem_euclid((le - ls) as i128) == 0
									}
									(Some(_), None) => want >= r.cfg.n,
								};
								tick(1);
								if !ok {
									out.oracle_fail("static_seek_did_not_land", l);
								}
							}
							r.after_seek = if k >= 3 { None } else { Some((k + 1, target)) };
						}
						if r.suspend > 0 {
							if r.suspend == usize::MAX {
								r.suspend = 5;
							}
							r.suspend -= 1;
							if r.suspend == 0 {
								r.expect = d;
								// silence is ambiguous (ended, or a zero pushed for an index past the end)
								if d.is_none() {
									r.plain = false;
								} else {
									r.expect = walk_succ(&r.cfg, backwards, d.unwrap());
								}
							}
							continue;
						}
						tick(0);
						if d != r.expect {
							out.oracle_fail("static_rate1_walk", l);
							r.plain = false;
							break;
						}
						if let Some(i) = d {
							r.expect = walk_succ(&r.cfg, backwards, i);
						} else if s_after != 6 {
							// the first silent frame after the end: the sound reports Stopped in the same call
							out.oracle_fail("static_not_stopped_after_end", l);
							r.plain = false;
							break;
						}
					}
				}
				// Stopped only after the window has drained: not while the last frame written is a source frame
				if r.plain && rendering && r.suspend == 0 && s_after == 6 {
					if let Some(f) = buf.last() {
						if f.left != 0.0 {
							out.oracle_fail("static_stopped_before_end", l);
						}
					}
				}
				// --- C04: a ramp is interpolated exactly (Hermite is exact for polynomials of degree <= 2) ---
				if r.ramp && len > 0 && r.cfg.sr as f64 * r.cfg.rate.unwrap() * dt != r.cfg.rate.unwrap() {
					r.ramp = false;
				}
				if r.ramp && rendering && len > 0 {
					let rate = r.cfg.rate.unwrap() as f32;
					for f in &buf {
						let v = f.left;
						if v > (r.cfg.n as f32) - 2.0 {
							// the tail (interpolation against the silence after the end) is not a ramp
							r.ramp = false;
							break;
						}
						let interior = v >= 2.0;
						if let Some(prev) = r.last_ramp {
							if interior && prev >= 2.0 && prev <= (r.cfg.n as f32) - 2.0 {
								tick(0);
								if v - prev != rate || f.right != v {
									out.oracle_fail("static_ramp_interpolation", l);
									r.ramp = false;
									break;
								}
							}
						}
						r.last_ramp = Some(v);
					}
				}
				// --- C03: finite non-looping sounds with a non-zero rate reach Stopped ---
				if !r.loop_ever
					&& !r.any_command
					&& r.gate_always_open
					&& r.cfg.start_imm
					&& r.cfg.rate.map(|x| x != 0.0).unwrap_or(false)
					&& r.source_advance >= (r.cfg.n + 8) as f64
					&& s_after == 6
				{
					tick(4);
				}
				if !r.loop_ever
					&& !r.any_command
					&& r.gate_always_open
					&& r.cfg.start_imm
					&& r.cfg.rate.map(|x| x != 0.0).unwrap_or(false)
					&& r.source_advance >= (r.cfg.n + 8) as f64
					&& s_after != 6
				{
					out.oracle_fail("static_finite_sound_not_stopped", l);
				}
			}
			_ => {
				// handle commands
				match tok[0] {
					"vol" => r.handle.set_volume(parse_value::<Decibels>(tok[1], &ids), parse_tween(tok[2], &ids)),
					"rate" => {
						r.handle.set_playback_rate(parse_value::<PlaybackRate>(tok[1], &ids), parse_tween(tok[2], &ids));
						r.cfg.rate = None;
					}
					"pan" => r.handle.set_panning(parse_value::<Panning>(tok[1], &ids), parse_tween(tok[2], &ids)),
					"loop" => r.handle.set_loop_region(parse_region(tok[1])),
					"pause" => r.handle.pause(parse_tween(tok[1], &ids)),
					"resume" => {
						let st = parse_start(tok[1], &ids);
						if st == StartTime::Immediate {
							r.handle.resume(parse_tween(tok[2], &ids))
						} else {
							r.handle.resume_at(st, parse_tween(tok[2], &ids))
						}
					}
					"stop" => r.handle.stop(parse_tween(tok[1], &ids)),
					"seekto" => r.handle.seek_to(p64(tok[1])),
					"seekby" => r.handle.seek_by(p64(tok[1])),
					_ => panic!("static: unknown op {}", tok[0]),
				}
				out.put(show(r));
				r.any_command = true;
				r.ramp = false;
				if !matches!(tok[0], "seekto" | "seekby" | "loop") {
					r.plain = false;
				}
				if matches!(tok[0], "vol" | "rate" | "pan" | "seekto" | "seekby" | "loop") {
					r.non_lifecycle_command = true;
				}
				// a newer command of the same kind replaces an unread older one
				r.pending.retain(|c| c.split_whitespace().next() != Some(tok[0]));
				r.pending.push(l.clone());
				if state_num(r.handle.state()) != s_before {
					out.oracle_fail("static_state_changed_by_handle_call", l);
				}
			}
		}
		// --- C03: Stopped is final ---
		let s_now = state_num(r.handle.state());
		if r.ever_stopped {
			tick(6);
		}
		if r.ever_stopped && (s_now != 6 || !r.sound.finished()) {
			out.oracle_fail("static_stopped_left", l);
		}
		if s_now == 6 {
			r.ever_stopped = true;
		}
}

/// `!oracle static_fault …` for every fault in the trace, classified by the inputs of the case
/// (`shape=`): the defects that the in-domain hypotheses of the theorems exclude.
fn fault_oracles(ops: &[String], trace: &[String]) -> Vec<(usize, String)> {
	let mut res = vec![];
	let mut case_no = 0usize;
	let ops: Vec<&String> = ops
		.iter()
		.filter(|l| !l.trim().is_empty() && !l.starts_with('#'))
		.collect();
	let lines: Vec<&String> = trace.iter().filter(|l| !l.starts_with('!')).collect();
	let mut shape = "in_domain".to_string();
	let mut sr = 1u32;
	let mut n = 0usize;
	for (i, l) in lines.iter().enumerate() {
		if i >= ops.len() {
			break;
		}
		let tok: Vec<&str> = ops[i].split_whitespace().collect();
		let degenerate = |r: Option<Region>, sr: u32, n: usize| -> Option<&'static str> {
			r.map(|r| region_samples(r, sr, n)).and_then(|(a, b)| {
				if a == b {
					Some("loop_empty")
				} else if a > b {
					Some("loop_inverted")
				} else if b > n {
					Some("loop_end_past_end")
				} else {
					None
				}
			})
		};
		match tok[0] {
			"case" => {
				shape = "in_domain".to_string();
				case_no += 1;
			}
			"new" => {
				sr = pu(tok[1]) as u32;
				let len = pu(tok[2]) as usize;
				let slice = if let Some(s) = tok[4].strip_prefix("raw=") {
					let (a, b) = s.split_once(',').unwrap();
					Some((pu(a) as usize, pu(b) as usize))
				} else if let Some(s) = tok[4].strip_prefix("reg=") {
					parse_region(s).map(|r| region_samples(r, sr, len))
				} else {
					None
				};
				n = match slice {
					Some((a, b)) => b.min(len).saturating_sub(a),
					None => len,
				};
				shape = match slice {
					Some((a, b)) if a > b => "slice_inverted".to_string(),
					Some((_, b)) if b > len => "slice_outside_data".to_string(),
					_ => {
						if tok[8] == "1" && into_samples(parse_pos(tok[6]), sr) >= n {
							"reverse_start_ge_len".to_string()
						} else if let Some(s) = degenerate(parse_region(tok[7]), sr, n) {
							s.to_string()
						} else {
							"in_domain".to_string()
						}
					}
				};
			}
			"loop" => {
				if shape == "in_domain" || shape.starts_with("loop_") {
					shape = degenerate(parse_region(tok[1]), sr, n).unwrap_or("in_domain").to_string();
				}
			}
			_ => {}
		}
		if let Some(kind) = l.strip_prefix("fault ") {
			res.push((case_no, format!("!oracle static_fault kind={} shape={} op={}", kind, shape, ops[i])));
		}
	}
	res
}

pub fn run(ops: &[String]) -> Vec<String> {
	let trace = run_cases(ops, Some(Duration::from_secs(30)), exec);
	let extra = fault_oracles(ops, &trace);
	let trace = crate::suites::transport::insert_after_cases(trace, extra);
	if std::env::var("KV_ORACLE_STATS").is_ok() {
		for (i, n) in CHECK_NAMES.iter().enumerate() {
			eprintln!("oracle-premise {} {}", n, CHECKS[i].load(Ordering::Relaxed));
		}
	}
	trace
}

// ---------------------------------------------------------------------------------------------
// generators
// ---------------------------------------------------------------------------------------------

pub(crate) fn gen_rate_value(rng: &mut Rng) -> String {
	let r = match rng.below(16) {
		0..=5 => 1.0,
		6 => -1.0,
		7 => 0.5,
		8 => 2.0,
		9 => 1.0 / 3.0,
		10 => std::f64::consts::SQRT_2,
		11 => 0.0,
		12 => -0.5,
		13 => rng.uniform(-4.0, 4.0),
		14 => -0.0,
		_ => 3.7,
	};
	if rng.chance(1, 25) {
		format!(
			"mod:{}:{},{},{},{},lin",
			rng.below(MAX_IDS as u64),
			o64(0.0),
			o64(1.0),
			o64(0.25),
			o64(2.0)
		)
	} else {
		format!("fix:{}", o64(r))
	}
}
pub(crate) fn gen_vol_value(rng: &mut Rng, neutral: bool) -> String {
	if neutral {
		return format!("fix:{}", o32(0.0));
	}
	match rng.below(8) {
		0 => format!("fix:{}", o32(-6.0)),
		1 => format!("fix:{}", o32(-60.0)),
		2 => format!("fix:{}", o32(3.0)),
		3 => format!("fix:{}", o32(rng.uniform(-70.0, 6.0) as f32)),
		4 => format!(
			"mod:{}:{},{},{},{},lin",
			rng.below(MAX_IDS as u64),
			o64(0.0),
			o64(1.0),
			o32(-60.0),
			o32(0.0)
		),
		_ => format!("fix:{}", o32(0.0)),
	}
}
pub(crate) fn gen_pan_value(rng: &mut Rng, neutral: bool) -> String {
	if neutral {
		return format!("fix:{}", o32(0.0));
	}
	format!("fix:{}", o32(rng.pick(&[0.0f32, 0.0, 0.0, -1.0, 1.0, 0.3, -0.5, 2.0])))
}
pub(crate) fn gen_chunk(rng: &mut Rng) -> u64 {
	match rng.below(10) {
		0 => 1,
		1 => 2,
		2 => 3,
		3 => 4,
		4 => 7,
		5 => 16,
		6 => 64,
		7 => 0,
		_ => 1 + rng.below(12),
	}
}
/// a tween for life-cycle commands: duration 0, shorter than a chunk, about a chunk, long
pub(crate) fn gen_life_tween(rng: &mut Rng, chunk_secs: f64) -> String {
	let d = match rng.below(6) {
		0 => 0,
		1 => (chunk_secs * 0.3 * 1e9) as u64,
		2 => (chunk_secs * 1e9) as u64,
		3 => (chunk_secs * 2.5 * 1e9) as u64,
		4 => (chunk_secs * 10.0 * 1e9) as u64,
		_ => 1,
	};
	let start = match rng.below(10) {
		0 => format!("del:{}", (chunk_secs * 1.5 * 1e9) as u64),
		1 => format!("clk:{}:{}:{}", rng.below(MAX_IDS as u64), rng.below(4), o64(0.0)),
		_ => "imm".to_string(),
	};
	let easing = rng.pick(&["lin", "lin", "ipi:2", "opi:3", "iopi:2", "ipf:3ff8000000000000", "opf:3fe0000000000000"]);
	format!("{};{};{}", start, d, easing)
}
pub(crate) fn gen_start_time(rng: &mut Rng, chunk_secs: f64) -> String {
	match rng.below(12) {
		0 => "del:0".to_string(),
		1 => format!("del:{}", (chunk_secs * rng.uniform(0.2, 4.0) * 1e9) as u64),
		2 => format!("clk:{}:{}:{}", rng.below(MAX_IDS as u64), rng.below(4), o64(rng.pick(&[0.0, 0.5]))),
		_ => "imm".to_string(),
	}
}

pub(crate) struct Shape {
	pub sr: u64,
	pub len: u64,
	pub slice: Option<(u64, u64)>,
	pub n: u64,
}
pub(crate) fn gen_shape(rng: &mut Rng) -> Shape {
	let sr = rng.pick(&[1u64, 1, 2, 4, 8, 10, 49, 1000, 44100, 48000]);
	let len = match rng.below(10) {
		0 => 0,
		1 => 1,
		2 => 2,
		3 => 3,
		4 | 5 => rng.below(13),
		6 => 200 + rng.below(3000),
		_ => rng.below(40),
	};
	let slice = if rng.chance(2, 5) {
		let a = rng.below(len + 1);
		let b = a + rng.below(len - a + 1);
		Some((a, b))
	} else {
		None
	};
	let n = slice.map(|(a, b)| b - a).unwrap_or(len);
	Shape { sr, len, slice, n }
}
/// a shape whose slice is ANY pair: inside the data (as `gen_shape`), reaching past the data, starting
/// at or past its end, inverted, empty — `num_frames` is the slice clamped to the data
pub(crate) fn gen_shape_any(rng: &mut Rng, stats: &mut Stats) -> Shape {
	let mut sh = gen_shape(rng);
	let len = sh.len;
	let kind = rng.below(12);
	let slice = match kind {
		0 => {
			stats.hit("slice_past_data");
			let a = rng.below(len + 1);
			Some((a, len + 1 + rng.below(4)))
		}
		1 => {
			stats.hit("slice_past_data");
			Some((0, rng.pick(&[len + 1, 2 * len + 3, u32::MAX as u64, u64::MAX])))
		}
		2 => {
			stats.hit("slice_starts_past_data");
			let a = len + rng.below(3);
			Some((a, a + rng.below(4)))
		}
		3 => {
			stats.hit("slice_inverted");
			let a = 1 + rng.below(len + 2);
			Some((a, rng.below(a)))
		}
		4 => {
			stats.hit("slice_empty");
			let a = rng.below(len + 2);
			Some((a, a))
		}
		_ => return sh,
	};
	sh.slice = slice;
	sh.n = slice.map(|(a, b)| b.min(len).saturating_sub(a)).unwrap_or(len);
	sh
}
pub(crate) fn fmt_slice(rng: &mut Rng, sh: &Shape) -> String {
	match sh.slice {
		None => "none".to_string(),
		Some((a, b)) => {
			if rng.chance(1, 4) && b <= (1 << 20) {
				// through `StaticSoundData::slice` (seconds or samples)
				format!("reg={}", fmt_region(rng, a, b, sh.len, sh.sr))
			} else {
				format!("raw={},{}", a, b)
			}
		}
	}
}
pub(crate) fn gen_valid_loop(rng: &mut Rng, n: u64, sr: u64) -> String {
	if n == 0 {
		return "none".to_string();
	}
	let ls = rng.below(n);
	let le = match rng.below(4) {
		0 => n,
		1 => ls + 1,
		_ => ls + 1 + rng.below(n - ls),
	};
	fmt_region(rng, ls, le, n, sr)
}

/// device `dt` for a sound at sample rate `sr`
pub(crate) fn gen_dt(rng: &mut Rng, sr: u64) -> f64 {
	match rng.below(8) {
		0 => 1.0 / (2.0 * sr as f64),
		1 => 2.0 / sr as f64,
		2 => 1.0 / 48000.0,
		3 => 1.0 / 44100.0,
		_ => 1.0 / sr as f64,
	}
}

fn gen_case(rng: &mut Rng, out: &mut Vec<String>, stats: &mut Stats) {
	let mut sh = gen_shape_any(rng, stats);
	let kind = rng.below(11);
	// kind 10: an index ramp played forwards at rate 1/2 or 1/4 (exact interpolation)
	let ramp = kind == 10;
	if ramp {
		sh.len = 8 + rng.below(30);
		sh.slice = None;
		sh.n = sh.len;
	}
	let (sr, n) = (sh.sr, sh.n);
	// kinds: 0-3 plain rate-±1 index walks (C04), 4-5 DC envelope (C03), 6-9 anything
	let plain = kind <= 3;
	let dc = kind == 4 || kind == 5;
	stats.hit(if plain { "case_plain" } else if dc { "case_dc" } else if ramp { "case_ramp" } else { "case_free" });
	let coding = if ramp {
		"idx".to_string()
	} else if dc {
		format!("dc={}", o32(1.0))
	} else if plain {
		rng.pick(&["idx", "idx", "lr"]).to_string()
	} else {
		match rng.below(5) {
			0 => "idx".to_string(),
			1 => "lr".to_string(),
			2 => format!("dc={}", o32(rng.pick(&[1.0f32, 0.5, -0.25]))),
			_ => format!("rnd={}", rng.below(1000)),
		}
	};
	let dt = if plain || dc || ramp { 1.0 / sr as f64 } else { gen_dt(rng, sr) };
	let chunk_secs = dt * 8.0;
	let reverse = !ramp && rng.chance(3, 10);
	let start = if reverse {
		// at or past the end (always so for an empty sound): the start frame saturates at 0
		let st = match rng.below(8) {
			0 => n,
			1 => n + 1 + rng.below(3),
			_ => rng.below(n + 1),
		};
		if st >= n {
			stats.hit("reverse_start_ge_len");
		}
		st
	} else if dc || ramp {
		0
	} else {
		match rng.below(8) {
			0..=3 => 0,
			4 => n,
			5 => n + 1,
			_ => rng.below(n + 1),
		}
	};
	let lp = if dc {
		if n > 0 {
			format!("n=0~n={}", n)
		} else {
			"none".to_string()
		}
	} else if !ramp && rng.chance(1, 2) {
		gen_valid_loop(rng, n, sr)
	} else {
		"none".to_string()
	};
	let rate = if ramp {
		format!("fix:{}", o64(rng.pick(&[0.5, 0.25])))
	} else if dc {
		format!("fix:{}", o64(1.0))
	} else if plain {
		format!("fix:{}", o64(rng.pick(&[1.0, 1.0, 1.0, -1.0])))
	} else {
		gen_rate_value(rng)
	};
	let neutral = plain || dc || ramp || rng.chance(1, 2);
	let start_time = if plain || ramp { "imm".to_string() } else if dc && rng.chance(4, 5) { "imm".to_string() } else { gen_start_time(rng, chunk_secs) };
	let fade_in = if plain || ramp || rng.chance(3, 4) { "none".to_string() } else { gen_life_tween(rng, chunk_secs) };
	if rng.chance(1, 3) {
		out.push(gen_info_clocks(rng));
	}
	if rng.chance(1, 6) {
		out.push(format!("info.mods 3 {} {} {}", o64(rng.uniform(-0.5, 1.5)), o64(0.5), o64(1.0)));
	}
	out.push(format!(
		"new {} {} {} {} {} {} {} {} {} {} {} {}",
		sr,
		sh.len,
		coding,
		fmt_slice(rng, &sh),
		start_time,
		fmt_pos(rng, start, sr),
		lp,
		reverse as u8,
		gen_vol_value(rng, neutral),
		rate,
		gen_pan_value(rng, neutral),
		fade_in
	));
	stats.hit("new");
	let callbacks = if plain && rng.chance(1, 2) {
		// drain: enough callbacks to hear the whole sound and its end
		rng.range(3, 10).max(((n + 12) / 4) as i64).min(60)
	} else {
		rng.range(3, 16)
	};
	let cmd_rate = if ramp { 0 } else if plain { rng.pick(&[0u64, 0, 8, 5]) } else { rng.pick(&[0u64, 3, 3, 2]) };
	for _ in 0..callbacks {
		// commands between callbacks
		if cmd_rate > 0 {
			while rng.chance(1, cmd_rate) {
				let line = if plain {
					match rng.below(3) {
						0 => format!("seekto {}", o64((rng.below(n + 2) as f64 + rng.pick(&[0.0, 0.0, 0.625, 0.25])) / sr as f64)),
						1 => format!("seekby {}", o64(rng.range(-4, 4) as f64 / sr as f64)),
						_ => format!("loop {}", if rng.chance(1, 4) { "none".to_string() } else { gen_valid_loop(rng, n, sr) }),
					}
				} else {
					match rng.below(20) {
						0..=3 => format!("pause {}", gen_life_tween(rng, chunk_secs)),
						4..=6 => format!("resume imm {}", gen_life_tween(rng, chunk_secs)),
						7 => format!("resume del:{} {}", (chunk_secs * rng.uniform(0.1, 3.0) * 1e9) as u64, gen_life_tween(rng, chunk_secs)),
						8 => format!(
							"resume clk:{}:{}:{} {}",
							rng.below(MAX_IDS as u64),
							rng.below(4),
							o64(0.0),
							gen_life_tween(rng, chunk_secs)
						),
						9 | 10 => format!("stop {}", gen_life_tween(rng, chunk_secs)),
						// extreme seeks: the target saturates at usize::MAX frames; on a looping sound the wrap into the
						// loop region used to iterate usize::MAX / loop length times (repaired: modular arithmetic)
						11 if !dc && rng.chance(1, 6) => {
							stats.hit("extreme_seek");
							format!("seekto {}", o64(rng.pick(&[1e300, f64::MAX, 9007199254740994.0, 1.8446744073709552e19, 1e15, 5e-324])))
						}
						12 if !dc && rng.chance(1, 6) => {
							stats.hit("extreme_seek");
							format!("seekby {}", o64(rng.pick(&[1e300, -1e300, f64::MAX, f64::MIN, 9007199254740994.0, -1e19])))
						}
						11 if !dc => format!("seekto {}", o64(rng.uniform(-0.5, (n + 2) as f64) / sr as f64)),
						12 if !dc => format!("seekby {}", o64(rng.uniform(-3.0, 3.0) / sr as f64)),
						13 if !dc => format!("loop {}", if rng.chance(1, 4) { "none".to_string() } else { gen_valid_loop(rng, n, sr) }),
						14 if !dc => format!("rate {} {}", gen_rate_value(rng), gen_tween(rng)),
						15 if !dc => format!("vol {} {}", gen_vol_value(rng, false), gen_tween(rng)),
						16 if !dc => format!("pan {} {}", gen_pan_value(rng, false), gen_tween(rng)),
						17 => gen_info_clocks(rng),
						_ => format!("pause {}", gen_life_tween(rng, chunk_secs)),
					}
				};
				stats.hit(line.split(' ').next().unwrap());
				out.push(line);
			}
		}
		out.push("start".to_string());
		stats.hit("start");
		let procs = if rng.chance(1, 5) { 2 } else { 1 };
		for _ in 0..procs {
			let len = gen_chunk(rng);
			out.push(format!("proc {} {}", len, o64(dt)));
			stats.hit("proc");
			stats.add("frames", len);
		}
	}
}

/// thorough tier, C04: every length ≤ 5 × start × valid loop × direction × rate, played to the end
fn gen_exhaustive_walks(out: &mut Vec<String>, case: &mut usize, stats: &mut Stats) {
	let rates: [(f64, u64); 7] = [
		(1.0, 1),
		(-1.0, 1),
		(0.5, 2),
		(2.0, 1),
		(1.0 / 3.0, 3),
		(std::f64::consts::SQRT_2, 1),
		(0.0, 1),
	];
	for len in 0..=5u64 {
		let mut regions = vec!["none".to_string()];
		for ls in 0..len {
			for le in ls + 1..=len {
				regions.push(format!("n={}~n={}", ls, le));
			}
		}
		for region in &regions {
			for reverse in 0..2u8 {
				// reversed too: start positions at and past the end (the start frame saturates at 0)
				let starts = len + 2;
				for start in 0..starts {
					for (rate, stretch) in rates {
						out.push(format!("case {}", *case));
						*case += 1;
						out.push(format!(
							"new 1 {} idx none imm n={} {} {} fix:{} fix:{} fix:{} none",
							len,
							start,
							region,
							reverse,
							o32(0.0),
							o64(rate),
							o32(0.0)
						));
						let total = (len + 8) * stretch;
						let mut done = 0;
						let mut k = 0;
						while done < total {
							let chunk = [1u64, 3, 2, 4][k % 4];
							k += 1;
							out.push("start".to_string());
							out.push(format!("proc {} {}", chunk, o64(1.0)));
							done += chunk;
							stats.add("exhaustive_ops", 2);
						}
					}
				}
			}
		}
	}
}

/// thorough tier, C04: every length ≤ 4 × EVERY slice (a, b) with a, b ≤ length + 2 (inside the data,
/// reaching past it, starting past it, inverted, empty) × start × direction × rate ±1, played to the end
fn gen_exhaustive_slices(out: &mut Vec<String>, case: &mut usize, stats: &mut Stats) {
	for len in 0..=4u64 {
		for a in 0..=len + 2 {
			for b in 0..=len + 2 {
				let n = b.min(len).saturating_sub(a);
				for reverse in 0..2u8 {
					for start in 0..n + 2 {
						for rate in [1.0f64, -1.0] {
							out.push(format!("case {}", *case));
							*case += 1;
							out.push(format!(
								"new 1 {} idx raw={},{} imm n={} none {} fix:{} fix:{} fix:{} none",
								len,
								a,
								b,
								start,
								reverse,
								o32(0.0),
								o64(rate),
								o32(0.0)
							));
							let total = n + 8;
							let mut done = 0;
							let mut k = 0;
							while done < total {
								let chunk = [1u64, 3, 2, 4][k % 4];
								k += 1;
								out.push("start".to_string());
								out.push(format!("proc {} {}", chunk, o64(1.0)));
								done += chunk;
								stats.add("exhaustive_ops", 2);
							}
						}
					}
				}
			}
		}
	}
}

/// thorough tier, C03: every sequence of 4 life-cycle commands over a finite alphabet on a looping DC sound
fn gen_exhaustive_lifecycle(out: &mut Vec<String>, case: &mut usize, stats: &mut Stats) {
	let alphabet = [
		"",
		"pause imm;0;lin",
		"pause imm;2500000000;lin",
		"resume imm imm;0;lin",
		"resume imm imm;2500000000;lin",
		"resume del:1500000000 imm;500000000;lin",
		"resume clk:0:2:0000000000000000 imm;0;lin",
		"resume clk:2:0:0000000000000000 imm;0;lin",
		"stop imm;0;lin",
		"stop imm;2500000000;lin",
		"seekto 4000000000000000",
	];
	let k = alphabet.len();
	for code in 0..k * k * k * k {
		out.push(format!("case {}", *case));
		*case += 1;
		out.push("info.clocks 2 1 1 0000000000000000 0 5 0000000000000000".to_string());
		out.push(format!(
			"new 1 4 dc=3f800000 none imm n=0 n=0~n=4 0 fix:{} fix:{} fix:{} {}",
			o32(0.0),
			o64(1.0),
			o32(0.0),
			if code % 3 == 0 { "imm;2000000000;lin" } else { "none" }
		));
		let mut c = code;
		for _ in 0..4 {
			if !alphabet[c % k].is_empty() {
				out.push(alphabet[c % k].to_string());
			}
			c /= k;
			out.push("start".to_string());
			out.push("proc 2 3ff0000000000000".to_string());
			stats.add("exhaustive_ops", 3);
		}
		out.push("info.clocks 2 1 2 0000000000000000 1 5 0000000000000000".to_string());
		for _ in 0..2 {
			out.push("start".to_string());
			out.push("proc 2 3ff0000000000000".to_string());
		}
	}
}

pub fn gen(rng: &mut Rng, n: usize, thorough: bool, stats: &mut Stats) -> Vec<String> {
	let mut out = vec![];
	let mut case = 0;
	if thorough {
		gen_exhaustive_walks(&mut out, &mut case, stats);
		gen_exhaustive_slices(&mut out, &mut case, stats);
		gen_exhaustive_lifecycle(&mut out, &mut case, stats);
	}
	for _ in 0..n {
		out.push(format!("case {}", case));
		case += 1;
		if rng.chance(1, 7) {
			gen_tween_case(rng, &mut out, stats);
		} else if rng.chance(1, 12) {
			gen_delayed_start_case(rng, &mut out, stats);
		} else {
			gen_case(rng, &mut out, stats);
		}
	}
	out
}

/// C06 at the level of the sound: a unit DC sound looping over its whole length at rate 1 (its output shows volume
/// and panning exactly), volume / panning tweens - immediate, delayed, clock-started; shorter than a callback,
/// several callbacks long - set while the sound is playing, paused, waiting to resume or waiting for its delayed
/// start, and resumed before, during and after the tween's time
fn gen_tween_case(rng: &mut Rng, out: &mut Vec<String>, stats: &mut Stats) {
	stats.hit("case_tween");
	let sr = loop {
		let sr = rng.pick(&[1u64, 2, 4, 8, 10, 1000, 44100, 48000]);
		if sr as f64 * (1.0 / sr as f64) == 1.0 {
			break sr;
		}
	};
	let n = 1 + rng.below(40);
	let dt = 1.0 / sr as f64;
	let chunk_secs = dt * 8.0;
	let start_time = match rng.below(5) {
		0 => format!("del:{}", (chunk_secs * rng.uniform(0.2, 4.0) * 1e9) as u64),
		_ => "imm".to_string(),
	};
	if rng.chance(1, 3) {
		out.push(gen_info_clocks(rng));
	}
	if rng.chance(1, 6) {
		out.push(format!("info.mods 3 {} {} {}", o64(rng.uniform(-0.5, 1.5)), o64(0.5), o64(1.0)));
	}
	let neutral = rng.chance(1, 2);
	out.push(format!(
		"new {} {} dc={} none {} n=0 n=0~n={} {} {} fix:{} {} none",
		sr,
		n,
		o32(1.0),
		start_time,
		n,
		rng.chance(1, 5) as u8,
		gen_vol_value(rng, neutral),
		o64(1.0),
		gen_pan_value(rng, neutral)
	));
	stats.hit("new");
	let param_cmd = |rng: &mut Rng| -> String {
		// a tween in the time scale of the callbacks (`gen_life_tween`) or any tween at all (`gen_tween`)
		let tw = if rng.chance(3, 4) { gen_life_tween(rng, chunk_secs) } else { gen_tween(rng) };
		if rng.chance(2, 3) {
			format!("vol {} {}", gen_vol_value(rng, false), tw)
		} else {
			format!("pan {} {}", gen_pan_value(rng, false), tw)
		}
	};
	let callback = |rng: &mut Rng, out: &mut Vec<String>, stats: &mut Stats| {
		out.push("start".to_string());
		stats.hit("start");
		for _ in 0..(if rng.chance(1, 5) { 2 } else { 1 }) {
			let len = gen_chunk(rng);
			out.push(format!("proc {} {}", len, o64(dt)));
			stats.hit("proc");
			stats.add("frames", len);
		}
	};
	let mut push = |out: &mut Vec<String>, stats: &mut Stats, line: String| {
		stats.hit(line.split(' ').next().unwrap());
		out.push(line);
	};
	if rng.chance(1, 2) {
		// the scripted shape: play, pause, set a parameter while paused, stay paused for a while, resume, listen
		for _ in 0..rng.below(3) {
			callback(rng, out, stats);
		}
		if rng.chance(1, 4) {
			push(out, stats, param_cmd(rng));
		}
		push(out, stats, format!("pause {}", if rng.chance(2, 3) { "imm;0;lin".to_string() } else { gen_life_tween(rng, chunk_secs) }));
		for _ in 0..rng.below(3) {
			callback(rng, out, stats);
		}
		push(out, stats, param_cmd(rng));
		if rng.chance(1, 4) {
			push(out, stats, param_cmd(rng));
		}
		for _ in 0..(1 + rng.below(6)) {
			callback(rng, out, stats);
		}
		let resume = match rng.below(6) {
			0 => format!("resume del:{} {}", (chunk_secs * rng.uniform(0.1, 3.0) * 1e9) as u64, gen_life_tween(rng, chunk_secs)),
			1 => format!("resume clk:{}:{}:{} imm;0;lin", rng.below(MAX_IDS as u64), rng.below(4), o64(0.0)),
			2 => format!("resume imm {}", gen_life_tween(rng, chunk_secs)),
			_ => "resume imm imm;0;lin".to_string(),
		};
		push(out, stats, resume);
		for _ in 0..(3 + rng.below(6)) {
			if rng.chance(1, 6) {
				push(out, stats, gen_info_clocks(rng));
			}
			callback(rng, out, stats);
		}
	} else {
		for _ in 0..rng.range(4, 18) {
			while rng.chance(1, 2) {
				let line = match rng.below(12) {
					0..=4 => param_cmd(rng),
					5 | 6 => format!("pause {}", gen_life_tween(rng, chunk_secs)),
					7 | 8 => format!("resume imm {}", gen_life_tween(rng, chunk_secs)),
					9 => format!("resume del:{} {}", (chunk_secs * rng.uniform(0.1, 3.0) * 1e9) as u64, gen_life_tween(rng, chunk_secs)),
					10 => format!(
						"resume clk:{}:{}:{} {}",
						rng.below(MAX_IDS as u64),
						rng.below(4),
						o64(0.0),
						gen_life_tween(rng, chunk_secs)
					),
					_ => gen_info_clocks(rng),
				};
				push(out, stats, line);
			}
			callback(rng, out, stats);
		}
	}
}

/// suite `static_ood`: inputs outside the hypotheses of the C04 theorems that are left, on purpose: loop regions
/// that are empty, inverted (both dropped by `Transport::new` / `set_loop_region` since the repair) or reach
/// past the end of the sound (`ValidLoop` asks for `end ≤ num_frames`).  None of them faults; the twin follows
/// them bit for bit.  (Reversed sounds starting at or past their end, slices past the data and inverted slices
/// used to be here: they are repaired and are generated regularly by suite `static`.)
pub fn gen_ood(rng: &mut Rng, n: usize, _thorough: bool, stats: &mut Stats) -> Vec<String> {
	let mut out = vec![];
	for case in 0..n {
		out.push(format!("case {}", case));
		let len = 2 + rng.below(10);
		let sr = rng.pick(&[1u64, 4, 1000]);
		let dt = 1.0 / sr as f64;
		let z32 = o32(0.0);
		let one = o64(1.0);
		let kind = rng.below(6);
		let mut later: Option<String> = None;
		let new = match kind {
			0 => {
				stats.hit("ood_loop_empty");
				let a = rng.below(len);
				format!("new {} {} idx none imm n=0 n={}~n={} 0 fix:{} fix:{} fix:{} none", sr, len, a, a, z32, one, z32)
			}
			1 => {
				stats.hit("ood_loop_inverted");
				let a = 1 + rng.below(len - 1);
				format!("new {} {} idx none imm n=0 n={}~n={} 0 fix:{} fix:{} fix:{} none", sr, len, a, rng.below(a), z32, one, z32)
			}
			2 => {
				stats.hit("ood_loop_end_past_end");
				let a = rng.below(len);
				format!(
					"new {} {} idx none imm n=0 n={}~n={} {} fix:{} fix:{} fix:{} none",
					sr,
					len,
					a,
					len + 1 + rng.below(4),
					rng.below(2),
					z32,
					one,
					z32
				)
			}
			3 => {
				stats.hit("ood_loop_command_end_past_end");
				let a = rng.below(len);
				later = Some(format!("loop n={}~n={}", a, len + 1 + rng.below(4)));
				format!("new {} {} idx none imm n=0 n=0~n={} 0 fix:{} fix:{} fix:{} none", sr, len, len, z32, one, z32)
			}
			4 => {
				stats.hit("ood_loop_command_empty");
				let a = rng.below(len);
				later = Some(format!("loop n={}~n={}", a, a));
				format!("new {} {} idx none imm n=0 n=0~n={} 0 fix:{} fix:{} fix:{} none", sr, len, len, z32, one, z32)
			}
			_ => {
				stats.hit("ood_loop_command_inverted");
				let a = 1 + rng.below(len - 1);
				later = Some(format!("loop n={}~n={}", a, rng.below(a)));
				format!("new {} {} idx none imm n=0 n=0~n={} 0 fix:{} fix:{} fix:{} none", sr, len, len, z32, one, z32)
			}
		};
		out.push(new);
		for k in 0..(len + 6) {
			if k == 1 {
				if let Some(c) = later.take() {
					out.push(c);
				}
			}
			out.push("start".to_string());
			out.push(format!("proc {} {}", 1 + rng.below(3), o64(dt)));
		}
	}
	out
}

// ---------------------------------------------------------------------------------------------
// C16: delayed starts keep their real time at every device rate
// ---------------------------------------------------------------------------------------------

/// `procn <len> <dt> <count> [<delay ns>]`: `count` process calls of `len` frames (every per-`proc` oracle runs on each),
/// printing the handle after the last one and the index of the first call whose output was not silent (`first=-1`: none).
/// With `<delay ns>`: the op begins at the moment a `StartTime::Delayed(delay)` was armed (a sound built with it, or a
/// `resume` with it read by the preceding `start`), on a sound that is audible as soon as it runs.  C16: the sound
/// starts in the buffer that contains real time `delay` — within one buffer, plus the half nanosecond by which each
/// buffer's duration may be rounded (`Duration` counts whole nanoseconds) — at every device rate and buffer size.
fn procn(l: &String, run: &mut Option<Run>, info_state: &mut InfoState, ids: &Ids, out: &mut Out) {
	let tok: Vec<&str> = l.split_whitespace().collect();
	let (len, dt, count) = (pu(tok[1]), p64(tok[2]), pu(tok[3]) as i64);
	let line = format!("proc {} {}", tok[1], tok[2]);
	let mut sink = Out::new();
	let (mut first, mut last) = (-1i64, String::new());
	for j in 0..count {
		step(&line, run, info_state, ids, &mut sink);
		let t = sink.lines.pop().unwrap_or_default();
		sink.lines.clear();
		let mut it = t.split(' ');
		last = format!("{} {} {}", it.next().unwrap_or(""), it.next().unwrap_or(""), it.next().unwrap_or(""));
		if first < 0 && it.any(|x| x != "00000000" && x != "80000000") {
			first = j;
		}
	}
	// the per-call oracles of `proc` (their detail names the single call; the replay is this op)
	for o in &sink.oracle {
		let body = o.strip_prefix("!oracle ").unwrap_or(o);
		let (name, _) = body.split_once(' ').unwrap_or((body, ""));
		out.oracle_fail(name, l);
	}
	out.put(format!("{} first={}", last, first));
	if let Some(d) = tok.get(4) {
		let d = pu(d) as f64 * 1e-9;
		let b = len as f64 * dt;
		// the buffer that contains real time d, counted from the beginning of this op
		let want = (d / b).ceil() - 1.0;
		// two buffers of legitimate lag: the countdown is consumed at the start of a buffer (the state steps to
		// Resuming / the sound starts in the buffer AFTER the one in which the remaining time reaches zero when that
		// happens exactly at a boundary) and a resume's fade parameter takes its first step one buffer later; both
		// are constants, independent of the delay — a drift proportional to the delay is what this oracle is for
		let slack = 2.0 + 0.5e-9 * (count as f64 + 1000.0) / b + 1e-6;
		let total = count as f64 * b;
		if first >= 0 {
			if (first as f64 - want).abs() > slack {
				out.oracle_fail(
					"delayed_start_real_time",
					format!("started in buffer {} (after {:.6} s), real time {:.6} s lies in buffer {} | {}", first, first as f64 * b, d, want, l),
				);
			}
		} else if total > d + (slack + 1.0) * b {
			out.oracle_fail("delayed_start_real_time", format!("not started after {:.6} s, delay {:.6} s | {}", total, d, l));
		}
	}
}

/// a unit DC sound (looping, neutral volume and panning) with `StartTime::Delayed(d)` — on the sound itself, or on a
/// `resume` after an instant pause — rendered at device rates 8 k … 192 k in small buffers until shortly after `d`
fn gen_delayed_start_case(rng: &mut Rng, out: &mut Vec<String>, stats: &mut Stats) {
	stats.hit("case_delayed_start");
	let rate = rng.pick(&[8000u64, 11025, 22050, 44100, 48000, 88200, 96000, 192000, 192000]);
	let len = rng.pick(&[1u64, 4, 16, 16, 32, 64, 128]);
	let dt = 1.0 / rate as f64;
	let b = len as f64 * dt;
	// 10 ms … a few seconds, but at most ~20000 buffers
	let d_ms = rng.pick(&[10u64, 25, 100, 250, 500, 1000, 2000, 3000]);
	let d_ns = ((d_ms as f64 * 1e-3).min(20000.0 * b) * 1e9) as u64 + rng.below(1000);
	let count = ((d_ns as f64 * 1e-9) / b).ceil() as u64 + rng.pick(&[4u64, 8, 40]);
	let sr = rng.pick(&[44100u64, 48000, 8000]);
	let on_resume = rng.chance(1, 3);
	out.push(format!(
		"new {} 64 dc={} none {} n=0 n=0~n=64 0 fix:{} fix:{} fix:{} none",
		sr,
		o32(1.0),
		if on_resume { "imm".to_string() } else { format!("del:{}", d_ns) },
		o32(0.0),
		o64(1.0),
		o32(0.0)
	));
	out.push("start".into());
	if on_resume {
		out.push(format!("proc {} {}", len, o64(dt)));
		out.push("pause imm;0;lin".into());
		out.push("start".into());
		out.push(format!("proc {} {}", len, o64(dt)));
		out.push(format!("resume del:{} imm;0;lin", d_ns));
		out.push("start".into());
		stats.hit("delayed_resume");
	}
	out.push(format!("procn {} {} {} {}", len, o64(dt), count, d_ns));
	out.push("start".into());
	out.push(format!("procn {} {} {}", len, o64(dt), rng.pick(&[1u64, 3, 10])));
	stats.hit("procn");
}
